"""Source tie of C14 (Pickle block), the DUMPING / PERSISTING side: a fail-closed, syntax-directed translator from

    deepdiff/serialization.py :  pickle_dump (body, parameter defaults, co_varnames), pickle_load (co_varnames),
                                 JSON_CONVERTOR (the literal type -> converter table), json_convertor_default (the mapping and the closure)
    deepdiff/delta.py         :  Delta.__init__ (the defaults deserializer=pickle_load / serializer=pickle_dump, the choice
                                 of _deserializer, the if/elif chain that selects where self.diff comes from),
                                 Delta.dump / dumps / to_dict

to Gallina definitions over the vocabulary of coq/theories/Pickle/PersistPrims.v (and SrcPrims.v):

    g_pickle_dump (obj : pv) (file_obj : wfile) (protocol : Z) : res (dump_ret * wfile)
    g_pickle_dump_file_obj_default : wfile      g_pickle_dump_protocol_default : Z
    g_pickle_dump_co_varnames / g_pickle_load_co_varnames : list string
    g_Delta_default_deserializer / g_Delta_default_serializer : string
    g_deserializer_choice (has_code : bool) (co_varnames : list string) : deser_choice
    g_delta_source (a : init_args) : source
    g_Delta_dump_mode (serializer_co_varnames : list string) : dump_mode
    g_Delta_dumps_mode : dumps_mode      g_Delta_to_dict_mode : to_dict_mode
    g_JSON_CONVERTOR : table      g_convertor_mapping (default_mapping : table) : table
    g_convertor (mapping : table) (obj : pycl) : conv_result          (json_convertor_default's closure)

_RestrictedPickler.persistent_id is NOT translated here: the generated file imports g_persistent_id from DDGen.PickleGen,
the file harness/translate/unpickler.py (source tie `unpickler`, registered for C14 as well) generates from the same source.

One Python statement -> one Gallina line, same order, same case analysis; nothing is normalised.  Every node shape that is
not on the white-list raises `Unsupported` (file, line, node).  No eval, no import of deepdiff.
SKIP RULES (trusted; each use is listed in the header of the generated file): see `SKIP_RULES`.
"""
import ast
import os

from harness.translate import unpickler as U
from harness.translate.unpickler import Unsupported, bad, coq_str, clean, src_of, _bound_names   # noqa: F401

SER = U.SER
DELTA = U.DELTA

SKIP_RULES = dict(U.SKIP_RULES)
SKIP_RULES.update({
    "file-alias": "a file object is represented by its content; `_RestrictedPickler(f, ...).dump(obj)` writes through the reference "
                  "the pickler holds: translated as rebinding the local name f to the file object after the write; the second "
                  "component of the result is that file object at the return",
    "pickler-self": "_RestrictedPickler(file, protocol=, fix_imports=) is the record mkPickler <generated persistent_id hook> file protocol "
                    "fix_imports; .dump is the C method pickle.Pickler.dump = PersistPrims.pickler_dump (the hand-written encoder)",
    "init-other": "statements of Delta.__init__ outside the _deserializer choice and the source chain that neither bind one of the names "
                  "diff / delta_path / delta_file / delta_diff / flat_dict_list / flat_rows_list / deserializer / _deserializer / serializer / "
                  "safe_to_import nor assign self.diff (checked) are not part of the fragment (flags and application state: C01 / C08)",
    "wrapper-body": "the body of the nested wrapper `def _deserializer(obj, safe_to_import=None)` (JSON path: rebuilds Opcode records) is "
                    "checked to call deserializer(obj) and is otherwise not translated (hand model: Codec.wrapper, tied by correspondence)",
    "rsub-swap": "Delta.__rsub__ assigns self.diff (tuple swap with self._reversed_diff, swapped back in a finally clause): the only assignment "
                 "of self.diff outside __init__ that is admitted; not translated",
    "annotations": "parameter / return annotations of Delta.__init__ / dump / dumps / to_dict have no effect at run time",
})

SOURCE_ARGS = ["diff", "delta_path", "delta_file", "delta_diff", "flat_dict_list", "flat_rows_list"]
TRUTH_ARGS = SOURCE_ARGS[1:]
INIT_GUARDED = set(SOURCE_ARGS) | {"deserializer", "_deserializer", "serializer", "safe_to_import", "self"}
DIFF_CLS = {"DeepDiff": "ClsDeepDiff", "Mapping": "ClsMapping", "strings": "ClsStrings"}


def dbad(node, why):
    bad(DELTA, node, why)


def is_doc(s):
    return isinstance(s, ast.Expr) and isinstance(s.value, ast.Constant) and isinstance(s.value.value, str)


def is_name(n, ident=None):
    return isinstance(n, ast.Name) and (ident is None or n.id == ident)


def is_self_attr(n, attr):
    return isinstance(n, ast.Attribute) and is_name(n.value, "self") and n.attr == attr


# ---------------------------------------------------------------------------------------------------------
# serialization.py: pickle_dump
# ---------------------------------------------------------------------------------------------------------

class DumpFn(U.Fn):
    """pickle_dump.  types: payload | wfile | Z | bool | dumpret (pure dump_ret) | dumpret_res (res dump_ret, effectful)"""

    file_var = None

    def truth(self, node):
        text, ty, eff = self.expr(node)
        if eff:
            self.bad(node, "effectful expression in a condition")
        if ty == "bool":
            return text
        if ty == "wfile":
            return "(wf_truth %s)" % text
        self.bad(node, "truth value of a %s" % ty)

    def expr(self, n):
        if isinstance(n, ast.Constant):
            if n.value is None:
                return "WNone", "wfile", False
            if n.value is True or n.value is False:
                return ("true" if n.value else "false"), "bool", False
            if isinstance(n.value, int):
                return ("%d" % n.value if n.value >= 0 else "(%d)" % n.value) + "%Z", "Z", False
            self.bad(n, "constant %r" % (n.value,))
        if isinstance(n, ast.Name):
            if isinstance(n.ctx, ast.Load) and n.id in self.vars:
                return n.id, self.vars[n.id], False
            self.bad(n, "unknown name %r" % n.id)
        if isinstance(n, ast.BoolOp) and isinstance(n.op, ast.Or) and len(n.values) == 2:
            a, ta, ea = self.expr(n.values[0])
            if ta == "wfile":
                b, tb, eb = self.expr(n.values[1])
                if ea or eb or tb != "wfile":
                    self.bad(n, "`<file> or <%s>`" % tb)
                return "(wf_or %s %s)" % (a, b), "wfile", False
        if isinstance(n, (ast.BoolOp, ast.IfExp)) or (isinstance(n, ast.UnaryOp) and isinstance(n.op, ast.Not)):
            return U.Fn.expr(self, n)
        if isinstance(n, ast.Compare) and len(n.ops) == 1 and isinstance(n.ops[0], (ast.Is, ast.IsNot)) \
                and isinstance(n.comparators[0], ast.Constant) and n.comparators[0].value is None:
            a, ta, ea = self.expr(n.left)
            if ea or ta != "wfile":
                self.bad(n, "`is None` on a %s" % ta)
            t = "(wf_is_none %s)" % a
            return (t if isinstance(n.ops[0], ast.Is) else "(negb %s)" % t), "bool", False
        if isinstance(n, ast.Call):
            f = n.func
            if any(isinstance(a, ast.Starred) for a in n.args) or any(k.arg is None for k in n.keywords):
                self.bad(n, "star-arguments")
            if is_name(f, "bool") and len(n.args) == 1 and not n.keywords:
                return self.truth(n.args[0]), "bool", False
            if isinstance(f, ast.Attribute) and f.attr == "BytesIO" and is_name(f.value, "io") and not n.args and not n.keywords:
                return "io_BytesIO_new", "wfile", False
            if isinstance(f, ast.Attribute) and f.attr == "getvalue" and not n.args and not n.keywords:
                return "(wf_getvalue %s)" % self.pure(f.value, "wfile"), "dumpret_res", True
            self.bad(n, "call form not on the white-list")
        self.bad(n, "expression form not on the white-list")

    def pickler_dump_stmt(self, s):
        """`_RestrictedPickler(<file name>, protocol=<Z>, fix_imports=<bool>).dump(<payload name>)` -> (text, file variable)"""
        c = s.value
        if not (isinstance(c, ast.Call) and isinstance(c.func, ast.Attribute) and c.func.attr == "dump" and len(c.args) == 1
                and not c.keywords and isinstance(c.func.value, ast.Call) and is_name(c.func.value.func, "_RestrictedPickler")):
            return None
        mk = c.func.value
        if len(mk.args) != 1 or not is_name(mk.args[0]) or any(isinstance(a, ast.Starred) for a in mk.args):
            self.bad(mk, "_RestrictedPickler(...) with other than one positional argument that is a local name (the file object)")
        kw = {k.arg: k.value for k in mk.keywords}
        if None in kw or set(kw) != {"protocol", "fix_imports"}:
            self.bad(mk, "_RestrictedPickler(...) keywords are not exactly protocol= and fix_imports=")
        fvar = mk.args[0].id
        if self.vars.get(fvar) != "wfile":
            self.bad(mk, "the pickler's file argument %r is not a file object" % fvar)
        text = "(pickler_dump (mkPickler (hook_of g_persistent_id) %s %s %s) %s)" % (
            fvar, self.pure(kw["protocol"], "Z"), self.pure(kw["fix_imports"], "bool"), self.pure(c.args[0], "payload"))
        return text, fvar

    def seq(self, stmts, k, ind):
        pad = "  " * ind
        if stmts:
            s, rest = stmts[0], stmts[1:]
            if isinstance(s, ast.Expr) and not self.skip_probe(s):
                r = self.pickler_dump_stmt(s)
                if r is None:
                    self.bad(s, "expression statement other than _RestrictedPickler(...).dump(obj)")
                text, fvar = r
                if self.file_var is not None:
                    self.bad(s, "a second pickler dump")
                self.file_var = fvar
                self.tr.skipped.append(("file-alias", self.where))
                self.tr.skipped.append(("pickler-self", self.where))
                return ([pad + "match %s with %s" % (text, self.cmt(s)), pad + "| Raise exn => Raise exn", pad + "| Ret %s =>" % fvar]
                        + self.seq(rest, k, ind) + [pad + "end"])
            if isinstance(s, ast.Return) and (s.value is None or (isinstance(s.value, ast.Constant) and s.value.value is None)):
                if rest:
                    self.bad(rest[0], "statement after return")
                return [pad + self.falloff(self, s) + " " + self.cmt(s)]
        return U.Fn.seq(self, stmts, k, ind)

    def skip_probe(self, s):
        return is_doc(s)

    def the_file(self, node):
        if self.file_var is None:
            self.bad(node, "return before the pickler wrote anything")
        return self.file_var


def co_varnames(f):
    names = [a.arg for a in f.args.posonlyargs + f.args.args]
    if f.args.vararg:
        names.append(f.args.vararg.arg)
    names += [a.arg for a in f.args.kwonlyargs]
    if f.args.kwarg:
        names.append(f.args.kwarg.arg)
    stores = sorted(((n.lineno, n.col_offset, n.id) for n in ast.walk(f) if isinstance(n, ast.Name) and isinstance(n.ctx, ast.Store)))
    for _l, _c, nm in stores:
        if nm not in names:
            names.append(nm)
    return names


def translate_pickle_dump(tr, out):
    tree = tr.tree
    defs = [n for n in tree.body if isinstance(n, ast.FunctionDef) and n.name == "pickle_dump"]
    if len(defs) != 1 or len([1 for nm, _n in _bound_names(tree) if nm == "pickle_dump"]) != 1:
        bad(SER, (defs or tree.body)[0], "pickle_dump is not defined exactly once at top level")
    f = defs[0]
    a = f.args
    if f.decorator_list or f.returns is not None or any(x.annotation is not None for x in a.args):
        bad(SER, f, "pickle_dump has a decorator / annotations")
    if a.posonlyargs or a.kwonlyargs or a.kw_defaults or a.vararg or a.kwarg:
        bad(SER, f, "pickle_dump has positional-only / keyword-only / star parameters")
    if [x.arg for x in a.args] != ["obj", "file_obj", "protocol"]:
        bad(SER, f, "pickle_dump has parameters %r, expected ['obj', 'file_obj', 'protocol']" % [x.arg for x in a.args])
    if len(a.defaults) != 2:
        bad(SER, f, "pickle_dump: expected defaults for file_obj and protocol only")
    d_file, d_proto = a.defaults
    if not (isinstance(d_file, ast.Constant) and d_file.value is None):
        bad(SER, d_file, "default of file_obj is not None")
    if not (isinstance(d_proto, ast.Constant) and type(d_proto.value) is int):
        bad(SER, d_proto, "default of protocol is not an integer literal")
    for n in ast.walk(f):
        if isinstance(n, (ast.FunctionDef, ast.AsyncFunctionDef, ast.Lambda, ast.ClassDef, ast.Global, ast.Nonlocal, ast.Yield, ast.YieldFrom,
                          ast.Await, ast.NamedExpr, ast.With, ast.For, ast.While, ast.Delete, ast.Import, ast.ImportFrom, ast.ListComp,
                          ast.SetComp, ast.DictComp, ast.GeneratorExp, ast.Try)) and n is not f:
            bad(SER, n, "pickle_dump contains a nested definition / loop / with / try / comprehension / walrus")
    for nm, node in _bound_names(tree):
        if nm in ("io", "bool", "_RestrictedPickler") and not (nm == "io" and isinstance(node, ast.Import)) \
                and not (nm == "_RestrictedPickler" and isinstance(node, ast.ClassDef)):
            bad(SER, node, "the name %r is rebound" % nm)
    for n in ast.walk(tree):
        if is_name(n, "_RestrictedPickler") and not any(n is x for x in ast.walk(f)):
            bad(SER, n, "_RestrictedPickler is mentioned outside pickle_dump (it could be patched or instantiated elsewhere)")
    fn = DumpFn(tr, f, "pickle_dump", "dump", True, {"obj": "payload", "file_obj": "wfile", "protocol": "Z"},
                lambda ty: ty in ("dumpret", "dumpret_res"), None)
    fn.falloff = lambda fn_, s: "Ret (DNone, %s)" % fn_.the_file(s)

    def wrap(text, ty):
        if ty == "dumpret_res":
            return "returning %s %s" % (text, fn.the_file(f))
        return "Ret (%s, %s)" % (text, fn.the_file(f))
    fn.wrap = wrap
    body = fn.seq(f.body, lambda ind: ["  " * ind + "Ret (DNone, %s) (* falls off the end: returns None *)" % fn.the_file(f)], 1)
    if fn.file_var is None:
        bad(SER, f, "pickle_dump never dumps")
    proto = d_proto.value
    out += ["(* pickle_dump(obj, file_obj=None, protocol=%d): (the returned value, the file object written to) *)" % proto,
            "Definition g_pickle_dump_file_obj_default : wfile := WNone.",
            "Definition g_pickle_dump_protocol_default : Z := %s%%Z." % ("%d" % proto if proto >= 0 else "(%d)" % proto),
            "Definition g_pickle_dump (obj : pv) (file_obj : wfile) (protocol : Z) : res (dump_ret * wfile) :="] + body
    out[-1] += "."
    out.append("")
    pl = [n for n in tree.body if isinstance(n, ast.FunctionDef) and n.name == "pickle_load"]
    if len(pl) != 1:
        bad(SER, (pl or tree.body)[0], "pickle_load is not defined exactly once at top level")
    out += ["(* <function>.__code__.co_varnames: parameters, then locals *)",
            "Definition g_pickle_dump_co_varnames : list string := [%s]." % "; ".join(coq_str(SER, f, x) for x in co_varnames(f)),
            "Definition g_pickle_load_co_varnames : list string := [%s]." % "; ".join(coq_str(SER, pl[0], x) for x in co_varnames(pl[0])),
            ""]


# ---------------------------------------------------------------------------------------------------------
# serialization.py: JSON_CONVERTOR
# ---------------------------------------------------------------------------------------------------------

def dotted_name(n):
    if isinstance(n, ast.Name):
        return n.id
    if isinstance(n, ast.Attribute):
        b = dotted_name(n.value)
        return None if b is None else b + "." + n.attr
    return None


def translate_json_convertor(tr, out):
    tree, text = tr.tree, tr.text
    asg = [s for s in tree.body if isinstance(s, ast.Assign) and len(s.targets) == 1 and is_name(s.targets[0], "JSON_CONVERTOR")]
    if len(asg) != 1 or len([1 for nm, _n in _bound_names(tree) if nm == "JSON_CONVERTOR"]) != 1:
        bad(SER, (asg or tree.body)[0], "JSON_CONVERTOR is not assigned exactly once at top level")
    d = asg[0].value
    if not isinstance(d, ast.Dict):
        bad(SER, d, "JSON_CONVERTOR is not a dict literal")
    rows = []
    for k, v in zip(d.keys, d.values):
        kn = dotted_name(k) if k is not None else None
        if kn is None:
            bad(SER, k or d, "JSON_CONVERTOR key that is not a (dotted) name")
        vn = dotted_name(v)
        if vn is not None:
            conv = "JcFunc %s" % coq_str(SER, v, vn)
        elif isinstance(v, ast.Lambda):
            a = v.args
            if len(a.args) != 1 or a.defaults or a.vararg or a.kwarg or a.kwonlyargs or a.posonlyargs:
                bad(SER, v, "JSON_CONVERTOR lambda with other than one plain parameter")
            conv = "JcLambda %s" % coq_str(SER, v, ast.unparse(ast.fix_missing_locations(RenameParam(a.args[0].arg).visit(
                ast.parse(ast.unparse(v.body), mode="eval").body))))
        else:
            bad(SER, v, "JSON_CONVERTOR value that is neither a name nor a lambda")
        rows.append("(%s, %s)" % (coq_str(SER, k, kn), conv))
    # later mutation of the table: only `if <cond>: JSON_CONVERTOR[<name>] = <lambda>` at top level is admitted (conditional entry)
    cond_rows = []
    for n in ast.walk(tree):
        if is_name(n, "JSON_CONVERTOR") and not any(n is x for x in ast.walk(asg[0])):
            ok = False
            for s in tree.body:
                if isinstance(s, ast.If) and not s.orelse and len(s.body) == 1 and isinstance(s.body[0], ast.Assign) \
                        and len(s.body[0].targets) == 1 and isinstance(s.body[0].targets[0], ast.Subscript) \
                        and s.body[0].targets[0].value is n:
                    kn = dotted_name(s.body[0].targets[0].slice)
                    if kn is None:
                        bad(SER, s, "conditional JSON_CONVERTOR entry whose key is not a name")
                    cond_rows.append(kn)
                    ok = True
            jd = [f_ for f_ in tree.body if isinstance(f_, ast.FunctionDef) and f_.name == "json_convertor_default"]
            if any(n is x for f_ in jd for x in ast.walk(f_)) and isinstance(n.ctx, ast.Load):
                ok = True
            if not ok:
                bad(SER, n, "JSON_CONVERTOR is used outside its definition, a conditional top-level entry and json_convertor_default")
    out += ["(* JSON_CONVERTOR = { <class>: <converter>, ... } in the order of the literal; a lambda is recorded by the text of its",
            "   body with its parameter renamed to x.  Conditional top-level entries (key only): %s *)" % (", ".join(cond_rows) or "none"),
            "Definition g_JSON_CONVERTOR : table := ["]
    out += ["  " + r + (";" if i + 1 < len(rows) else "") for i, r in enumerate(rows)]
    out += ["].", "Definition g_JSON_CONVERTOR_conditional_keys : list string := [%s]." % "; ".join(coq_str(SER, d, x) for x in cond_rows), ""]



def translate_json_convertor_default(tr, out):
    """json_convertor_default(default_mapping=None): the mapping the closure closes over, and the closure _convertor(obj)"""
    tree, text = tr.tree, tr.text
    defs = [n for n in tree.body if isinstance(n, ast.FunctionDef) and n.name == "json_convertor_default"]
    if len(defs) != 1 or len([1 for nm, _n in _bound_names(tree) if nm == "json_convertor_default"]) != 1:
        bad(SER, (defs or tree.body)[0], "json_convertor_default is not defined exactly once at top level")
    f = defs[0]
    a = f.args
    if f.decorator_list or [x.arg for x in a.args] != ["default_mapping"] or len(a.defaults) != 1 or a.vararg or a.kwarg or a.kwonlyargs \
            or a.posonlyargs or not (isinstance(a.defaults[0], ast.Constant) and a.defaults[0].value is None):
        bad(SER, f, "json_convertor_default is not `def json_convertor_default(default_mapping=None)`")
    for nm in ("isinstance", "list", "copy", "TypeError", "type"):
        b = [node for name, node in _bound_names(tree) if name == nm]
        if nm == "copy":
            if len(b) != 1 or not (isinstance(b[0], ast.ImportFrom) and b[0].module == "copy"):
                bad(SER, (b or tree.body)[0], "`copy` is not bound once by `from copy import ... copy`")
        elif b:
            bad(SER, b[0], "the builtin %r is rebound" % nm)

    def cmt(node, extra=""):
        return "(* %s%s *)" % (src_of(text, node), extra)
    body = [s for s in f.body if not is_doc(s)]
    if len(body) != 3 or not isinstance(body[0], ast.If) or not isinstance(body[1], ast.FunctionDef) or not isinstance(body[2], ast.Return):
        bad(SER, f, "json_convertor_default is not: if ...: <mapping> else: <mapping>; def _convertor(obj): ...; return _convertor")
    sel, clo, ret = body
    if not is_name(ret.value, clo.name):
        bad(SER, ret, "json_convertor_default does not return its closure")
    # ---- the mapping ----
    mvar = [None]

    def mapping_branch(stmts, ind):
        pad = "  " * ind
        lines = []
        for s in stmts:
            if is_doc(s):
                continue
            if isinstance(s, ast.Assign) and len(s.targets) == 1 and is_name(s.targets[0]):
                v = s.value
                nm = s.targets[0].id
                if nm in ("default_mapping", "JSON_CONVERTOR"):
                    bad(SER, s, "assignment to %r" % nm)
                if is_name(v, "JSON_CONVERTOR"):
                    t = "g_JSON_CONVERTOR"
                elif isinstance(v, ast.Call) and isinstance(v.func, ast.Attribute) and v.func.attr == "copy" and is_name(v.func.value, "JSON_CONVERTOR") \
                        and not v.args and not v.keywords:
                    t = "(table_copy g_JSON_CONVERTOR)"
                else:
                    bad(SER, s, "the mapping is bound to something other than JSON_CONVERTOR / JSON_CONVERTOR.copy()")
                if mvar[0] not in (None, nm):
                    bad(SER, s, "two different mapping variables")
                mvar[0] = nm
                lines.append(pad + "let %s := %s in %s" % (nm, t, cmt(s)))
            elif isinstance(s, ast.Expr) and isinstance(s.value, ast.Call) and isinstance(s.value.func, ast.Attribute) and s.value.func.attr == "update" \
                    and is_name(s.value.func.value) and s.value.func.value.id == mvar[0] and len(s.value.args) == 1 and not s.value.keywords \
                    and is_name(s.value.args[0], "default_mapping"):
                if not any("table_copy" in x for x in lines):
                    bad(SER, s, ".update on the module-level table itself (not on a copy)")
                lines.append(pad + "let %s := (table_update %s default_mapping) in %s" % (mvar[0], mvar[0], cmt(s)))
            else:
                bad(SER, s, "statement of the mapping selection not on the white-list")
        if mvar[0] is None or not lines:
            bad(SER, sel, "a branch that does not bind the mapping")
        return lines + [pad + mvar[0]]
    if not is_name(sel.test, "default_mapping") or not sel.orelse:
        bad(SER, sel, "the mapping selection is not `if default_mapping: ... else: ...`")
    a_ = mapping_branch(sel.body, 2)
    b_ = mapping_branch(sel.orelse, 2)
    out += ["(* json_convertor_default(default_mapping=None): the mapping its closure closes over *)",
            "Definition g_convertor_mapping (default_mapping : table) : table :=",
            "  if (table_truth default_mapping) then %s" % cmt(sel.test)] + a_ + ["  else"] + b_
    out[-1] += "."
    out.append("")
    # ---- the closure ----
    ca = clo.args
    if clo.decorator_list or [x.arg for x in ca.args] != ["obj"] or ca.defaults or ca.vararg or ca.kwarg or ca.kwonlyargs or ca.posonlyargs:
        bad(SER, clo, "the closure is not `def _convertor(obj)`")
    for n in ast.walk(clo):
        if isinstance(n, (ast.FunctionDef, ast.Lambda, ast.ClassDef, ast.Global, ast.Nonlocal, ast.While, ast.With, ast.Try, ast.Delete,
                          ast.Import, ast.ImportFrom, ast.NamedExpr, ast.Yield, ast.YieldFrom, ast.Await)) and n is not clo:
            bad(SER, n, "the closure contains a %s" % type(n).__name__)
        if isinstance(n, ast.Name) and isinstance(n.ctx, ast.Store) and n.id in ("obj", mvar[0], "JSON_CONVERTOR"):
            bad(SER, n, "the closure rebinds %r" % n.id)

    def closure(stmts, ind):
        pad = "  " * ind
        if not stmts:
            bad(SER, clo, "the closure can fall off its end (returns None)")
        s, rest = stmts[0], stmts[1:]
        if is_doc(s):
            return closure(rest, ind)
        if isinstance(s, ast.For):
            t = s.target
            it = s.iter
            ok = (isinstance(t, ast.Tuple) and len(t.elts) == 2 and all(is_name(e) for e in t.elts) and not s.orelse
                  and isinstance(it, ast.Call) and isinstance(it.func, ast.Attribute) and it.func.attr == "items" and is_name(it.func.value, mvar[0])
                  and not it.args and not it.keywords and len(s.body) == 1 and isinstance(s.body[0], ast.If) and not s.body[0].orelse
                  and len(s.body[0].body) == 1 and isinstance(s.body[0].body[0], ast.Return))
            if not ok:
                bad(SER, s, "loop other than `for k, v in <mapping>.items(): if isinstance(obj, k): return v(obj)`")
            kv, vv = t.elts[0].id, t.elts[1].id
            c = s.body[0].test
            r = s.body[0].body[0].value
            if not (isinstance(c, ast.Call) and is_name(c.func, "isinstance") and len(c.args) == 2 and not c.keywords and is_name(c.args[0], "obj")
                    and is_name(c.args[1], kv)):
                bad(SER, c, "the loop's test is not isinstance(obj, <key>)")
            if not (isinstance(r, ast.Call) and is_name(r.func, vv) and len(r.args) == 1 and not r.keywords and is_name(r.args[0], "obj")):
                bad(SER, r, "the loop does not return <value>(obj)")
            return ([pad + "match (table_first (pc_isinstance obj) %s) with (* %s %s %s *)" % (
                        mvar[0], src_of(text, s), src_of(text, s.body[0]), src_of(text, s.body[0].body[0])),
                     pad + "| Some %s => ConvApply %s" % (vv, vv), pad + "| None =>"] + closure(rest, ind) + [pad + "end"])
        if isinstance(s, ast.If):
            c = s.test
            ok = (isinstance(c, ast.Compare) and len(c.ops) == 1 and isinstance(c.ops[0], ast.Eq) and isinstance(c.comparators[0], ast.Constant)
                  and isinstance(c.comparators[0].value, str) and isinstance(c.left, ast.Attribute) and c.left.attr == "__name__"
                  and isinstance(c.left.value, ast.Attribute) and c.left.value.attr == "__class__" and is_name(c.left.value.value, "obj")
                  and not s.orelse and len(s.body) == 1 and isinstance(s.body[0], ast.Return))
            if not ok:
                bad(SER, s, "if other than `if obj.__class__.__name__ == '<name>': return list(copy(obj))`")
            r = s.body[0].value
            if not (isinstance(r, ast.Call) and is_name(r.func, "list") and len(r.args) == 1 and not r.keywords and isinstance(r.args[0], ast.Call)
                    and is_name(r.args[0].func, "copy") and len(r.args[0].args) == 1 and not r.args[0].keywords and is_name(r.args[0].args[0], "obj")):
                bad(SER, r, "the fallback does not return list(copy(obj))")
            return ([pad + "if (String.eqb (pc_class_name obj) %s) then %s" % (coq_str(SER, c, c.comparators[0].value), cmt(s)),
                     pad + "  ConvListOfCopy " + cmt(s.body[0]), pad + "else"] + closure(rest, ind))
        if isinstance(s, ast.Raise):
            e = s.exc
            if rest or s.cause is not None or not (isinstance(e, ast.Call) and is_name(e.func, "TypeError")):
                bad(SER, s, "raise of something other than TypeError(...) as the last statement")
            return [pad + "ConvTypeError (* raise TypeError(...) *)"]
        bad(SER, s, "statement of the closure not on the white-list")
    lines = closure([s for s in clo.body], 1)
    out += ["(* the closure _convertor(obj), for an obj of class [obj] (isinstance and obj.__class__.__name__ are all it looks at) *)",
            "Definition g_convertor (%s : table) (obj : pycl) : conv_result :=" % mvar[0]] + lines
    out[-1] += "."
    out.append("")

class RenameParam(ast.NodeTransformer):
    def __init__(self, old):
        self.old = old

    def visit_Name(self, n):
        return ast.copy_location(ast.Name(id="x", ctx=n.ctx), n) if n.id == self.old else n


# ---------------------------------------------------------------------------------------------------------
# delta.py
# ---------------------------------------------------------------------------------------------------------

class DeltaTr:
    def __init__(self, repo, skipped):
        self.path = os.path.join(repo, DELTA)
        self.text = open(self.path, encoding="utf-8").read()
        self.tree = ast.parse(self.text)
        self.skipped = skipped
        self.consts_used = []
        binds = {}
        for name, node in _bound_names(self.tree):
            binds.setdefault(name, []).append(node)
        self.binds = binds
        self.str_consts = {}
        for s in self.tree.body:
            if isinstance(s, ast.Assign) and len(s.targets) == 1 and is_name(s.targets[0]) and isinstance(s.value, ast.Constant) \
                    and isinstance(s.value.value, str) and len(binds.get(s.targets[0].id, [])) == 1:
                self.str_consts[s.targets[0].id] = s.value.value
        # pickle_load / pickle_dump come from deepdiff.serialization, bound once
        src = [n for n in self.tree.body if isinstance(n, ast.ImportFrom) and n.module == "deepdiff.serialization" and n.level == 0]
        for nm in ("pickle_load", "pickle_dump"):
            b = binds.get(nm, [])
            if len(b) != 1 or not any(b[0] is s and any(a.name == nm and a.asname is None for a in s.names) for s in src):
                dbad((b or self.tree.body)[0], "%s is not bound exactly once by `from deepdiff.serialization import %s`" % (nm, nm))
        for nm, want in (("DeepDiff", "deepdiff"), ("Mapping", "collections.abc"), ("strings", "deepdiff.helper"), ("copy", None)):
            b = binds.get(nm, [])
            if len(b) != 1:
                dbad((b or self.tree.body)[0], "the name %r is bound %d times" % (nm, len(b)))
            if want is None:
                if not (isinstance(b[0], ast.Import) and any(a.name == nm and a.asname is None for a in b[0].names)):
                    dbad(b[0], "%r is not bound by a plain import" % nm)
            elif not (isinstance(b[0], ast.ImportFrom) and b[0].module == want and b[0].level == 0
                      and any(a.name == nm and a.asname is None for a in b[0].names)):
                dbad(b[0], "%r is not imported from %s" % (nm, want))
        for nm in ("isinstance", "hasattr", "set", "open", "dict", "ValueError", "UnicodeDecodeError"):
            if nm in binds:
                dbad(binds[nm][0], "the builtin %r is rebound" % nm)
        cls = [n for n in self.tree.body if isinstance(n, ast.ClassDef) and n.name == "Delta"]
        if len(cls) != 1 or len(binds.get("Delta", [])) != 1:
            dbad((cls or self.tree.body)[0], "class Delta is not defined exactly once")
        self.cls = cls[0]
        if self.cls.decorator_list or self.cls.keywords or self.cls.bases:
            dbad(self.cls, "class Delta has a decorator / base class / keywords")
        self.meth = {}
        for s in self.cls.body:
            if isinstance(s, (ast.FunctionDef, ast.AsyncFunctionDef)):
                if s.name in self.meth:
                    dbad(s, "Delta.%s is defined twice" % s.name)
                self.meth[s.name] = s
        for nm in ("__init__", "dump", "dumps", "to_dict"):
            f = self.meth.get(nm)
            if not isinstance(f, ast.FunctionDef) or f.decorator_list:
                dbad(f or self.cls, "Delta.%s is missing / decorated / async" % nm)
        # self.diff / self.serializer are assigned nowhere but in __init__; no setattr / __setattr__ / __getattr__ tricks
        for s in self.cls.body:
            if isinstance(s, ast.FunctionDef) and s.name in ("__setattr__", "__getattr__", "__getattribute__", "__new__", "__init_subclass__"):
                dbad(s, "Delta defines %s" % s.name)
        init_nodes = set(id(x) for x in ast.walk(self.meth["__init__"]))
        if "__rsub__" in self.meth:      # swaps self.diff with the reversed diff around one __add__ and restores it in `finally`
            init_nodes |= set(id(x) for x in ast.walk(self.meth["__rsub__"]))
            self.skipped.append(("rsub-swap", "Delta.__rsub__"))
        for n in ast.walk(self.tree):
            if isinstance(n, ast.Attribute) and n.attr in ("diff", "serializer") and isinstance(n.ctx, (ast.Store, ast.Del)) \
                    and is_name(n.value, "self") and id(n) not in init_nodes:
                inside_delta = any(n is x for x in ast.walk(self.cls))
                if inside_delta:
                    dbad(n, "self.%s is assigned outside Delta.__init__" % n.attr)
        self.skipped.append(("annotations", "Delta"))

    def cmt(self, node):
        seg = ast.get_source_segment(self.text, node) or ""
        first = seg.strip().splitlines()[0].strip() if seg.strip() else type(node).__name__
        return "(* %s *)" % clean(first)

    def const(self, node):
        """a message: a str literal or a module-level str constant -> Coq pystr text"""
        if isinstance(node, ast.Constant) and isinstance(node.value, str):
            return "(s2p %s)" % coq_str(DELTA, node, node.value)
        if is_name(node) and node.id in self.str_consts:
            if node.id not in self.consts_used:
                self.consts_used.append(node.id)
            return "g_" + node.id
        dbad(node, "message that is neither a str literal nor a module-level str constant")

    # ---- signature ---------------------------------------------------------------------------------------
    def signature(self, out):
        f = self.meth["__init__"]
        a = f.args
        if a.posonlyargs or a.kwonlyargs or a.vararg or a.kwarg:
            dbad(f, "Delta.__init__ has positional-only / keyword-only / star parameters")
        names = [x.arg for x in a.args]
        if names[0] != "self" or len(a.defaults) != len(names) - 1:
            dbad(f, "Delta.__init__: every parameter after self must have a default")
        dflt = dict(zip(names[1:], a.defaults))
        for nm in SOURCE_ARGS + ["safe_to_import"]:
            if nm not in dflt or not (isinstance(dflt[nm], ast.Constant) and dflt[nm].value is None):
                dbad(dflt.get(nm, f), "Delta.__init__: parameter %s is missing or its default is not None" % nm)
        got = {}
        for nm in ("deserializer", "serializer"):
            if nm not in dflt or not is_name(dflt[nm]) or dflt[nm].id not in ("pickle_load", "pickle_dump"):
                dbad(dflt.get(nm, f), "Delta.__init__: the default of %s is not the name pickle_load / pickle_dump" % nm)
            got[nm] = dflt[nm].id
        if len(set(names)) != len(names):
            dbad(f, "duplicate parameter")
        out += ["(* Delta.__init__(self, diff=None, delta_path=None, delta_file=None, delta_diff=None, flat_dict_list=None, flat_rows_list=None,",
                "   deserializer=..., ..., safe_to_import=None, serializer=..., ...): the two defaults, by the name they are imported under",
                "   (`from deepdiff.serialization import pickle_load, pickle_dump`, bound once) *)",
                "Definition g_Delta_default_deserializer : string := %s." % coq_str(DELTA, f, got["deserializer"]),
                "Definition g_Delta_default_serializer : string := %s." % coq_str(DELTA, f, got["serializer"]), ""]

    # ---- conditions over co_varnames ---------------------------------------------------------------------
    def names_cond(self, n, obj_name, has_code_var, names_vars):
        """conditions of the _deserializer choice / Delta.dump: hasattr(<obj>, '__code__'), '<lit>' in <names>, and / or / not"""
        if isinstance(n, ast.BoolOp):
            op = "andb" if isinstance(n.op, ast.And) else "orb"
            t = self.names_cond(n.values[0], obj_name, has_code_var, names_vars)
            for v in n.values[1:]:
                t = "(%s %s %s)" % (op, t, self.names_cond(v, obj_name, has_code_var, names_vars))
            return t
        if isinstance(n, ast.UnaryOp) and isinstance(n.op, ast.Not):
            return "(negb %s)" % self.names_cond(n.operand, obj_name, has_code_var, names_vars)
        if isinstance(n, ast.Call) and is_name(n.func, "hasattr") and len(n.args) == 2 and not n.keywords and has_code_var \
                and self.is_obj(n.args[0], obj_name) and isinstance(n.args[1], ast.Constant) and n.args[1].value == "__code__":
            return has_code_var
        if isinstance(n, ast.Compare) and len(n.ops) == 1 and isinstance(n.ops[0], (ast.In, ast.NotIn)) \
                and isinstance(n.left, ast.Constant) and isinstance(n.left.value, str):
            t = "(str_in %s %s)" % (coq_str(DELTA, n.left, n.left.value), self.names_expr(n.comparators[0], obj_name, names_vars))
            return t if isinstance(n.ops[0], ast.In) else "(negb %s)" % t
        dbad(n, "condition form not on the white-list")

    @staticmethod
    def is_obj(n, obj_name):
        return is_name(n, obj_name) or is_self_attr(n, obj_name)

    def names_expr(self, n, obj_name, names_vars):
        """<obj>.__code__.co_varnames, optionally wrapped in set(...) / tuple(...) / list(...), or a local bound to it"""
        if is_name(n) and n.id in names_vars:
            return n.id
        if isinstance(n, ast.Call) and isinstance(n.func, ast.Name) and n.func.id in ("set", "frozenset", "tuple", "list") \
                and len(n.args) == 1 and not n.keywords:
            return self.names_expr(n.args[0], obj_name, names_vars)
        if isinstance(n, ast.Attribute) and n.attr == "co_varnames" and isinstance(n.value, ast.Attribute) and n.value.attr == "__code__" \
                and self.is_obj(n.value.value, obj_name):
            return names_vars["@"]
        dbad(n, "expected <%s>.__code__.co_varnames" % obj_name)

    # ---- __init__ ---------------------------------------------------------------------------------------
    def deser_choice(self, s, out):
        def branch(stmts):
            stmts = [x for x in stmts if not is_doc(x)]
            if len(stmts) != 1:
                dbad(s, "a branch of the _deserializer choice with %d statements" % len(stmts))
            b = stmts[0]
            if isinstance(b, ast.Assign) and len(b.targets) == 1 and is_name(b.targets[0], "_deserializer") and is_name(b.value, "deserializer"):
                return "DeserDirect %s" % self.cmt(b)
            if isinstance(b, ast.FunctionDef) and b.name == "_deserializer" and not b.decorator_list:
                a = b.args
                if [x.arg for x in a.args] != ["obj", "safe_to_import"] or len(a.defaults) != 1 or a.vararg or a.kwarg or a.kwonlyargs \
                        or a.posonlyargs or not (isinstance(a.defaults[0], ast.Constant) and a.defaults[0].value is None):
                    dbad(b, "the wrapper is not `def _deserializer(obj, safe_to_import=None)`")
                calls = [c for c in ast.walk(b) if isinstance(c, ast.Call) and is_name(c.func, "deserializer")]
                if len(calls) != 1 or len(calls[0].args) != 1 or not is_name(calls[0].args[0], "obj") or calls[0].keywords:
                    dbad(b, "the wrapper does not call deserializer(obj) exactly once")
                for c in ast.walk(b):
                    if isinstance(c, ast.Name) and isinstance(c.ctx, ast.Store) and c.id in INIT_GUARDED:
                        dbad(c, "the wrapper rebinds %r" % c.id)
                    if isinstance(c, (ast.Global, ast.Nonlocal)):
                        dbad(c, "global / nonlocal inside the wrapper")
                self.skipped.append(("wrapper-body", "Delta.__init__"))
                return "DeserWrapped %s" % self.cmt(b)
            dbad(b, "a branch of the _deserializer choice that neither binds _deserializer = deserializer nor defines the wrapper")
        cond = self.names_cond(s.test, "deserializer", "has_code", {"@": "co_varnames"})
        if not s.orelse:
            dbad(s, "the _deserializer choice has no else branch (_deserializer could be unbound)")
        out += ["(* Delta.__init__: which callable _deserializer is; has_code = hasattr(deserializer, '__code__'),",
                "   co_varnames = deserializer.__code__.co_varnames *)",
                "Definition g_deserializer_choice (has_code : bool) (co_varnames : list string) : deser_choice :=",
                "  if %s then %s" % (cond, self.cmt(s.test)), "    " + branch(s.body), "  else", "    " + branch(s.orelse) + ".", ""]

    def source_cond(self, n):
        if isinstance(n, ast.BoolOp):
            op = "andb" if isinstance(n.op, ast.And) else "orb"
            t = self.source_cond(n.values[0])
            for v in n.values[1:]:
                t = "(%s %s %s)" % (op, t, self.source_cond(v))
            return t
        if isinstance(n, ast.UnaryOp) and isinstance(n.op, ast.Not):
            return "(negb %s)" % self.source_cond(n.operand)
        if is_name(n) and n.id in TRUTH_ARGS:
            return "(a_%s a)" % n.id
        if isinstance(n, ast.Compare) and len(n.ops) == 1 and isinstance(n.ops[0], (ast.Is, ast.IsNot)) and is_name(n.left, "diff") \
                and isinstance(n.comparators[0], ast.Constant) and n.comparators[0].value is None:
            t = "(kind_is_none (a_diff a))"
            return t if isinstance(n.ops[0], ast.Is) else "(negb %s)" % t
        if isinstance(n, ast.Call) and is_name(n.func, "isinstance") and len(n.args) == 2 and not n.keywords and is_name(n.args[0], "diff"):
            c = n.args[1]
            cs = c.elts if isinstance(c, ast.Tuple) else [c]
            if not cs or not all(is_name(x) and x.id in DIFF_CLS for x in cs):
                dbad(n, "isinstance(diff, ...) against something other than DeepDiff / Mapping / strings")
            t = "(kind_isinstance (a_diff a) %s)" % DIFF_CLS[cs[0].id]
            for x in cs[1:]:
                t = "(orb %s (kind_isinstance (a_diff a) %s))" % (t, DIFF_CLS[x.id])
            return t
        dbad(n, "condition of the source chain not on the white-list (truth of delta_path / delta_file / delta_diff / flat_dict_list / "
                "flat_rows_list, `diff is [not] None`, isinstance(diff, DeepDiff / Mapping / strings), and / or / not)")

    def deser_call(self, v, content_names):
        """_deserializer(<x>, safe_to_import=safe_to_import) -> (x name, passes safe_to_import)"""
        if not (isinstance(v, ast.Call) and is_name(v.func, "_deserializer") and len(v.args) == 1 and is_name(v.args[0])):
            return None
        kw = {k.arg: k.value for k in v.keywords}
        if None in kw or set(kw) - {"safe_to_import"}:
            dbad(v, "_deserializer(...) with a keyword other than safe_to_import")
        if "safe_to_import" in kw and not is_name(kw["safe_to_import"], "safe_to_import"):
            dbad(v, "safe_to_import= something other than the parameter safe_to_import")
        x = v.args[0].id
        if x not in SOURCE_ARGS and x not in content_names:
            dbad(v, "_deserializer applied to %r" % x)
        return x, ("true" if "safe_to_import" in kw else "false")

    def source_action(self, stmts, where):
        stmts = [x for x in stmts if not is_doc(x)]
        if not stmts:
            dbad(where, "empty branch of the source chain")
        s0 = stmts[0]
        if len(stmts) == 1 and isinstance(s0, ast.If):
            return self.source_chain(s0, 0)
        if len(stmts) == 1 and isinstance(s0, ast.Raise):
            e = s0.exc
            if s0.cause is not None or not (isinstance(e, ast.Call) and is_name(e.func, "ValueError") and len(e.args) == 1 and not e.keywords):
                dbad(s0, "raise of something other than ValueError(<message>)")
            return ["SValueError %s %s" % (self.const(e.args[0]), self.cmt(s0))]

        def assign_self_diff(s):
            if isinstance(s, ast.Assign) and len(s.targets) == 1 and is_self_attr(s.targets[0], "diff"):
                return s.value
            return None
        if len(stmts) == 1:
            v = assign_self_diff(s0)
            if v is None:
                dbad(s0, "a branch of the source chain that does not assign self.diff")
            if is_name(v) and v.id in SOURCE_ARGS:
                return ["SAsIs %s %s" % (coq_str(DELTA, v, v.id), self.cmt(s0))]
            if isinstance(v, ast.Call) and isinstance(v.func, ast.Attribute) and v.func.attr == "_to_delta_dict" and is_name(v.func.value, "diff"):
                kw = {k.arg: k.value for k in v.keywords}
                ok = (not v.args and set(kw) == {"directed", "always_include_values"}
                      and isinstance(kw["directed"], ast.UnaryOp) and isinstance(kw["directed"].op, ast.Not)
                      and is_name(kw["directed"].operand, "bidirectional") and is_self_attr(kw["always_include_values"], "always_include_values"))
                if not ok:
                    dbad(v, "diff._to_delta_dict(...) not called as (directed=not bidirectional, always_include_values=self.always_include_values)")
                return ["SToDeltaDict %s" % self.cmt(s0)]
            r = self.deser_call(v, [])
            if r is not None:
                return ["SDeserialize (CArg %s) %s %s" % (coq_str(DELTA, v, r[0]), r[1], self.cmt(s0))]
            if isinstance(v, ast.Call) and isinstance(v.func, ast.Attribute) and v.func.attr in ("_from_flat_dicts", "_from_flat_rows") \
                    and is_name(v.func.value, "self") and len(v.args) == 1 and not v.keywords:
                c = v.args[0]
                if not (isinstance(c, ast.Call) and isinstance(c.func, ast.Attribute) and c.func.attr == "deepcopy" and is_name(c.func.value, "copy")
                        and len(c.args) == 1 and not c.keywords and is_name(c.args[0]) and c.args[0].id in SOURCE_ARGS):
                    dbad(v, "self.%s(...) not applied to copy.deepcopy(<argument>)" % v.func.attr)
                ctor = "SFlatDicts" if v.func.attr == "_from_flat_dicts" else "SFlatRows"
                return ["%s %s %s" % (ctor, coq_str(DELTA, c, c.args[0].id), self.cmt(s0))]
            dbad(s0, "self.diff = <form not on the white-list>")
        if len(stmts) == 2:
            v = assign_self_diff(stmts[1])
            if v is None:
                dbad(stmts[1], "the second statement of a reading branch does not assign self.diff")
            if isinstance(s0, ast.With):
                it = s0.items
                ok = (len(it) == 1 and isinstance(it[0].context_expr, ast.Call) and is_name(it[0].context_expr.func, "open")
                      and len(it[0].context_expr.args) == 2 and not it[0].context_expr.keywords and is_name(it[0].context_expr.args[0])
                      and it[0].context_expr.args[0].id in SOURCE_ARGS and isinstance(it[0].context_expr.args[1], ast.Constant)
                      and isinstance(it[0].context_expr.args[1].value, str) and is_name(it[0].optional_vars) and len(s0.body) == 1)
                if not ok:
                    dbad(s0, "with statement other than `with open(<argument>, '<mode>') as f:` with one statement")
                fvar = it[0].optional_vars.id
                b = s0.body[0]
                if not (isinstance(b, ast.Assign) and len(b.targets) == 1 and is_name(b.targets[0]) and b.targets[0].id not in INIT_GUARDED
                        and isinstance(b.value, ast.Call) and isinstance(b.value.func, ast.Attribute) and b.value.func.attr == "read"
                        and is_name(b.value.func.value, fvar) and not b.value.args and not b.value.keywords):
                    dbad(b, "the with body is not `<name> = <file>.read()`")
                r = self.deser_call(v, [b.targets[0].id])
                if r is None or r[0] != b.targets[0].id:
                    dbad(stmts[1], "self.diff is not _deserializer(<what was read>, ...)")
                a0 = it[0].context_expr.args
                return ["SDeserialize (CPathRead %s %s) %s (* %s ... %s *)" % (
                    coq_str(DELTA, a0[0], a0[0].id), coq_str(DELTA, a0[1], a0[1].value), r[1], src_of(self.text, s0), src_of(self.text, stmts[1]))]
            if isinstance(s0, ast.Try):
                ok = (len(s0.body) == 1 and len(s0.handlers) == 1 and not s0.orelse and not s0.finalbody)
                b = s0.body[0] if ok else None
                ok = ok and (isinstance(b, ast.Assign) and len(b.targets) == 1 and is_name(b.targets[0]) and b.targets[0].id not in INIT_GUARDED
                             and isinstance(b.value, ast.Call) and isinstance(b.value.func, ast.Attribute) and b.value.func.attr == "read"
                             and is_name(b.value.func.value) and b.value.func.value.id in SOURCE_ARGS and not b.value.args and not b.value.keywords)
                h = s0.handlers[0] if ok else None
                ok = ok and is_name(h.type, "UnicodeDecodeError") and len(h.body) == 1 and isinstance(h.body[0], ast.Raise)
                if not ok:
                    dbad(s0, "try statement other than `try: <name> = <argument>.read() except UnicodeDecodeError [as e]: raise ValueError(...)`")
                e = h.body[0].exc
                if not (isinstance(e, ast.Call) and is_name(e.func, "ValueError")):
                    dbad(h, "the UnicodeDecodeError handler does not raise ValueError")
                r = self.deser_call(v, [b.targets[0].id])
                if r is None or r[0] != b.targets[0].id:
                    dbad(stmts[1], "self.diff is not _deserializer(<what was read>, ...)")
                return ["SDeserialize (CFileRead %s) %s (* %s ... %s *)" % (
                    coq_str(DELTA, b, b.value.func.value.id), r[1], src_of(self.text, b), src_of(self.text, stmts[1]))]
        dbad(s0, "a branch of the source chain with a statement sequence not on the white-list")

    def source_chain(self, s, ind):
        """an if / elif / else statement -> lines of one Gallina expression of type source"""
        pad = "  " * ind
        lines = [pad + "if %s then (* if %s: *)" % (self.source_cond(s.test), src_of(self.text, s.test))]
        lines += [pad + "  " + x for x in self.source_action(s.body, s)]
        lines.append(pad + "else")
        if not s.orelse:
            lines.append(pad + "  SUnset (* no else: self.diff is not assigned *)")
        else:
            lines += [pad + "  " + x for x in self.source_action(s.orelse, s)]
        return lines

    def init(self, out):
        f = self.meth["__init__"]
        body = [s for s in f.body if not is_doc(s)]
        if not body or not isinstance(body[0], ast.If):
            dbad(f, "Delta.__init__ does not start with the _deserializer choice")
        self.deser_choice(body[0], out)
        chain = []
        for s in body[1:]:
            touches = any(is_self_attr(n, "diff") and isinstance(n.ctx, (ast.Store, ast.Del)) for n in ast.walk(s))
            if touches:
                chain.append(s)
                continue
            for n in ast.walk(s):
                if isinstance(n, ast.Name) and isinstance(n.ctx, (ast.Store, ast.Del)) and n.id in INIT_GUARDED:
                    dbad(n, "Delta.__init__ rebinds %r outside the source chain" % n.id)
                if isinstance(n, (ast.FunctionDef, ast.AsyncFunctionDef, ast.ClassDef, ast.Lambda, ast.Global, ast.Nonlocal, ast.Delete,
                                  ast.Import, ast.ImportFrom, ast.Return, ast.Yield, ast.YieldFrom, ast.Await, ast.NamedExpr, ast.Starred)):
                    dbad(n, "Delta.__init__ contains a %s outside the translated statements" % type(n).__name__)
                if isinstance(n, ast.Call) and isinstance(n.func, ast.Name) and n.func.id in ("setattr", "delattr", "exec", "eval", "globals",
                                                                                              "vars", "locals"):
                    dbad(n, "%s() in Delta.__init__" % n.func.id)
            self.skipped.append(("init-other", "Delta.__init__"))
        if len(chain) != 1 or not isinstance(chain[0], ast.If):
            dbad((chain or [f])[0], "self.diff is assigned by %d top-level statements of Delta.__init__ (expected: one if / elif chain)" % len(chain))
        # the chain must come before anything that reads self.diff
        idx = body.index(chain[0])
        for s in body[1:idx]:
            for n in ast.walk(s):
                if is_self_attr(n, "diff"):
                    dbad(n, "self.diff is read before the source chain")
        # self.serializer = serializer / self.deserializer = deserializer, once each, at top level
        for nm in ("serializer", "deserializer"):
            hits = [s for s in body if isinstance(s, ast.Assign) and len(s.targets) == 1 and is_self_attr(s.targets[0], nm)]
            if len(hits) != 1 or not is_name(hits[0].value, nm):
                dbad((hits or [f])[0], "Delta.__init__ does not contain exactly one top-level `self.%s = %s`" % (nm, nm))
            for n in ast.walk(f):
                if is_self_attr(n, nm) and isinstance(n.ctx, ast.Store) and n is not hits[0].targets[0]:
                    dbad(n, "self.%s is assigned twice" % nm)
        lines = self.source_chain(chain[0], 1)
        consts = ["Definition g_%s : pystr := s2p %s." % (nm, coq_str(DELTA, f, self.str_consts[nm])) for nm in self.consts_used]
        out += consts + ["(* Delta.__init__: where self.diff comes from, as a function of which arguments are given *)",
                         "Definition g_delta_source (a : init_args) : source :="] + lines
        out[-1] += "."
        out.append("")

    # ---- dump / dumps / to_dict ---------------------------------------------------------------------------
    def plain_method(self, nm, params):
        f = self.meth[nm]
        a = f.args
        if [x.arg for x in a.args] != params or a.defaults or a.vararg or a.kwarg or a.kwonlyargs or a.posonlyargs:
            dbad(f, "Delta.%s has parameters other than %r" % (nm, params))
        for n in ast.walk(f):
            if isinstance(n, (ast.FunctionDef, ast.AsyncFunctionDef, ast.Lambda, ast.ClassDef, ast.Global, ast.Nonlocal, ast.Yield, ast.YieldFrom,
                              ast.Await, ast.NamedExpr, ast.With, ast.For, ast.While, ast.Delete, ast.Import, ast.ImportFrom, ast.Try)) and n is not f:
                dbad(n, "Delta.%s contains a %s" % (nm, type(n).__name__))
        return [s for s in f.body if not is_doc(s)]

    def is_serializer_of_diff(self, c, kw_ok):
        return (isinstance(c, ast.Call) and is_self_attr(c.func, "serializer") and len(c.args) == 1 and is_self_attr(c.args[0], "diff")
                and (kw_ok or not c.keywords))

    def dump(self, out):
        body = self.plain_method("dump", ["self", "file"])
        names_vars = {"@": "serializer_co_varnames"}
        lines = []

        def action(stmts, where):
            stmts = [x for x in stmts if not is_doc(x)]
            if len(stmts) != 1 or not isinstance(stmts[0], ast.Expr):
                dbad(where, "a branch of Delta.dump that is not one call statement")
            c = stmts[0].value
            if self.is_serializer_of_diff(c, True) and len(c.keywords) == 1 and c.keywords[0].arg is not None and is_name(c.keywords[0].value, "file"):
                return "DumpFileObjKeyword %s %s" % (coq_str(DELTA, c, c.keywords[0].arg), self.cmt(stmts[0]))
            if isinstance(c, ast.Call) and isinstance(c.func, ast.Attribute) and c.func.attr == "write" and is_name(c.func.value, "file") \
                    and len(c.args) == 1 and not c.keywords:
                d = c.args[0]
                if isinstance(d, ast.Call) and is_self_attr(d.func, "dumps") and not d.args and not d.keywords:
                    return "DumpWriteDumps %s" % self.cmt(stmts[0])
            dbad(stmts[0], "call other than self.serializer(self.diff, <kw>=file) / file.write(self.dumps())")

        def seq(stmts, ind):
            pad = "  " * ind
            if not stmts:
                dbad(self.meth["dump"], "Delta.dump can end without writing")
            s, rest = stmts[0], stmts[1:]
            if isinstance(s, ast.Assign) and len(s.targets) == 1 and is_name(s.targets[0]) and s.targets[0].id not in ("self", "file"):
                text = self.names_expr(s.value, "serializer", names_vars)
                names_vars[s.targets[0].id] = True
                return [pad + "let %s := %s in %s" % (s.targets[0].id, text, self.cmt(s))] + seq(rest, ind)
            if isinstance(s, ast.If):
                if rest or not s.orelse:
                    dbad(s, "Delta.dump: an if without else / followed by further statements")
                cond = self.names_cond(s.test, "serializer", None, names_vars)
                orelse = s.orelse
                return ([pad + "if %s then (* if %s: *)" % (cond, src_of(self.text, s.test))]
                        + ([pad + "  " + action(s.body, s)])
                        + [pad + "else"]
                        + (seq(orelse, ind + 1) if len(orelse) == 1 and isinstance(orelse[0], ast.If) else [pad + "  " + action(orelse, s)]))
            if not rest:
                return [pad + action([s], s)]
            dbad(s, "statement of Delta.dump not on the white-list")
        lines = seq(body, 1)
        out += ["(* Delta.dump(self, file); serializer_co_varnames = self.serializer.__code__.co_varnames *)",
                "Definition g_Delta_dump_mode (serializer_co_varnames : list string) : dump_mode :="] + lines
        out[-1] += "."
        out.append("")

    def dumps_to_dict(self, out):
        body = self.plain_method("dumps", ["self"])
        if len(body) != 1 or not isinstance(body[0], ast.Return) or not self.is_serializer_of_diff(body[0].value, False):
            dbad(self.meth["dumps"], "Delta.dumps is not `return self.serializer(self.diff)`")
        out += ["(* Delta.dumps(self) *)", "Definition g_Delta_dumps_mode : dumps_mode := DumpsSerializerOfDiff. %s" % self.cmt(body[0]), ""]
        body = self.plain_method("to_dict", ["self"])
        v = body[0].value if len(body) == 1 and isinstance(body[0], ast.Return) else None
        if not (isinstance(v, ast.Call) and is_name(v.func, "dict") and len(v.args) == 1 and not v.keywords and is_self_attr(v.args[0], "diff")):
            dbad(self.meth["to_dict"], "Delta.to_dict is not `return dict(self.diff)`")
        out += ["(* Delta.to_dict(self) *)", "Definition g_Delta_to_dict_mode : to_dict_mode := ToDictCopyOfDiff. %s" % self.cmt(body[0]), ""]


# ---------------------------------------------------------------------------------------------------------

def translate(repo_root):
    tr = U.Translator(repo_root)
    tr.skipped = []
    out = []
    translate_pickle_dump(tr, out)
    translate_json_convertor(tr, out)
    translate_json_convertor_default(tr, out)
    dskipped = []
    dt = DeltaTr(repo_root, dskipped)
    dt.signature(out)
    dt.init(out)
    dt.dump(out)
    dt.dumps_to_dict(out)
    skipped = []
    for rule, where in list(tr.skipped) + dskipped:
        line = "%s in %s: %s" % (rule, where, SKIP_RULES[rule])
        if line not in skipped:
            skipped.append(line)
    skipped.append("comment: %s" % SKIP_RULES["comment"])
    head = ["(* GENERATED by harness/translate/persist.py from deepdiff/serialization.py (pickle_dump, the co_varnames of pickle_dump /",
            "   pickle_load, JSON_CONVERTOR) and deepdiff/delta.py (Delta.__init__: defaults, _deserializer choice, source chain;",
            "   Delta.dump / dumps / to_dict).  g_persistent_id comes from DDGen.PickleGen (harness/translate/unpickler.py, same source).",
            "   Do not edit: regenerated from the current source on every run of ./check C14.",
            "", "   Skip rules applied (trusted):"]
    head += ["   - " + clean(s) for s in skipped] + ["*)"]
    pre = ["From Coq Require Import List String ZArith NArith Bool.", "Import ListNotations.",
           "From DD Require Import Base.PyStr Pickle.Vm Pickle.Codec Pickle.Bytes Pickle.SrcPrims Pickle.PersistPrims.",
           "From DDGen Require Import PickleGen.", "Local Open Scope string_scope.", ""]
    return "\n".join(head + pre + out) + "\n"


if __name__ == "__main__":
    import sys
    sys.stdout.write(translate(sys.argv[1] if len(sys.argv) > 1 else "/repo"))

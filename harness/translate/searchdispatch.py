"""Source tie of C16: deepdiff/search.py (class DeepSearch)  ->  Gallina (coq/srctie/SearchGen.v, module DDGen.SearchGen).

translate(repo_root) reads /repo's CURRENT deepdiff/search.py, walks the `ast` of class DeepSearch with an explicit
white-list of node shapes and emits one Gallina definition per translated method, statement by statement:

    __report, __skip_this, __search_str, __search_numbers, __search_dict, __search_iterable, __search_obj,
    __search_tuple, __search (the dispatcher)  ->  g_report, g_skip_this, g_search_str, ... , g_search
    __init__ (the normalisation of `item` and the call of __search)  ->  g_init
    + two fixed templates: g_search_fuel (the recursion of __search closed by fuel), g_deep_search

over the TYPES of coq/theories/Search/SearchModel.v (xvalue, eitem, config, value) and the PRIMITIVES of
coq/theories/Search/SearchStmt.v (isinstance tests, ==, in, str(), .lower(), %-formatting, d.keys(), d[k], enumerate,
the store operations).  None of the hand model's functions (prepare, skip_item, skip_this, search_str, search_numbers,
search_xnum, path_test, path_event, thing_events, search_leaf, search, deep_search) is used by the generated text.
Anything outside the white-list raises Unsupported(file:line: what).  No eval, no import of deepdiff.

The translation is syntax-directed and dumb: one Python statement -> one Gallina line (group), same order, same case
analysis.  Equality with the hand model is the business of coq/srctie/SearchGenEquiv.v.

ENCODING RULES (each is part of the trusted base of this tie; listed in coq/theories/Search/NOTES_srctie.md)
 E1  SORTS.  Python is untyped; every expression gets a sort, inferred bottom-up from the static parameter table SIGS
     (obj/thing: X = xvalue; item: I = eitem; parent and every text: S = pystr; flags: B; the tested object of
     __skip_this: T = option xty) and the primitive table (e.g. str(X) : S, X.lower() : X, I.pattern : W).  An operation
     whose argument sorts are not in the table is rejected.  A wrong table entry makes the generated file ill-typed or
     the equivalence proof fail; it cannot make a wrong tie pass.  Locals are named v_<python name>.
 E2  WRITER.  A method's effect on `self` (the result dict) is the LIST of store operations it performs, in order:
     self[rk][key] = v -> TSetItem; self[rk].add(key) -> TAdd; self[rk].append(t) -> TAppend; a statement sequence is
     list concatenation; `return` / `continue` / falling off the end contribute nothing more.
 E3  CONTROL.  `if c: A else: B` followed by REST is  (if c then A else B) ++ REST  when neither branch assigns,
     returns or continues, else  if c then A;REST else B;REST  (REST duplicated).  `x = e` is `let v_x := e in`.
     `for k in L` / `for i, x in enumerate(o)` are for_each / for_enum (x_iter o) over a writer body.
 E4  IDENTITY.  id(x), parents_ids, add_to_frozen_set: the hand model's XRef abstraction - `parents_ids and id(x) in
     parents_ids` is `x_is_ancestor x`; the parents_ids arguments and the assignments of ids are erased.
 E5  RECURSION.  self.__search(...) inside a method is a call of the parameter v_rec; g_search takes v_rec (one
     unfolding of the code); g_search_fuel closes it with fuel, g_deep_search runs it with fuel S (xdepth obj).
 E6  TRY.  (a) `try: obj._asdict / except AttributeError: A / else: B` is `if x_has_asdict obj then B else A`;
     (b) the attribute-dictionary construction of __search_obj (checked to be EXACTLY the present text: _asdict() /
     dir() comprehension without dunders / __slots__ comprehension) is `x_attrs_dict is_namedtuple obj`, None = both
     attempts raise AttributeError; (c) `try: item = re.compile(item) except TypeError: raise TypeError(..)` is
     `re_compile re_ok item` with outcomes TypeError -> GRaise, re.error (not caught) -> GReErr, a pattern.
 E7  TRUTH.  `pattern.search(text)` is used as a truth value: the oracle re_search; `self.exclude_regex_paths and
     any([p.search(parent) for p in self.exclude_regex_paths])` (exact shape) is the oracle excl_re parent.
 E8  self.match_string / use_regexp / strict_checking / verbose_level / exclude_paths / exclude_types_tuple are the
     constructor's arguments (checked: __init__ assigns each of them from the parameter of the same name, SetOrdered /
     tuple of it for the two exclusions); self.case_sensitive is what __init__ computes (g_init passes it on).
 E9  deepdiff/helper.py: the names the fragment imports from it - strings, numbers (only_numbers, datetimes), ipranges,
     RE_COMPILED_TYPE, add_to_frozen_set - are CHECKED to be bound exactly once, by exactly the present text; their
     meaning on the model's universe is x_is / i_is of SearchStmt.v (numpy numbers, complex, time, ip ranges: outside it).
SKIP RULES
 S1  docstrings; module-level statements other than class DeepSearch (imports are CHECKED to bind the class names used
     in isinstance tests to collections.abc / deepdiff.helper); class grep; `warning_num = 0`.
 S2  the logging block of the set branch (`if self.warning_num < 10: logger.warning(..); self.warning_num += 1`,
     exact shape).
 S3  in __init__ (each checked to be exactly the present text): the kwargs check, self.obj, the exclusion
     normalisations, self.update(matched_paths=.., matched_values=.., unprocessed=[]), the removal of empty keys.
 S4  __set_or_dict (checked to be exactly `return dict_() if self.verbose_level >= 2 else SetOrdered()`).
"""
import ast
import os

SRC = "deepdiff/search.py"


class Unsupported(Exception):
    pass


def bad(node, what):
    raise Unsupported("%s:%s: %s%s" % (SRC, getattr(node, "lineno", "?"), what,
                                       (" [" + type(node).__name__ + "]") if node is not None else ""))


CLASSES = {"strings": "Cstrings", "numbers": "Cnumbers", "ipranges": "Cipranges", "MutableMapping": "CMutableMapping",
           "tuple": "Ctuple", "set": "Cset", "frozenset": "Cfrozenset", "Iterable": "CIterable", "str": "Cstr",
           "bytes": "Cbytes", "RE_COMPILED_TYPE": "CRE"}

# method -> [(parameter, sort, default as source text or None)]      (E1)
P_OBJ, P_ITEM, P_PARENT = ("obj", "X", None), ("item", "I", None), ("parent", "S", None)
SIGS = {
    "__report": [("report_key", "S", None), ("key", "S", None), ("value", "X", None)],
    "__skip_this": [("item", "T", None), P_PARENT],
    "__search_str": [P_OBJ, P_ITEM, P_PARENT],
    "__search_numbers": [P_OBJ, P_ITEM, P_PARENT],
    "__search_dict": [P_OBJ, P_ITEM, P_PARENT, ("parents_ids", "Ids", "frozenset()"), ("print_as_attribute", "B", "False")],
    "__search_iterable": [P_OBJ, P_ITEM, ("parent", "S", "'root'"), ("parents_ids", "Ids", "frozenset()")],
    "__search_obj": [P_OBJ, P_ITEM, P_PARENT, ("parents_ids", "Ids", "frozenset()"), ("is_namedtuple", "B", "False")],
    "__search_tuple": [P_OBJ, P_ITEM, P_PARENT, ("parents_ids", "Ids", None)],
    "__search": [P_OBJ, P_ITEM, ("parent", "S", "'root'"), ("parents_ids", "Ids", "frozenset()")],
}
RETSORT = {"__skip_this": "B"}
COQTY = {"X": "xvalue", "I": "eitem", "S": "pystr", "B": "bool", "T": "option xty"}
DEFAULTS = {"'root'": '(s2p "root")', "False": "false", "True": "true"}

SELF_ATTRS = {"case_sensitive": ("B", "cs"), "match_string": ("B", "(match_string c)"), "use_regexp": ("B", "(use_regexp c)"),
              "strict_checking": ("B", "(strict c)"), "verbose_level": ("Z", "verbose_level"),
              "exclude_paths": ("LS", "(excl_paths c)"), "exclude_types_tuple": ("LT", "(excl_types c)")}

HEADER = '''(* GENERATED by /verif/harness/translate/searchdispatch.py from deepdiff/search.py (class DeepSearch:
   __report, __skip_this, __search_str, __search_numbers, __search_dict, __search_iterable, __search_obj,
   __search_tuple, __search, __init__).  Do not edit: the check regenerates this text from the current source on
   every run and compiles coq/srctie/SearchGenEquiv.v against it. *)
From Coq Require Import List ZArith NArith Bool Arith String.
Import ListNotations.
From DD Require Import Base.Sx Base.PyStr Base.Value Search.SearchModel Search.SearchStmt.

(* every definition takes  o : the oracles,  c : the constructor's options,  verbose_level,  cs : self.case_sensitive *)
'''

# E5: fixed templates
FUEL = '''
(* E5: the recursion of __search, closed by fuel *)
Fixpoint g_search_fuel (o : oracles) (c : config) (verbose_level : Z) (cs : bool)
         (fuel : nat) (v_obj : xvalue) (v_item : eitem) (v_parent : pystr) {struct fuel} : list top :=
  match fuel with
  | O => []
  | S fuel' => g_search o c verbose_level cs (g_search_fuel o c verbose_level cs fuel') v_obj v_item v_parent
  end.
'''

SKIP_INIT_SRC = [   # S3: statements of __init__ that are not translated (exact text)
    '''if kwargs:
    raise ValueError((
        "The following parameter(s) are not valid: %s\\n"
        "The valid parameters are obj, item, exclude_paths, exclude_types,\\n"
        "case_sensitive, match_string and verbose_level."
    ) % ', '.join(kwargs.keys()))''',
    "self.obj = obj",
    "self.exclude_paths = SetOrdered(exclude_paths)",
    "self.exclude_regex_paths = [re.compile(exclude_regex_path) for exclude_regex_path in exclude_regex_paths]",
    "self.exclude_types = SetOrdered(exclude_types)",
    "self.exclude_types_tuple = tuple(exclude_types)",
    "self.verbose_level = verbose_level",
    "self.update(matched_paths=self.__set_or_dict(), matched_values=self.__set_or_dict(), unprocessed=[])",
    "self.use_regexp = use_regexp",
    "self.strict_checking = strict_checking",
    "self.match_string = match_string",
    "empty_keys = [k for k, v in self.items() if not v]",
    "for k in empty_keys:\n    del self[k]",
]
INIT_SHAPE = "SSTTSSSSSSSTTSSTSS"      # S = untranslated (S3, in the order of SKIP_INIT_SRC), T = translated
INIT_PARAMS = ("self, obj, item, exclude_paths=SetOrdered(), exclude_regex_paths=SetOrdered(), exclude_types=SetOrdered(), "
               "verbose_level=1, case_sensitive=False, match_string=False, use_regexp=False, strict_checking=True, **kwargs")
SET_OR_DICT_SRC = "return dict_() if self.verbose_level >= 2 else SetOrdered()"
T2_BODY_SRC = '''if is_namedtuple:
    obj = obj._asdict()
else:
    obj = {i: getattr(obj, i) for i in dir(obj)
           if not (i.startswith('__') and i.endswith('__'))}'''
T2_SLOTS_SRC = "obj = {i: getattr(obj, i) for i in obj.__slots__}"
LOG_SRC = '''if self.warning_num < 10:
    logger.warning(
        "Set item detected in the path."
        "'set' objects do NOT support indexing. But DeepSearch will still report a path."
    )
    self.warning_num += 1'''
EXCL_RE_SRC = ("self.exclude_regex_paths and any([exclude_regex_path.search(parent) "
               "for exclude_regex_path in self.exclude_regex_paths])")
IMPORTS_SRC = ["import re", "from collections.abc import MutableMapping, Iterable", "from deepdiff.helper import SetOrdered",
               "import logging",
               "from deepdiff.helper import strings, numbers, add_to_frozen_set, get_doc, dict_, RE_COMPILED_TYPE, ipranges"]


HELPER = "deepdiff/helper.py"
HELPER_SRC = {      # E9
    "strings": "strings = (str, bytes)",
    "only_numbers": "only_numbers = (int, float, complex, Decimal) + numpy_numbers",
    "datetimes": "datetimes = (datetime.datetime, datetime.date, datetime.timedelta, datetime.time)",
    "ipranges": "ipranges = (ipaddress.IPv4Interface, ipaddress.IPv6Interface, ipaddress.IPv4Network, ipaddress.IPv6Network)",
    "numbers": "numbers: Tuple = only_numbers + datetimes",
    "RE_COMPILED_TYPE": "RE_COMPILED_TYPE = type(re.compile(''))",
    "add_to_frozen_set": "def add_to_frozen_set(parents_ids, item_id):\n    return parents_ids | {item_id}",
}


def check_helper(repo):
    with open(os.path.join(repo, HELPER)) as f:
        tree = ast.parse(f.read())
    bound = {k: 0 for k in HELPER_SRC}
    for n in ast.walk(tree):
        name = None
        if isinstance(n, ast.Name) and isinstance(n.ctx, (ast.Store, ast.Del)):
            name = n.id
        elif isinstance(n, (ast.FunctionDef, ast.ClassDef, ast.AsyncFunctionDef)):
            name = n.name
        elif isinstance(n, ast.alias):
            name = (n.asname or n.name).split(".")[0]
        elif isinstance(n, ast.arg):
            continue
        if name in bound:
            bound[name] += 1
    top = {ast.dump(n) for n in tree.body}
    for k, src in HELPER_SRC.items():
        if bound[k] != 1 or dump_src(src)[0] not in top:
            raise Unsupported("%s: %s is not bound exactly once by `%s`" % (HELPER, k, src.splitlines()[0]))


def dump_src(src):
    return [ast.dump(s) for s in ast.parse(src).body]


def same(node, src):
    if isinstance(node, ast.expr):
        return ast.dump(node) == ast.dump(ast.parse(src, mode="eval").body)
    d = dump_src(src)
    return len(d) == 1 and ast.dump(node) == d[0]


def coq_str(s, node):
    if not all(32 <= ord(ch) < 127 for ch in s) or '"' in s:
        bad(node, "string constant outside printable ASCII without double quotes: %r" % s)
    return '(s2p "%s")' % s


def is_self(n):
    return isinstance(n, ast.Name) and n.id == "self"


def self_method(n):
    """the name of the method when n is `self.__m`"""
    if isinstance(n, ast.Attribute) and is_self(n.value) and n.attr in SIGS:
        return n.attr
    return None


def self_item(n):
    """rk text node when n is `self[<expr>]`"""
    if isinstance(n, ast.Subscript) and is_self(n.value):
        return n.slice
    return None


def gname(m):
    return "g_" + m.lstrip("_")


class K:   # continuation kind
    def __init__(self, retsort, in_loop=False):
        self.retsort, self.in_loop = retsort, in_loop


def ind(text, n=2):
    pad = " " * n
    return "\n".join(pad + l if l else l for l in text.split("\n"))


class Translator:
    def __init__(self, tree):
        self.tree = tree
        self.methods = {}
        self.needs_rec = set()

    # ---------------------------------------------------------------- module / class shape
    def check_module(self):
        cls = None
        imports = []
        for n in self.tree.body:
            if isinstance(n, (ast.Import, ast.ImportFrom)):
                imports.append(ast.dump(n))
            elif isinstance(n, ast.ClassDef) and n.name == "DeepSearch":
                cls = n
            elif isinstance(n, ast.ClassDef) and n.name == "grep":
                pass
            elif isinstance(n, ast.Assign) and len(n.targets) == 1 and isinstance(n.targets[0], ast.Name) \
                    and n.targets[0].id in ("logger", "doc"):
                pass
            elif isinstance(n, ast.If) and same(n.test, "__name__ == '__main__'"):
                pass
            elif isinstance(n, ast.Expr) and isinstance(n.value, ast.Constant):
                pass
            else:
                bad(n, "unexpected module-level statement")
        want = [d for s in IMPORTS_SRC for d in dump_src(s)]
        if imports != want:
            bad(self.tree.body[0], "the import statements are not the expected ones (class names of the isinstance tests)")
        if cls is None:
            bad(None, "class DeepSearch not found")
        if cls.decorator_list or cls.keywords or [ast.dump(b) for b in cls.bases] != [ast.dump(ast.parse("dict").body[0].value)]:
            bad(cls, "class DeepSearch: unexpected bases / decorators")
        for n in cls.body:
            if isinstance(n, ast.Expr) and isinstance(n.value, ast.Constant) and isinstance(n.value.value, str):
                continue
            if same(n, "warning_num = 0"):
                continue
            if isinstance(n, ast.FunctionDef):
                if n.decorator_list:
                    bad(n, "decorated method")
                if n.name in self.methods:
                    bad(n, "method defined twice")
                if n.name not in SIGS and n.name not in ("__init__", "__set_or_dict"):
                    bad(n, "method %s is outside the translated fragment" % n.name)
                self.methods[n.name] = n
                continue
            bad(n, "unexpected statement in class DeepSearch")
        for m in list(SIGS) + ["__init__", "__set_or_dict"]:
            if m not in self.methods:
                bad(cls, "method %s not found" % m)
        sod = self.methods["__set_or_dict"]
        if ast.unparse(sod.args) != "self" or len(self.body_of(sod)) != 1 or not same(self.body_of(sod)[0], SET_OR_DICT_SRC):
            bad(sod, "__set_or_dict is not the expected one-liner")

    @staticmethod
    def body_of(fn):
        b = list(fn.body)
        if b and isinstance(b[0], ast.Expr) and isinstance(b[0].value, ast.Constant) and isinstance(b[0].value.value, str):
            b = b[1:]
        return b

    def check_sig(self, name):
        fn = self.methods[name]
        a = fn.args
        if a.vararg or a.kwarg or a.kwonlyargs or a.posonlyargs or fn.returns:
            bad(fn, "unexpected parameter kinds")
        names = [x.arg for x in a.args]
        if any(x.annotation for x in a.args):
            bad(fn, "annotated parameters")
        sig = SIGS[name]
        if names != ["self"] + [p for p, _, _ in sig]:
            bad(fn, "parameters of %s are %r, expected %r" % (name, names[1:], [p for p, _, _ in sig]))
        defaults = [None] * (len(sig) - len(a.defaults)) + [ast.unparse(d) for d in a.defaults]
        if defaults != [d for _, _, d in sig]:
            bad(fn, "defaults of %s are %r, expected %r" % (name, defaults, [d for _, _, d in sig]))

    # ---------------------------------------------------------------- call graph (E5)
    def calls_of(self, name):
        out = []
        for n in ast.walk(self.methods[name]):
            if isinstance(n, ast.Call):
                m = self_method(n.func)
                if m and m not in out:
                    out.append(m)
        return out

    def order(self):
        graph = {m: [x for x in self.calls_of(m)] for m in SIGS}
        # needs_rec: methods from which __search is reachable
        changed = True
        self.needs_rec = {m for m in SIGS if "__search" in graph[m]}
        while changed:
            changed = False
            for m in SIGS:
                if m not in self.needs_rec and any(x in self.needs_rec for x in graph[m]):
                    self.needs_rec.add(m)
                    changed = True
        self.needs_rec.add("__search")
        done, out, stack = set(), [], []

        def visit(m):
            if m in done:
                return
            if m in stack:
                bad(self.methods[m], "recursion among the methods other than through __search")
            stack.append(m)
            for x in graph[m]:
                if x != "__search":
                    visit(x)
            stack.pop()
            done.add(m)
            out.append(m)
        for m in SIGS:          # source-independent order of the roots
            visit(m)
        return out

    # ---------------------------------------------------------------- expressions
    def classes(self, n):
        elts = n.elts if isinstance(n, ast.Tuple) else [n]
        out = []
        for e in elts:
            if not (isinstance(e, ast.Name) and e.id in CLASSES):
                bad(e, "isinstance against an unknown class")
            out.append(CLASSES[e.id])
        return "[" + "; ".join(out) + "]"

    def as_text(self, n, env):
        """an argument of %-formatting / str.format: its str()"""
        s, t = self.expr(n, env)
        if s in ("S", "F"):
            return t
        if s == "K":
            return "(k_str (o_brepr o) %s)" % t
        if s == "N":
            return "(str_nat %s)" % t
        bad(n, "formatting a value of sort %s" % s)

    def coerce(self, n, s, t, want):
        if s == want:
            return t
        if (s, want) == ("X", "T"):
            return "(x_type %s)" % t
        if (s, want) == ("I", "T"):
            return "(i_type %s)" % t
        if (s, want) == ("S", "X"):
            return "(x_of_str %s)" % t
        if (s, want) == ("V", "I"):
            return "(v_to_item %s)" % t
        bad(n, "argument of sort %s where %s is expected" % (s, want))

    def expr(self, n, env):
        if isinstance(n, ast.Constant):
            if n.value is True:
                return ("B", "true")
            if n.value is False:
                return ("B", "false")
            if isinstance(n.value, str):
                return ("S", coq_str(n.value, n))
            if isinstance(n.value, int):
                return ("Z", "(%d)%%Z" % n.value)
            bad(n, "constant %r" % (n.value,))
        if isinstance(n, ast.Name):
            if n.id in env:
                return env[n.id]
            bad(n, "unknown name %s" % n.id)
        if isinstance(n, ast.Attribute):
            if is_self(n.value):
                if "self." + n.attr in env:
                    return env["self." + n.attr]
                if n.attr in SELF_ATTRS and not env.get("__init__"):
                    return SELF_ATTRS[n.attr]
                bad(n, "self.%s" % n.attr)
            if n.attr == "pattern":
                s, t = self.expr(n.value, env)
                if s == "I":
                    return ("W", "(i_pattern %s)" % t)
            bad(n, "attribute .%s" % n.attr)
        if isinstance(n, ast.UnaryOp) and isinstance(n.op, ast.Not):
            s, t = self.expr(n.operand, env)
            if s != "B":
                bad(n, "`not` on sort %s" % s)
            return ("B", "(negb %s)" % t)
        if isinstance(n, ast.BoolOp):
            return self.boolop(n, env)
        if isinstance(n, ast.IfExp):
            sc, tc = self.expr(n.test, env)
            if sc != "B":
                bad(n.test, "condition of sort %s" % sc)
            sa, ta = self.expr(n.body, env)
            sb, tb = self.expr(n.orelse, env)
            if sa != sb:
                if (sa, sb) == ("W", "I"):
                    sb, tb = "W", "(i_kind %s)" % tb
                elif (sa, sb) == ("I", "W"):
                    sa, ta = "W", "(i_kind %s)" % ta
                else:
                    bad(n, "conditional expression with branches of sorts %s / %s" % (sa, sb))
            return (sa, "(if %s then %s else %s)" % (tc, ta, tb))
        if isinstance(n, ast.Compare):
            return self.compare(n, env)
        if isinstance(n, ast.Call):
            return self.call(n, env)
        if isinstance(n, ast.BinOp) and isinstance(n.op, ast.Mod):
            sl, tl = self.expr(n.left, env)
            if sl != "S":
                bad(n, "% on sort " + sl)
            args = n.right.elts if isinstance(n.right, ast.Tuple) else [n.right]
            return ("S", "(pyfmt %s [%s])" % (tl, "; ".join(self.as_text(a, env) for a in args)))
        if isinstance(n, ast.Subscript):
            so, to = self.expr(n.value, env)
            sk, tk = self.expr(n.slice, env)
            if (so, sk) == ("X", "K"):
                return ("X", "(x_getitem %s %s)" % (to, tk))
            bad(n, "subscript %s[%s]" % (so, sk))
        bad(n, "expression outside the supported fragment")

    def boolop(self, n, env):
        if same(n, EXCL_RE_SRC):                                  # E7
            s, t = env.get("parent", (None, None))
            if s != "S":
                bad(n, "exclude_regex_paths test without a text `parent`")
            return ("B", "(o_excl_re o %s)" % t)
        if isinstance(n.op, ast.And) and len(n.values) == 2:      # E4: parents_ids and item_id in parents_ids
            a, b = n.values
            if isinstance(a, ast.Name) and env.get(a.id, ("", ""))[0] == "Ids":
                if isinstance(b, ast.Compare) and len(b.ops) == 1 and isinstance(b.ops[0], ast.In) \
                        and isinstance(b.comparators[0], ast.Name) and b.comparators[0].id == a.id:
                    s, t = self.expr(b.left, env)
                    if s == "Id":
                        return ("B", "(x_is_ancestor %s)" % t)
                bad(n, "unexpected use of parents_ids")
        parts = []
        for v in n.values:
            s, t = self.expr(v, env)
            if s != "B":
                bad(v, "operand of and/or of sort %s" % s)
            parts.append(t)
        op = " && " if isinstance(n.op, ast.And) else " || "
        return ("B", "(" + op.join(parts) + ")")

    def compare(self, n, env):
        if len(n.ops) != 1:
            bad(n, "chained comparison")
        op, l, r = n.ops[0], n.left, n.comparators[0]
        sl, tl = self.expr(l, env)
        sr, tr = self.expr(r, env)
        if isinstance(op, ast.Eq):
            tbl = {("X", "I"): "(py_eq_xi %s %s)", ("I", "X"): "(py_eq_ix %s %s)", ("S", "S"): "(pystr_eqb %s %s)",
                   ("I", "S"): "(i_eq_str %s %s)"}
        elif isinstance(op, ast.In):
            tbl = {("S", "S"): "(contains_sub %s %s)", ("I", "X"): "(i_in_x %s %s)",
                   ("S", "LS"): "(existsb (pystr_eqb %s) %s)"}
        elif isinstance(op, ast.GtE):
            tbl = {("Z", "Z"): "(%s >=? %s)%%Z"}
        else:
            bad(n, "comparison operator")
        if (sl, sr) not in tbl:
            bad(n, "comparison %s between sorts %s and %s" % (type(op).__name__, sl, sr))
        return ("B", tbl[(sl, sr)] % (tl, tr))

    def call(self, n, env):
        f = n.func
        if n.keywords and not self_method(f):
            bad(n, "keyword arguments")
        if isinstance(f, ast.Name):
            if f.id == "isinstance" and len(n.args) == 2:
                s, t = self.expr(n.args[0], env)
                c2 = n.args[1]
                if isinstance(c2, ast.Call) and isinstance(c2.func, ast.Name) and c2.func.id == "type" and len(c2.args) == 1 \
                        and not c2.keywords:
                    s2, t2 = self.expr(c2.args[0], env)
                    if (s, s2) == ("X", "W"):
                        return ("B", "(x_isinstance_typeof %s %s)" % (t, t2))
                    bad(n, "isinstance(%s, type(%s))" % (s, s2))
                if isinstance(c2, ast.Attribute) and is_self(c2.value):
                    s2, t2 = self.expr(c2, env)
                    if (s, s2) == ("T", "LT"):
                        return ("B", "(isinstance_types %s %s)" % (t, t2))
                    bad(n, "isinstance(%s, self.%s)" % (s, c2.attr))
                fn = {"X": "x_isinstance", "I": "i_isinstance", "W": "w_isinstance", "K": "k_isinstance", "V": "v_isinstance"}.get(s)
                if not fn:
                    bad(n, "isinstance on sort %s" % s)
                return ("B", "(%s %s %s)" % (fn, t, self.classes(c2)))
            if f.id == "str" and len(n.args) == 1:
                s, t = self.expr(n.args[0], env)
                if s == "X":
                    return ("S", "(x_text (o_brepr o) %s)" % t)
                if s == "I":
                    return ("S", "(i_str (o_brepr o) (o_re_text o) %s)" % t)
                if s == "V":
                    return ("V", "(v_str (o_brepr o) %s)" % t)
                bad(n, "str() on sort %s" % s)
            if f.id == "id" and len(n.args) == 1:                 # E4
                s, t = self.expr(n.args[0], env)
                if s == "X":
                    return ("Id", t)
                bad(n, "id() on sort %s" % s)
            if f.id == "add_to_frozen_set" and len(n.args) == 2:  # E4
                s1, _ = self.expr(n.args[0], env)
                s2, _ = self.expr(n.args[1], env)
                if (s1, s2) == ("Ids", "Id"):
                    return ("Ids", "")
                bad(n, "add_to_frozen_set on sorts %s, %s" % (s1, s2))
            if f.id == "SetOrdered" and len(n.args) == 1:
                a = n.args[0]
                if isinstance(a, ast.Call) and isinstance(a.func, ast.Attribute) and a.func.attr == "keys" and not a.args and not a.keywords:
                    s, t = self.expr(a.func.value, env)
                    if s == "X":
                        return ("LK", "(x_keys %s)" % t)
                bad(n, "SetOrdered(...) of something else than <object>.keys()")
            bad(n, "call of %s" % f.id)
        if isinstance(f, ast.Attribute):
            if isinstance(f.value, ast.Constant) and isinstance(f.value.value, str) and f.attr == "format":
                return ("S", "(pyformat %s [%s])" % (coq_str(f.value.value, f.value), "; ".join(self.as_text(a, env) for a in n.args)))
            if self_method(f):
                return self.call_method(n, env)
            s, t = self.expr(f.value, env)
            if f.attr == "lower" and not n.args:
                if s == "X":
                    return ("X", "(x_lower (o_slower o) %s)" % t)
                if s == "S":
                    return ("S", "(o_slower o %s)" % t)
                if s == "V":
                    return ("V", "(v_lower (o_slower o) %s)" % t)
                bad(n, ".lower() on sort %s" % s)
            if f.attr == "search" and len(n.args) == 1 and s == "I":        # E7
                sa, ta = self.expr(n.args[0], env)
                if sa == "S":
                    return ("B", "(i_search (o_re_search o) %s %s)" % (t, ta))
                if sa == "X":
                    return ("B", "(i_search (o_re_search o) %s (x_chars %s))" % (t, ta))
                bad(n, ".search() on an argument of sort %s" % sa)
            bad(n, "method call .%s on sort %s" % (f.attr, s))
        bad(n, "call outside the supported fragment")

    def call_method(self, n, env):
        name = self_method(n.func)
        sig = SIGS[name]
        given = {}
        if len(n.args) > len(sig):
            bad(n, "too many arguments")
        for (p, _, _), a in zip(sig, n.args):
            given[p] = a
        for kw in n.keywords:
            if kw.arg is None or kw.arg in given or kw.arg not in [p for p, _, _ in sig]:
                bad(n, "keyword argument %s" % kw.arg)
            given[kw.arg] = kw.value
        args = []
        for p, sort, default in sig:
            if sort == "Ids":                                     # E4
                if p in given and self.expr(given[p], env)[0] != "Ids":
                    bad(n, "argument %s is not a set of ids" % p)
                continue
            if p in given:
                s, t = self.expr(given[p], env)
                args.append(self.coerce(given[p], s, t, sort))
            elif default in DEFAULTS:
                args.append(DEFAULTS[default])
            else:
                bad(n, "missing argument %s" % p)
        if name == "__search":
            if "__rec" not in env:
                bad(n, "call of __search from a method without the recursion parameter")
            head = "v_rec"
        else:
            head = gname(name) + " o c verbose_level cs" + (" v_rec" if name in self.needs_rec else "")
            if name in self.needs_rec and "__rec" not in env:
                bad(n, "call of a recursive method from a method without the recursion parameter")
        return (RETSORT.get(name, "Ops"), "(%s %s)" % (head, " ".join(args)))

    # ---------------------------------------------------------------- statements
    def needs_cps(self, s):
        for x in ast.walk(s):
            if isinstance(x, (ast.Return, ast.Continue, ast.Assign, ast.AugAssign, ast.Try, ast.Raise)):
                return True
        return False

    def seq(self, first, rest, env, k):
        """first: Coq text of a writer; then the rest of the block"""
        if not rest:
            return first
        return "(%s\n ++ %s)%%list" % (first, self.block(rest, env, k))

    def block(self, stmts, env, k):
        if not stmts:
            if k.retsort != "Ops":
                bad(None, "a value-returning method falls off its end")
            return "[]"
        s, rest = stmts[0], stmts[1:]
        if isinstance(s, ast.Expr) and isinstance(s.value, ast.Constant) and isinstance(s.value.value, str):
            return self.block(rest, env, k)
        if isinstance(s, ast.Return):
            if k.in_loop:
                bad(s, "return inside a loop")
            if s.value is None:
                if k.retsort != "Ops":
                    bad(s, "bare return in a value-returning method")
                return "[]"
            st, t = self.expr(s.value, env)
            if st != k.retsort:
                bad(s, "return of sort %s" % st)
            return t
        if isinstance(s, ast.Continue):
            if not k.in_loop:
                bad(s, "continue outside a loop")
            return "[]"
        if isinstance(s, ast.Assign):
            return self.assign(s, rest, env, k)
        if isinstance(s, ast.If):
            if same(s, LOG_SRC):                                  # S2
                return self.block(rest, env, k)
            st, t = self.expr(s.test, env)
            if st != "B":
                bad(s.test, "condition of sort %s" % st)
            j = self.join_assign(s, env)
            if j:                                                 # E3: both branches assign the same variable
                x, sv, ta, tb = j
                env2 = dict(env)
                env2[x] = (sv, "v_" + x)
                return "let v_%s := (if %s then %s else %s) in\n%s" % (x, t, ta, tb, self.block(rest, env2, k))
            if self.needs_cps(s) or k.retsort != "Ops":
                a = self.block(list(s.body) + rest, dict(env), k)
                b = self.block(list(s.orelse) + rest, dict(env), k)
                return "if %s\nthen\n%s\nelse\n%s" % (t, ind(a), ind(b))
            a = self.block(list(s.body), dict(env), k)
            b = self.block(list(s.orelse), dict(env), k)
            return self.seq("(if %s\n  then %s\n  else %s)" % (t, a, b), rest, env, k)
        if isinstance(s, ast.For):
            return self.for_(s, rest, env, k)
        if isinstance(s, ast.Try):
            return self.try_(s, rest, env, k)
        if isinstance(s, ast.Expr) and isinstance(s.value, ast.Call):
            c = s.value
            f = c.func
            if self_method(f):
                st, t = self.call_method(c, env)
                if st != "Ops":
                    bad(s, "the value of a method call is discarded")
                return self.seq(t, rest, env, k)
            if isinstance(f, ast.Attribute) and f.attr in ("add", "append") and len(c.args) == 1 and not c.keywords \
                    and self_item(f.value) is not None:           # E2
                sr, tr = self.expr(self_item(f.value), env)
                sa, ta = self.expr(c.args[0], env)
                if (sr, sa) != ("S", "S"):
                    bad(s, "self[%s].%s(%s)" % (sr, f.attr, sa))
                return self.seq("[%s %s %s]" % ("TAdd" if f.attr == "add" else "TAppend", tr, ta), rest, env, k)
            bad(s, "call statement outside the supported fragment")
        bad(s, "statement outside the supported fragment")

    def join_assign(self, s, env):
        if len(s.body) == 1 and len(s.orelse) == 1 and all(
                isinstance(x, ast.Assign) and len(x.targets) == 1 and isinstance(x.targets[0], ast.Name) for x in (s.body[0], s.orelse[0])):
            a, b = s.body[0], s.orelse[0]
            if a.targets[0].id == b.targets[0].id and a.targets[0].id != "self":
                sa, ta = self.expr(a.value, env)
                sb, tb = self.expr(b.value, env)
                if sa == sb and sa in ("X", "I", "W", "S", "B", "K"):
                    return (a.targets[0].id, sa, ta, tb)
        return None

    def assign(self, s, rest, env, k):
        if len(s.targets) != 1:
            bad(s, "multiple assignment targets")
        tg = s.targets[0]
        if isinstance(tg, ast.Subscript) and self_item(tg.value) is not None:      # E2: self[rk][key] = value
            sr, tr = self.expr(self_item(tg.value), env)
            sk, tk = self.expr(tg.slice, env)
            sv, tv = self.expr(s.value, env)
            if (sr, sk, sv) != ("S", "S", "X"):
                bad(s, "self[%s][%s] = %s" % (sr, sk, sv))
            return self.seq("[TSetItem %s %s %s]" % (tr, tk, tv), rest, env, k)
        if not isinstance(tg, ast.Name):
            bad(s, "assignment target")
        if tg.id in ("self",):
            bad(s, "assignment to self")
        sv, tv = self.expr(s.value, env)
        env = dict(env)
        if sv in ("Id", "Ids"):                                   # E4: erased
            env[tg.id] = (sv, tv)
            return "(* %s: identity bookkeeping (E4) *)\n%s" % (ast.unparse(s).replace("*)", "* )"), self.block(rest, env, k))
        if sv not in ("X", "I", "W", "S", "B", "K", "LK", "V", "F"):
            bad(s, "assignment of a value of sort %s" % sv)
        env[tg.id] = (sv, "v_" + tg.id)
        return "let v_%s := %s in\n%s" % (tg.id, tv, self.block(rest, env, k))

    def for_(self, s, rest, env, k):
        if s.orelse:
            bad(s, "for/else")
        for x in s.body:
            for y in ast.walk(x):
                if isinstance(y, (ast.For, ast.While)):
                    bad(y, "nested loop")
        env2 = dict(env)
        it = s.iter
        if isinstance(it, ast.Call) and isinstance(it.func, ast.Name) and it.func.id == "enumerate" and len(it.args) == 1 \
                and not it.keywords and isinstance(s.target, ast.Tuple) and len(s.target.elts) == 2 \
                and all(isinstance(e, ast.Name) for e in s.target.elts):
            so, to = self.expr(it.args[0], env)
            if so != "X":
                bad(s, "enumerate over sort %s" % so)
            i, x = (e.id for e in s.target.elts)
            env2[i] = ("N", "v_" + i)
            env2[x] = ("X", "v_" + x)
            body = self.block(list(s.body), env2, K("Ops", True))
            return self.seq("(for_enum (x_iter %s) (fun v_%s v_%s =>\n%s))" % (to, i, x, ind(body, 4)), rest, env, k)
        if isinstance(s.target, ast.Name):
            so, to = self.expr(it, env)
            if so != "LK":
                bad(s, "for over sort %s" % so)
            env2[s.target.id] = ("K", "v_" + s.target.id)
            body = self.block(list(s.body), env2, K("Ops", True))
            return self.seq("(for_each %s (fun v_%s =>\n%s))" % (to, s.target.id, ind(body, 4)), rest, env, k)
        bad(s, "for loop outside the supported fragment")

    def try_(self, s, rest, env, k):
        if s.finalbody or len(s.handlers) != 1:
            bad(s, "try shape")
        h = s.handlers[0]
        if h.name is not None or not (isinstance(h.type, ast.Name) and h.type.id == "AttributeError"):
            bad(h, "except clause")
        if k.in_loop:
            bad(s, "try inside a loop")
        # E6a
        if len(s.body) == 1 and isinstance(s.body[0], ast.Expr) and isinstance(s.body[0].value, ast.Attribute) \
                and s.body[0].value.attr == "_asdict" and s.orelse:
            so, to = self.expr(s.body[0].value.value, env)
            if so != "X":
                bad(s, "._asdict of sort %s" % so)
            a = self.block(list(s.orelse) + rest, dict(env), k)
            b = self.block(list(h.body) + rest, dict(env), k)
            return "if x_has_asdict %s\nthen\n%s\nelse\n%s" % (to, ind(a), ind(b))
        # E6b
        if len(s.body) == 1 and same(s.body[0], T2_BODY_SRC) and not s.orelse and len(h.body) == 1 and isinstance(h.body[0], ast.Try):
            inner = h.body[0]
            if inner.finalbody or inner.orelse or len(inner.handlers) != 1 or len(inner.body) != 1 or not same(inner.body[0], T2_SLOTS_SRC):
                bad(inner, "inner try of the attribute dictionary")
            h2 = inner.handlers[0]
            if h2.name is not None or not (isinstance(h2.type, ast.Name) and h2.type.id == "AttributeError"):
                bad(h2, "except clause")
            if env.get("obj", ("", ""))[0] != "X" or env.get("is_namedtuple", ("", ""))[0] != "B":
                bad(s, "attribute dictionary without obj / is_namedtuple")
            if not (h2.body and isinstance(h2.body[-1], ast.Return) and h2.body[-1].value is None):
                bad(h2, "the AttributeError handler does not end in `return`")
            fail = self.block(list(h2.body), dict(env), k)
            env2 = dict(env)
            env2["obj"] = ("X", "v_obj")
            ok = self.block(rest, env2, k)
            return ("match x_attrs_dict (o_str_attrs o) (o_bytes_attrs o) %s %s with\n| Some v_obj =>\n%s\n| None =>\n%s\nend"
                    % (env["is_namedtuple"][1], env["obj"][1], ind(ok), ind(fail)))
        bad(s, "try statement outside the supported fragment")

    # ---------------------------------------------------------------- methods
    def method(self, name):
        self.check_sig(name)
        fn = self.methods[name]
        env = {}
        params = ["(o : oracles) (c : config) (verbose_level : Z) (cs : bool)"]
        if name in self.needs_rec:
            env["__rec"] = True
            params.append("(v_rec : xvalue -> eitem -> pystr -> list top)")
        for p, sort, _ in SIGS[name]:
            if sort == "Ids":
                env[p] = ("Ids", "")
                continue
            env[p] = (sort, "v_" + p)
            params.append("(v_%s : %s)" % (p, COQTY[sort]))
        ret = RETSORT.get(name, "Ops")
        body = self.block(self.body_of(fn), env, K(ret))
        return "(* %s, %s:%d *)\nDefinition %s %s : %s :=\n%s.\n" % (
            name, SRC, fn.lineno, gname(name), "\n    ".join(params), "bool" if ret == "B" else "list top", ind(body, 2))

    # ---------------------------------------------------------------- __init__
    def init(self):
        fn = self.methods["__init__"]
        if ast.unparse(fn.args) != INIT_PARAMS:
            bad(fn, "parameters of __init__ are not the expected ones")
        skip = [d for s in SKIP_INIT_SRC for d in dump_src(s)]
        seen = []
        stmts = []
        shape = ""
        for s in self.body_of(fn):
            d = ast.dump(s)
            if d in skip:
                seen.append(d)
                shape += "S"
                continue
            stmts.append(s)
            shape += "T"
        if seen != skip or shape != INIT_SHAPE:
            bad(fn, "__init__: the untranslated statements (S3) are not exactly the expected ones, in the expected places")
        env = {"__init__": True, "obj": ("X", "v_obj"), "item": ("V", "v_item"),
               "case_sensitive": ("B", "(cs_flag c)"), "strict_checking": ("B", "(strict c)"),
               "self.use_regexp": ("B", "(use_regexp c)")}
        body = self.init_block(stmts, env)
        return ("\n(* __init__, %s:%d (the normalisation of `item`; E6c, E8, S3) *)\n"
                "Definition g_init (o : oracles) (c : config) (verbose_level : Z) (v_obj : xvalue) (v_item : value) : gresult :=\n%s.\n"
                % (SRC, fn.lineno, ind(body, 2)))

    def init_block(self, stmts, env):
        if not stmts:
            bad(None, "__init__ does not call __search")
        s, rest = stmts[0], stmts[1:]
        if isinstance(s, ast.Assign) and len(s.targets) == 1:
            tg = s.targets[0]
            if isinstance(tg, ast.Attribute) and is_self(tg.value) and tg.attr == "case_sensitive":
                sv, tv = self.expr(s.value, env)
                if sv != "B":
                    bad(s, "self.case_sensitive of sort %s" % sv)
                env = dict(env)
                env["self.case_sensitive"] = ("B", "self_case_sensitive")
                return "let self_case_sensitive := %s in\n%s" % (tv, self.init_block(rest, env))
            if isinstance(tg, ast.Name) and tg.id == "item":
                sv, tv = self.expr(s.value, env)
                if sv not in ("V",):
                    bad(s, "item of sort %s" % sv)
                return "let v_item := %s in\n%s" % (tv, self.init_block(rest, env))
            bad(s, "assignment in __init__")
        if isinstance(s, ast.If):
            st, t = self.expr(s.test, env)
            if st != "B":
                bad(s.test, "condition of sort %s" % st)
            return "if %s\nthen\n%s\nelse\n%s" % (t, ind(self.init_block(list(s.body) + rest, env)),
                                                 ind(self.init_block(list(s.orelse) + rest, env)))
        if isinstance(s, ast.Try):                                # E6c
            ok = (len(s.body) == 1 and same(s.body[0], "item = re.compile(item)") and not s.orelse and not s.finalbody
                  and len(s.handlers) == 1 and isinstance(s.handlers[0].type, ast.Name) and s.handlers[0].type.id == "TypeError"
                  and len(s.handlers[0].body) == 1 and isinstance(s.handlers[0].body[0], ast.Raise)
                  and isinstance(s.handlers[0].body[0].exc, ast.Call) and isinstance(s.handlers[0].body[0].exc.func, ast.Name)
                  and s.handlers[0].body[0].exc.func.id == "TypeError")
            if not ok or env.get("item", ("", ""))[0] != "V":
                bad(s, "try statement of __init__")
            env2 = dict(env)
            env2["item"] = ("I", "v_item")
            return ("match re_compile (o_re_ok o) v_item with\n| CTypeError => GRaise\n| CReError => GReErr\n| COk v_item =>\n%s\nend"
                    % ind(self.init_block(rest, env2)))
        if isinstance(s, ast.Expr) and isinstance(s.value, ast.Call) and self_method(s.value.func) == "__search":
            c = s.value
            if rest:
                bad(rest[0], "statement after the call of __search")
            if len(c.args) != 2 or [kw.arg for kw in c.keywords] != ["parents_ids"] \
                    or not same(c.keywords[0].value, "frozenset({id(obj)})"):
                bad(s, "the call of __search in __init__")
            so, to = self.expr(c.args[0], env)
            si, ti = self.expr(c.args[1], env)
            if so != "X" or "self.case_sensitive" not in env:
                bad(s, "the call of __search in __init__")
            ti = self.coerce(c.args[1], si, ti, "I")
            return ("GOk (g_search_fuel o c verbose_level self_case_sensitive (S (xdepth %s)) %s %s (s2p \"root\"))" % (to, to, ti))
        bad(s, "statement of __init__ outside the supported fragment")


def translate(repo):
    p = os.path.join(repo, SRC)
    with open(p) as f:
        src = f.read()
    tr = Translator(ast.parse(src))
    check_helper(repo)
    tr.check_module()
    order = tr.order()
    out = [HEADER]
    for m in order:
        out.append(tr.method(m))
    out.append(FUEL)
    out.append(tr.init())
    return "\n".join(out)


if __name__ == "__main__":
    import sys
    print(translate(sys.argv[1] if len(sys.argv) > 1 else "/repo"))

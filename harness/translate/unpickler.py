"""Source tie of C15 (Pickle block): a fail-closed, syntax-directed translator from the Python text of

    deepdiff/serialization.py :  SAFE_TO_IMPORT, MODULE_NOT_FOUND_MSG / FORBIDDEN_MODULE_MSG (when used),
                                 _RestrictedUnpickler.__init__ / find_class / persistent_load, pickle_load,
                                 _RestrictedPickler.persistent_id
    deepdiff/helper.py        :  strings  (only to resolve `isinstance(x, strings)`)

to Gallina definitions over the vocabulary of coq/theories/Pickle/SrcPrims.v:

    g_persistent_id  (obj : obj) : option pystr                            (_RestrictedPickler.persistent_id)
    g_SAFE_TO_IMPORT_names : list string      g_SAFE_TO_IMPORT : pyv
    g_init_allow     (kwargs_safe_to_import : option pyv) : pyv            (= self.safe_to_import after __init__)
    g_find_class     (sys_modules : process) (self_safe_to_import : pyv) (module name : pystr) : res gkind
    g_persistent_load (pid : obj) : obj
    g_pickle_load    (e : env) (content file_obj safe_to_import : pyv) : res result

One Python statement -> one Gallina line, same order, same case analysis; nothing is normalised.  Every node
shape that is not on the white-list below raises `Unsupported` (file, line, node).  No eval, no import of deepdiff.

STRUCTURAL CHECKS (part of the tie; the source is rejected otherwise) - see `structural_checks`.
SKIP RULES (trusted; each use is listed in the header of the generated file) - see `SKIP_RULES`.
"""
import ast
import os

SER = "deepdiff/serialization.py"
DELTA = "deepdiff/delta.py"
HELPER = "deepdiff/helper.py"


class Unsupported(Exception):
    pass


def bad(fn, node, why):
    raise Unsupported("%s:%s: %s: %s" % (fn, getattr(node, "lineno", "?"), type(node).__name__, why))


SKIP_RULES = {
    "docstring": "a string-literal expression statement (docstring) has no effect",
    "comment": "comments, `# NOQA`, `# type: ignore`, `# pragma` never reach the ast",
    "from-None": "`raise X from None` only suppresses exception chaining (__cause__/__context__): translated as `raise X`",
    "super-init": "`super().__init__(*args, **kwargs)` in _RestrictedUnpickler.__init__ hands the remaining arguments to the C "
                  "constructor pickle.Unpickler.__init__ (the file object); its model is the initial machine state of Vm.v",
    "self": "the unpickler object is represented by its one attribute self.safe_to_import",
    "pass": "`pass` has no effect",
    "logging": "a statement `logger.<level>(...)` on the module's logging.getLogger(__name__) object, with arguments the translator "
               "accepts as effect-free expressions, only writes a log record",
}

PICKLE_FAMILY = {"pickle", "_pickle", "cPickle", "_compat_pickle", "dill", "cloudpickle", "shelve", "marshal", "copyreg"}
GUARDED_NAMES = {"pickle", "sys", "io", "SAFE_TO_IMPORT", "strings", "_RestrictedUnpickler", "pickle_load", "ForbiddenModule",
                 "ModuleNotFoundError", "set", "frozenset", "isinstance", "getattr", "type", "str", "bytes", "list", "tuple",
                 "super", "bool", "KeyError", "ValueError"}
CLS = {"str": "CStr", "bytes": "CBytes", "list": "CList", "tuple": "CTuple", "set": "CSet", "frozenset": "CFrozenset"}
EXC = {"ValueError": "EValueError", "ModuleNotFoundError": "EModuleNotFound", "ForbiddenModule": "EForbiddenModule"}


def coq_str(fn, node, s):
    if not isinstance(s, str) or not all(32 <= ord(c) < 127 for c in s):
        bad(fn, node, "string literal outside printable ASCII")
    return '"' + s.replace('"', '""') + '"'


def clean(s):
    """text that goes inside a Coq comment: no comment brackets, no string quotes (Coq lexes strings inside comments)"""
    return s.replace("(*", "( *").replace("*)", "* )").replace('"', "'")


def src_of(text, node):
    seg = ast.get_source_segment(text, node) or ""
    first = seg.strip().splitlines()[0].strip() if seg.strip() else type(node).__name__
    return clean(first)


# ---------------------------------------------------------------------------------------------------------
# structural checks
# ---------------------------------------------------------------------------------------------------------

def _bound_names(tree):
    """every (name, node) bound AT MODULE SCOPE: assignment / del / for / with / except / walrus targets, def and class
    names, import aliases of module-level statements (compound statements are entered, function and class bodies are
    not: what they bind is local), plus every name a function declares `global`"""
    out = []

    def scan(n, top):
        if isinstance(n, (ast.FunctionDef, ast.AsyncFunctionDef, ast.ClassDef)):
            if top:
                out.append((n.name, n))
            for c in ast.walk(n):
                if isinstance(c, ast.Global):
                    for x in c.names:
                        out.append((x, c))
            return
        if isinstance(n, ast.Lambda):
            return
        if isinstance(n, ast.Name) and isinstance(n.ctx, (ast.Store, ast.Del)):
            out.append((n.id, n))
        elif isinstance(n, (ast.Import, ast.ImportFrom)):
            for a in n.names:
                out.append(((a.asname or a.name).split(".")[0], n))
        elif isinstance(n, ast.ExceptHandler) and n.name:
            out.append((n.name, n))
        for c in ast.iter_child_nodes(n):
            scan(c, False)
    for s in tree.body:
        scan(s, True)
    return out


def _pickle_imports(fn, tree):
    hits = []
    for n in ast.walk(tree):
        if isinstance(n, ast.Import):
            for a in n.names:
                if a.name.split(".")[0] in PICKLE_FAMILY:
                    hits.append((n, a))
        elif isinstance(n, ast.ImportFrom):
            if (n.module or "").split(".")[0] in PICKLE_FAMILY:
                hits.append((n, None))
        elif isinstance(n, ast.Call) and isinstance(n.func, ast.Name) and n.func.id in ("__import__", "import_module"):
            hits.append((n, None))
        elif isinstance(n, ast.Attribute) and n.attr == "import_module":
            hits.append((n, None))
    return hits


def structural_checks(repo, ser_tree, checks):
    """fail-closed checks outside the translated statements; `checks` collects their one-line descriptions"""
    # 1. the only pickle-family import of the whole package is serialization.py's top-level `import pickle`
    pkg = os.path.join(repo, "deepdiff")
    for root, _d, files in sorted(os.walk(pkg)):
        for f in sorted(files):
            if not f.endswith(".py"):
                continue
            p = os.path.join(root, f)
            rel = os.path.relpath(p, repo)
            tree = ser_tree if rel == SER else ast.parse(open(p, encoding="utf-8").read())
            for node, alias in _pickle_imports(rel, tree):
                ok = (rel == SER and isinstance(node, ast.Import) and alias is not None and alias.name == "pickle"
                      and alias.asname is None and node in ser_tree.body)
                if not ok:
                    bad(rel, node, "import of a pickle-family module / dynamic import (only serialization.py's top-level "
                                   "`import pickle` is admitted)")
            if rel != SER:
                for n in ast.walk(tree):
                    ident = n.id if isinstance(n, ast.Name) else n.attr if isinstance(n, ast.Attribute) else None
                    if isinstance(n, (ast.Import, ast.ImportFrom)):
                        for a in n.names:
                            if a.name in ("SAFE_TO_IMPORT", "_RestrictedUnpickler") or a.asname in ("SAFE_TO_IMPORT", "_RestrictedUnpickler"):
                                bad(rel, n, "SAFE_TO_IMPORT / _RestrictedUnpickler used outside serialization.py")
                    if ident in ("SAFE_TO_IMPORT", "_RestrictedUnpickler"):
                        bad(rel, n, "SAFE_TO_IMPORT / _RestrictedUnpickler used outside serialization.py")
    checks.append("no module of the package other than serialization.py imports pickle / _pickle / cPickle / dill / cloudpickle / "
                  "shelve / marshal / copyreg, calls __import__ / import_module, or mentions SAFE_TO_IMPORT / _RestrictedUnpickler; "
                  "serialization.py imports pickle once, at top level, without alias")
    n_imp = sum(1 for node, _a in _pickle_imports(SER, ser_tree))
    if n_imp != 1:
        bad(SER, ser_tree.body[0], "expected exactly one `import pickle`, found %d pickle-family imports" % n_imp)
    # 2. the name `pickle` is used only as the base classes pickle.Unpickler / pickle.Pickler
    allowed = []
    for n in ser_tree.body:
        if isinstance(n, ast.ClassDef) and n.name in ("_RestrictedUnpickler", "_RestrictedPickler"):
            want = "Unpickler" if n.name == "_RestrictedUnpickler" else "Pickler"
            if len(n.bases) == 1 and isinstance(n.bases[0], ast.Attribute) and isinstance(n.bases[0].value, ast.Name) \
                    and n.bases[0].value.id == "pickle" and n.bases[0].attr == want:
                allowed.append(n.bases[0].value)
    for n in ast.walk(ser_tree):
        if isinstance(n, ast.Name) and n.id == "pickle" and not any(n is a for a in allowed):
            bad(SER, n, "use of the module `pickle` other than as the base class pickle.Unpickler of _RestrictedUnpickler / "
                        "pickle.Pickler of _RestrictedPickler (pickle.load / pickle.loads / pickle.Unpickler(...) would bypass find_class)")
    checks.append("in serialization.py the name `pickle` occurs only as the base class `pickle.Unpickler` of _RestrictedUnpickler and "
                  "`pickle.Pickler` of _RestrictedPickler: no pickle.load / pickle.loads / pickle.Unpickler(...) call anywhere; "
                  "delta.py does not mention pickle at all")
    # 3. guarded names are bound exactly once (their defining statement), builtins never
    defined_once = {"pickle", "sys", "io", "SAFE_TO_IMPORT", "strings", "_RestrictedUnpickler", "pickle_load", "ForbiddenModule",
                    "ModuleNotFoundError"}
    counts = {}
    for name, node in _bound_names(ser_tree):
        if name in GUARDED_NAMES:
            counts.setdefault(name, []).append(node)
    for name, nodes in sorted(counts.items()):
        if name in defined_once:
            if len(nodes) != 1 or not any(nodes[0] is b or (isinstance(b, ast.Assign) and nodes[0] in ast.walk(b)) for b in ser_tree.body):
                bad(SER, nodes[-1], "the name %r is bound %d times / not at top level" % (name, len(nodes)))
        else:
            bad(SER, nodes[0], "the builtin name %r is rebound" % name)
    for name in sorted(defined_once):
        if name not in counts:
            bad(SER, ser_tree.body[0], "the name %r is not defined at top level" % name)
    # parameters shadowing a guarded name, anywhere in the module
    for n in ast.walk(ser_tree):
        if isinstance(n, ast.arg) and n.arg in GUARDED_NAMES:
            bad(SER, n, "a parameter shadows the guarded name %r" % n.arg)
    checks.append("the names pickle, sys, io, SAFE_TO_IMPORT, strings, _RestrictedUnpickler, pickle_load, ForbiddenModule, "
                  "ModuleNotFoundError are bound exactly once, at top level of serialization.py (`import sys`, `import io`, "
                  "`from deepdiff.helper import strings`, two ImportError subclasses); the builtins set, frozenset, isinstance, "
                  "getattr, type, str, bytes, list, tuple, super, bool, KeyError, ValueError are never rebound or shadowed")
    for name, modname in (("sys", "sys"), ("io", "io")):
        node = counts[name][0]
        if not (isinstance(node, ast.Import) and any(a.name == modname and a.asname is None for a in node.names)):
            bad(SER, node, "`%s` is not bound by a plain `import %s`" % (name, modname))
    node = counts["strings"][0]
    if not (isinstance(node, ast.ImportFrom) and node.module == "deepdiff.helper" and node.level == 0
            and any(a.name == "strings" and a.asname is None for a in node.names)):
        bad(SER, node, "`strings` is not imported from deepdiff.helper")
    for name in ("ForbiddenModule", "ModuleNotFoundError"):
        node = counts[name][0]
        if not (isinstance(node, ast.ClassDef) and len(node.bases) == 1 and isinstance(node.bases[0], ast.Name)
                and node.bases[0].id == "ImportError" and not node.keywords and not node.decorator_list
                and all(isinstance(s, ast.Pass) or (isinstance(s, ast.Expr) and isinstance(s.value, ast.Constant)) for s in node.body)):
            bad(SER, node, "%s is not a plain subclass of ImportError with an empty body" % name)
    # 4. SAFE_TO_IMPORT / _RestrictedUnpickler are mentioned only where the translation reads them
    cls = counts["_RestrictedUnpickler"][0]
    pl = counts["pickle_load"][0]
    init = [s for s in cls.body if isinstance(s, ast.FunctionDef) and s.name == "__init__"] if isinstance(cls, ast.ClassDef) else []
    inside_init = set(id(x) for f in init for x in ast.walk(f))
    inside_pl = set(id(x) for x in ast.walk(pl))
    for n in ast.walk(ser_tree):
        if isinstance(n, ast.Name) and n.id == "SAFE_TO_IMPORT":
            if isinstance(n.ctx, ast.Load) and id(n) not in inside_init:
                bad(SER, n, "SAFE_TO_IMPORT is read outside _RestrictedUnpickler.__init__ (it could be mutated or replaced)")
        if isinstance(n, ast.Name) and n.id == "_RestrictedUnpickler" and id(n) not in inside_pl:
            bad(SER, n, "_RestrictedUnpickler is mentioned outside pickle_load (it could be patched or instantiated elsewhere)")
        if isinstance(n, ast.Attribute) and n.attr in ("find_class", "persistent_load", "safe_to_import") \
                and not (isinstance(n.value, ast.Name) and n.value.id == "self" and n.attr == "safe_to_import"
                         and any(id(n) in set(id(x) for x in ast.walk(f)) for f in cls.body if isinstance(f, ast.FunctionDef))):
            bad(SER, n, "attribute .%s accessed outside the methods of _RestrictedUnpickler" % n.attr)
        if isinstance(n, ast.Call) and isinstance(n.func, ast.Name) and n.func.id in ("setattr", "delattr", "exec", "eval", "globals", "vars"):
            inside_cls = id(n) in set(id(x) for x in ast.walk(cls)) or id(n) in inside_pl
            if inside_cls:
                bad(SER, n, "%s() inside the translated fragment" % n.func.id)
    checks.append("SAFE_TO_IMPORT is read only inside _RestrictedUnpickler.__init__; _RestrictedUnpickler is mentioned only inside "
                  "pickle_load; the attributes .find_class / .persistent_load / .safe_to_import are touched nowhere but as "
                  "self.safe_to_import inside the class")
    # 5. the class itself
    if not isinstance(cls, ast.ClassDef):
        bad(SER, cls, "_RestrictedUnpickler is not a class")
    if cls.decorator_list or cls.keywords:
        bad(SER, cls, "_RestrictedUnpickler has a decorator / metaclass / class keywords")
    b = cls.bases
    if not (len(b) == 1 and isinstance(b[0], ast.Attribute) and isinstance(b[0].value, ast.Name) and b[0].value.id == "pickle"
            and b[0].attr == "Unpickler"):
        bad(SER, cls, "_RestrictedUnpickler does not subclass exactly pickle.Unpickler")
    seen = []
    for s in cls.body:
        if isinstance(s, ast.Expr) and isinstance(s.value, ast.Constant) and isinstance(s.value.value, str):
            continue
        if isinstance(s, ast.FunctionDef) and s.name in ("__init__", "find_class", "persistent_load") and s.name not in seen:
            seen.append(s.name)
            continue
        bad(SER, s, "_RestrictedUnpickler defines something besides __init__ / find_class / persistent_load (another override "
                    "could resolve globals or replace the machine)")
    if sorted(seen) != ["__init__", "find_class", "persistent_load"]:
        bad(SER, cls, "_RestrictedUnpickler lacks one of __init__ / find_class / persistent_load")
    checks.append("_RestrictedUnpickler subclasses exactly pickle.Unpickler (no decorator, metaclass or keyword) and its body is "
                  "exactly the three methods __init__, find_class, persistent_load (plus an optional docstring): find_class is the "
                  "only override through which the inherited C machine can obtain a global")
    if not isinstance(pl, ast.FunctionDef):
        bad(SER, pl, "pickle_load is not a function")
    # 6. delta.py: pickle_load comes from deepdiff.serialization and is never rebound
    dp = os.path.join(repo, DELTA)
    dtree = ast.parse(open(dp, encoding="utf-8").read())
    src = [n for n in dtree.body if isinstance(n, ast.ImportFrom) and n.module == "deepdiff.serialization" and n.level == 0
           and any(a.name == "pickle_load" and a.asname is None for a in n.names)]
    binds = [node for name, node in _bound_names(dtree) if name == "pickle_load"]
    if len(src) != 1 or len(binds) != 1 or binds[0] is not src[0]:
        bad(DELTA, (binds or dtree.body)[0], "pickle_load is not bound exactly once by `from deepdiff.serialization import pickle_load`")
    for n in ast.walk(dtree):
        if isinstance(n, ast.Name) and n.id == "pickle":
            bad(DELTA, n, "delta.py mentions the module pickle")
    checks.append("delta.py binds pickle_load exactly once, by `from deepdiff.serialization import pickle_load`")
    return cls, pl


def helper_strings(repo):
    p = os.path.join(repo, HELPER)
    tree = ast.parse(open(p, encoding="utf-8").read())
    defs = [n for name, n in _bound_names(tree) if name == "strings"]
    if len(defs) != 1:
        bad(HELPER, (defs or tree.body)[0], "`strings` is bound %d times" % len(defs))
    for s in tree.body:
        if isinstance(s, ast.Assign) and len(s.targets) == 1 and isinstance(s.targets[0], ast.Name) and s.targets[0].id == "strings":
            v = s.value
            if isinstance(v, ast.Tuple) and v.elts and all(isinstance(e, ast.Name) and e.id in CLS for e in v.elts):
                for nm, node in _bound_names(tree):
                    if nm in CLS:
                        bad(HELPER, node, "builtin %r rebound in helper.py" % nm)
                return [CLS[e.id] for e in v.elts]
            bad(HELPER, s, "`strings` is not a tuple of builtin classes")
    bad(HELPER, defs[0], "`strings` is not a top-level assignment")


# ---------------------------------------------------------------------------------------------------------
# the statement / expression translator
# ---------------------------------------------------------------------------------------------------------

class Fn:
    """one function.  domain: 'pyv' (values of SrcPrims.pyv) or 'obj' (machine objects, persistent_load).
    monadic: results have type `res T` (the function can raise).  ret_ok(type) -> bool."""

    def __init__(self, tr, node, where, domain, monadic, vars_, ret_types, falloff, self_attr=False):
        self.tr, self.node, self.where, self.domain, self.monadic = tr, node, where, domain, monadic
        self.vars = dict(vars_)           # python name -> type ; Coq name == python name (self.safe_to_import -> self_safe_to_import)
        self.ret_types, self.falloff = ret_types, falloff
        self.self_attr = self_attr

    def bad(self, node, why):
        bad(SER, node, "in %s: %s" % (self.where, why))

    # ---- expressions: -> (text, type, effectful) --------------------------------------------------------
    def as_pyv(self, node, t):
        text, ty = t
        if ty == "pyv":
            return text
        if ty == "str":
            return "(VStr %s)" % text
        self.bad(node, "a %s where a Python value of the modelled universe is expected" % ty)

    def truth(self, node):
        text, ty, eff = self.expr(node)
        if eff:
            self.bad(node, "effectful expression in a condition")
        if ty == "bool":
            return text
        if ty in ("pyv", "str") and self.domain == "pyv":
            return "(py_truth %s)" % self.as_pyv(node, (text, ty))
        self.bad(node, "truth value of a %s" % ty)

    def pure(self, node, want=None):
        text, ty, eff = self.expr(node)
        if eff:
            self.bad(node, "effectful sub-expression (only `x = <effect>` / `return <effect>` are supported)")
        if want is not None and ty != want:
            if want == "pyv" and ty == "str":
                return self.as_pyv(node, (text, ty))
            self.bad(node, "expected %s, found %s" % (want, ty))
        return text

    def template(self, node):
        """a str.format template: a literal or a top-level str constant; only `{}` fields"""
        if isinstance(node, ast.Constant) and isinstance(node.value, str):
            lit, text = node.value, "(s2p %s)" % coq_str(SER, node, node.value)
        elif isinstance(node, ast.Name) and node.id in self.tr.str_consts:
            lit, text = self.tr.str_consts[node.id], self.tr.use_const(node.id)
        else:
            self.bad(node, ".format on something that is not a string literal / top-level string constant")
        rest = lit.replace("{}", "")
        if "{" in rest or "}" in rest:
            self.bad(node, "format template with a replacement field other than `{}`")
        return text, lit.count("{}")

    def classes(self, node):
        if isinstance(node, ast.Name) and node.id == "strings":
            return list(self.tr.strings)
        if isinstance(node, ast.Name) and node.id in CLS:
            return [CLS[node.id]]
        if isinstance(node, ast.Tuple) and node.elts and all(isinstance(e, ast.Name) and e.id in CLS for e in node.elts):
            return [CLS[e.id] for e in node.elts]
        self.bad(node, "isinstance against something other than str / bytes / list / tuple / set / frozenset / helper.strings")

    def expr(self, n):
        d = self.domain
        if isinstance(n, ast.Constant):
            if n.value is None:
                return ("VNone" if d == "pyv" else "ONone"), d, False
            if isinstance(n.value, str):
                return "(s2p %s)" % coq_str(SER, n, n.value), "str", False
            self.bad(n, "constant %r" % (n.value,))
        if isinstance(n, ast.Name):
            if not isinstance(n.ctx, ast.Load):
                self.bad(n, "name in store context")
            if n.id in self.vars:
                return n.id, self.vars[n.id], False
            if n.id == "SAFE_TO_IMPORT" and d == "pyv":
                return "g_SAFE_TO_IMPORT", "pyv", False
            if n.id in self.tr.str_consts:
                return self.tr.use_const(n.id), "str", False
            if n.id == "NONE_TYPE" and d == "obj" and self.tr.none_type_ok:
                return "ONoneType", "obj", False
            self.bad(n, "unknown name %r" % n.id)
        if isinstance(n, ast.Attribute):
            if self.self_attr and isinstance(n.value, ast.Name) and n.value.id == "self" and n.attr == "safe_to_import" \
                    and isinstance(n.ctx, ast.Load):
                if "self_safe_to_import" not in self.vars:
                    self.bad(n, "self.safe_to_import read before it is assigned")
                return "self_safe_to_import", "pyv", False
            self.bad(n, "attribute .%s" % n.attr)
        if isinstance(n, ast.JoinedStr):
            parts = []
            for v in n.values:
                if isinstance(v, ast.Constant) and isinstance(v.value, str):
                    parts.append("(s2p %s)" % coq_str(SER, v, v.value))
                elif isinstance(v, ast.FormattedValue) and v.conversion == -1 and v.format_spec is None:
                    parts.append(self.pure(v.value, "str"))
                else:
                    self.bad(v, "f-string part")
            return "(" + " ++ ".join(parts + ["[]"]) + ")%list", "str", False
        if isinstance(n, ast.BinOp):
            if isinstance(n.op, ast.BitOr) and d == "pyv":
                return "(py_or %s %s)" % (self.pure(n.left, "pyv"), self.pure(n.right, "pyv")), "pyv", False
            if isinstance(n.op, ast.Add):
                return "(%s ++ %s)%%list" % (self.pure(n.left, "str"), self.pure(n.right, "str")), "str", False
            self.bad(n, "binary operator %s" % type(n.op).__name__)
        if isinstance(n, ast.UnaryOp) and isinstance(n.op, ast.Not):
            return "(negb %s)" % self.truth(n.operand), "bool", False
        if isinstance(n, ast.BoolOp):
            op = "andb" if isinstance(n.op, ast.And) else "orb"
            text = self.truth(n.values[0])
            for v in n.values[1:]:
                text = "(%s %s %s)" % (op, text, self.truth(v))
            return text, "bool", False
        if isinstance(n, ast.IfExp):
            a, ta, ea = self.expr(n.body)
            b, tb, eb = self.expr(n.orelse)
            if ea or eb or ta != tb:
                self.bad(n, "conditional expression with effectful / differently typed branches")
            return "(if %s then %s else %s)" % (self.truth(n.test), a, b), ta, False
        if isinstance(n, ast.Compare):
            if len(n.ops) != 1:
                self.bad(n, "chained comparison")
            op, right = n.ops[0], n.comparators[0]
            if isinstance(op, (ast.In, ast.NotIn)) and d == "pyv":
                t = "(py_in %s %s)" % (self.pure(n.left, "str"), self.pure(right, "pyv"))
                return (t if isinstance(op, ast.In) else "(negb %s)" % t), "bool", False
            if isinstance(op, (ast.Is, ast.IsNot)) and d == "obj":
                l, lt, le = self.expr(n.left)
                r, rt, re_ = self.expr(right)
                if le or re_ or lt != "obj" or rt != "obj":
                    self.bad(n, "`is` between %s and %s" % (lt, rt))
                if r == "ONoneType":
                    t = "(obj_is_nonetype %s)" % l
                elif l == "ONoneType":
                    t = "(obj_is_nonetype %s)" % r
                elif r == "ONone":
                    t = "(obj_is_none %s)" % l
                else:
                    self.bad(n, "`is` against something other than NONE_TYPE / type(None) / None")
                return (t if isinstance(op, ast.Is) else "(negb %s)" % t), "bool", False
            if isinstance(op, (ast.Eq, ast.NotEq)) and d == "obj":
                l, lt, le = self.expr(n.left)
                r, rt, re_ = self.expr(right)
                if le or re_:
                    self.bad(n, "effectful comparison")
                if lt == "obj" and rt == "str":
                    t = "(obj_eq_str %s %s)" % (l, r)
                elif lt == "str" and rt == "obj":
                    t = "(obj_eq_str %s %s)" % (r, l)
                else:
                    self.bad(n, "== between %s and %s" % (lt, rt))
                return (t if isinstance(op, ast.Eq) else "(negb %s)" % t), "bool", False
            self.bad(n, "comparison %s" % type(op).__name__)
        if isinstance(n, ast.List) and d == "pyv":
            return "(VList [%s])" % "; ".join(self.pure(e, "pyv") for e in n.elts), "pyv", False
        if isinstance(n, ast.Tuple) and d == "pyv" and isinstance(n.ctx, ast.Load):
            return "(VTuple [%s])" % "; ".join(self.pure(e, "pyv") for e in n.elts), "pyv", False
        if isinstance(n, ast.Set) and d == "pyv":
            return "(VSet [%s])" % "; ".join(self.pure(e, "pyv") for e in n.elts), "pyv", False
        if isinstance(n, ast.Subscript):
            v = n.value
            if isinstance(v, ast.Attribute) and isinstance(v.value, ast.Name) and v.value.id == "sys" and v.attr == "modules" \
                    and isinstance(n.ctx, ast.Load) and "sys_modules" in self.vars:
                return "(sys_modules_getitem sys_modules %s)" % self.pure(n.slice, "str"), "modobj", True
            self.bad(n, "subscript other than sys.modules[<str>]")
        if isinstance(n, ast.Call):
            return self.call(n)
        self.bad(n, "expression form not on the white-list")

    def call(self, n):
        d = self.domain
        f = n.func
        if any(isinstance(a, ast.Starred) for a in n.args) or any(k.arg is None for k in n.keywords):
            self.bad(n, "star-arguments")
        if isinstance(f, ast.Name):
            if n.keywords:
                self.bad(n, "keyword arguments to %s()" % f.id)
            if f.id == "isinstance" and len(n.args) == 2 and d == "pyv":
                return "(py_isinstance %s [%s])" % (self.pure(n.args[0], "pyv"), "; ".join(self.classes(n.args[1]))), "bool", False
            if f.id == "set" and len(n.args) == 1 and d == "pyv":
                return "(py_set %s)" % self.pure(n.args[0], "pyv"), "pyv", False
            if f.id == "set" and not n.args and d == "pyv":
                return "(VSet [])", "pyv", False
            if f.id == "bool" and len(n.args) == 1:
                return self.truth(n.args[0]), "bool", False
            if f.id == "getattr" and len(n.args) == 2:
                return "(py_getattr %s %s)" % (self.pure(n.args[0], "modobj"), self.pure(n.args[1], "str")), "gkind", True
            if f.id == "type" and len(n.args) == 1 and isinstance(n.args[0], ast.Constant) and n.args[0].value is None and d == "obj":
                return "ONoneType", "obj", False
            self.bad(n, "call of %s with %d argument(s)" % (f.id, len(n.args)))
        if isinstance(f, ast.Attribute):
            if f.attr == "format":
                if n.keywords:
                    self.bad(n, "keyword arguments to .format")
                tpl, nfields = self.template(f.value)
                if nfields != len(n.args):
                    self.bad(n, ".format with %d field(s) and %d argument(s)" % (nfields, len(n.args)))
                return "(py_format %s [%s])" % (tpl, "; ".join(self.pure(a, "str") for a in n.args)), "str", False
            if f.attr == "pop" and isinstance(f.value, ast.Name) and f.value.id == "kwargs" and "kwargs_safe_to_import" in self.vars:
                if n.keywords or len(n.args) != 2 or not (isinstance(n.args[0], ast.Constant) and n.args[0].value == "safe_to_import"):
                    self.bad(n, "kwargs.pop other than kwargs.pop('safe_to_import', <default>)")
                if self.tr.popped:
                    self.bad(n, "kwargs.pop('safe_to_import', ...) evaluated twice")
                self.tr.popped = True
                return "(py_kwargs_pop kwargs_safe_to_import %s)" % self.pure(n.args[1], "pyv"), "pyv", False
            if f.attr == "encode" and d == "pyv" and not n.keywords and (
                    not n.args or (len(n.args) == 1 and isinstance(n.args[0], ast.Constant) and n.args[0].value in ("utf-8", "utf8"))):
                return "(py_encode_utf8 %s)" % self.pure(f.value, "pyv"), "pyv", False
            if f.attr == "BytesIO" and isinstance(f.value, ast.Name) and f.value.id == "io" and len(n.args) == 1 and not n.keywords \
                    and d == "pyv":
                return "(py_BytesIO %s)" % self.pure(n.args[0], "pyv"), "pyv", False
            if f.attr == "load" and not n.args and not n.keywords and isinstance(f.value, ast.Call) \
                    and isinstance(f.value.func, ast.Name) and f.value.func.id == "_RestrictedUnpickler" and "e" in self.vars:
                c = f.value
                if len(c.args) != 1 or any(isinstance(a, ast.Starred) for a in c.args):
                    self.bad(c, "_RestrictedUnpickler(...) with other than one positional argument (the file object)")
                kw = {k.arg: k.value for k in c.keywords}
                if None in kw or set(kw) - {"safe_to_import"}:
                    self.bad(c, "_RestrictedUnpickler(...) with a keyword other than safe_to_import")
                arg = "(Some %s)" % self.pure(kw["safe_to_import"], "pyv") if "safe_to_import" in kw else "None"
                return "(unpickler_load e (g_init_allow %s) %s)" % (arg, self.pure(c.args[0], "pyv")), "result", True
            self.bad(n, "method call .%s" % f.attr)
        self.bad(n, "call form not on the white-list")

    def exception(self, n):
        if isinstance(n, ast.Call) and isinstance(n.func, ast.Name) and n.func.id in EXC and len(n.args) == 1 and not n.keywords:
            return "(%s %s)" % (EXC[n.func.id], self.pure(n.args[0], "str"))
        self.bad(n, "raise of something other than ValueError / ModuleNotFoundError / ForbiddenModule with one message")

    # ---- statements -----------------------------------------------------------------------------------
    def target(self, t):
        if isinstance(t, ast.Name):
            if t.id in GUARDED_NAMES or t.id in ("self", "e", "sys_modules", "kwargs", "args"):
                self.bad(t, "assignment to %r" % t.id)
            return t.id
        if self.self_attr and isinstance(t, ast.Attribute) and isinstance(t.value, ast.Name) and t.value.id == "self" \
                and t.attr == "safe_to_import":
            return "self_safe_to_import"
        self.bad(t, "assignment target")

    def skip(self, s):
        if isinstance(s, ast.Pass):
            self.tr.skipped.append(("pass", self.where))
            return True
        if isinstance(s, ast.Expr) and isinstance(s.value, ast.Constant) and isinstance(s.value.value, str):
            self.tr.skipped.append(("docstring", self.where))
            return True
        if isinstance(s, ast.Expr) and isinstance(s.value, ast.Call) and isinstance(s.value.func, ast.Attribute) \
                and isinstance(s.value.func.value, ast.Name) and s.value.func.value.id == "logger" and self.tr.logger_ok \
                and s.value.func.attr in ("debug", "info", "warning", "error", "critical", "exception") and not s.value.keywords:
            for a in s.value.args:
                self.pure(a)            # every argument must itself be a white-listed effect-free expression
            self.tr.skipped.append(("logging", self.where))
            return True
        if isinstance(s, ast.Expr) and self.where.endswith("__init__") and isinstance(s.value, ast.Call):
            c = s.value
            if isinstance(c.func, ast.Attribute) and c.func.attr == "__init__" and isinstance(c.func.value, ast.Call) \
                    and isinstance(c.func.value.func, ast.Name) and c.func.value.func.id == "super" and not c.func.value.args \
                    and not c.func.value.keywords and len(c.args) == 1 and isinstance(c.args[0], ast.Starred) \
                    and isinstance(c.args[0].value, ast.Name) and c.args[0].value.id == "args" and len(c.keywords) == 1 \
                    and c.keywords[0].arg is None and isinstance(c.keywords[0].value, ast.Name) and c.keywords[0].value.id == "kwargs":
                if not self.tr.popped:
                    self.bad(s, "super().__init__(*args, **kwargs) before safe_to_import was popped from kwargs")
                self.tr.skipped.append(("super-init", self.where))
                self.tr.super_seen += 1
                return True
        return False

    @staticmethod
    def terminates(stmts):
        if not stmts:
            return False
        s = stmts[-1]
        if isinstance(s, (ast.Return, ast.Raise)):
            return True
        if isinstance(s, ast.If):
            return bool(s.orelse) and Fn.terminates(s.body) and Fn.terminates(s.orelse)
        if isinstance(s, ast.Try):
            return Fn.terminates(s.body) and all(Fn.terminates(h.body) for h in s.handlers)
        return False

    def assigned(self, stmts, acc):
        for s in stmts:
            if isinstance(s, (ast.Assign, ast.AugAssign)):
                for t in (s.targets if isinstance(s, ast.Assign) else [s.target]):
                    nm = self.target(t)
                    if nm not in acc:
                        acc.append(nm)
            elif isinstance(s, ast.If):
                self.assigned(s.body, acc)
                self.assigned(s.orelse, acc)
            elif isinstance(s, (ast.Return, ast.Raise, ast.Try)):
                self.bad(s, "return / raise / try inside a branch that can also fall through")
        return acc

    def cmt(self, s, extra=""):
        return "(* %s%s *)" % (src_of(self.tr.text, s), extra)

    def ret(self, node, text, ty, eff):
        if not self.ret_types(ty):
            self.bad(node, "returns a %s" % ty)
        if getattr(self, "wrap", None):
            return self.wrap(text, ty)
        if eff:
            if not self.monadic:
                self.bad(node, "effect in a function translated as pure")
            return text
        return "Ret %s" % text if self.monadic else text

    def seq(self, stmts, k, ind):
        """Coq text (list of lines) for the statements followed by the continuation k(); k is called after the
        statements were processed (so it sees their variable types)"""
        pad = "  " * ind
        if not stmts:
            return k(ind)
        s, rest = stmts[0], stmts[1:]
        if self.skip(s):
            return self.seq(rest, k, ind)
        if isinstance(s, ast.Assign) or isinstance(s, ast.AugAssign):
            if isinstance(s, ast.AugAssign):
                if not isinstance(s.op, ast.BitOr) or self.domain != "pyv":
                    self.bad(s, "augmented assignment other than |=")
                nm = self.target(s.target)
                if self.vars.get(nm) != "pyv":
                    self.bad(s, "|= on an unassigned variable")
                text, ty, eff = "(py_or %s %s)" % (nm, self.pure(s.value, "pyv")), "pyv", False
            else:
                if len(s.targets) != 1:
                    self.bad(s, "multiple assignment targets")
                nm = self.target(s.targets[0])
                text, ty, eff = self.expr(s.value)
            if nm == "self_safe_to_import" and ty == "str":
                text, ty = "(VStr %s)" % text, "pyv"
            if nm in self.vars and self.vars[nm] != ty:
                self.bad(s, "%s changes its type from %s to %s" % (nm, self.vars[nm], ty))
            if eff:
                if not self.monadic:
                    self.bad(s, "effect in a function translated as pure")
                self.vars[nm] = ty
                return ([pad + "match %s with %s" % (text, self.cmt(s)), pad + "| Raise exn => Raise exn", pad + "| Ret %s =>" % nm]
                        + self.seq(rest, k, ind) + [pad + "end"])
            self.vars[nm] = ty
            return [pad + "let %s := %s in %s" % (nm, text, self.cmt(s))] + self.seq(rest, k, ind)
        if isinstance(s, ast.Return):
            if rest:
                self.bad(rest[0], "statement after return")
            if s.value is None:
                return [pad + self.falloff(self, s) + " " + self.cmt(s)]
            text, ty, eff = self.expr(s.value)
            return [pad + self.ret(s, text, ty, eff) + " " + self.cmt(s)]
        if isinstance(s, ast.Raise):
            if rest:
                self.bad(rest[0], "statement after raise")
            if not self.monadic:
                self.bad(s, "raise in a function translated as pure")
            if s.cause is not None:
                if not (isinstance(s.cause, ast.Constant) and s.cause.value is None):
                    self.bad(s, "raise ... from <something other than None>")
                self.tr.skipped.append(("from-None", self.where))
            if s.exc is None:
                self.bad(s, "bare raise")
            return [pad + "Raise %s %s" % (self.exception(s.exc), self.cmt(s))]
        if isinstance(s, ast.If):
            cond = self.truth(s.test)
            head = "if %s:" % src_of(self.tr.text, s.test)
            bt, ot = self.terminates(s.body), self.terminates(s.orelse)
            dead = lambda ind_: self.bad(s, "internal: fell through a terminating branch")   # noqa: E731
            if bt and ot:
                if rest:
                    self.bad(rest[0], "statement after an if whose branches both return / raise")
                saved = dict(self.vars)
                a = self.seq(s.body, dead, ind + 1)
                self.vars = dict(saved)
                b = self.seq(s.orelse, dead, ind + 1)
                return [pad + "if %s then (* %s *)" % (cond, head)] + a + [pad + "else"] + b
            if bt:
                saved = dict(self.vars)
                a = self.seq(s.body, dead, ind + 1)
                self.vars = dict(saved)
                b = self.seq(list(s.orelse) + list(rest), k, ind)
                return [pad + "if %s then (* %s *)" % (cond, head)] + a + [pad + "else"] + b
            if ot:
                saved = dict(self.vars)
                b = self.seq(s.orelse, dead, ind + 1)
                self.vars = dict(saved)
                a = self.seq(list(s.body) + list(rest), k, ind + 1)
                return [pad + "if %s then (* %s *)" % (cond, head)] + a + [pad + "else"] + b
            vs = self.assigned(list(s.body) + list(s.orelse), [])
            if not vs:
                self.bad(s, "if statement without effect")
            tup = vs[0] if len(vs) == 1 else "(" + ", ".join(vs) + ")"
            pat = vs[0] if len(vs) == 1 else "'(" + ", ".join(vs) + ")"
            saved = dict(self.vars)

            def fin(ind_):
                for v in vs:
                    if v not in self.vars:
                        self.bad(s, "%s may be unbound after this if" % v)
                return ["  " * ind_ + tup]
            a = self.seq(s.body, fin, ind + 2)
            va = dict(self.vars)
            self.vars = dict(saved)
            b = self.seq(s.orelse, fin, ind + 2)
            for v in vs:
                if va.get(v) != self.vars.get(v):
                    self.bad(s, "%s has different types in the two branches" % v)
            return ([pad + "let %s :=" % pat, pad + "  if %s then (* %s *)" % (cond, head)] + a + [pad + "  else"] + b + [pad + "in"]
                    + self.seq(rest, k, ind))
        if isinstance(s, ast.Try):
            if s.orelse or s.finalbody or len(s.handlers) != 1 or len(s.body) != 1:
                self.bad(s, "try with else / finally / several handlers / several statements")
            h = s.handlers[0]
            if not (isinstance(h.type, ast.Name) and h.type.id == "KeyError" and h.name is None):
                self.bad(h, "handler other than `except KeyError:`")
            if not self.terminates(h.body):
                self.bad(h, "a KeyError handler that falls through")
            if not self.monadic:
                self.bad(s, "try in a function translated as pure")
            b = s.body[0]
            saved = dict(self.vars)
            hb = self.seq(h.body, lambda ind_: self.bad(h, "internal"), ind + 1)
            self.vars = dict(saved)
            if isinstance(b, ast.Assign) and len(b.targets) == 1:
                nm = self.target(b.targets[0])
                text, ty, eff = self.expr(b.value)
                if not eff:
                    self.bad(b, "try around a statement that cannot raise in the model")
                self.vars[nm] = ty
                return ([pad + "match %s with (* try: %s *)" % (text, src_of(self.tr.text, b)),
                         pad + "| Raise EKeyError => (* except KeyError: *)"] + hb
                        + [pad + "| Raise exn => Raise exn", pad + "| Ret %s =>" % nm] + self.seq(rest, k, ind) + [pad + "end"])
            if isinstance(b, ast.Return) and b.value is not None:
                if rest:
                    self.bad(rest[0], "statement after a try that always returns / raises")
                text, ty, eff = self.expr(b.value)
                if not eff:
                    self.bad(b, "try around a statement that cannot raise in the model")
                if not self.ret_types(ty):
                    self.bad(b, "returns a %s" % ty)
                return ([pad + "match %s with (* try: %s *)" % (text, src_of(self.tr.text, b)),
                         pad + "| Raise EKeyError => (* except KeyError: *)"] + hb
                        + [pad + "| Raise exn => Raise exn", pad + "| Ret v => Ret v", pad + "end"])
            self.bad(b, "try body other than one assignment / return of sys.modules[...] or getattr(...)")
        self.bad(s, "statement form not on the white-list")


class Translator:
    def __init__(self, repo):
        self.repo = repo
        self.path = os.path.join(repo, SER)
        self.text = open(self.path, encoding="utf-8").read()
        self.tree = ast.parse(self.text)
        self.checks, self.skipped = [], []
        self.popped, self.super_seen = False, 0
        self.used_consts = []
        self.strings = helper_strings(repo)
        # top-level string constants (NAME = 'literal', bound once)
        binds = {}
        for name, node in _bound_names(self.tree):
            binds.setdefault(name, []).append(node)
        self.str_consts = {}
        for s in self.tree.body:
            if isinstance(s, ast.Assign) and len(s.targets) == 1 and isinstance(s.targets[0], ast.Name) \
                    and isinstance(s.value, ast.Constant) and isinstance(s.value.value, str) and len(binds.get(s.targets[0].id, [])) == 1:
                self.str_consts[s.targets[0].id] = s.value.value
        # logger = logging.getLogger(__name__), bound once; `logging` bound once by `import logging`
        self.logger_ok = False
        for s in self.tree.body:
            if isinstance(s, ast.Assign) and len(s.targets) == 1 and isinstance(s.targets[0], ast.Name) and s.targets[0].id == "logger":
                v = s.value
                lb = binds.get("logging", [])
                self.logger_ok = (len(binds.get("logger", [])) == 1 and len(lb) == 1 and isinstance(lb[0], ast.Import)
                                  and any(a.name == "logging" and a.asname is None for a in lb[0].names)
                                  and isinstance(v, ast.Call) and isinstance(v.func, ast.Attribute) and v.func.attr == "getLogger"
                                  and isinstance(v.func.value, ast.Name) and v.func.value.id == "logging")
        # NONE_TYPE = type(None), bound once
        self.none_type_ok = False
        for s in self.tree.body:
            if isinstance(s, ast.Assign) and len(s.targets) == 1 and isinstance(s.targets[0], ast.Name) and s.targets[0].id == "NONE_TYPE":
                v = s.value
                self.none_type_ok = (len(binds.get("NONE_TYPE", [])) == 1 and isinstance(v, ast.Call) and isinstance(v.func, ast.Name)
                                     and v.func.id == "type" and len(v.args) == 1 and not v.keywords
                                     and isinstance(v.args[0], ast.Constant) and v.args[0].value is None)

    def use_const(self, name):
        if name not in self.used_consts:
            self.used_consts.append(name)
        return "g_" + name

    def params(self, f, where, names, defaults_none=0, vararg=None, kwarg=None):
        a = f.args
        if f.decorator_list:
            bad(SER, f, "%s has a decorator" % where)
        if f.returns is not None or any(x.annotation is not None for x in a.args + a.kwonlyargs + a.posonlyargs):
            bad(SER, f, "%s has annotations" % where)
        if a.posonlyargs or a.kwonlyargs or a.kw_defaults:
            bad(SER, f, "%s has positional-only / keyword-only parameters" % where)
        if [x.arg for x in a.args] != names:
            bad(SER, f, "%s has parameters %r, expected %r" % (where, [x.arg for x in a.args], names))
        if (a.vararg.arg if a.vararg else None) != vararg or (a.kwarg.arg if a.kwarg else None) != kwarg:
            bad(SER, f, "%s: unexpected *args / **kwargs" % where)
        if len(a.defaults) != defaults_none or not all(isinstance(x, ast.Constant) and x.value is None for x in a.defaults):
            bad(SER, f, "%s: parameter defaults are not exactly %d x None" % (where, defaults_none))
        for n in ast.walk(f):
            if isinstance(n, (ast.FunctionDef, ast.AsyncFunctionDef, ast.Lambda, ast.ClassDef, ast.Global, ast.Nonlocal, ast.Yield,
                              ast.YieldFrom, ast.Await, ast.NamedExpr, ast.With, ast.For, ast.While, ast.Delete, ast.Import,
                              ast.ImportFrom, ast.ListComp, ast.SetComp, ast.DictComp, ast.GeneratorExp)) and n is not f:
                bad(SER, n, "%s contains a nested definition / loop / with / comprehension / walrus" % where)

    def safe_to_import_literal(self):
        for s in self.tree.body:
            if isinstance(s, ast.Assign) and len(s.targets) == 1 and isinstance(s.targets[0], ast.Name) and s.targets[0].id == "SAFE_TO_IMPORT":
                if not isinstance(s.value, ast.Set):
                    bad(SER, s, "SAFE_TO_IMPORT is not a set literal")
                out = []
                for e in s.value.elts:
                    if not (isinstance(e, ast.Constant) and isinstance(e.value, str)):
                        bad(SER, e, "SAFE_TO_IMPORT entry that is not a string literal")
                    out.append(coq_str(SER, e, e.value))
                return out
        bad(SER, self.tree.body[0], "no top-level assignment SAFE_TO_IMPORT = {...}")

    def translate(self):
        cls, pl = structural_checks(self.repo, self.tree, self.checks)
        entries = self.safe_to_import_literal()
        meth = {s.name: s for s in cls.body if isinstance(s, ast.FunctionDef)}
        out = []

        # --- __init__ ---
        f = meth["__init__"]
        self.params(f, "_RestrictedUnpickler.__init__", ["self"], vararg="args", kwarg="kwargs")
        fn = Fn(self, f, "_RestrictedUnpickler.__init__", "pyv", False, {"kwargs_safe_to_import": "option"},
                lambda ty: False, None, self_attr=True)

        def init_end(ind):
            if fn.vars.get("self_safe_to_import") != "pyv":
                fn.bad(f, "self.safe_to_import is not assigned")
            return ["  " * ind + "self_safe_to_import"]
        fn.falloff = lambda fn_, s: fn_.bad(s, "return inside __init__")
        body = fn.seq(f.body, init_end, 1)
        if not self.popped or self.super_seen != 1:
            bad(SER, f, "__init__ does not pop safe_to_import from kwargs / does not call super().__init__(*args, **kwargs) exactly once")
        out += ["(* _RestrictedUnpickler.__init__(self, *args, **kwargs): the value of self.safe_to_import when it returns;",
                "   kwargs_safe_to_import = the value passed under the keyword safe_to_import, if any *)",
                "Definition g_init_allow (kwargs_safe_to_import : option pyv) : pyv :="] + body
        out[-1] += "."
        out.append("")

        # --- find_class ---
        f = meth["find_class"]
        self.params(f, "_RestrictedUnpickler.find_class", ["self", "module", "name"])
        fn = Fn(self, f, "_RestrictedUnpickler.find_class", "pyv", True,
                {"sys_modules": "process", "self_safe_to_import": "pyv", "module": "str", "name": "str"},
                lambda ty: ty == "gkind", lambda fn_, s: "Ret GNone", self_attr=True)
        body = fn.seq(f.body, lambda ind: ["  " * ind + "Ret GNone (* falls off the end: returns None *)"], 1)
        out += ["(* _RestrictedUnpickler.find_class(self, module, name); sys_modules = the process's sys.modules *)",
                "Definition g_find_class (sys_modules : process) (self_safe_to_import : pyv) (module name : pystr) : res gkind :="] + body
        out[-1] += "."
        out.append("")

        # --- persistent_load ---
        f = meth["persistent_load"]
        self.params(f, "_RestrictedUnpickler.persistent_load", ["self", "pid"])
        fn = Fn(self, f, "_RestrictedUnpickler.persistent_load", "obj", False, {"pid": "obj"},
                lambda ty: ty == "obj", lambda fn_, s: "ONone")
        body = fn.seq(f.body, lambda ind: ["  " * ind + "ONone (* falls off the end: returns None *)"], 1)
        out += ["(* _RestrictedUnpickler.persistent_load(self, pid) *)", "Definition g_persistent_load (pid : obj) : obj :="] + body
        out[-1] += "."
        out.append("")

        # --- pickle_load ---
        self.params(pl, "pickle_load", ["content", "file_obj", "safe_to_import"], defaults_none=3)
        fn = Fn(self, pl, "pickle_load", "pyv", True,
                {"e": "env", "content": "pyv", "file_obj": "pyv", "safe_to_import": "pyv"},
                lambda ty: ty == "result", lambda fn_, s: fn_.bad(s, "pickle_load returns None"))
        body = fn.seq(pl.body, lambda ind: fn.bad(pl, "pickle_load can fall off its end (returns None)"), 1)
        out += ["(* pickle_load(content=None, file_obj=None, safe_to_import=None); e = everything else the load depends on *)",
                "Definition g_pickle_load (e : env) (content file_obj safe_to_import : pyv) : res result :="] + body
        out[-1] += "."

        # --- _RestrictedPickler.persistent_id ---
        pk = [n for n in self.tree.body if isinstance(n, ast.ClassDef) and n.name == "_RestrictedPickler"]
        if len(pk) != 1 or len([1 for nm, _n in _bound_names(self.tree) if nm == "_RestrictedPickler"]) != 1:
            bad(SER, (pk or self.tree.body)[0], "_RestrictedPickler is not defined exactly once")
        pk = pk[0]
        b = pk.bases
        if pk.decorator_list or pk.keywords or not (len(b) == 1 and isinstance(b[0], ast.Attribute) and isinstance(b[0].value, ast.Name)
                                                      and b[0].value.id == "pickle" and b[0].attr == "Pickler"):
            bad(SER, pk, "_RestrictedPickler does not subclass exactly pickle.Pickler")
        body = [s for s in pk.body if not (isinstance(s, ast.Expr) and isinstance(s.value, ast.Constant) and isinstance(s.value.value, str))]
        if len(body) != 1 or not isinstance(body[0], ast.FunctionDef) or body[0].name != "persistent_id":
            bad(SER, pk, "_RestrictedPickler defines something besides persistent_id (reducer_override / dispatch_table / "
                         "__reduce__ hooks would change what is written)")
        self.checks.append("_RestrictedPickler subclasses exactly pickle.Pickler and its body is exactly the method persistent_id")
        f = body[0]
        self.params(f, "_RestrictedPickler.persistent_id", ["self", "obj"])
        fn = Fn(self, f, "_RestrictedPickler.persistent_id", "obj", False, {"obj": "obj"},
                lambda ty: ty in ("str", "obj"), lambda fn_, s: "None")

        def wrap(text, ty):
            if ty == "str":
                return "Some %s" % text
            if text == "ONone":
                return "None"
            fn.bad(f, "persistent_id returns an object other than a str literal / None")
        fn.wrap = wrap
        body = fn.seq(f.body, lambda ind: ["  " * ind + "None (* falls off the end: returns None = no persistent id *)"], 1)
        out += ["", "(* _RestrictedPickler.persistent_id(self, obj): Some pid = the object is written as the persistent id pid *)",
                "Definition g_persistent_id (obj : obj) : option pystr :="] + body
        out[-1] += "."

        consts = []
        for name in self.used_consts:
            consts.append("Definition g_%s : pystr := s2p %s." % (name, coq_str(SER, self.tree.body[0], self.str_consts[name])))
        skipped = []
        for rule, where in self.skipped:
            line = "%s in %s: %s" % (rule, where, SKIP_RULES[rule])
            if line not in skipped:
                skipped.append(line)
        for rule in ("comment", "self"):
            skipped.append("%s: %s" % (rule, SKIP_RULES[rule]))
        head = ["(* GENERATED by harness/translate/unpickler.py from deepdiff/serialization.py (SAFE_TO_IMPORT,",
                "   _RestrictedUnpickler.__init__ / find_class / persistent_load, pickle_load, _RestrictedPickler.persistent_id)",
                "   and deepdiff/helper.py (strings = (%s))."
                % ", ".join(self.strings),
                "   Do not edit: regenerated from the current source on every run of ./check C15.",
                "",
                "   Structural checks that held for this source (the translator rejects it otherwise):"]
        head += ["   - " + clean(c) for c in self.checks]
        head += ["", "   Skip rules applied (trusted):"] + ["   - " + clean(s) for s in skipped] + ["*)"]
        pre = ["From Coq Require Import List String NArith Bool.", "Import ListNotations.",
               "From DD Require Import Base.PyStr Pickle.Vm Pickle.Bytes Pickle.SrcPrims.", "Local Open Scope string_scope.", "",
               "(* SAFE_TO_IMPORT = { ... }: every entry is a string literal *)",
               "Definition g_SAFE_TO_IMPORT_names : list string := ["]
        pre += ["  " + e + (";" if i + 1 < len(entries) else "") for i, e in enumerate(entries)]
        pre += ["].", "Definition g_SAFE_TO_IMPORT : pyv := VSet (map (fun s => VStr (s2p s)) g_SAFE_TO_IMPORT_names).", ""]
        if consts:
            pre += consts + [""]
        return "\n".join(head + pre + out) + "\n"


def translate(repo_root):
    return Translator(repo_root).translate()


if __name__ == "__main__":
    import sys
    sys.stdout.write(translate(sys.argv[1] if len(sys.argv) > 1 else "/repo"))

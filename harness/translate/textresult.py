"""Source tie of C10: deepdiff/model.py (class TextResult) and deepdiff/serialization.py (_get_pretty_form_text,
pretty_print_diff)  ->  Gallina (coq/srctie/ViewsGen.v, module DDGen.ViewsGen).

translate(repo_root) reads /repo's CURRENT source files, walks the `ast` of the module constants FORCE_DEFAULT,
REPORT_KEYS, CUSTOM_FIELD, of every method of class TextResult and of the two serialization functions with an
explicit white-list of node shapes and emits one Gallina definition `g_<python name>` per constant / method /
function, statement by statement, over the TYPES and PRIMITIVES of coq/theories/Views/ViewsSrc.v (pyobj, pydict,
gself, gtree, level, container, raw; dict_set / dict_update / dict_lit, lv_path / lv_t1 / ..., tree_get / tree_has,
self_setitem / self_add / ..., py_format / py_percent / py_get_type / ...).  None of the hand-written targets of
ViewsSrc.v (raw_of, text_view_cats, init_containers, category_order, report_keys) nor anything of Diff/TextView.v
or Views/ViewsModel.v is used by the generated text.  Anything outside the white-list raises
Unsupported(file:line: what).  No eval, no import of deepdiff.

The translation is syntax-directed and dumb: one Python statement -> one `let ... in` line, in the same order, one
Python branch -> one Gallina `if`; nothing is normalised or reordered.  Equality with the hand model is the business
of coq/srctie/ViewsGenEquiv.v.

ENCODING RULES (each is part of the trusted base of this tie; also listed in coq/theories/Views/NOTES_srctie.md)
 E1  `self` (the TextResult under construction) is a value of type gself threaded through the statements: a method is
     `gself -> args -> gself`; a statement that mutates self (a store, a call of a method of self) rebinds `self`.
     self.verbose_level = s_verbose self; self[K] as an object = the KIND of container __init__ put there
     (self_container self K); insertions are appended to s_out self in the order they happen:
       self[K][x] = v / C[x] = v      -> self_setitem self K x v         (C a local bound to self[K])
       C.add(x) / C.append(x) / self[K].append(x) -> self_add / self_append self K x
       self[K] = v                    -> self_setcat self K v
       self[K][x][f] = v              -> self_item_setfield self K x f v  (modifies the LAST insertion under (K, x))
       C[x].add(v)                    -> self_item_add self K x v
       x in C / x not in C            -> self_has self K x
       x in self["_iterable_opcodes"] -> opcodes_has self x
       raise ...                      -> self_raise self (a marker insertion; the proofs show it is never made)
 E2  ALIASING: `self[K][x] = d` where d is a local dict that is mutated LATER in the same loop body (d.update(...),
     d[k] = v) is performed at the end of the loop body with the final d, x being evaluated at the place of the
     statement; the translator checks that the statement is at the top level of the loop body, that d is not rebound
     by a plain assignment afterwards and that no other statement after it touches self.
 E3  a local dict with str-literal keys is a pydict (insertion-ordered association list): {k: v, ...} / RemapDict({...})
     -> dict_lit, d[k] = v -> dict_set, d.update(k=v, ...) / d.update({...}) -> dict_update, k in d -> dict_has,
     d[k] -> dict_get, RemapDict(x) -> py_dict_of x.  The translator checks helper.py's `dict_ = dict`,
     `RemapDict = dict_`, `strings = (str, bytes)`.
 E4  the tree: `K in tree` -> tree_has tree K; `for change in tree[K]` -> fold_left over tree_get tree K with self as the
     accumulator; tree[K] as a value -> tree_item; bool(tree) -> tree_truthy; a level `change`: change.t1 / .t2 ->
     lv_t1 / lv_t2 (OVal None = notpresent), change.path(force=F, use_t2=B[, root='root']) -> lv_path F B change,
     change.up.path(...) -> lv_up_path, change.additional -> lv_additional, change.report_type -> lv_report_type,
     `change.up is not None` -> lv_has_up, change.verbose_level -> the parameter verbose_level of pretty_print_diff
     (the level attribute is DeepDiff's verbose_level).
 E5  `if c: continue` at the top level of a loop body -> `if c then self else <rest of the body>`.
 E6  an `if` statement yields the tuple of the locals (and self) it assigns that are live afterwards (bound before
     the `if`, or bound in both branches): `let '(a, b) := if c then (... (a, b)) else (... (a, b)) in`.
 E7  comparisons: nat against an int literal -> Nat.ltb / Nat.leb / Nat.eqb; str parameters -> String.eqb / str_mem;
     objects -> py_eqb; `x is not notpresent` -> negb (is_notpresent x); truthiness of self.verbose_level ->
     negb (Nat.eqb _ 0); `and` / `or` / `not` -> && / || / negb (operands are pure).
 E8  parameters have the static types of the table SIGS; a call fills omitted arguments with the callee's defaults
     read from the source (a changed default changes the generated text).
 E9  `self.ADD_QUOTES_TO_STRINGS` -> the class constant of TextResult (self is a TextResult, not a subclass).
 E10 "...".format(...) -> py_format, "...%s..." % x -> py_percent, str(x) -> py_str_obj, get_type(x) -> py_get_type,
     X.__name__ -> py_type_name, isinstance(x, strings) -> py_isinstance_strings, isinstance(C, cls) -> isinstance_c.
SKIP RULES
 S1  docstrings, comments, `# type: ignore`, `# pragma` (not in the ast or an Expr(Constant str) statement).
 S2  `if type(change.t1) is type: A else: B` in _from_tree_type_changes is translated as B: the value universe has no
     class objects.  The translator checks that the test is exactly that expression and that A assigns exactly the
     locals B assigns, by plain assignments.
 S3  _from_tree_custom_results must have the shape `for k, X in tree.items(): if k not in REPORT_KEYS: BODY`; BODY is
     not translated (custom report keys are outside the universe) but is checked to store into self only by
     `self[k] = <local>`; it becomes the marker self_custom self k (the proofs show it is never made, which needs
     every report key of the universe to be in REPORT_KEYS).
 S4  class DeltaResult, TreeResult, ResultDict, DiffLevel and the relationship classes are outside the fragment.
     In TextResult every method is translated; an unknown method, a decorator, another base class or another class
     attribute is rejected.  The module-level names the fragment uses (TextResult, ResultDict, the three constants,
     RemapDict, dict_, SetOrdered, strings, notpresent, get_type from deepdiff.helper, Mapping from collections.abc;
     in serialization.py the two functions and get_type) must be bound exactly once, in that way; a store into an
     attribute / item of TextResult / ResultDict / REPORT_KEYS, a method call or setattr / delattr on them, a `global` naming them or a
     module-level rebinding of a builtin the fragment calls is rejected.  class ResultDict must be
     `class ResultDict(RemapDict)` with the single method remove_empty_keys (so self[k], self.update are dict's).
 S6  a statement `logger.debug / info / warning / error / exception / critical(...)` whose arguments contain no call,
     walrus, lambda, await or yield is skipped (logging is not part of the modelled state; `logger` must not be a local).
 S5  serialization.py: only _get_pretty_form_text and pretty_print_diff are read; SerializationMixin.pretty (the
     iteration over the tree, the prefix) is not translated.
"""
import ast
import os

MODEL = "deepdiff/model.py"
HELPER = "deepdiff/helper.py"
SERIAL = "deepdiff/serialization.py"


class Unsupported(Exception):
    pass


class T:
    """translation context of one source file"""
    def __init__(self, src):
        self.src = src

    def bad(self, node, what):
        raise Unsupported("%s:%s: %s [%s]" % (self.src, getattr(node, "lineno", "?"), what, type(node).__name__))


def coq_string(s):
    for ch in s:
        if ord(ch) < 32 or ord(ch) > 126:
            raise Unsupported("string literal with a non-printable / non-ASCII character: %r" % s)
    return '"' + s.replace('"', '""') + '"'


# ---- static tables (E8) ------------------------------------------------------------------------------------
# method -> [(parameter, Coq type, tag)] after self
SIGS = {
    "__init__": [("tree_results", "gtree", "tree"), ("verbose_level", "nat", "nat")],
    "__set_or_dict": [],
    "_from_tree_results": [("tree", "gtree", "tree")],
    "_from_tree_default": [("tree", "gtree", "tree"), ("report_type", "string", "str"), ("ignore_if_in_iterable_opcodes", "bool", "bool")],
    "_from_tree_type_changes": [("tree", "gtree", "tree")],
    "_from_tree_value_changed": [("tree", "gtree", "tree")],
    "_from_tree_iterable_item_moved": [("tree", "gtree", "tree")],
    "_from_tree_unprocessed": [("tree", "gtree", "tree")],
    "_from_tree_set_item_added_or_removed": [("tree", "gtree", "tree"), ("key", "string", "str")],
    "_from_tree_set_item_added": [("tree", "gtree", "tree")],
    "_from_tree_set_item_removed": [("tree", "gtree", "tree")],
    "_from_tree_repetition_change": [("tree", "gtree", "tree")],
    "_from_tree_deep_distance": [("tree", "gtree", "tree")],
    "_from_tree_custom_results": [("tree", "gtree", "tree")],
}
RETURNS = {"__set_or_dict": ("container", "container")}
EXPECTED_DEFAULTS = {"__init__": {"tree_results": None, "verbose_level": 1},
                     "_from_tree_default": {"ignore_if_in_iterable_opcodes": False}}
MODULE_CONSTS = {"FORCE_DEFAULT": "str", "REPORT_KEYS": "strlist", "CUSTOM_FIELD": "str"}
PYCLASSES = {"SetOrdered": "PC_SetOrdered", "dict": "PC_dict", "list": "PC_list", "Mapping": "PC_Mapping"}
SERIAL_FUNCS = {"_get_pretty_form_text": ([("verbose_level", "nat", "nat")], ("sdict", "sdict")),
                "pretty_print_diff": ([("diff", "level", "level")], ("pyobj", "obj"))}


def indent(lines, n=1):
    return [("  " * n) + l for l in lines]


def tuple_pat(names):
    if len(names) == 1:
        return names[0]
    return "'(" + ", ".join(names) + ")"


def tuple_val(names):
    if len(names) == 1:
        return names[0]
    return "(" + ", ".join(names) + ")"


class Fn:
    """translator of one function body"""

    def __init__(self, t, name, env, defaults, cls_consts, verbose_param=None):
        self.t = t
        self.name = name
        self.env = dict(env)          # name -> tag | ("container", keytext)
        self.defaults = defaults      # method -> {param: coq text}
        self.cls_consts = cls_consts
        self.verbose_param = verbose_param
        self.tmp = 0
        self.stored = set()           # dict locals stored into self by the aliasing rule E2

    def bad(self, node, what):
        self.t.bad(node, "%s: %s" % (self.name, what))

    # ---- expressions ----------------------------------------------------------------------------------------
    def to_obj(self, node, x):
        text, tag = x
        if tag == "obj":
            return text
        if tag == "str":
            return "(py_str_const %s)" % text
        if tag == "dict":
            return "(ODict %s)" % text
        self.bad(node, "a value of kind %s where a Python object is stored" % (tag,))

    def to_bool(self, node, x):
        text, tag = x
        if tag == "bool":
            return text
        if tag == "nat":
            return "(negb (Nat.eqb %s 0))" % text
        if tag == "tree":
            return "(tree_truthy %s)" % text
        self.bad(node, "truth value of a %s" % (tag,))

    def is_self(self, n):
        return isinstance(n, ast.Name) and n.id == "self"

    def self_key(self, n):
        """n = self[K]  ->  text of K (a str expression)"""
        if isinstance(n, ast.Subscript) and self.is_self(n.value):
            k = self.expr(self.index(n))
            if k[1] != "str":
                self.bad(n, "self[...] with a key that is not a str")
            return k[0]
        return None

    def index(self, n):
        s = n.slice
        if isinstance(s, ast.Index):  # pragma: no cover (python < 3.9)
            s = s.value
        return s

    def container_key(self, n):
        """n denotes a container of self: self[K] or a local bound to one -> text of K"""
        k = self.self_key(n)
        if k is not None:
            return k
        if isinstance(n, ast.Name) and isinstance(self.env.get(n.id), tuple):
            return self.env[n.id][1]
        return None

    def level_of(self, n):
        if isinstance(n, ast.Name) and self.env.get(n.id) == "level":
            return n.id
        return None

    def path_call(self, node, fn_prim, lvl, call):
        if call.args:
            self.bad(call, "positional argument of path()")
        force, use_t2 = "None", "false"
        for kw in call.keywords:
            if kw.arg == "force":
                f = self.expr(kw.value)
                if f[1] != "str":
                    self.bad(call, "force= is not a str")
                force = "(Some %s)" % f[0]
            elif kw.arg == "use_t2" and fn_prim == "lv_path" and isinstance(kw.value, ast.Constant) and kw.value.value in (True, False):
                use_t2 = "true" if kw.value.value else "false"
            elif kw.arg == "root" and isinstance(kw.value, ast.Constant) and kw.value.value == "root":
                pass
            else:
                self.bad(call, "unsupported argument %s= of path()" % kw.arg)
        if fn_prim == "lv_path":
            return ("(lv_path %s %s %s)" % (force, use_t2, lvl), "obj")
        return ("(lv_up_path %s %s)" % (force, lvl), "obj")

    def dict_display(self, node, want):
        if any(k is None for k in node.keys):
            self.bad(node, "dict display with **")
        keys = []
        for k in node.keys:
            if not (isinstance(k, ast.Constant) and isinstance(k.value, str)):
                self.bad(node, "dict display with a key that is not a str literal")
            keys.append(coq_string(k.value))
        if want == "containers":
            vals = [self.expr(v, "container") for v in node.values]
            for v, n in zip(vals, node.values):
                if v[1] != "container":
                    self.bad(n, "not a container constructor")
            return ("[" + "; ".join("(%s, %s)" % (k, v[0]) for k, v in zip(keys, vals)) + "]", "containers")
        if want == "container":
            if node.keys:
                self.bad(node, "non-empty dict display as a container")
            return ("CDict", "container")
        if want == "sdict":
            vals = []
            for v in node.values:
                if not (isinstance(v, ast.Constant) and isinstance(v.value, str)):
                    self.bad(v, "template that is not a str literal")
                self.check_template(v, v.value)
                vals.append(coq_string(v.value))
            return ("[" + "; ".join("(%s, %s)" % (k, v) for k, v in zip(keys, vals)) + "]", "sdict_items")
        vals = [self.to_obj(n, self.expr(n)) for n in node.values]
        return ("[" + "; ".join("(%s, %s)" % (k, v) for k, v in zip(keys, vals)) + "]", "dict_items")

    def check_template(self, node, s):
        if "{{" in s or "}}" in s:
            self.bad(node, "format template with an escaped brace")
        depth = 0
        for ch in s:
            if ch == "{":
                depth += 1
                if depth > 1:
                    self.bad(node, "nested { in a format template")
            elif ch == "}":
                depth -= 1
                if depth < 0:
                    self.bad(node, "unbalanced } in a format template")
            elif depth and not (ch.isalnum() or ch == "_"):
                self.bad(node, "format field with a conversion, format spec, attribute or index")
        if depth:
            self.bad(node, "unbalanced { in a format template")

    def expr(self, n, want=None):
        if isinstance(n, ast.Constant):
            if n.value is True:
                return ("true", "bool")
            if n.value is False:
                return ("false", "bool")
            if isinstance(n.value, str):
                return (coq_string(n.value), "str")
            if isinstance(n.value, int) and n.value >= 0:
                return (str(n.value), "nat")
            self.bad(n, "constant %r" % (n.value,))
        if isinstance(n, ast.Name):
            if n.id in self.env:
                tag = self.env[n.id]
                if isinstance(tag, tuple):
                    return (n.id, "container")
                return (n.id, tag)
            if n.id in MODULE_CONSTS and self.t.src == MODEL:
                return ("g_" + n.id, MODULE_CONSTS[n.id])
            if n.id == "notpresent":
                return ("notpresent", "obj")
            self.bad(n, "unknown name %s" % n.id)
        if isinstance(n, ast.Attribute):
            if self.is_self(n.value):
                if n.attr == "verbose_level":
                    return ("(s_verbose self)", "nat")
                if n.attr in self.cls_consts:
                    return ("g_TextResult_" + n.attr, self.cls_consts[n.attr])
                self.bad(n, "attribute self.%s" % n.attr)
            lvl = self.level_of(n.value)
            if lvl:
                if n.attr in ("t1", "t2"):
                    return ("(lv_%s %s)" % (n.attr, lvl), "obj")
                if n.attr == "additional":
                    return ("(lv_additional %s)" % lvl, "dict")
                if n.attr == "report_type":
                    return ("(lv_report_type %s)" % lvl, "str")
                if n.attr == "verbose_level" and self.verbose_param:
                    return (self.verbose_param, "nat")
                self.bad(n, "attribute .%s of a level" % n.attr)
            if n.attr == "__name__":
                v = self.expr(n.value)
                if v[1] != "obj":
                    self.bad(n, "__name__ of a %s" % (v[1],))
                return ("(py_type_name %s)" % v[0], "obj")
            self.bad(n, "attribute .%s" % n.attr)
        if isinstance(n, ast.Subscript):
            k = self.self_key(n)
            if k is not None:
                return ("(self_container self %s)" % k, ("container", k))
            v = n.value
            if isinstance(v, ast.Name) and self.env.get(v.id) == "tree":
                k = self.expr(self.index(n))
                if k[1] != "str":
                    self.bad(n, "tree[...] with a key that is not a str")
                return ("(tree_item %s %s)" % (v.id, k[0]), "obj")
            d = self.expr(v)
            if d[1] == "dict":
                k = self.expr(self.index(n))
                if k[1] != "str":
                    self.bad(n, "dict[...] with a key that is not a str")
                return ("(dict_get %s %s)" % (d[0], k[0]), "obj")
            self.bad(n, "subscript of a %s" % (d[1],))
        if isinstance(n, ast.Dict):
            if want in ("container", "containers", "sdict"):
                x = self.dict_display(n, want)
                if want == "sdict":
                    return ("(sdict_lit %s)" % x[0], "sdict")
                return x
            x = self.dict_display(n, None)
            return ("(dict_lit %s)" % x[0], "dict")
        if isinstance(n, ast.List):
            if want == "container" and not n.elts:
                return ("CList", "container")
            self.bad(n, "list display")
        if isinstance(n, ast.Set):
            elts = []
            for e in n.elts:
                if not (isinstance(e, ast.Constant) and isinstance(e.value, str)):
                    self.bad(n, "set display with an element that is not a str literal")
                elts.append(coq_string(e.value))
            return ("[" + "; ".join(elts) + "]", "strlist")
        if isinstance(n, ast.IfExp):
            c = self.to_bool(n.test, self.expr(n.test))
            a, b = self.expr(n.body, want), self.expr(n.orelse, want)
            if a[1] != b[1]:
                if {a[1], b[1]} <= {"obj", "str", "dict"}:
                    return ("(if %s then %s else %s)" % (c, self.to_obj(n.body, a), self.to_obj(n.orelse, b)), "obj")
                self.bad(n, "conditional expression with branches of different kinds (%s, %s)" % (a[1], b[1]))
            return ("(if %s then %s else %s)" % (c, a[0], b[0]), a[1])
        if isinstance(n, ast.UnaryOp) and isinstance(n.op, ast.Not):
            return ("(negb %s)" % self.to_bool(n.operand, self.expr(n.operand)), "bool")
        if isinstance(n, ast.BoolOp):
            op = " && " if isinstance(n.op, ast.And) else " || "
            return ("(" + op.join(self.to_bool(v, self.expr(v)) for v in n.values) + ")", "bool")
        if isinstance(n, ast.BinOp) and isinstance(n.op, ast.Mod):
            if not (isinstance(n.left, ast.Constant) and isinstance(n.left.value, str)):
                self.bad(n, "% with a left operand that is not a str literal")
            f = n.left.value
            if f.count("%") != 1 or f.count("%s") != 1:
                self.bad(n, "% template that does not have exactly one %s")
            r = self.expr(n.right)
            return ("(py_percent %s %s)" % (coq_string(f), self.to_obj(n.right, r)), "obj")
        if isinstance(n, ast.Compare):
            return self.compare(n)
        if isinstance(n, ast.Call):
            return self.call(n, want)
        self.bad(n, "unsupported expression")

    def compare(self, n):
        if len(n.ops) != 1:
            self.bad(n, "chained comparison")
        op, left, right = n.ops[0], n.left, n.comparators[0]
        if isinstance(op, (ast.In, ast.NotIn)):
            neg = isinstance(op, ast.NotIn)
            x = self.expr(left)
            if isinstance(right, ast.Name) and self.env.get(right.id) == "tree":
                if x[1] != "str":
                    self.bad(n, "`in tree` with a key that is not a str")
                r = "(tree_has %s %s)" % (right.id, x[0])
            elif self.container_key(right) is not None:
                k = self.container_key(right)
                if isinstance(right, ast.Subscript) and isinstance(self.index(right), ast.Constant) and self.index(right).value == "_iterable_opcodes":
                    r = "(opcodes_has self %s)" % self.to_obj(left, x)
                else:
                    r = "(self_has self %s %s)" % (k, self.to_obj(left, x))
            else:
                y = self.expr(right)
                if y[1] == "strlist" and x[1] == "str":
                    r = "(str_mem %s %s)" % (x[0], y[0])
                elif y[1] == "dict" and x[1] == "str":
                    r = "(dict_has %s %s)" % (y[0], x[0])
                else:
                    self.bad(n, "`in` between a %s and a %s" % (x[1], y[1]))
            return ("(negb %s)" % r if neg else r, "bool")
        if isinstance(op, (ast.Is, ast.IsNot)):
            neg = isinstance(op, ast.IsNot)
            if isinstance(right, ast.Name) and right.id == "notpresent":
                x = self.expr(left)
                if x[1] != "obj":
                    self.bad(n, "`is notpresent` on a %s" % (x[1],))
                r = "(is_notpresent %s)" % x[0]
                return ("(negb %s)" % r if neg else r, "bool")
            if (isinstance(right, ast.Constant) and right.value is None and isinstance(left, ast.Attribute) and left.attr == "up"
                    and self.level_of(left.value)):
                r = "(lv_has_up %s)" % self.level_of(left.value)
                return (r if neg else "(negb %s)" % r, "bool")
            self.bad(n, "unsupported identity test")
        x, y = self.expr(left), self.expr(right)
        if x[1] == "nat" and y[1] == "nat":
            a, b = x[0], y[0]
            if isinstance(op, ast.Gt):
                return ("(Nat.ltb %s %s)" % (b, a), "bool")
            if isinstance(op, ast.GtE):
                return ("(Nat.leb %s %s)" % (b, a), "bool")
            if isinstance(op, ast.Lt):
                return ("(Nat.ltb %s %s)" % (a, b), "bool")
            if isinstance(op, ast.LtE):
                return ("(Nat.leb %s %s)" % (a, b), "bool")
            if isinstance(op, ast.Eq):
                return ("(Nat.eqb %s %s)" % (a, b), "bool")
            if isinstance(op, ast.NotEq):
                return ("(negb (Nat.eqb %s %s))" % (a, b), "bool")
            self.bad(n, "comparison operator on numbers")
        if isinstance(op, (ast.Eq, ast.NotEq)):
            neg = isinstance(op, ast.NotEq)
            if x[1] == "str" and y[1] == "str":
                r = "(String.eqb %s %s)" % (x[0], y[0])
            elif {x[1], y[1]} <= {"obj", "str"}:
                r = "(py_eqb %s %s)" % (self.to_obj(left, x), self.to_obj(right, y))
            else:
                self.bad(n, "== between a %s and a %s" % (x[1], y[1]))
            return ("(negb %s)" % r if neg else r, "bool")
        self.bad(n, "unsupported comparison")

    def call_args(self, n, callee, sig):
        """arguments of a call of a translated method / function, defaults filled in (E8)"""
        params = [p for p, _ty, _tag in sig]
        given = {}
        if len(n.args) > len(params):
            self.bad(n, "too many arguments for %s" % callee)
        for p, a in zip(params, n.args):
            given[p] = a
        for kw in n.keywords:
            if kw.arg not in params or kw.arg in given:
                self.bad(n, "unexpected argument %s= of %s" % (kw.arg, callee))
            given[kw.arg] = kw.value
        out = []
        for p, _ty, tag in sig:
            if p in given:
                x = self.expr(given[p])
                if x[1] != tag:
                    self.bad(n, "argument %s of %s is a %s, expected %s" % (p, callee, x[1], tag))
                out.append(x[0])
            elif p in self.defaults.get(callee, {}):
                out.append(self.defaults[callee][p])
            else:
                self.bad(n, "missing argument %s of %s" % (p, callee))
        return out

    def call(self, n, want):
        f = n.func
        if isinstance(f, ast.Name):
            if f.id in ("get_type", "str") and len(n.args) == 1 and not n.keywords:
                x = self.expr(n.args[0])
                if x[1] != "obj":
                    self.bad(n, "%s() of a %s" % (f.id, x[1]))
                return ("(%s %s)" % ("py_get_type" if f.id == "get_type" else "py_str_obj", x[0]), "obj")
            if f.id == "isinstance" and len(n.args) == 2 and not n.keywords:
                cls = n.args[1]
                if not isinstance(cls, ast.Name):
                    self.bad(n, "isinstance with a class expression")
                if cls.id == "strings":
                    x = self.expr(n.args[0])
                    if x[1] != "obj":
                        self.bad(n, "isinstance(_, strings) of a %s" % (x[1],))
                    return ("(py_isinstance_strings %s)" % x[0], "bool")
                if cls.id in PYCLASSES:
                    x = self.expr(n.args[0])
                    if x[1] != "container":
                        self.bad(n, "isinstance(_, %s) of a %s" % (cls.id, x[1]))
                    return ("(isinstance_c %s %s)" % (x[0], PYCLASSES[cls.id]), "bool")
                self.bad(n, "isinstance with class %s" % cls.id)
            if f.id == "RemapDict" and len(n.args) == 1 and not n.keywords:
                if isinstance(n.args[0], ast.Dict):
                    return self.expr(n.args[0])
                x = self.expr(n.args[0])
                if x[1] != "obj":
                    self.bad(n, "RemapDict() of a %s" % (x[1],))
                return ("(py_dict_of %s)" % x[0], "dict")
            if f.id == "dict_" and not n.args and not n.keywords:
                return ("CDict", "container") if want == "container" else self.bad(n, "dict_() outside the container table")
            if f.id == "SetOrdered" and not n.args and not n.keywords:
                return ("CSetOrdered", "container") if want == "container" else self.bad(n, "SetOrdered() outside the container table")
            if f.id == "set" and not n.args and not n.keywords:
                return ("(OSet [])", "obj")
            if f.id in SERIAL_FUNCS and self.t.src == SERIAL:
                sig, ret = SERIAL_FUNCS[f.id]
                args = self.call_args(n, f.id, sig)
                return ("(g_%s %s)" % (f.id, " ".join(args)), ret[1])
            self.bad(n, "call of %s" % f.id)
        if isinstance(f, ast.Attribute):
            # level.path(...) / level.up.path(...)
            if f.attr == "path":
                lvl = self.level_of(f.value)
                if lvl:
                    return self.path_call(n, "lv_path", lvl, n)
                if isinstance(f.value, ast.Attribute) and f.value.attr == "up" and self.level_of(f.value.value):
                    return self.path_call(n, "lv_up_path", self.level_of(f.value.value), n)
                self.bad(n, "path() of something that is not a level")
            if f.attr == "format":
                fmt = self.expr(f.value)
                if fmt[1] != "str":
                    self.bad(n, ".format on a %s" % (fmt[1],))
                if isinstance(f.value, ast.Constant):
                    self.check_template(f.value, f.value.value)
                pos = [self.to_obj(a, self.expr(a)) for a in n.args]
                kws = []
                for kw in n.keywords:
                    if kw.arg is None:
                        self.bad(n, "**kwargs in format")
                    kws.append("(%s, %s)" % (coq_string(kw.arg), self.to_obj(kw.value, self.expr(kw.value))))
                return ("(py_format %s [%s] [%s])" % (fmt[0], "; ".join(pos), "; ".join(kws)), "obj")
            if f.attr == "get" and len(n.args) == 2 and not n.keywords:
                d = self.expr(f.value)
                if d[1] == "sdict":
                    k, dflt = self.expr(n.args[0]), self.expr(n.args[1])
                    if k[1] != "str" or dflt[1] != "str":
                        self.bad(n, ".get on a template table with a key / default that is not a str")
                    return ("(sdict_get %s %s %s)" % (d[0], k[0], dflt[0]), "str")
                self.bad(n, ".get on a %s" % (d[1],))
            if self.is_self(f.value) and f.attr in RETURNS:
                args = self.call_args(n, f.attr, SIGS[f.attr])
                return ("(g_%s self%s)" % (f.attr, "".join(" " + a for a in args)), RETURNS[f.attr][1])
            self.bad(n, "call of method .%s" % f.attr)
        self.bad(n, "unsupported call")

    # ---- statements -----------------------------------------------------------------------------------------
    def assigned(self, stmts, env):
        """names (locals and `self`) a statement list (re)binds"""
        out = []

        def add(x):
            if x not in out:
                out.append(x)
        env = dict(env)
        for s in stmts:
            if isinstance(s, ast.Assign):
                for tg in s.targets:
                    if isinstance(tg, ast.Name):
                        add(tg.id)
                        if isinstance(s.value, ast.Subscript) and self.is_self(s.value.value):
                            env[tg.id] = ("container", "?")
                    elif isinstance(tg, ast.Attribute) and self.is_self(tg.value):
                        add("self")
                    elif isinstance(tg, ast.Subscript):
                        base = tg.value
                        while isinstance(base, ast.Subscript):
                            base = base.value
                        if isinstance(base, ast.Name):
                            add("self" if base.id == "self" or isinstance(env.get(base.id), tuple) else base.id)
                        else:
                            add("self")
                    else:
                        add("self")
            elif isinstance(s, ast.Expr) and isinstance(s.value, ast.Call) and isinstance(s.value.func, ast.Attribute):
                base = s.value.func.value
                while isinstance(base, (ast.Subscript, ast.Attribute)):
                    base = base.value
                if isinstance(base, ast.Name):
                    add("self" if base.id == "self" or isinstance(env.get(base.id), tuple) else base.id)
                else:
                    add("self")
            elif isinstance(s, ast.If):
                for x in self.assigned(s.body, env) + self.assigned(s.orelse, env):
                    add(x)
            elif isinstance(s, (ast.For, ast.Raise)):
                add("self")
        return out

    def mentions_self_access(self, stmts, env):
        """does a statement list touch self other than reading self.verbose_level / class constants?"""
        for s in stmts:
            for n in ast.walk(s):
                if isinstance(n, ast.Subscript) and self.is_self(n.value):
                    return True
                if isinstance(n, ast.Call) and isinstance(n.func, ast.Attribute) and self.is_self(n.func.value):
                    return True
                if isinstance(n, ast.Name) and isinstance(env.get(n.id), tuple):
                    return True
                if isinstance(n, (ast.For, ast.Raise, ast.Continue)):
                    return True
        return False

    def mutated_later(self, name, stmts):
        for s in stmts:
            for n in ast.walk(s):
                if isinstance(n, ast.Assign):
                    for tg in n.targets:
                        if isinstance(tg, ast.Subscript) and isinstance(tg.value, ast.Name) and tg.value.id == name:
                            return True
                        if isinstance(tg, ast.Name) and tg.id == name:
                            return True
                if isinstance(n, ast.Call) and isinstance(n.func, ast.Attribute) and isinstance(n.func.value, ast.Name) and n.func.value.id == name:
                    return True
        return False

    def block(self, stmts, outs, loop_top=False):
        """a statement list -> Gallina lines (relative indentation) of an expression whose value is the tuple of `outs`"""
        lines = []
        deferred = []
        i = 0
        while i < len(stmts):
            s = stmts[i]
            rest = stmts[i + 1:]
            if isinstance(s, ast.Expr) and isinstance(s.value, ast.Constant) and isinstance(s.value.value, str):
                i += 1          # S1: docstring
                continue
            if isinstance(s, ast.If) and loop_top and len(s.body) == 1 and isinstance(s.body[0], ast.Continue) and not s.orelse:
                # E5
                if outs != ["self"]:
                    self.bad(s, "continue in a loop whose state is not just self")
                if deferred:
                    self.bad(s, "continue after an aliased store")
                c = self.to_bool(s.test, self.expr(s.test))
                inner = self.block(rest, outs, loop_top=True)
                return lines + ["if %s then self else (" % c] + indent(inner) + [")"]
            if isinstance(s, ast.Assign) and loop_top:
                d = self.aliased_store(s, rest)
                if d:
                    lines.append("let %s := %s in" % (d[1], d[3]))
                    deferred.append(d)
                    i += 1
                    continue
            lines += self.stmt(s)
            i += 1
        for (k, keyvar, name, _keytext) in deferred:
            lines.append("let self := self_setitem self %s %s (ODict %s) in" % (k, keyvar, name))
        for o in outs:
            if o not in self.env and o != "self":
                self.bad(stmts[0] if stmts else None, "local %s is not bound on every path" % o)
        lines.append(tuple_val(outs))
        return lines

    def aliased_store(self, s, rest):
        """E2: self[K][x] = d with d a dict local mutated later in the same loop body"""
        if len(s.targets) != 1:
            return None
        tg = s.targets[0]
        if not (isinstance(tg, ast.Subscript) and isinstance(tg.value, ast.Subscript) and self.is_self(tg.value.value)):
            return None
        if not (isinstance(s.value, ast.Name) and self.env.get(s.value.id) == "dict"):
            return None
        name = s.value.id
        if not self.mutated_later(name, rest):
            return None
        for r in rest:
            for n in ast.walk(r):
                if isinstance(n, ast.Assign) and any(isinstance(t_, ast.Name) and t_.id == name for t_ in n.targets):
                    self.bad(n, "dict %s is rebound after it was stored into self (aliasing rule E2)" % name)
        if self.mentions_self_access(rest, self.env):
            self.bad(s, "a statement after the store of the aliased dict %s touches self (aliasing rule E2)" % name)
        k = self.self_key(tg.value)
        key = self.expr(self.index(tg))
        self.tmp += 1
        keyvar = "key__%d" % self.tmp
        self.stored.add(name)
        return (k, keyvar, name, self.to_obj(tg, key))

    def stmt(self, s):
        if isinstance(s, ast.Assign):
            if len(s.targets) != 1:
                self.bad(s, "multiple assignment targets")
            tg = s.targets[0]
            if isinstance(tg, ast.Name):
                if tg.id in ("self", "tree") or self.env.get(tg.id) in ("tree", "level"):
                    self.bad(s, "assignment to %s" % tg.id)
                x = self.expr(s.value)
                tag = x[1]
                if tag in ("strlist", "container") and not isinstance(tag, tuple):
                    self.bad(s, "local bound to a %s" % tag)
                self.env[tg.id] = tag
                return ["let %s := %s in" % (tg.id, x[0])]
            if isinstance(tg, ast.Attribute) and self.is_self(tg.value) and tg.attr == "verbose_level" and self.name == "__init__":
                x = self.expr(s.value)
                if x[1] != "nat":
                    self.bad(s, "verbose_level is not a number")
                return ["let self := set_verbose self %s in" % x[0]]
            if isinstance(tg, ast.Subscript):
                base, idx = tg.value, self.index(tg)
                # d[k] = v on a local dict
                if isinstance(base, ast.Name) and self.env.get(base.id) == "dict":
                    k = self.expr(idx)
                    if k[1] != "str" or not isinstance(idx, ast.Constant):
                        self.bad(s, "dict store with a key that is not a str literal")
                    return ["let %s := dict_set %s %s %s in" % (base.id, base.id, k[0], self.to_obj(s.value, self.expr(s.value)))]
                # self[K] = v
                if self.is_self(base):
                    k = self.expr(idx)
                    if k[1] != "str":
                        self.bad(s, "self[...] = with a key that is not a str")
                    return ["let self := self_setcat self %s %s in" % (k[0], self.to_obj(s.value, self.expr(s.value)))]
                # C[x] = v / self[K][x] = v
                ck = self.container_key(base)
                if ck is not None:
                    return ["let self := self_setitem self %s %s %s in" % (ck, self.to_obj(idx, self.expr(idx)), self.to_obj(s.value, self.expr(s.value)))]
                # self[K][x][f] = v
                if isinstance(base, ast.Subscript) and self.container_key(base.value) is not None:
                    f = self.expr(idx)
                    if f[1] != "str" or not isinstance(idx, ast.Constant):
                        self.bad(s, "field store with a key that is not a str literal")
                    x = self.expr(self.index(base))
                    return ["let self := self_item_setfield self %s %s %s %s in" % (
                        self.container_key(base.value), self.to_obj(base, x), f[0], self.to_obj(s.value, self.expr(s.value)))]
            self.bad(s, "unsupported assignment target")
        if isinstance(s, ast.Expr) and isinstance(s.value, ast.Call):
            c = s.value
            f = c.func
            if not isinstance(f, ast.Attribute):
                self.bad(s, "call statement of a plain function")
            # S6: logger.<level>(...) with call-free arguments
            if (isinstance(f.value, ast.Name) and f.value.id == "logger" and "logger" not in self.env
                    and f.attr in ("debug", "info", "warning", "error", "exception", "critical")):
                for a in list(c.args) + [k.value for k in c.keywords]:
                    for n in ast.walk(a):
                        if isinstance(n, (ast.Call, ast.NamedExpr, ast.Await, ast.Yield, ast.YieldFrom, ast.Lambda)):
                            self.bad(s, "logging call with an argument that is not call-free")
                return []
            # self._from_tree_X(tree, ...)
            if self.is_self(f.value) and f.attr in SIGS and f.attr not in RETURNS:
                args = self.call_args(c, f.attr, SIGS[f.attr])
                return ["let self := g_%s self%s in" % (f.attr, "".join(" " + a for a in args))]
            # self.update({...}) of __init__
            if self.is_self(f.value) and f.attr == "update" and self.name == "__init__" and len(c.args) == 1 and not c.keywords and isinstance(c.args[0], ast.Dict):
                x = self.expr(c.args[0], "containers")
                return ["let self := self_init_containers self %s in" % x[0]]
            # d.update(...)
            if f.attr == "update" and isinstance(f.value, ast.Name) and self.env.get(f.value.id) in ("dict", "sdict"):
                kind = self.env[f.value.id]
                d = f.value.id
                if c.args and c.keywords:
                    self.bad(s, "update with both a dict and keywords")
                if len(c.args) == 1 and isinstance(c.args[0], ast.Dict):
                    items = self.dict_display(c.args[0], "sdict" if kind == "sdict" else None)[0]
                elif not c.args and c.keywords and kind == "dict":
                    kv = []
                    for kw in c.keywords:
                        if kw.arg is None:
                            self.bad(s, "**kwargs in update")
                        kv.append("(%s, %s)" % (coq_string(kw.arg), self.to_obj(kw.value, self.expr(kw.value))))
                    items = "[" + "; ".join(kv) + "]"
                else:
                    self.bad(s, "unsupported form of update")
                return ["let %s := %s %s %s in" % (d, "sdict_update" if kind == "sdict" else "dict_update", d, items)]
            # C.add(x) / C.append(x) / self[K].append(x)
            if f.attr in ("add", "append") and len(c.args) == 1 and not c.keywords:
                ck = self.container_key(f.value)
                if ck is not None:
                    return ["let self := self_%s self %s %s in" % (f.attr, ck, self.to_obj(c.args[0], self.expr(c.args[0])))]
                # C[x].add(v)
                if f.attr == "add" and isinstance(f.value, ast.Subscript) and self.container_key(f.value.value) is not None:
                    x = self.expr(self.index(f.value))
                    return ["let self := self_item_add self %s %s %s in" % (
                        self.container_key(f.value.value), self.to_obj(f.value, x), self.to_obj(c.args[0], self.expr(c.args[0])))]
            self.bad(s, "unsupported call statement")
        if isinstance(s, ast.Raise):
            return ["let self := self_raise self in"]
        if isinstance(s, ast.If):
            return self.if_stmt(s)
        if isinstance(s, ast.For):
            return self.for_stmt(s)
        self.bad(s, "unsupported statement")

    def if_stmt(self, s):
        # S2
        tst = s.test
        if (self.name == "_from_tree_type_changes" and isinstance(tst, ast.Compare) and len(tst.ops) == 1 and isinstance(tst.ops[0], ast.Is)
                and isinstance(tst.left, ast.Call) and isinstance(tst.left.func, ast.Name) and tst.left.func.id == "type"):
            ok = (len(tst.left.args) == 1 and not tst.left.keywords and isinstance(tst.left.args[0], ast.Attribute)
                  and tst.left.args[0].attr == "t1" and self.level_of(tst.left.args[0].value)
                  and isinstance(tst.comparators[0], ast.Name) and tst.comparators[0].id == "type")
            if not ok:
                self.bad(s, "the class-object test is not `type(change.t1) is type`")

            def plain_targets(body):
                out = []
                for b in body:
                    if not (isinstance(b, ast.Assign) and len(b.targets) == 1 and isinstance(b.targets[0], ast.Name)):
                        self.bad(b, "branch of the class-object test is not a list of plain assignments")
                    out.append(b.targets[0].id)
                return sorted(out)
            if plain_targets(s.body) != plain_targets(s.orelse) or not s.orelse:
                self.bad(s, "the branches of the class-object test assign different locals")
            out = []
            for b in s.orelse:
                out += self.stmt(b)
            return out
        env0 = dict(self.env)
        a1, a2 = self.assigned(s.body, env0), self.assigned(s.orelse, env0)
        outs = [v for v in a1 + [w for w in a2 if w not in a1]
                if v == "self" or v in env0 or (v in a1 and v in a2)]
        if not outs:
            self.bad(s, "if statement without an effect on a live name")
        for v in outs:
            if v in self.stored:
                pass
        c = self.to_bool(s.test, self.expr(s.test))
        self.env = dict(env0)
        b1 = self.block(s.body, outs)
        env1 = self.env
        self.env = dict(env0)
        b2 = self.block(s.orelse, outs)
        env2 = self.env
        self.env = dict(env0)
        for v in outs:
            if v == "self":
                continue
            t1, t2 = env1.get(v), env2.get(v)
            if t1 != t2:
                self.bad(s, "local %s has different kinds in the two branches (%s, %s)" % (v, t1, t2))
            self.env[v] = t1
        return ["let %s :=" % tuple_pat(outs), "  if %s then (" % c] + indent(b1, 2) + ["  ) else ("] + indent(b2, 2) + ["  ) in"]

    def for_stmt(self, s):
        if s.orelse:
            self.bad(s, "for ... else")
        it = s.iter
        if not (isinstance(s.target, ast.Name) and isinstance(it, ast.Subscript) and isinstance(it.value, ast.Name)
                and self.env.get(it.value.id) == "tree"):
            self.bad(s, "loop that is not `for <name> in tree[<key>]`")
        k = self.expr(self.index(it))
        if k[1] != "str":
            self.bad(s, "tree[...] with a key that is not a str")
        var = s.target.id
        if var in self.env:
            self.bad(s, "loop variable %s shadows a local" % var)
        env0 = dict(self.env)
        inner_assigned = [v for v in self.assigned(s.body, env0) if v != "self" and v in env0]
        if inner_assigned:
            self.bad(s, "loop body rebinds the outer local(s) %s" % ", ".join(inner_assigned))
        self.env[var] = "level"
        body = self.block(s.body, ["self"], loop_top=True)
        self.env = env0
        return (["let self := fold_left (fun (self : gself) (%s : level) =>" % var] + indent(body, 2)
                + ["  ) (tree_get %s %s) self in" % (it.value.id, k[0])])


# ---- top level -------------------------------------------------------------------------------------------------

def read(repo, rel):
    p = os.path.join(repo, rel)
    with open(p) as f:
        return ast.parse(f.read(), filename=rel)


def check_helper(repo):
    t = T(HELPER)
    tree = read(repo, HELPER)
    found = {}
    for node in tree.body:
        if isinstance(node, ast.Assign) and len(node.targets) == 1 and isinstance(node.targets[0], ast.Name):
            nm = node.targets[0].id
            if nm in ("dict_", "RemapDict", "strings"):
                if nm in found:
                    t.bad(node, "%s assigned twice" % nm)
                found[nm] = node
    def is_name(n, x):
        return isinstance(n, ast.Name) and n.id == x
    if "dict_" not in found or not is_name(found["dict_"].value, "dict"):
        t.bad(found.get("dict_"), "dict_ is not `dict`")
    if "RemapDict" not in found or not is_name(found["RemapDict"].value, "dict_"):
        t.bad(found.get("RemapDict"), "RemapDict is not `dict_`")
    v = found.get("strings")
    if v is None or not (isinstance(v.value, ast.Tuple) and len(v.value.elts) == 2 and is_name(v.value.elts[0], "str") and is_name(v.value.elts[1], "bytes")):
        t.bad(v, "strings is not `(str, bytes)`")


def method_defaults(t, fn, name):
    a = fn.args
    if a.vararg or a.kwarg or a.kwonlyargs or getattr(a, "posonlyargs", []):
        t.bad(fn, "%s: *args / **kwargs / keyword-only / positional-only parameters" % name)
    names = [x.arg for x in a.args]
    defaults = {}
    for x, d in zip(names[len(names) - len(a.defaults):], a.defaults):
        if not (isinstance(d, ast.Constant) and (d.value is None or d.value is True or d.value is False or isinstance(d.value, int))):
            t.bad(fn, "%s: default of %s is not a simple constant" % (name, x))
        defaults[x] = d.value
    return names, defaults


def coq_default(v):
    if v is True:
        return "true"
    if v is False:
        return "false"
    if isinstance(v, int):
        return str(v)
    return None


def bound_names(node):
    """names a module-level statement binds (targets, def / class names, import names)"""
    out = []
    if isinstance(node, (ast.FunctionDef, ast.AsyncFunctionDef, ast.ClassDef)):
        out.append(node.name)
    elif isinstance(node, (ast.Import, ast.ImportFrom)):
        for a in node.names:
            out.append((a.asname or a.name).split(".")[0])
    elif isinstance(node, (ast.Assign, ast.AugAssign, ast.AnnAssign, ast.Delete, ast.For, ast.With, ast.If, ast.Try, ast.While)):
        for n in ast.walk(node):
            if isinstance(n, ast.Name) and isinstance(n.ctx, (ast.Store, ast.Del)):
                out.append(n.id)
            if isinstance(n, (ast.Import, ast.ImportFrom)):
                for a in n.names:
                    out.append((a.asname or a.name).split(".")[0])
            if isinstance(n, (ast.FunctionDef, ast.ClassDef)):
                out.append(n.name)
    return out


def check_module_bindings(t, tree, expected, protected):
    """S4: every name in `expected` (name -> how it must be bound) is bound exactly once at module level and in the expected
    way; no statement of the module stores into an attribute / item of a `protected` name, names it in a `global`
    statement or passes it to setattr / delattr"""
    count = {}
    for node in tree.body:
        for nm in bound_names(node):
            if nm in expected:
                count.setdefault(nm, []).append(node)
    for nm, how in expected.items():
        nodes = count.get(nm, [])
        if len(nodes) != 1:
            t.bad(nodes[1] if len(nodes) > 1 else None, "%s is bound %d times at module level" % (nm, len(nodes)))
        node = nodes[0]
        if how[0] == "from":
            if not (isinstance(node, ast.ImportFrom) and node.module == how[1] and node.level == 0
                    and any(a.name == nm and a.asname is None for a in node.names)):
                t.bad(node, "%s is not imported by `from %s import %s`" % (nm, how[1], nm))
        elif how[0] == "class":
            if not isinstance(node, ast.ClassDef):
                t.bad(node, "%s is not a class definition" % nm)
        elif how[0] == "def":
            if not isinstance(node, ast.FunctionDef):
                t.bad(node, "%s is not a function definition" % nm)
        elif how[0] == "assign":
            if not (isinstance(node, ast.Assign) and len(node.targets) == 1 and isinstance(node.targets[0], ast.Name)):
                t.bad(node, "%s is not bound by a plain assignment" % nm)
    for n in ast.walk(tree):
        if isinstance(n, (ast.Global, ast.Nonlocal)) and any(x in expected for x in n.names):
            t.bad(n, "global / nonlocal statement naming a name of the fragment")
        if isinstance(n, (ast.Attribute, ast.Subscript)) and isinstance(n.ctx, (ast.Store, ast.Del)):
            base = n.value
            while isinstance(base, (ast.Attribute, ast.Subscript)):
                base = base.value
            if isinstance(base, ast.Name) and base.id in protected:
                t.bad(n, "store into an attribute / item of %s" % base.id)
        if isinstance(n, ast.Call) and isinstance(n.func, ast.Attribute):
            base = n.func.value
            while isinstance(base, (ast.Attribute, ast.Subscript)):
                base = base.value
            if isinstance(base, ast.Name) and base.id in protected:
                t.bad(n, "method call on %s" % base.id)
        if isinstance(n, ast.Call) and isinstance(n.func, ast.Name) and n.func.id in ("setattr", "delattr") and n.args:
            a = n.args[0]
            while isinstance(a, (ast.Attribute, ast.Subscript)):
                a = a.value
            if isinstance(a, ast.Name) and a.id in protected:
                t.bad(n, "%s on %s" % (n.func.id, a.id))


MODEL_BINDINGS = {"TextResult": ("class",), "ResultDict": ("class",), "FORCE_DEFAULT": ("assign",), "REPORT_KEYS": ("assign",), "CUSTOM_FIELD": ("assign",),
                  "RemapDict": ("from", "deepdiff.helper"), "dict_": ("from", "deepdiff.helper"), "SetOrdered": ("from", "deepdiff.helper"),
                  "strings": ("from", "deepdiff.helper"), "notpresent": ("from", "deepdiff.helper"), "get_type": ("from", "deepdiff.helper"),
                  "Mapping": ("from", "collections.abc")}
SERIAL_BINDINGS = {"_get_pretty_form_text": ("def",), "pretty_print_diff": ("def",), "get_type": ("from", "deepdiff.helper")}
BUILTINS_USED = ("isinstance", "type", "str", "set", "dict", "list", "TypeError")


def translate_model(repo):
    t = T(MODEL)
    tree = read(repo, MODEL)
    check_module_bindings(t, tree, MODEL_BINDINGS, {"TextResult", "ResultDict", "REPORT_KEYS"})
    for node in tree.body:
        for nm in bound_names(node):
            if nm in BUILTINS_USED:
                t.bad(node, "the builtin %s is rebound at module level" % nm)
    out = []
    consts = {}
    cls = None
    for node in tree.body:
        if isinstance(node, ast.ClassDef) and node.name == "ResultDict":
            # the base class of TextResult: a plain dict (RemapDict = dict_ = dict) plus remove_empty_keys, which is outside the fragment
            ok = (not node.decorator_list and not node.keywords and len(node.bases) == 1 and isinstance(node.bases[0], ast.Name) and node.bases[0].id == "RemapDict")
            for b in node.body:
                if isinstance(b, ast.Expr) and isinstance(b.value, ast.Constant):
                    continue
                if not (isinstance(b, ast.FunctionDef) and b.name == "remove_empty_keys" and not b.decorator_list):
                    ok = False
            if not ok:
                t.bad(node, "class ResultDict is not `class ResultDict(RemapDict)` with the single method remove_empty_keys")
    for node in tree.body:
        if isinstance(node, ast.Assign) and len(node.targets) == 1 and isinstance(node.targets[0], ast.Name) and node.targets[0].id in MODULE_CONSTS:
            nm = node.targets[0].id
            if nm in consts:
                t.bad(node, "%s assigned twice" % nm)
            consts[nm] = node
        if isinstance(node, ast.ClassDef) and node.name == "TextResult":
            if cls is not None:
                t.bad(node, "class TextResult defined twice")
            cls = node
    for nm in MODULE_CONSTS:
        if nm not in consts:
            t.bad(None, "module constant %s not found" % nm)
    for nm in ("FORCE_DEFAULT", "CUSTOM_FIELD"):
        v = consts[nm].value
        if not (isinstance(v, ast.Constant) and isinstance(v.value, str)):
            t.bad(consts[nm], "%s is not a str literal" % nm)
        out.append("Definition g_%s : string := %s." % (nm, coq_string(v.value)))
    v = consts["REPORT_KEYS"].value
    if not (isinstance(v, ast.Set) and all(isinstance(e, ast.Constant) and isinstance(e.value, str) for e in v.elts)):
        t.bad(consts["REPORT_KEYS"], "REPORT_KEYS is not a set display of str literals")
    out.append("Definition g_REPORT_KEYS : list string :=\n  [%s]." % "; ".join(coq_string(e.value) for e in v.elts))
    if cls is None:
        t.bad(None, "class TextResult not found")
    if cls.decorator_list or cls.keywords or not (len(cls.bases) == 1 and isinstance(cls.bases[0], ast.Name) and cls.bases[0].id == "ResultDict"):
        t.bad(cls, "class TextResult: decorator / keyword / base other than ResultDict")
    methods = {}
    cls_consts = {}
    for node in cls.body:
        if isinstance(node, ast.Expr) and isinstance(node.value, ast.Constant) and isinstance(node.value.value, str):
            continue
        if isinstance(node, ast.Assign) and len(node.targets) == 1 and isinstance(node.targets[0], ast.Name):
            nm = node.targets[0].id
            if nm != "ADD_QUOTES_TO_STRINGS" or not (isinstance(node.value, ast.Constant) and node.value.value in (True, False)):
                t.bad(node, "class attribute %s (only ADD_QUOTES_TO_STRINGS = True / False is supported)" % nm)
            cls_consts[nm] = "bool"
            out.append("Definition g_TextResult_%s : bool := %s." % (nm, "true" if node.value.value else "false"))
            continue
        if isinstance(node, ast.FunctionDef):
            if node.decorator_list:
                t.bad(node, "decorator on %s" % node.name)
            if node.name not in SIGS:
                t.bad(node, "TextResult has the extra method %s" % node.name)
            if node.name in methods:
                t.bad(node, "method %s defined twice" % node.name)
            methods[node.name] = node
            continue
        t.bad(node, "unsupported statement in the body of class TextResult")
    if "ADD_QUOTES_TO_STRINGS" not in cls_consts:
        t.bad(cls, "class attribute ADD_QUOTES_TO_STRINGS not found")
    for nm in SIGS:
        if nm not in methods:
            t.bad(cls, "method %s not found" % nm)
    defaults = {}
    for nm, fn in methods.items():
        names, dfl = method_defaults(t, fn, nm)
        if names != ["self"] + [p for p, _ty, _tag in SIGS[nm]]:
            t.bad(fn, "%s has the parameters %s, expected %s" % (nm, names, ["self"] + [p for p, _ty, _tag in SIGS[nm]]))
        if nm in EXPECTED_DEFAULTS and nm == "__init__" and dfl != EXPECTED_DEFAULTS[nm]:
            t.bad(fn, "__init__ has the defaults %r, expected %r" % (dfl, EXPECTED_DEFAULTS[nm]))
        if set(dfl) != set(EXPECTED_DEFAULTS.get(nm, {})):
            t.bad(fn, "%s: the parameters with defaults are %s, expected %s" % (nm, sorted(dfl), sorted(EXPECTED_DEFAULTS.get(nm, {}))))
        defaults[nm] = {p: coq_default(v) for p, v in dfl.items() if coq_default(v) is not None}
    # callees first
    order, seen = [], set()

    def visit(nm):
        if nm in seen:
            return
        seen.add(nm)
        for n in ast.walk(methods[nm]):
            if isinstance(n, ast.Call) and isinstance(n.func, ast.Attribute) and isinstance(n.func.value, ast.Name) and n.func.value.id == "self" and n.func.attr in methods:
                visit(n.func.attr)
        order.append(nm)
    for nm in methods:      # source order
        visit(nm)
    calls_in_results = []
    for nm in order:
        fn = methods[nm]
        env = {"self": "self"}
        for p, _ty, tag in SIGS[nm]:
            env[p] = tag
        F = Fn(t, nm, env, defaults, cls_consts)
        params = "".join(" (%s : %s)" % (p, ty) for p, ty, _tag in SIGS[nm])
        if nm == "_from_tree_custom_results":
            body = custom_results(F, fn)
            out.append("Definition g_%s (self : gself)%s : gself :=\n%s." % (nm, params, body))
            continue
        if nm in RETURNS:
            stmts = [s for s in fn.body if not (isinstance(s, ast.Expr) and isinstance(s.value, ast.Constant))]
            if not (len(stmts) == 1 and isinstance(stmts[0], ast.Return) and stmts[0].value is not None):
                t.bad(fn, "%s is not a single return statement" % nm)
            x = F.expr(stmts[0].value, RETURNS[nm][1])
            if x[1] != RETURNS[nm][1]:
                t.bad(fn, "%s returns a %s" % (nm, x[1]))
            out.append("Definition g_%s (self : gself)%s : %s :=\n  %s." % (nm, params, RETURNS[nm][0], x[0]))
            continue
        if nm == "__init__":
            # the object starts empty: self_new
            body = "\n".join(indent(F.block(fn.body, ["self"])))
            out.append("Definition g_%s%s : gself :=\n  let self := self_new in\n%s." % (nm, params, body))
            continue
        if nm == "_from_tree_results":
            for s in fn.body:
                if (isinstance(s, ast.Expr) and isinstance(s.value, ast.Call) and isinstance(s.value.func, ast.Attribute)
                        and isinstance(s.value.func.value, ast.Name) and s.value.func.value.id == "self"):
                    c = s.value
                    label = c.func.attr[len("_from_tree_"):] if c.func.attr.startswith("_from_tree_") else c.func.attr
                    if c.func.attr == "_from_tree_default" and len(c.args) >= 2 and isinstance(c.args[1], ast.Constant):
                        label = "default:%s" % c.args[1].value
                    calls_in_results.append(label)
        body = "\n".join(indent(F.block(fn.body, ["self"])))
        out.append("Definition g_%s (self : gself)%s : gself :=\n%s." % (nm, params, body))
    out.append("Definition g_category_order : list string :=\n  [%s]." % "; ".join(coq_string(x) for x in calls_in_results))
    return out


def custom_results(F, fn):
    """S3"""
    t = F.t
    stmts = [s for s in fn.body if not (isinstance(s, ast.Expr) and isinstance(s.value, ast.Constant))]
    ok = len(stmts) == 1 and isinstance(stmts[0], ast.For) and not stmts[0].orelse
    if ok:
        f = stmts[0]
        ok = (isinstance(f.target, ast.Tuple) and len(f.target.elts) == 2 and all(isinstance(e, ast.Name) for e in f.target.elts)
              and isinstance(f.iter, ast.Call) and isinstance(f.iter.func, ast.Attribute) and f.iter.func.attr == "items"
              and isinstance(f.iter.func.value, ast.Name) and f.iter.func.value.id == "tree" and not f.iter.args and not f.iter.keywords
              and len(f.body) == 1 and isinstance(f.body[0], ast.If) and not f.body[0].orelse)
    if ok:
        k = f.target.elts[0].id
        tst = f.body[0].test
        ok = (isinstance(tst, ast.Compare) and len(tst.ops) == 1 and isinstance(tst.ops[0], ast.NotIn) and isinstance(tst.left, ast.Name)
              and tst.left.id == k and isinstance(tst.comparators[0], ast.Name) and tst.comparators[0].id == "REPORT_KEYS")
    if not ok:
        t.bad(fn, "_from_tree_custom_results is not `for k, X in tree.items(): if k not in REPORT_KEYS: BODY`")
    for b in f.body[0].body:
        for n in ast.walk(b):
            if isinstance(n, ast.Assign):
                for tg in n.targets:
                    base = tg
                    depth = 0
                    while isinstance(base, (ast.Subscript, ast.Attribute)):
                        base = base.value
                        depth += 1
                    if isinstance(base, ast.Name) and base.id == "self":
                        if not (depth == 1 and isinstance(tg, ast.Subscript) and isinstance(F.index(tg), ast.Name) and F.index(tg).id == k
                                and isinstance(n.value, ast.Name)):
                            t.bad(n, "_from_tree_custom_results stores into self other than by `self[%s] = <local>`" % k)
            if isinstance(n, (ast.AugAssign, ast.Delete, ast.AnnAssign)):
                for m in ast.walk(n):
                    if isinstance(m, ast.Name) and m.id == "self":
                        t.bad(n, "_from_tree_custom_results modifies self")
            if isinstance(n, ast.Call) and isinstance(n.func, ast.Attribute):
                base = n.func.value
                while isinstance(base, (ast.Subscript, ast.Attribute)):
                    base = base.value
                if isinstance(base, ast.Name) and base.id == "self":
                    t.bad(n, "_from_tree_custom_results calls a method on self")
    return ("  let self := fold_left (fun (self : gself) (%s : string) =>\n"
            "    if (negb (str_mem %s g_REPORT_KEYS)) then self_custom self %s else self\n"
            "  ) (tree_keys tree) self in\n  self" % (k, k, k))


def translate_serial(repo):
    t = T(SERIAL)
    tree = read(repo, SERIAL)
    check_module_bindings(t, tree, SERIAL_BINDINGS, set(SERIAL_BINDINGS))
    for node in tree.body:
        for nm in bound_names(node):
            if nm in ("str",):
                t.bad(node, "the builtin %s is rebound at module level" % nm)
    fns = {}
    for node in tree.body:
        if isinstance(node, ast.FunctionDef) and node.name in SERIAL_FUNCS:
            if node.name in fns:
                t.bad(node, "%s defined twice" % node.name)
            if node.decorator_list:
                t.bad(node, "decorator on %s" % node.name)
            fns[node.name] = node
    out = []
    for nm in ("_get_pretty_form_text", "pretty_print_diff"):
        if nm not in fns:
            t.bad(None, "function %s not found" % nm)
        fn = fns[nm]
        names, dfl = method_defaults(t, fn, nm)
        sig, ret = SERIAL_FUNCS[nm]
        if names != [p for p, _ty, _tag in sig] or dfl:
            t.bad(fn, "%s has the parameters %s (defaults %s)" % (nm, names, sorted(dfl)))
        env = {p: tag for p, _ty, tag in sig}
        F = Fn(t, nm, env, {}, {}, verbose_param="verbose_level" if nm == "pretty_print_diff" else None)
        stmts = [s for s in fn.body if not (isinstance(s, ast.Expr) and isinstance(s.value, ast.Constant))]
        if not stmts or not isinstance(stmts[-1], ast.Return) or stmts[-1].value is None:
            t.bad(fn, "%s does not end with a return of a value" % nm)
        lines = []
        for s in stmts[:-1]:
            if nm == "_get_pretty_form_text" and isinstance(s, ast.Assign) and len(s.targets) == 1 and isinstance(s.targets[0], ast.Name) and isinstance(s.value, ast.Dict):
                x = F.expr(s.value, "sdict")
                F.env[s.targets[0].id] = "sdict"
                lines.append("  let %s := %s in" % (s.targets[0].id, x[0]))
                continue
            if isinstance(s, (ast.For, ast.Raise)):
                t.bad(s, "%s: loop / raise" % nm)
            lines += indent(F.stmt(s))
        x = F.expr(stmts[-1].value)
        if x[1] != ret[1]:
            if ret[1] == "obj":
                x = (F.to_obj(stmts[-1], x), "obj")
            else:
                t.bad(fn, "%s returns a %s" % (nm, x[1]))
        extra = " (verbose_level : nat)" if nm == "pretty_print_diff" else ""
        params = "".join(" (%s : %s)" % (p, ty) for p, ty, _tag in sig)
        out.append("Definition g_%s%s%s : %s :=\n%s\n  %s." % (nm, extra, params, ret[0], "\n".join(lines), x[0]))
    return out


def translate(repo):
    check_helper(repo)
    defs = translate_model(repo) + translate_serial(repo)
    hdr = ("(* generated from deepdiff/model.py (FORCE_DEFAULT, REPORT_KEYS, CUSTOM_FIELD, class TextResult), deepdiff/serialization.py\n"
           "   (_get_pretty_form_text, pretty_print_diff) and deepdiff/helper.py (dict_, RemapDict, strings: checked only) by\n"
           "   harness/translate/textresult.py - do not edit; definitions only *)\n"
           "From Coq Require Import List ZArith NArith Bool Arith String.\n"
           "Import ListNotations.\n"
           "From DD Require Import Base.PyStr Base.Value Diff.Tree Views.ViewsSrc.\n"
           "Local Open Scope string_scope.\n"
           "Local Open Scope bool_scope.\n\n")
    return hdr + "\n\n".join(defs) + "\n"


if __name__ == "__main__":
    import sys
    sys.stdout.write(translate(sys.argv[1] if len(sys.argv) > 1 else "/repo"))

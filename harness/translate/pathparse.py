"""Source tie of C09: deepdiff/path.py -> Gallina (module DDGen.PathGen).

translate(repo_root) reads <repo_root>/deepdiff/path.py, parses it with `ast` (no import of deepdiff, no
eval) and re-derives, statement by statement, Gallina definitions of

    GET, GETATTR, DEFAULT_FIRST_ELEMENT, _add_to_elements, _parse_path_to_elements (and the body of its
    `for char in path` loop as a step function), stringify_element (and the body of its loop)

over the types / primitive operations of coq/theories/Path/PathTie.v.  coq/srctie/PathGenEquiv.v proves the
generated definitions equal to the hand-written model (Path/PathModel.v, Path/PathXModel.v).

The translation is syntax directed: one Python statement -> one Gallina `let` / `tbind` / `if`, in source order,
same case analysis.  An `if` statement becomes an expression that returns the tuple of the variables assigned in
it; a `for` loop a monadic left fold (PathTie.tfold) of the body over the tuple of the variables the body assigns.
Every computation lives in the outcome monad PathTie.tout (value | uncaught exception | outside the model).

FAIL CLOSED: every node shape that is not on the white list below raises Unsupported(file:line: what).

Trusted rules (each one is part of the trusted base of the tie; they are listed in coq/theories/Path/NOTES_tie.md):
  T1  typing table (TYPES below): which Python type a variable has (str -> pystr, one-character str -> N,
      False|str -> option pystr, None|char -> option N, list of str -> list pystr, bool -> bool, the tuple
      root_element -> option (V * action), quote_str -> option (prefix, suffix)); an assignment whose right-hand
      side does not fit the declared type is rejected.
  T2  `elem` in _add_to_elements is flow typed: str until `elem = literal_eval(elem)`, a literal's value after it,
      PathTie.dyn where the two meet; indexing / slicing a literal's value is TUnsup (outside the model).
  T3  try: X = literal_eval(X); <assignments> except (ValueError, SyntaxError): <assignments>  becomes a `match`
      on the oracle LE X (LeOk / LeCaught; LeRaises -> TRaises, LeUnsup -> TUnsup).  literal_eval must be
      `from ast import literal_eval`.
  T4  GET / GETATTR are the constructors of PathModel.action, provided the module binds them exactly once to the
      str literals 'GET' / 'GETATTR' (emitted as g_GET / g_GETATTR and proved equal to PathActsModel.action_str).
  T5  l.append(x) is l := l ++ [x]; l.pop() as a statement is l := removelast l (IndexError on []);
      _add_to_elements(l, e, i) as a statement is l := <its translation> (the callee only appends to its first
      parameter: checked, any other use of that parameter is rejected); tuple(l) is l; ''.join(l) of a list of
      characters is l.
  T6  quote_str.format(param) is prefix ++ param ++ suffix (PathModel.quote_fmt: a format with exactly one {}).
  T7  skipped: docstrings, comments, the decorator @lru_cache(maxsize=<int>) of _parse_path_to_elements
      (modelled and proved transparent for every maxsize in Path/PathCacheModel.v: C09_lru_cache_transparent).
"""
import ast
import os

SRC = "deepdiff/path.py"


class Unsupported(Exception):
    pass


def _bad(node, what):
    raise Unsupported("%s:%s: %s [%s]" % (SRC, getattr(node, "lineno", "?"), what, type(node).__name__))


# --------------------------------------------------------------------------------------------------
# T1: the typing table
# --------------------------------------------------------------------------------------------------
COQ_TYPE = {
    "str": "pystr", "chr": "N", "bool": "bool", "optstr": "option pystr", "optchr": "option N",
    "liststr": "list pystr", "listchr": "pystr", "action": "action", "elements": "list (V * action)",
    "lit": "V", "dyn": "dyn V", "rootopt": "option (V * action)", "quotefmt": "quote_fmt",
}

TYPES = {
    "_add_to_elements": {
        "params": [("elements", "elements"), ("elem", "str"), ("inside", "optstr")],
        "defaults": [],
        "locals": [("elements", "elements"), ("elem", "flow"), ("remove_quotes", "bool"), ("action", "action")],
        "mutates": "elements",          # T5: the value of the call statement
        "decorators": "none",
        "generic": True,
    },
    "_parse_path_to_elements": {
        "params": [("path", "str"), ("root_element", "rootopt")],
        "defaults": ["DEFAULT_FIRST_ELEMENT"],
        "locals": [("elements", "elements"), ("elem", "str"), ("inside", "optstr"), ("prev_char", "optchr"),
                   ("path", "str"), ("brackets", "liststr"), ("inside_quotes", "bool"), ("quote_used", "str"),
                   ("char", "chr")],
        "mutates": None,
        "decorators": "lru_cache",
        "generic": True,
    },
    "stringify_element": {
        "params": [("param", "str"), ("quote_str", "quotefmt")],
        "defaults": [None],
        "locals": [("has_quote", "bool"), ("has_double_quote", "bool"), ("new_param", "listchr"), ("char", "chr"),
                   ("result", "str")],
        "mutates": None,
        "decorators": "none",
        "generic": False,
    },
}
ORDER = ["_add_to_elements", "_parse_path_to_elements", "stringify_element"]
ACTIONS = {"GET": "GET", "GETATTR": "GETATTR"}          # T4
CONSTS = ["GETATTR", "GET", "DEFAULT_FIRST_ELEMENT"]


def _codes(s):
    return "[" + "; ".join(str(ord(c)) for c in s) + "]"


class E:
    """a translated expression: Coq term, type, monadic (term : tout T) or pure (term : T)"""

    def __init__(self, term, ty, mon=False, lit=None):
        self.term, self.ty, self.mon, self.lit = term, ty, mon, lit


class Fn:
    def __init__(self, name, node, module):
        self.name, self.node, self.m = name, node, module
        self.spec = TYPES[name]
        self.decl = dict(self.spec["locals"])
        self.decl.update(dict(self.spec["params"]))
        for n, t in self.spec["locals"]:
            self.decl[n] = t
        self.order = [n for n, _t in self.spec["params"]] + [n for n, _t in self.spec["locals"]]
        self.order = list(dict.fromkeys(self.order))
        self.fresh = 0
        self.aux = []           # auxiliary definitions (loop bodies), emitted before the function

    # ---- helpers ----------------------------------------------------------------------------
    def save(self):
        return (self.fresh, list(self.aux), getattr(self, "n_loops", 0))

    def restore(self, st):
        self.fresh, self.aux, self.n_loops = st[0], list(st[1]), st[2]

    def gensym(self):
        self.fresh += 1
        return "x%d" % self.fresh

    def sort_vars(self, vs):
        return [v for v in self.order if v in vs]

    @staticmethod
    def tup(vs):
        return vs[0] if len(vs) == 1 else "(" + ", ".join(vs) + ")"

    @staticmethod
    def pat(vs):
        return vs[0] if len(vs) == 1 else "'(" + ", ".join(vs) + ")"

    def coq_ty(self, t, node=None):
        if t not in COQ_TYPE:
            _bad(node or self.node, "no Coq type for %r" % t)
        return COQ_TYPE[t]

    # ---- coercions --------------------------------------------------------------------------
    def coerce(self, e, want, node):
        """pure coercion of a translated expression to the declared type `want`"""
        if e.mon:
            _bad(node, "an operation that can raise is used where a plain value is expected")
        have = e.ty
        if have == want:
            return e.term
        if have == "strlit":
            s = e.lit
            if want == "str":
                return _codes(s)
            if want == "chr" and len(s) == 1:
                return str(ord(s))
            if want == "optstr":
                return "(Some %s)" % _codes(s)
            if want == "optchr" and len(s) == 1:
                return "(Some %d)" % ord(s)
            if want == "listchr":
                return _codes(s)
        if have == "chr" and want == "str":
            return "[%s]" % e.term
        if have == "chr" and want == "optchr":
            return "(Some %s)" % e.term
        if have == "str" and want == "optstr":
            return "(Some %s)" % e.term
        if have == "false" and want == "optstr":
            return "None"
        if have == "false" and want == "bool":
            return "false"
        if have == "true" and want == "bool":
            return "true"
        if have == "none" and want in ("optchr", "rootopt", "quotefmt"):
            return "None"
        if have == "emptylist" and want in ("elements", "liststr", "listchr"):
            return "[]"
        if want == "dyn" and have == "str":
            return "(DStr %s)" % e.term
        if want == "dyn" and have == "lit":
            return "(DVal %s)" % e.term
        if want == "value":         # the object as an element of `elements` (T2: a str is a value)
            if have == "str":
                return "(VStr %s)" % e.term
            if have == "strlit":
                return "(VStr %s)" % _codes(e.lit)
            if have == "lit":
                return e.term
            if have == "dyn":
                return "(dyn_val VStr %s)" % e.term
        _bad(node, "a value of type %s where %s is expected" % (have, want))

    def truth(self, e, node):
        """Python truthiness of a translated expression -> E of type bool (possibly monadic)"""
        t = e.ty
        if t in ("bool",):
            return e
        if t in ("true", "false"):
            return E(t, "bool")
        if e.mon:
            _bad(node, "truthiness of an operation that can raise, of type %s" % t)
        if t in ("str", "liststr", "listchr", "elements"):
            return E("seq_truthy %s" % e.term, "bool")
        if t in ("rootopt", "quotefmt"):
            # a 2-tuple / a format string with a {} is never empty: true exactly when not None
            return E("opt_truthy %s" % e.term, "bool")
        _bad(node, "truthiness of a value of type %s" % t)

    # ---- expressions --------------------------------------------------------------------------
    def lift(self, e):
        return e.term if e.mon else "tret %s" % par(e.term)

    def bind2(self, a, b, f, ty):
        """f(x, y) for operands that may be monadic, evaluated left to right"""
        if not a.mon and not b.mon:
            return E(f(a.term, b.term), ty)
        xa = self.gensym() if a.mon else None
        xb = self.gensym() if b.mon else None
        body = "tret (%s)" % f(xa or a.term, xb or b.term)
        if b.mon:
            body = "tbind %s (fun %s => %s)" % (par(b.term), xb, body)
        if a.mon:
            body = "tbind %s (fun %s => %s)" % (par(a.term), xa, body)
        return E(body, ty, mon=True)

    def expr(self, n, env):
        if isinstance(n, ast.Constant):
            v = n.value
            if isinstance(v, str):
                return E(None, "strlit", lit=v)
            if v is True:
                return E("true", "true")
            if v is False:
                return E("false", "false")
            if v is None:
                return E("None", "none")
            _bad(n, "constant %r" % (v,))
        if isinstance(n, ast.Name):
            if not isinstance(n.ctx, ast.Load):
                _bad(n, "name in a non-load position")
            if n.id in env:
                return E(n.id, env[n.id])
            if n.id in ACTIONS:
                return E(ACTIONS[n.id], "action")
            _bad(n, "unknown name %s" % n.id)
        if isinstance(n, ast.List) and not n.elts:
            return E("[]", "emptylist")
        if isinstance(n, ast.UnaryOp) and isinstance(n.op, ast.Not):
            b = self.truth(self.expr(n.operand, env), n)
            if b.mon:
                x = self.gensym()
                return E("tbind %s (fun %s => tret (negb %s))" % (par(b.term), x, x), "bool", mon=True)
            return E("negb %s" % par(b.term), "bool")
        if isinstance(n, ast.BoolOp):
            ops = [self.truth(self.expr(v, env), n) for v in n.values]
            if not any(o.mon for o in ops):
                return E((" && " if isinstance(n.op, ast.And) else " || ").join(par(o.term) for o in ops), "bool")
            if not isinstance(n.op, ast.And):
                _bad(n, "`or` over operations that can raise")
            t = self.lift(ops[-1])
            for o in reversed(ops[:-1]):
                t = "tand %s %s" % (par(self.lift(o)), par(t))
            return E(t, "bool", mon=True)
        if isinstance(n, ast.Compare):
            if len(n.ops) != 1 or len(n.comparators) != 1:
                _bad(n, "chained comparison")
            return self.compare(n, n.left, n.ops[0], n.comparators[0], env)
        if isinstance(n, ast.Subscript):
            return self.subscript(n, env)
        if isinstance(n, ast.IfExp):
            c = self.truth(self.expr(n.test, env), n)
            a, b = self.expr(n.body, env), self.expr(n.orelse, env)
            ty = a.ty if a.ty not in ("strlit",) else b.ty
            if a.ty != b.ty and "strlit" not in (a.ty, b.ty):
                _bad(n, "conditional expression with branches of types %s / %s" % (a.ty, b.ty))
            if ty == "strlit":
                ty = "str"
            if c.mon:
                _bad(n, "conditional expression whose test can raise")
            if a.mon or b.mon:
                la = a.term if a.mon else "tret %s" % par(self.coerce(a, ty, n))
                lb = b.term if b.mon else "tret %s" % par(self.coerce(b, ty, n))
                return E("if %s then %s else %s" % (c.term, la, lb), ty, mon=True)
            return E("if %s then %s else %s" % (c.term, self.coerce(a, ty, n), self.coerce(b, ty, n)), ty)
        if isinstance(n, ast.BinOp) and isinstance(n.op, ast.Add):
            a, b = self.expr(n.left, env), self.expr(n.right, env)
            return E("%s ++ %s" % (par(self.coerce(a, "str", n)), par(self.coerce(b, "str", n))), "str")
        if isinstance(n, ast.JoinedStr):
            parts = []
            for v in n.values:
                if isinstance(v, ast.Constant) and isinstance(v.value, str):
                    parts.append(_codes(v.value))
                elif isinstance(v, ast.FormattedValue) and v.conversion == -1 and v.format_spec is None:
                    parts.append(par(self.coerce(self.expr(v.value, env), "str", v)))
                else:
                    _bad(v, "f-string part")
            return E(" ++ ".join(parts) if parts else "[]", "str")
        if isinstance(n, ast.Tuple) and len(n.elts) == 2:
            a, b = self.expr(n.elts[0], env), self.expr(n.elts[1], env)
            return E("(%s, %s)" % (self.coerce(a, "value", n), self.coerce(b, "action", n)), "element")
        if isinstance(n, ast.Call):
            return self.call(n, env)
        _bad(n, "expression")

    def compare(self, n, l, op, r, env):
        a = self.expr(l, env)
        b = E(None, "set") if isinstance(r, ast.Set) else self.expr(r, env)
        if isinstance(op, (ast.Eq, ast.NotEq)):
            neg = isinstance(op, ast.NotEq)

            def fin(e):
                if not neg:
                    return e
                if e.mon:
                    x = self.gensym()
                    return E("tbind %s (fun %s => tret (negb %s))" % (par(e.term), x, x), "bool", mon=True)
                return E("negb %s" % par(e.term), "bool")
            tys = (a.ty, b.ty)
            if tys == ("optchr", "strlit") and len(b.lit) == 1 and not a.mon:
                return fin(E("optchr_eqb %s %d" % (a.term, ord(b.lit)), "bool"))
            if tys == ("optstr", "strlit") and not a.mon:
                return fin(E("optstr_eqb %s %s" % (a.term, _codes(b.lit)), "bool"))
            if tys == ("chr", "strlit") and len(b.lit) == 1:
                return fin(self.bind2(a, E(str(ord(b.lit)), "chr"), lambda x, y: "%s =? %s" % (x, y), "bool"))
            if tys == ("chr", "chr"):
                return fin(self.bind2(a, b, lambda x, y: "%s =? %s" % (x, y), "bool"))
            if tys == ("str", "chr"):
                return fin(self.bind2(a, b, lambda x, y: "pystr_eqb %s [%s]" % (x, y), "bool"))
            if tys == ("str", "strlit"):
                return fin(self.bind2(a, E(_codes(b.lit), "str"), lambda x, y: "pystr_eqb %s %s" % (x, y), "bool"))
            if tys == ("action", "action"):
                return fin(self.bind2(a, b, lambda x, y: "action_eqb %s %s" % (x, y), "bool"))
            _bad(n, "comparison of %s with %s" % tys)
        if isinstance(op, ast.In):
            if a.ty == "strlit" and len(a.lit) == 1 and b.ty == "str" and not b.mon:
                return E("has_char %d %s" % (ord(a.lit), b.term), "bool")
            if a.ty == "strlit" and b.ty == "str" and not b.mon:
                return E("contains_sub %s %s" % (_codes(a.lit), b.term), "bool")
            if a.ty == "chr" and isinstance(r, ast.Set) and r.elts and all(
                    isinstance(x, ast.Constant) and isinstance(x.value, str) and len(x.value) == 1 for x in r.elts):
                alts = [ord(x.value) for x in r.elts]
                if a.mon:
                    x = self.gensym()
                    return E("tbind %s (fun %s => tret (%s))" % (par(a.term), x, " || ".join("(%s =? %d)" % (x, c) for c in alts)),
                             "bool", mon=True)
                return E(" || ".join("(%s =? %d)" % (a.term, c) for c in alts), "bool")
            _bad(n, "membership test")
        if isinstance(op, (ast.Is, ast.IsNot)):
            if b.ty == "none" and a.ty in ("quotefmt", "rootopt", "optchr") and not a.mon:
                t = "opt_truthy %s" % a.term
                return E(t if isinstance(op, ast.IsNot) else "negb (%s)" % t, "bool")
            _bad(n, "identity test")
        _bad(n, "comparison operator")

    def const_int(self, n):
        if isinstance(n, ast.Constant) and type(n.value) is int:
            return n.value
        if isinstance(n, ast.UnaryOp) and isinstance(n.op, ast.USub) and isinstance(n.operand, ast.Constant) and type(n.operand.value) is int:
            return -n.operand.value
        _bad(n, "index that is not an integer literal")

    @staticmethod
    def zlit(i):
        return "(%d)%%Z" % i if i < 0 else "%d%%Z" % i

    def subscript(self, n, env):
        if not isinstance(n.ctx, ast.Load):
            _bad(n, "subscript in a non-load position")
        v = self.expr(n.value, env)
        if v.mon:
            _bad(n, "subscript of an operation that can raise")
        if isinstance(n.slice, ast.Slice):
            if n.slice.step is not None:
                _bad(n, "slice with a step")
            lo = "None" if n.slice.lower is None else "(Some %s)" % self.zlit(self.const_int(n.slice.lower))
            hi = "None" if n.slice.upper is None else "(Some %s)" % self.zlit(self.const_int(n.slice.upper))
            if v.ty == "str":
                return E("seq_slice %s %s %s" % (v.term, lo, hi), "str")
            if v.ty == "dyn":
                return E("dyn_slice %s %s %s" % (v.term, lo, hi), "dyn", mon=True)
            _bad(n, "slice of a value of type %s" % v.ty)
        i = self.zlit(self.const_int(n.slice))
        if v.ty == "str":
            return E("str_get %s %s" % (v.term, i), "chr", mon=True)
        if v.ty == "dyn":
            return E("dyn_get %s %s" % (v.term, i), "chr", mon=True)
        if v.ty == "liststr":
            return E("lst_get %s %s" % (v.term, i), "str", mon=True)
        _bad(n, "index into a value of type %s" % v.ty)

    def call(self, n, env):
        if n.keywords:
            _bad(n, "keyword arguments")
        f = n.func
        if isinstance(f, ast.Name) and f.id == "tuple" and len(n.args) == 1:           # T5
            a = self.expr(n.args[0], env)
            if a.ty == "elements" and not a.mon:
                return a
            _bad(n, "tuple() of a value of type %s" % a.ty)
        if isinstance(f, ast.Attribute) and isinstance(f.ctx, ast.Load):
            if f.attr == "startswith" and len(n.args) == 1:
                o, a = self.expr(f.value, env), self.expr(n.args[0], env)
                if o.ty == "str" and a.ty == "strlit" and not o.mon:
                    return E("str_startswith %s %s" % (o.term, _codes(a.lit)), "bool")
            if f.attr == "join" and len(n.args) == 1:                                   # T5
                o, a = self.expr(f.value, env), self.expr(n.args[0], env)
                if o.ty == "strlit" and o.lit == "" and a.ty == "listchr" and not a.mon:
                    return E(a.term, "str")
            if f.attr == "format" and len(n.args) == 1:                                 # T6
                o, a = self.expr(f.value, env), self.expr(n.args[0], env)
                if o.ty == "quotefmt" and not o.mon:
                    return E("fmt_format %s %s" % (o.term, par(self.coerce(a, "str", n))), "str", mon=True)
        _bad(n, "call")

    # ---- statements ---------------------------------------------------------------------------
    def assigned(self, stmts):
        """the variables a statement list assigns (syntactic)"""
        out = set()
        for s in stmts:
            if isinstance(s, ast.Assign):
                for t in s.targets:
                    if isinstance(t, ast.Name):
                        out.add(t.id)
                    else:
                        _bad(t, "assignment target")
            elif isinstance(s, ast.AugAssign):
                if isinstance(s.target, ast.Name):
                    out.add(s.target.id)
                else:
                    _bad(s, "assignment target")
            elif isinstance(s, ast.Expr):
                c = s.value
                if isinstance(c, ast.Call):
                    if isinstance(c.func, ast.Attribute) and c.func.attr in ("append", "pop") and isinstance(c.func.value, ast.Name):
                        out.add(c.func.value.id)
                    elif isinstance(c.func, ast.Name) and c.func.id in TYPES and TYPES[c.func.id]["mutates"] and c.args \
                            and isinstance(c.args[0], ast.Name):
                        out.add(c.args[0].id)
            elif isinstance(s, ast.If):
                out |= self.assigned(s.body) | self.assigned(s.orelse)
            elif isinstance(s, ast.For):
                if isinstance(s.target, ast.Name):
                    out.add(s.target.id)
                out |= self.assigned(s.body)
            elif isinstance(s, ast.Try):
                out |= self.assigned(s.body)
                for h in s.handlers:
                    out |= self.assigned(h.body)
        return out

    def reads(self, stmts):
        names = set()
        for s in stmts:
            for x in ast.walk(s):
                if isinstance(x, ast.Name):
                    names.add(x.id)
        return names

    def assign(self, name, e, env, node):
        """-> (lines binding `name`, new env); monadic right-hand sides become a tbind"""
        d = self.decl.get(name)
        if d is None:
            _bad(node, "assignment to %s, which is not in the typing table of %s" % (name, self.name))
        if d == "flow":
            ty = e.ty
            if ty == "strlit":
                ty, e = "str", E(_codes(e.lit), "str")
            if ty not in ("str", "lit", "dyn"):
                _bad(node, "assignment of a value of type %s to the flow-typed %s" % (ty, name))
            term = e.term
        else:
            ty = d
            if e.mon:
                if e.ty != d:
                    _bad(node, "assignment of type %s to %s : %s" % (e.ty, name, d))
                term = e.term
            else:
                term = self.coerce(e, d, node)
        env2 = dict(env)
        env2[name] = ty
        if e.mon:
            return ("tbind %s (fun %s =>" % (par(term), name), ")"), env2
        return ("let %s := %s in" % (name, term), ""), env2

    def block(self, stmts, env, tail, ind, live):
        """translate a statement list; tail(env, ind) gives the text that follows it and reads the variables `live`"""
        if not stmts:
            return tail(env, ind)
        s, rest = stmts[0], stmts[1:]
        need = self.reads(rest) | set(live)         # what is read after s (syntactic over-approximation)

        def cont(env2, ind2):
            return self.block(rest, env2, tail, ind2, live)
        sp = "  " * ind
        if isinstance(s, ast.Expr) and isinstance(s.value, ast.Constant) and isinstance(s.value.value, str):
            return cont(env, ind)                                                       # T7 docstring
        if isinstance(s, ast.Assign):
            if len(s.targets) != 1 or not isinstance(s.targets[0], ast.Name):
                _bad(s, "assignment with several / structured targets")
            (open_, close), env2 = self.assign(s.targets[0].id, self.expr(s.value, env), env, s)
            return sp + open_ + "\n" + cont(env2, ind) + close
        if isinstance(s, ast.AugAssign):
            if not (isinstance(s.op, ast.Add) and isinstance(s.target, ast.Name)):
                _bad(s, "augmented assignment")
            x = s.target.id
            if env.get(x) != "str" or self.decl.get(x) not in ("str",):
                _bad(s, "+= on %s of type %s" % (x, env.get(x)))
            r = self.expr(s.value, env)
            (open_, close), env2 = self.assign(x, E("%s ++ %s" % (x, par(self.coerce(r, "str", s))), "str"), env, s)
            return sp + open_ + "\n" + cont(env2, ind) + close
        if isinstance(s, ast.Expr) and isinstance(s.value, ast.Call):
            c = s.value
            if c.keywords:
                _bad(c, "keyword arguments")
            if isinstance(c.func, ast.Attribute) and isinstance(c.func.value, ast.Name):
                x = c.func.value.id
                if c.func.attr == "append" and len(c.args) == 1 and x in env:            # T5
                    a = self.expr(c.args[0], env)
                    if env[x] == "elements":
                        if a.ty == "element" and not a.mon:
                            item = E(a.term, "element")
                        elif a.ty == "rootopt" and not a.mon:
                            item = E("opt_val %s" % a.term, "element", mon=True)
                        else:
                            _bad(s, "append of a value of type %s to a list of elements" % a.ty)
                    elif env[x] == "liststr":
                        item = E(self.coerce(a, "str", s), "str")
                    elif env[x] == "listchr":
                        item = E(self.coerce(a, "chr", s), "chr")
                    else:
                        _bad(s, "append to a value of type %s" % env[x])
                    if item.mon:
                        y = self.gensym()
                        return (sp + "tbind %s (fun %s =>\n" % (par(item.term), y)
                                + sp + "let %s := %s ++ [%s] in\n" % (x, x, y) + cont(env, ind) + ")")
                    return sp + "let %s := %s ++ [%s] in\n" % (x, x, item.term) + cont(env, ind)
                if c.func.attr == "pop" and not c.args and env.get(x) == "liststr":       # T5
                    return sp + "tbind (lst_pop %s) (fun %s =>\n" % (x, x) + cont(env, ind) + ")"
            if isinstance(c.func, ast.Name) and c.func.id in TYPES and TYPES[c.func.id]["mutates"]:
                spec = TYPES[c.func.id]
                if len(c.args) != len(spec["params"]) or not isinstance(c.args[0], ast.Name):
                    _bad(s, "call of %s with other arguments than its %d parameters" % (c.func.id, len(spec["params"])))
                x = c.args[0].id
                if spec["params"][0][0] != spec["mutates"]:
                    _bad(s, "internal: mutated parameter is not the first")
                args = [self.coerce(self.expr(a, env), t, a) for a, (_p, t) in zip(c.args, spec["params"])]
                if env.get(x) != spec["params"][0][1]:
                    _bad(s, "first argument of %s of type %s" % (c.func.id, env.get(x)))
                g = "g_%s%s" % (c.func.id, " V VStr LE" if spec["generic"] and not self.in_section else "")
                return sp + "tbind (%s %s) (fun %s =>\n" % (g, " ".join(par(a) for a in args), x) + cont(env, ind) + ")"
            _bad(s, "call statement")
        if isinstance(s, ast.Return):
            if rest:
                _bad(s, "statements after return")
            return self.ret(s, env, ind)
        if isinstance(s, ast.If):
            return self.if_(s, rest, env, tail, ind, live, need)
        if isinstance(s, ast.For):
            return self.for_(s, env, cont, ind, need)
        if isinstance(s, ast.Try):
            return self.try_(s, env, cont, ind, need)
        _bad(s, "statement")

    def ret(self, s, env, ind):
        sp = "  " * ind
        m = self.spec["mutates"]
        if s is None or s.value is None:
            if not m:
                _bad(s or self.node, "return without a value")
            return sp + "tret %s" % m
        if m:
            _bad(s, "return of a value from a function translated by its effect on %s" % m)
        e = self.expr(s.value, env)
        if e.ty not in ("elements", "str"):
            _bad(s, "return of a value of type %s" % e.ty)
        return sp + self.lift(e)

    def join_types(self, name, tys, node):
        tys = set(tys)
        if len(tys) == 1:
            return tys.pop()
        if tys <= {"str", "lit", "dyn"}:         # T2
            return "dyn"
        _bad(node, "%s has types %s on different paths" % (name, sorted(tys)))

    def out_tuple(self, vs, env, want, node):
        items = []
        for v in vs:
            if v not in env:
                _bad(node, "%s is not assigned on every path" % v)
            items.append(v if env[v] == want[v] else self.coerce(E(v, env[v]), want[v], node))
        return self.tup(items)

    def if_(self, s, rest, env, tail, ind, live, need):
        sp = "  " * ind
        c = self.truth(self.expr(s.test, env), s)
        # `if c: return` : the rest of the block is the else branch
        if len(s.body) == 1 and isinstance(s.body[0], ast.Return) and not s.orelse:
            if c.mon:
                _bad(s, "guard whose test can raise")
            return (sp + "if %s then\n" % c.term + self.ret(s.body[0], env, ind + 1) + "\n" + sp + "else\n"
                    + self.block(rest, env, tail, ind, live))
        for b in (s.body, s.orelse):
            for x in b:
                for y in ast.walk(x):
                    if isinstance(y, ast.Return):
                        _bad(y, "return inside a branch")
        vs = self.sort_vars(self.assigned([s]) & need)
        if not vs:
            _bad(s, "if statement without effect on what follows it")
        # first pass: the types at the end of each branch
        ends = []

        def probe(env2, _ind):
            ends.append(env2)
            return ""
        saved = self.save()
        self.block(s.body, env, probe, 0, vs)
        self.block(s.orelse, env, probe, 0, vs)
        self.restore(saved)
        want = {}
        for v in vs:
            tys = [e2[v] for e2 in ends if v in e2]
            if len(tys) != len(ends):
                _bad(s, "%s is not assigned before the if statement and not in both branches" % v)
            want[v] = self.join_types(v, tys, s)

        def out(env2, ind2):
            return "  " * ind2 + "tret %s" % self.out_tuple(vs, env2, want, s)
        tb = self.block(s.body, env, out, ind + 2, vs)
        eb = self.block(s.orelse, env, out, ind + 2, vs)
        env3 = dict(env)
        env3.update(want)
        if c.mon:
            x = self.gensym()
            head = sp + "tbind (tbind %s (fun %s => if %s then\n" % (par(c.term), x, x)
            close = "))"
        else:
            head = sp + "tbind (if %s then\n" % c.term
            close = ")"
        return (head + tb + "\n" + sp + "  else\n" + eb + close + " (fun %s =>\n" % self.pat(vs)
                + self.block(rest, env3, tail, ind, live) + ")")

    def try_(self, s, env, cont, ind, need):                                                     # T3
        sp = "  " * ind
        if s.orelse or s.finalbody or len(s.handlers) != 1:
            _bad(s, "try statement with else / finally / several handlers")
        h = s.handlers[0]
        if h.name is not None or not (isinstance(h.type, ast.Tuple) and
                                      sorted(getattr(x, "id", "?") for x in h.type.elts) == ["SyntaxError", "ValueError"]):
            _bad(h, "handler other than `except (ValueError, SyntaxError):`")
        if not s.body:
            _bad(s, "empty try")
        a = s.body[0]
        if not (isinstance(a, ast.Assign) and len(a.targets) == 1 and isinstance(a.targets[0], ast.Name)
                and isinstance(a.value, ast.Call) and isinstance(a.value.func, ast.Name) and a.value.func.id == "literal_eval"
                and len(a.value.args) == 1 and not a.value.keywords and isinstance(a.value.args[0], ast.Name)
                and self.m.literal_eval_is_ast):
            _bad(a, "try body that does not start with X = literal_eval(Y)")
        x, y = a.targets[0].id, a.value.args[0].id
        if env.get(y) != "str" or self.decl.get(x) != "flow":
            _bad(a, "literal_eval of %s : %s assigned to %s" % (y, env.get(y), x))
        for st in s.body[1:] + h.body:
            if not (isinstance(st, ast.Assign) and len(st.targets) == 1 and isinstance(st.targets[0], ast.Name)
                    and isinstance(st.value, ast.Constant)):
                _bad(st, "statement other than an assignment of a constant inside try / except around literal_eval")
        vs = self.sort_vars(self.assigned([s]) & need)
        if not vs:
            _bad(s, "try statement without effect on what follows it")
        ends = []

        def probe(env2, _ind):
            ends.append(env2)
            return ""
        env_ok = dict(env)
        env_ok[x] = "lit"
        saved = self.save()
        self.block(s.body[1:], env_ok, probe, 0, vs)
        self.block(h.body, env, probe, 0, vs)
        self.restore(saved)
        want = {v: self.join_types(v, [e2[v] for e2 in ends if v in e2], s) for v in vs}
        for v in vs:
            if any(v not in e2 for e2 in ends):
                _bad(s, "%s is not assigned on every path through the try statement" % v)

        def out(env2, ind2):
            return "  " * ind2 + "tret %s" % self.out_tuple(vs, env2, want, s)
        ok = self.block(s.body[1:], env_ok, out, ind + 3, vs)
        ex = self.block(h.body, env, out, ind + 3, vs)
        env3 = dict(env)
        env3.update(want)
        return (sp + "tbind (match LE %s with\n" % y
                + sp + "    | LeOk %s =>\n" % x + ok + "\n"
                + sp + "    | LeCaught =>\n" + ex + "\n"
                + sp + "    | LeRaises => TRaises\n"
                + sp + "    | LeUnsup => TUnsup\n"
                + sp + "    end) (fun %s =>\n" % self.pat(vs)
                + cont(env3, ind) + ")")

    def for_(self, s, env, cont, ind, need):
        sp = "  " * ind
        if s.orelse or not isinstance(s.target, ast.Name) or not isinstance(s.iter, ast.Name):
            _bad(s, "for loop other than `for <name> in <name>:`")
        it, cv = s.iter.id, s.target.id
        if env.get(it) != "str" or self.decl.get(cv) != "chr":
            _bad(s, "for loop over %s of type %s" % (it, env.get(it)))
        for y in ast.walk(s):
            if isinstance(y, (ast.Break, ast.Continue, ast.Return)):
                _bad(y, "break / continue / return inside the loop")
        vs = self.sort_vars((self.assigned(s.body) - {cv}) & (need | self.reads(s.body)))
        if not vs:
            _bad(s, "loop without effect on what follows it")
        if cv in self.assigned(s.body) or it in self.assigned(s.body):
            _bad(s, "the loop assigns its own variable or the str it iterates over")
        for v in vs:
            if v not in env:
                _bad(s, "%s is assigned in the loop and not before it" % v)
        free = [v for v in self.order if v in self.reads(s.body) and v in env and v not in vs and v != cv]
        env_b = dict(env)
        env_b[cv] = "chr"
        want = {v: env[v] for v in vs}

        def out(env2, ind2):
            for v in vs:
                if env2[v] != want[v]:
                    _bad(s, "%s changes its type inside the loop" % v)
            return "  " * ind2 + "tret %s" % self.tup(vs)
        self.n_loops = getattr(self, "n_loops", 0) + 1
        lname = "g_%s_step" % self.name + ("" if self.n_loops == 1 else str(self.n_loops))
        body = self.block(s.body, env_b, out, 1, vs)
        st_ty = " * ".join(self.coq_ty(env[v], s) for v in vs)
        params = "".join(" (%s : %s)" % (v, self.coq_ty(env[v], s)) for v in free)
        self.aux.append("Definition %s%s (st : %s) (%s : N) : tout (%s) :=\n  let %s := st in\n%s.\n"
                        % (lname, params, st_ty, cv, st_ty, self.pat(vs), body))
        call = lname + ("" if self.in_section or not self.spec["generic"] else " V VStr LE") + "".join(" " + v for v in free)
        return (sp + "tbind (tfold (%s) %s %s) (fun %s =>\n" % (call, it, self.tup(vs), self.pat(vs)) + cont(env, ind) + ")")

    # ---- the function ---------------------------------------------------------------------------
    def translate(self):
        f = self.node
        spec = self.spec
        a = f.args
        if a.vararg or a.kwarg or a.kwonlyargs or a.posonlyargs or a.kw_defaults:
            _bad(f, "parameter list of %s" % self.name)
        if [x.arg for x in a.args] != [p for p, _t in spec["params"]]:
            _bad(f, "parameters of %s are %r, the typing table has %r" % (self.name, [x.arg for x in a.args], [p for p, _t in spec["params"]]))
        if any(x.annotation is not None for x in a.args) or f.returns is not None:
            _bad(f, "annotations on %s" % self.name)
        if len(a.defaults) != len(spec["defaults"]):
            _bad(f, "defaults of %s" % self.name)
        self.default_defs = []
        for (p, t), d, want in zip(spec["params"][len(spec["params"]) - len(a.defaults):], a.defaults, spec["defaults"]):
            if want is None:
                if not (isinstance(d, ast.Constant) and d.value is None):
                    _bad(d, "default of %s.%s is not None" % (self.name, p))
                self.default_defs.append((p, "None", t))
            else:
                if not (isinstance(d, ast.Name) and d.id == want):
                    _bad(d, "default of %s.%s is not %s" % (self.name, p, want))
                self.default_defs.append((p, "g_" + want, t))
        if spec["decorators"] == "none":
            if f.decorator_list:
                _bad(f.decorator_list[0], "decorator on %s" % self.name)
            self.lru = None
        else:                                                                              # T7
            if len(f.decorator_list) != 1:
                _bad(f, "%s must have exactly the decorator lru_cache(maxsize=...)" % self.name)
            d = f.decorator_list[0]
            if not (isinstance(d, ast.Call) and isinstance(d.func, ast.Name) and d.func.id == "lru_cache" and not d.args
                    and len(d.keywords) == 1 and d.keywords[0].arg == "maxsize" and self.m.lru_cache_is_functools):
                _bad(d, "decorator other than functools' lru_cache(maxsize=...)")
            self.lru = self.m.const_nat(d.keywords[0].value)
        for x in ast.walk(f):
            if isinstance(x, (ast.Global, ast.Nonlocal, ast.FunctionDef, ast.AsyncFunctionDef, ast.Lambda, ast.ClassDef, ast.Yield,
                              ast.YieldFrom, ast.Await, ast.With, ast.While, ast.Delete, ast.Raise, ast.Assert, ast.Import,
                              ast.ImportFrom, ast.NamedExpr, ast.Starred)) and x is not f:
                _bad(x, "construct outside the translated fragment")
        if spec["mutates"]:
            # T5: the mutated parameter is only ever appended to
            m = spec["mutates"]
            for x in ast.walk(f):
                if isinstance(x, ast.Name) and x.id == m:
                    ok = False
                    for y in ast.walk(f):
                        if isinstance(y, ast.Call) and isinstance(y.func, ast.Attribute) and y.func.value is x and y.func.attr == "append":
                            ok = True
                    if not ok:
                        _bad(x, "use of the parameter %s other than %s.append(...)" % (m, m))
        self.in_section = spec["generic"]
        env = {p: t for p, t in spec["params"]}

        def end(env2, ind2):
            return self.ret(None, env2, ind2)
        body = self.block(f.body, env, end, 1, [spec["mutates"]] if spec["mutates"] else [])
        params = "".join(" (%s : %s)" % (p, self.coq_ty(t, f)) for p, t in spec["params"])
        rt = "list (V * action)" if (spec["mutates"] or self.name == "_parse_path_to_elements") else "pystr"
        text = "".join(self.aux)
        text += "Definition g_%s%s : tout (%s) :=\n%s.\n" % (self.name, params, rt, body)
        return text


def par(t):
    t = t.strip()
    if " " in t and not (t.startswith("(") and _balanced(t)) and not (t.startswith("[") and t.endswith("]") and _balanced_sq(t)):
        return "(" + t + ")"
    return t


def _balanced(t):
    d = 0
    for i, ch in enumerate(t):
        if ch == "(":
            d += 1
        elif ch == ")":
            d -= 1
            if d == 0 and i != len(t) - 1:
                return False
    return d == 0


def _balanced_sq(t):
    d = 0
    for i, ch in enumerate(t):
        if ch == "[":
            d += 1
        elif ch == "]":
            d -= 1
            if d == 0 and i != len(t) - 1:
                return False
    return d == 0


class Module:
    def __init__(self, tree):
        self.tree = tree
        self.funcs, self.consts = {}, {}
        self.literal_eval_is_ast = False
        self.lru_cache_is_functools = False
        watched = set(TYPES) | set(CONSTS) | {"literal_eval", "lru_cache", "tuple"}
        bound = {}
        for n in tree.body:
            names = []
            if isinstance(n, (ast.FunctionDef, ast.AsyncFunctionDef, ast.ClassDef)):
                names = [n.name]
            elif isinstance(n, ast.Assign):
                for t in n.targets:
                    names += [x.id for x in ast.walk(t) if isinstance(x, ast.Name)]
            elif isinstance(n, (ast.AugAssign, ast.AnnAssign)):
                names += [x.id for x in ast.walk(n.target) if isinstance(x, ast.Name)]
            elif isinstance(n, (ast.Import, ast.ImportFrom)):
                for al in n.names:
                    nm = (al.asname or al.name).split(".")[0]
                    names.append(nm)
                    if nm == "*":
                        _bad(n, "star import")
            elif isinstance(n, ast.Expr) and isinstance(n.value, ast.Constant):
                pass
            else:
                # any other module-level statement could rebind a watched name
                for x in ast.walk(n):
                    if isinstance(x, ast.Name) and isinstance(x.ctx, (ast.Store, ast.Del)) and x.id in watched:
                        _bad(n, "module-level statement binding %s" % x.id)
                if not isinstance(n, (ast.If, ast.Try, ast.Expr)):
                    _bad(n, "module-level statement")
            for nm in names:
                if nm in watched:
                    if nm in bound:
                        _bad(n, "%s is bound twice at module level" % nm)
                    bound[nm] = n
        # nobody rebinds a watched name from inside a function
        for x in ast.walk(tree):
            if isinstance(x, (ast.Global, ast.Nonlocal)) and set(x.names) & watched:
                _bad(x, "global declaration of a watched name")
        for nm in TYPES:
            n = bound.get(nm)
            if not isinstance(n, ast.FunctionDef):
                raise Unsupported("%s: function %s not found" % (SRC, nm))
            self.funcs[nm] = n
        if "tuple" in bound:
            _bad(bound["tuple"], "tuple is rebound")
        n = bound.get("literal_eval")
        self.literal_eval_is_ast = (isinstance(n, ast.ImportFrom) and n.module == "ast" and n.level == 0 and
                                    any(al.name == "literal_eval" and al.asname is None for al in n.names))
        n = bound.get("lru_cache")
        self.lru_cache_is_functools = (isinstance(n, ast.ImportFrom) and n.module == "functools" and n.level == 0 and
                                       any(al.name == "lru_cache" and al.asname is None for al in n.names))
        # T4: the constants
        for nm in ("GET", "GETATTR"):
            n = bound.get(nm)
            if not (isinstance(n, ast.Assign) and len(n.targets) == 1 and isinstance(n.targets[0], ast.Name)
                    and isinstance(n.value, ast.Constant) and n.value.value == nm):
                raise Unsupported("%s:%s: %s is not bound to the str literal %r" % (SRC, getattr(n, "lineno", "?"), nm, nm))
            self.consts[nm] = n.value.value
        n = bound.get("DEFAULT_FIRST_ELEMENT")
        if not (isinstance(n, ast.Assign) and len(n.targets) == 1 and isinstance(n.value, ast.Tuple) and len(n.value.elts) == 2
                and isinstance(n.value.elts[0], ast.Constant) and isinstance(n.value.elts[0].value, str)
                and isinstance(n.value.elts[1], ast.Name) and n.value.elts[1].id in ACTIONS):
            raise Unsupported("%s:%s: DEFAULT_FIRST_ELEMENT is not a pair (str literal, GET | GETATTR)" % (SRC, getattr(n, "lineno", "?")))
        self.default_first = (n.value.elts[0].value, n.value.elts[1].id)
        # the constants must be bound before the functions that use them as defaults are defined
        if n.lineno > self.funcs["_parse_path_to_elements"].lineno:
            _bad(n, "DEFAULT_FIRST_ELEMENT is bound after _parse_path_to_elements")

    def const_nat(self, n):
        if isinstance(n, ast.Constant) and type(n.value) is int and n.value >= 0:
            return n.value
        if isinstance(n, ast.BinOp) and isinstance(n.op, ast.Mult):
            return self.const_nat(n.left) * self.const_nat(n.right)
        _bad(n, "maxsize that is not a product of natural number literals")


HEADER = """(* generated by harness/translate/pathparse.py from deepdiff/path.py:
   GET, GETATTR, DEFAULT_FIRST_ELEMENT, _add_to_elements, _parse_path_to_elements, stringify_element.
   Definitions only; do not edit (regenerated and recompiled on every run of ./check C09). *)
From Coq Require Import List ZArith NArith Bool.
Import ListNotations.
From DD Require Import Base.PyStr Base.Value Path.PathModel Path.PathTie.
Local Open Scope N_scope.

"""


def translate(repo):
    p = os.path.join(repo, SRC)
    with open(p, encoding="utf-8") as f:
        src = f.read()
    tree = ast.parse(src)
    m = Module(tree)
    out = [HEADER]
    out.append("Definition g_GETATTR : pystr := %s.\n" % _codes(m.consts["GETATTR"]))
    out.append("Definition g_GET : pystr := %s.\n" % _codes(m.consts["GET"]))
    out.append("Definition g_DEFAULT_FIRST_ELEMENT : pystr * action := (%s, %s).\n\n" % (_codes(m.default_first[0]), ACTIONS[m.default_first[1]]))
    fns = {nm: Fn(nm, m.funcs[nm], m) for nm in ORDER}
    texts = {nm: fns[nm].translate() for nm in ORDER}
    out.append("Section Generic.\nVariable V : Type.\nVariable VStr : pystr -> V.\nVariable LE : pystr -> leres V.\n\n")
    for nm in ORDER:
        if TYPES[nm]["generic"]:
            out.append(texts[nm] + "\n")
    out.append("End Generic.\n\n")
    for nm in ORDER:
        if not TYPES[nm]["generic"]:
            out.append(texts[nm] + "\n")
    f = fns["_parse_path_to_elements"]
    out.append("Definition g__parse_path_to_elements_lru_maxsize : N := %d.\n" % f.lru)
    for nm in ORDER:
        for (p_, d, _t) in fns[nm].default_defs:
            if d == "None":
                out.append("Definition g_%s_default_%s : option (pystr * pystr) := None.\n" % (nm, p_))
            else:
                out.append("Definition g_%s_default_%s : pystr * action := %s.\n" % (nm, p_, d))
    return "".join(out)


if __name__ == "__main__":
    import sys
    sys.stdout.write(translate(sys.argv[1] if len(sys.argv) > 1 else "/repo"))

"""Source tie of C06 / C07: the serialiser of deepdiff/deephash.py  ->  Gallina (coq/srctie/HashGen.v, DDGen.HashGen).

translate(repo_root) reads /repo's CURRENT deepdiff/deephash.py (plus the constants it imports from deepdiff/helper.py
and Base.get_significant_digits of deepdiff/base.py, which are only CHECKED), walks the `ast` of

    KEY_TO_VAL_STR (helper.py), INDEX_VS_ATTRIBUTE, prepare_string_for_hashing,
    DeepHash._prep_bool, _prep_path, _prep_number, _prep_ipranges, _prep_datetime, _prep_date,
    DeepHash._prep_iterable, _prep_dict, _prep_tuple, DeepHash._hash

with an explicit white-list of node shapes and emits one Gallina definition g_<name> per Python function, statement
by statement, in the same order and with the same case analysis, over the typed embedding of Python fixed by hand in
coq/theories/Hash/HashSrcPrims.v (objects `pobj`, isinstance on the classes the dispatcher names, str(), str.format,
join, sorted, the defaultdict(int) counter, the `hashes` table, `self`).  Anything outside the white-list raises
Unsupported(file:line: what).  No eval, no import of deepdiff.  Equality with the hand-written model
(Hash/HashModel.v: hash_memo; Hash/HashXModel.v: xleaf_result) is the business of coq/srctie/HashGenEquiv.v.

RULES (each is part of the trusted base of this tie; also listed in coq/theories/Hash/NOTES_SRCTIE.md)
 E  embedding: a Python variable is a `pobj` (objects), a `pystr` (a str the code just built: literals, format, join,
    lower, class names), a `list pobj`, a `ddict` (defaultdict(int)), a `nat`, a `bool`; where a str is used as an
    object it is wrapped `OText s`, where an object is used as text (`format` arguments, `join`, `lower`,
    `startswith`, the hasher's argument) `py_str x` is taken (Python: str(x)); a nat formats as `dec_nat`.
    Truthiness of an object is `py_truthy`.  `x.__class__.__name__` / `type(x).__name__` is `class_name x`.
 S  state: `self.hashes` is the only mutable state of the fragment; it is threaded as `st : memo` through every call
    of _hash / _prep_dict / _prep_iterable / _prep_tuple (which return `pobj * memo`).
    T1 `try: result, counts = self.hashes[obj] / except (TypeError, KeyError): pass / else: return result, counts`
       -> `match hashes_get st obj with Some result => (result, st) | None => <rest> end`
    T2 `try: self.hashes[obj] = (result, counts) / except TypeError: obj_id = get_id(obj); self.hashes[obj_id] = (...)`
       -> `let st := hashes_set st obj result in`
    T3 `try: obj._asdict / except AttributeError: A / else: B` -> `if has_asdict obj then B else A`
    `self.hashes[UNPROCESSED_KEY].append(obj)` -> `hashes_unprocessed_append st obj`.
 R  recursion: `self._hash(x, ...)` inside _prep_dict / _prep_iterable is the parameter `rec_hash`; _hash itself is
    emitted as its one-step body `g_hash_body rec_hash ...` and tied by `g_hash fuel` (fuel 0: ONotHashed, not a
    Python behaviour; HashGenEquiv proves g_hash fuel = hash_memo for every fuel above the nesting depth, and that
    every solution of the recursion equation equals hash_memo).
 L  loops: `for a, b in enumerate(x) / x.items(): body` is `fold_left (fun acc it => body) (py_enumerate x /
    py_dict_items x) acc0` over the variables that exist before the loop and are assigned in it (and `st`);
    `continue` returns the current accumulator.  `if c: <ends in continue / return>` followed by more statements is
    `if c then <that> else <the rest>`; an if / elif chain without continue / return is
    `let '(v1, .., vn) := (if c then .. else ..) in` over the variables it assigns that are defined before it or in
    every branch (a variable assigned in some branches only and read afterwards is rejected).
 C  counts erased: the names `counts`, `count`, `_` and the second component of the (result, counts) pairs are not
    translated (Hash/HashModel.v has no item counts; Hash/HashXModel.v has, tied by correspondence only).  The
    translator checks that these names occur only in `counts = 1`, `counts += <erased name or constant>`, as second
    target of a pair assignment and as second component of a returned / stored pair.
 P  paths erased: the parameter `parent` and the locals `new_parent`, `key_text`, `key_formatted`, `key_in_report`
    (which only feed `parent=` arguments, i.e. _skip_this and error texts) are not translated; the translator checks
    that they are assigned from side-effect free expressions and used nowhere else.
 F  fixed options (everything the hand-written model does not have is at its default): `self.custom_operators is
    not None` and `self.use_enum_value and ...` are false (their branches are dropped), `self._skip_this(..)` is
    `prim_skip_this` (= false), `self.apply_hash` is `self_apply_hash` (= true), `number_format_notation` is 'f',
    `default_timezone` is UTC, `encodings` / `ignore_encoding_errors` of prepare_string_for_hashing are erased
    (their only use, the bytes branch - pinned by hash of its text - is `prim_decode_bytes`).  The translator checks
    the defaults in DeepHash.__init__'s signature and that __init__ stores each option it relies on unchanged.
 X  fixed parameters: `_prep_dict(print_as_attribute=False, original_type=None)`: `if print_as_attribute: A else: B`
    is B; the translated call site passes neither.
 O  outside the universe: the DataFrame branches (`(pandas|polars) and isinstance(obj, <it>.DataFrame)` ->
    `isinstance_DataFrame obj`), and every call of `self._prep_obj` are emitted as `outside_fragment st`.
 I  identity: `get_id`, `add_to_frozen_set`, `x in parents_ids`, truthiness of parents_ids are the primitives of the
    same names (tree-shaped universe: the cycle guard never fires).
SKIPPED: docstrings, comments, `# type: ignore`, `# pragma` (not in the ast); everything in deephash.py that is not
 one of the functions above (sha256hex, combine_hashes_lists, __init__ beyond the checks of rule F, _getitem, ...).
"""
import ast
import hashlib
import os

SRC = "deepdiff/deephash.py"
HELPER = "deepdiff/helper.py"
BASE = "deepdiff/base.py"


class Unsupported(Exception):
    pass


def bad(node, what, src=SRC):
    raise Unsupported("%s:%s: %s%s" % (src, getattr(node, "lineno", "?"), what,
                                       (" [" + type(node).__name__ + "]") if isinstance(node, ast.AST) else ""))


def text_sha(node):
    return hashlib.sha256(ast.unparse(node).encode()).hexdigest()


# ---- static tables ----------------------------------------------------------------------------------------
COQTY = {"obj": "pobj", "str": "pystr", "lst": "list pobj", "dd": "ddict", "nat": "nat", "bool": "bool",
         "memo": "memo", "ids": "pids", "id": "unit", "optnat": "option nat", "opttrunc": "option tunit"}
RESERVED = {"st", "rec_hash", "self_", "acc", "it", "fuel", "type", "in", "end", "fun", "let", "match", "with", "as", "at",
            "if", "then", "else", "fix", "forall", "exists", "return", "using", "where", "Type", "Prop", "Set", "H", "o"}
# self.<attr> read by the fragment -> (Coq term, type)
SELF_ATTRS = {
    "ignore_repetition": ("self_ignore_repetition self", "bool"),
    "ignore_iterable_order": ("self_ignore_iterable_order self", "bool"),
    "ignore_private_variables": ("self_ignore_private_variables self", "bool"),
    "ignore_string_case": ("self_ignore_string_case self", "bool"),
    "ignore_string_type_changes": ("self_ignore_string_type_changes self", "bool"),
    "ignore_numeric_type_changes": ("self_ignore_numeric_type_changes self", "bool"),
    "significant_digits": ("self_significant_digits self", "optnat"),
    "truncate_datetime": ("self_truncate_datetime self", "opttrunc"),
    "apply_hash": ("self_apply_hash self", "bool"),
}
# options that __init__ must store unchanged (`self.x = x`) and their required defaults (rule F)
INIT_COPIED = ["ignore_repetition", "ignore_iterable_order", "ignore_private_variables", "ignore_string_case",
               "ignore_string_type_changes", "ignore_numeric_type_changes", "apply_hash", "use_enum_value",
               "custom_operators", "encodings", "ignore_encoding_errors", "number_format_notation", "default_timezone",
               "exclude_obj_callback"]
INIT_DEFAULTS = {"apply_hash": True, "custom_operators": None, "use_enum_value": False, "encodings": None,
                 "ignore_encoding_errors": False, "number_format_notation": "f", "exclude_obj_callback": None,
                 "exclude_paths": None, "exclude_regex_paths": None, "exclude_types": None, "include_paths": None,
                 "ignore_repetition": True, "ignore_iterable_order": True, "ignore_private_variables": True,
                 "ignore_string_case": False, "ignore_string_type_changes": False, "ignore_numeric_type_changes": False,
                 "significant_digits": None, "truncate_datetime": None, "number_to_string_func": None, "hasher": None}
INIT_PINNED = {   # statements of __init__ that give `self` attributes their meaning in HashSrcPrims.v
    "significant_digits": "self.significant_digits = self.get_significant_digits(significant_digits, ignore_numeric_type_changes)",
    "truncate_datetime": "self.truncate_datetime = get_truncate_datetime(truncate_datetime)",
    "hasher": "self.hasher = default_hasher if hasher is None else hasher",
    "number_to_string": "self.number_to_string = number_to_string_func or number_to_string",
}
ISINSTANCE = {"booleanTypes": "isinstance_booleanTypes", "strings": "isinstance_strings", "str": "isinstance_str",
              "bytes": "isinstance_bytes", "Path": "isinstance_Path", "times": "isinstance_times",
              "numbers": "isinstance_numbers", "ipranges": "isinstance_ipranges",
              "MutableMapping": "isinstance_MutableMapping", "tuple": "isinstance_tuple", "Iterable": "isinstance_Iterable",
              "PydanticBaseModel": "isinstance_PydanticBaseModel"}
ISINSTANCE_ATTR = {("datetime", "date"): "isinstance_date", ("pandas", "DataFrame"): "isinstance_DataFrame",
                   ("polars", "DataFrame"): "isinstance_DataFrame"}
# helper.py / deephash.py definitions the isinstance primitives and constants rely on: name -> required text
HELPER_PINS = {
    "strings": "(str, bytes)",
    "only_numbers": "(int, float, complex, Decimal) + numpy_numbers",
    "datetimes": "(datetime.datetime, datetime.date, datetime.timedelta, datetime.time)",
    "times": "(datetime.datetime, datetime.time)",
    "numbers": "only_numbers + datetimes",
    "ipranges": "(ipaddress.IPv4Interface, ipaddress.IPv6Interface, ipaddress.IPv4Network, ipaddress.IPv6Network)",
}
DECODE_BLOCK_SHA = "59cc4c8055e16ec18b38624fe8c9690fc03e3a01d02bab0e62a6826df5735299"          # sha256 of the text of the `if isinstance(obj, bytes):` block (rule F)
GSD_SHA = "69eb69760482e6829980ab250cc36130b58d08cb20b15b508ba711eb6ea5f2c4"                  # sha256 of the text of Base.get_significant_digits
BOOLOBJ_TEXT = "class BoolObj(Enum):\n    TRUE = 1\n    FALSE = 0"
HELPER_IMPORTS = {"strings", "numbers", "times", "unprocessed", "not_hashed", "add_to_frozen_set", "ipranges", "get_id",
                  "number_to_string", "datetime_normalize", "KEY_TO_VAL_STR", "get_truncate_datetime", "PydanticBaseModel"}
MODULE_IMPORTS = {("collections.abc", "Iterable"), ("collections.abc", "MutableMapping"), ("collections", "defaultdict"),
                  ("pathlib", "Path"), ("enum", "Enum")}

# function -> (kind, params after self/obj handling)
#   kind "pure": returns pobj;  "state": (rec_hash) self obj parents_ids st -> pobj * memo
ERASED_COUNTS = {"counts", "count", "_"}
ERASED_PATHS = {"parent", "new_parent", "key_text", "key_formatted", "key_in_report"}
SIGS = {
    "_prep_bool": ("pure", ["self", "obj"], []),
    "_prep_path": ("pure", ["self", "obj"], []),
    "_prep_number": ("pure", ["self", "obj"], []),
    "_prep_ipranges": ("pure", ["self", "obj"], []),
    "_prep_datetime": ("pure", ["self", "obj"], []),
    "_prep_date": ("pure", ["self", "obj"], []),
    "_prep_iterable": ("state", ["self", "obj", "parent", "parents_ids"], ["EMPTY_FROZENSET"]),
    "_prep_dict": ("state", ["self", "obj", "parent", "parents_ids", "print_as_attribute", "original_type"],
                   ["EMPTY_FROZENSET", False, None]),
    "_prep_tuple": ("state", ["self", "obj", "parent", "parents_ids"], []),
    "_hash": ("state", ["self", "obj", "parent", "parents_ids"], ["EMPTY_FROZENSET"]),
}
FIXED_PARAMS = {"_prep_dict": {"print_as_attribute": False, "original_type": None}}      # rule X
ORDER = ["_prep_bool", "_prep_path", "_prep_number", "_prep_ipranges", "_prep_datetime", "_prep_date",
         "_prep_iterable", "_prep_dict", "_prep_tuple", "_hash"]
REC_TY = "pobj -> pids -> memo -> pobj * memo"


def coq_str(s, node):
    if not all(32 <= ord(c) < 127 for c in s):
        bad(node, "string literal with non-printable / non-ASCII characters")
    return '(s2p "%s")' % s.replace('"', '""')


def clean(s):
    # Coq lexes string literals inside comments: no double quotes, no comment brackets
    return s.replace('"', "'").replace("(*", "( *").replace("*)", "* )")


# ---- one function -----------------------------------------------------------------------------------------
class Fn:
    def __init__(self, tr, fn, name, kind, in_class):
        self.tr, self.fn, self.name, self.kind = tr, fn, name, kind
        self.in_class = in_class
        self.fixed = FIXED_PARAMS.get(name, {})
        self.erased = set(ERASED_COUNTS) | set(ERASED_PATHS) | set(self.fixed)

    # -- helpers
    def var(self, n, node):
        if n in RESERVED or n.startswith("g_") or n.startswith("prim_") or not n.isidentifier():
            bad(node, "local name %r clashes with the names of the embedding" % n)
        return n

    def to_str(self, t, ty, node):
        if ty == "str":
            return t
        if ty == "obj":
            return "py_str %s" % self.atom(t)
        if ty == "nat":
            return "dec_nat %s" % self.atom(t)
        bad(node, "a %s used as text" % ty)

    def to_obj(self, t, ty, node):
        if ty == "obj":
            return t
        if ty == "str":
            return "OText %s" % self.atom(t)
        bad(node, "a %s used as an object" % ty)

    def to_bool(self, t, ty, node):
        if ty == "bool":
            return t
        if ty == "obj":
            return "py_truthy %s" % self.atom(t)
        if ty == "ids":
            return "pids_truthy %s" % self.atom(t)
        bad(node, "truthiness of a %s" % ty)

    @staticmethod
    def atom(t):
        t = t.strip()
        if t.startswith("(") and t.endswith(")"):
            depth = 0
            for i, c in enumerate(t):
                depth += c == "("
                depth -= c == ")"
                if depth == 0 and i < len(t) - 1:
                    break
            else:
                return t
        if all(c.isalnum() or c == "_" for c in t):
            return t
        return "(" + t + ")"

    def no_erased(self, e):
        for n in ast.walk(e):
            if isinstance(n, ast.Name) and n.id in self.erased:
                bad(n, "the erased name %r is used in a translated expression (rules C / P / X)" % n.id)

    def pure_expr(self, e):
        """an expression that may be erased: no call except format / isinstance, no attribute store"""
        for n in ast.walk(e):
            if isinstance(n, ast.Call):
                f = n.func
                ok = (isinstance(f, ast.Attribute) and f.attr == "format") or (isinstance(f, ast.Name) and f.id == "isinstance")
                if not ok:
                    bad(n, "an erased variable is computed by a call other than format / isinstance")
            if isinstance(n, (ast.NamedExpr, ast.Lambda, ast.Yield, ast.YieldFrom, ast.Await, ast.ListComp, ast.DictComp, ast.SetComp, ast.GeneratorExp)):
                bad(n, "unsupported construct in an erased expression")

    # ---- expressions: (term, type) -------------------------------------------------------------------------
    def expr(self, e, env):
        if isinstance(e, ast.Constant):
            if e.value is None:
                return "ONone", "obj"
            if e.value is True or e.value is False:
                return ("true" if e.value else "false"), "bool"
            if isinstance(e.value, str):
                return coq_str(e.value, e), "str"
            if isinstance(e.value, int) and e.value >= 0:
                return str(e.value), "nat"
            bad(e, "constant %r" % (e.value,))
        if isinstance(e, ast.Name):
            if not isinstance(e.ctx, ast.Load):
                bad(e, "name in non-load context")
            if e.id in self.erased:
                bad(e, "the erased name %r is used in a translated expression (rules C / P / X)" % e.id)
            if e.id in env:
                return e.id, env[e.id]
            if e.id == "KEY_TO_VAL_STR":
                return "g_KEY_TO_VAL_STR", "obj"
            if e.id == "not_hashed":
                return "ONotHashed", "obj"
            if e.id == "unprocessed":
                return "OUnprocessed", "obj"
            bad(e, "unknown name %r" % e.id)
        if isinstance(e, ast.Attribute):
            if not isinstance(e.ctx, ast.Load):
                bad(e, "attribute in non-load context")
            # x.__class__.__name__ / type(x).__name__
            if e.attr == "__name__":
                v = e.value
                if isinstance(v, ast.Attribute) and v.attr == "__class__":
                    t, ty = self.expr(v.value, env)
                elif isinstance(v, ast.Call) and isinstance(v.func, ast.Name) and v.func.id == "type" and len(v.args) == 1 and not v.keywords:
                    t, ty = self.expr(v.args[0], env)
                else:
                    bad(e, "__name__ of something else than x.__class__ / type(x)")
                if ty != "obj":
                    bad(e, "class name of a %s" % ty)
                return "class_name %s" % self.atom(t), "str"
            if isinstance(e.value, ast.Name) and e.value.id == "self" and self.in_class:
                if e.attr in SELF_ATTRS:
                    return SELF_ATTRS[e.attr]
                bad(e, "self.%s read as a value (not an attribute of the embedding)" % e.attr)
            if isinstance(e.value, ast.Name) and e.value.id == "BoolObj" and e.attr in ("TRUE", "FALSE"):
                return "OBoolObj %s" % ("true" if e.attr == "TRUE" else "false"), "obj"
            bad(e, "attribute %r" % e.attr)
        if isinstance(e, ast.List):
            if e.elts:
                bad(e, "non-empty list literal")
            return "([] : list pobj)", "lst"
        if isinstance(e, ast.IfExp):
            c = self.cond(e.test, env)
            a, ta = self.expr(e.body, env)
            b, tb = self.expr(e.orelse, env)
            ty = self.join(ta, tb, e)
            a, b = self.coerce(a, ta, ty, e), self.coerce(b, tb, ty, e)
            return "(if %s then %s else %s)" % (c, a, b), ty
        if isinstance(e, ast.UnaryOp):
            if not isinstance(e.op, ast.Not):
                bad(e, "unary operator")
            return "negb %s" % self.atom(self.cond(e.operand, env)), "bool"
        if isinstance(e, ast.BoolOp):
            op = " && " if isinstance(e.op, ast.And) else " || "
            # (pandas and isinstance(obj, pandas.DataFrame))  (rule O)
            if (isinstance(e.op, ast.And) and len(e.values) == 2 and isinstance(e.values[0], ast.Name)
                    and e.values[0].id in ("pandas", "polars")):
                c = e.values[1]
                ok = (isinstance(c, ast.Call) and isinstance(c.func, ast.Name) and c.func.id == "isinstance" and len(c.args) == 2
                      and isinstance(c.args[1], ast.Attribute) and isinstance(c.args[1].value, ast.Name)
                      and c.args[1].value.id == e.values[0].id and c.args[1].attr == "DataFrame")
                if not ok:
                    bad(e, "`%s and ...` that is not the DataFrame test" % e.values[0].id)
                return self.expr(c, env)
            parts = [self.atom(self.cond(v, env)) for v in e.values]
            return "(" + op.join(parts) + ")", "bool"
        if isinstance(e, ast.Compare):
            if len(e.ops) != 1:
                bad(e, "chained comparison")
            op, r = e.ops[0], e.comparators[0]
            lt, lty = self.expr(e.left, env)
            if isinstance(op, (ast.Is, ast.IsNot)) and isinstance(r, ast.Constant) and r.value is None:
                if lty == "optnat":
                    t = "negb (is_Some %s)" % self.atom(lt)
                    pos = "is_Some %s" % self.atom(lt)
                elif lty == "obj":
                    t = "is_None %s" % self.atom(lt)
                    pos = "negb (is_None %s)" % self.atom(lt)
                else:
                    bad(e, "`is None` on a %s" % lty)
                return (t if isinstance(op, ast.Is) else pos), "bool"
            if isinstance(op, ast.Is) and isinstance(r, ast.Name) and r.id in ("not_hashed", "unprocessed") and lty == "obj":
                return "%s %s" % ("is_not_hashed" if r.id == "not_hashed" else "is_unprocessed", self.atom(lt)), "bool"
            if (isinstance(op, (ast.Is, ast.Eq)) and isinstance(r, ast.Attribute) and isinstance(r.value, ast.Name)
                    and r.value.id == "BoolObj" and r.attr in ("TRUE", "FALSE") and lty == "obj"):
                return "eq_BoolObj %s %s" % (self.atom(lt), "true" if r.attr == "TRUE" else "false"), "bool"
            if isinstance(op, ast.In):
                rt, rty = self.expr(r, env)
                if (lty, rty) == ("id", "ids"):
                    return "pids_in %s %s" % (self.atom(lt), self.atom(rt)), "bool"
                bad(e, "`in` on %s / %s" % (lty, rty))
            bad(e, "comparison")
        if isinstance(e, ast.ListComp):
            if len(e.generators) != 1:
                bad(e, "nested comprehension")
            g = e.generators[0]
            if g.ifs or g.is_async:
                bad(e, "filtered comprehension")
            it = g.iter
            if not (isinstance(it, ast.Call) and isinstance(it.func, ast.Attribute) and it.func.attr == "items" and not it.args and not it.keywords):
                bad(e, "comprehension over something else than <counter>.items()")
            dt, dty = self.expr(it.func.value, env)
            if dty != "dd":
                bad(e, "items() of a %s in a comprehension" % dty)
            tg = g.target
            if not (isinstance(tg, ast.Tuple) and len(tg.elts) == 2 and all(isinstance(x, ast.Name) for x in tg.elts)):
                bad(e, "comprehension target")
            a, b = (self.var(x.id, x) for x in tg.elts)
            env2 = dict(env)
            env2[a], env2[b] = "obj", "nat"
            bt, bty = self.expr(e.elt, env2)
            return "map (fun it : pobj * nat => let '(%s, %s) := it in %s) (dd_items %s)" % (a, b, self.to_obj(bt, bty, e), self.atom(dt)), "lst"
        if isinstance(e, ast.Call):
            return self.call(e, env)
        bad(e, "expression")

    def cond(self, e, env):
        t, ty = self.expr(e, env)
        return self.to_bool(t, ty, e)

    def join(self, a, b, node):
        if a == b:
            return a
        if {a, b} == {"obj", "str"}:
            return "obj"
        bad(node, "a variable is a %s on one path and a %s on another" % (a, b))

    def coerce(self, t, ty, want, node):
        if ty == want:
            return t
        if want == "obj":
            return self.to_obj(t, ty, node)
        bad(node, "cannot use a %s as a %s" % (ty, want))

    def kwargs(self, call, allowed):
        """keyword arguments as dict; rejects unknown / starred"""
        if any(isinstance(a, ast.Starred) for a in call.args) or any(k.arg is None for k in call.keywords):
            bad(call, "star arguments")
        out = {}
        for k in call.keywords:
            if k.arg not in allowed or k.arg in out:
                bad(call, "keyword argument %r" % k.arg)
            out[k.arg] = k.value
        return out

    def is_self_attr(self, e, attr):
        return (isinstance(e, ast.Attribute) and e.attr == attr and isinstance(e.value, ast.Name) and e.value.id == "self"
                and isinstance(e.ctx, ast.Load))

    def parent_arg(self, e):
        """an expression in a `parent` position: must be an erased path name (rule P)"""
        if not (isinstance(e, ast.Name) and e.id in ERASED_PATHS):
            bad(e, "a `parent` argument that is not one of the erased path variables")

    def call(self, e, env):
        f = e.func
        if isinstance(f, ast.Name):
            if f.id == "isinstance":
                if len(e.args) != 2 or e.keywords:
                    bad(e, "isinstance")
                t, ty = self.expr(e.args[0], env)
                if ty != "obj":
                    bad(e, "isinstance of a %s" % ty)
                c = e.args[1]
                if isinstance(c, ast.Name) and c.id in ISINSTANCE:
                    return "%s %s" % (ISINSTANCE[c.id], self.atom(t)), "bool"
                if isinstance(c, ast.Attribute) and isinstance(c.value, ast.Name) and (c.value.id, c.attr) in ISINSTANCE_ATTR:
                    return "%s %s" % (ISINSTANCE_ATTR[(c.value.id, c.attr)], self.atom(t)), "bool"
                bad(e, "isinstance against a class the embedding does not know")
            if f.id == "defaultdict":
                if len(e.args) != 1 or e.keywords or not (isinstance(e.args[0], ast.Name) and e.args[0].id == "int"):
                    bad(e, "defaultdict(...) other than defaultdict(int)")
                return "dd_new", "dd"
            if f.id == "get_id":
                if len(e.args) != 1 or e.keywords:
                    bad(e, "get_id")
                t, ty = self.expr(e.args[0], env)
                if ty != "obj":
                    bad(e, "get_id of a %s" % ty)
                return "get_id %s" % self.atom(t), "id"
            if f.id == "add_to_frozen_set":
                if len(e.args) != 2 or e.keywords:
                    bad(e, "add_to_frozen_set")
                a, ta = self.expr(e.args[0], env)
                b, tb = self.expr(e.args[1], env)
                if (ta, tb) != ("ids", "id"):
                    bad(e, "add_to_frozen_set on %s, %s" % (ta, tb))
                return "add_to_frozen_set %s %s" % (self.atom(a), self.atom(b)), "ids"
            if f.id == "sorted":
                if len(e.args) != 1 or e.keywords:
                    bad(e, "sorted with key / reverse")
                t, ty = self.expr(e.args[0], env)
                if ty != "lst":
                    bad(e, "sorted of a %s" % ty)
                return "py_sorted %s" % self.atom(t), "lst"
            if f.id == "map":
                if len(e.args) != 2 or e.keywords or not (isinstance(e.args[0], ast.Name) and e.args[0].id == "str"):
                    bad(e, "map(...) other than map(str, <list>)")
                t, ty = self.expr(e.args[1], env)
                if ty != "lst":
                    bad(e, "map(str, <%s>)" % ty)
                return "map (fun x : pobj => OText (py_str x)) %s" % self.atom(t), "lst"
            if f.id == "list":
                a = e.args[0] if len(e.args) == 1 and not e.keywords else None
                if not (isinstance(a, ast.Call) and isinstance(a.func, ast.Attribute) and a.func.attr == "keys" and not a.args and not a.keywords):
                    bad(e, "list(...) other than list(<counter>.keys())")
                t, ty = self.expr(a.func.value, env)
                if ty != "dd":
                    bad(e, "keys() of a %s" % ty)
                return "dd_keys %s" % self.atom(t), "lst"
            if f.id == "str":
                if len(e.args) != 1 or e.keywords:
                    bad(e, "str(...)")
                t, ty = self.expr(e.args[0], env)
                return self.to_str(t, ty, e), "str"
            if f.id == "datetime_normalize":
                kw = self.kwargs(e, {"default_timezone"})
                if (len(e.args) != 2 or not self.is_self_attr(e.args[0], "truncate_datetime")
                        or not self.is_self_attr(kw.get("default_timezone"), "default_timezone")):
                    bad(e, "datetime_normalize(...) other than (self.truncate_datetime, obj, default_timezone=self.default_timezone)")
                t, ty = self.expr(e.args[1], env)
                if ty != "obj":
                    bad(e, "datetime_normalize of a %s" % ty)
                return "prim_datetime_normalize (self_truncate_datetime self) %s" % self.atom(t), "obj"
            if f.id == "prepare_string_for_hashing":
                kw = self.kwargs(e, {"ignore_string_type_changes", "ignore_string_case", "encodings", "ignore_encoding_errors"})
                if len(e.args) != 1 or "ignore_string_type_changes" not in kw or "ignore_string_case" not in kw:
                    bad(e, "prepare_string_for_hashing: expected (x, ignore_string_type_changes=.., ignore_string_case=.., ...)")
                for k2 in ("encodings", "ignore_encoding_errors"):                      # rule F
                    if k2 in kw and not self.is_self_attr(kw[k2], k2):
                        bad(e, "prepare_string_for_hashing(%s=...) is not self.%s" % (k2, k2))
                t, ty = self.expr(e.args[0], env)
                a = self.cond(kw["ignore_string_type_changes"], env)
                b = self.cond(kw["ignore_string_case"], env)
                return "g_prepare_string_for_hashing %s %s %s" % (self.atom(self.to_obj(t, ty, e)), self.atom(a), self.atom(b)), "obj"
            bad(e, "call of %r" % f.id)
        if not isinstance(f, ast.Attribute):
            bad(e, "call")
        # --- methods of self
        if isinstance(f.value, ast.Name) and f.value.id == "self" and self.in_class:
            if f.attr == "_skip_this":                                                  # rule F
                kw = self.kwargs(e, {"parent"})
                if len(e.args) + len(kw) != 2 or len(e.args) < 1:
                    bad(e, "_skip_this(...)")
                self.parent_arg(kw["parent"] if "parent" in kw else e.args[1])
                t, ty = self.expr(e.args[0], env)
                if ty != "obj":
                    bad(e, "_skip_this of a %s" % ty)
                return "prim_skip_this self %s" % self.atom(t), "bool"
            if f.attr == "hasher":
                if len(e.args) != 1 or e.keywords:
                    bad(e, "self.hasher(...)")
                t, ty = self.expr(e.args[0], env)
                return "self_hasher self %s" % self.atom(self.to_str(t, ty, e)), "str"
            if f.attr == "number_to_string":
                kw = self.kwargs(e, {"significant_digits", "number_format_notation"})
                if (len(e.args) != 1 or not self.is_self_attr(kw.get("significant_digits"), "significant_digits")
                        or not self.is_self_attr(kw.get("number_format_notation"), "number_format_notation")):
                    bad(e, "self.number_to_string(...) other than (obj, significant_digits=self.significant_digits, number_format_notation=self.number_format_notation)")
                t, ty = self.expr(e.args[0], env)
                if ty != "obj":
                    bad(e, "number_to_string of a %s" % ty)
                return "prim_number_to_string %s (self_significant_digits self)" % self.atom(t), "obj"
            if f.attr in SIGS and SIGS[f.attr][0] == "pure":
                if len(e.args) != 1 or e.keywords:
                    bad(e, "call of self.%s" % f.attr)
                t, ty = self.expr(e.args[0], env)
                self.tr.need(f.attr, e)
                return "g%s self %s" % (f.attr, self.atom(self.to_obj(t, ty, e))), "obj"
            bad(e, "call of self.%s in an expression" % f.attr)
        # --- str / list methods
        if f.attr == "format":
            if e.keywords or any(isinstance(a, ast.Starred) for a in e.args):
                bad(e, "format with keyword / star arguments")
            ft, fty = self.expr(f.value, env)
            if isinstance(f.value, ast.Constant):
                self.check_format(f.value.value, len(e.args), f.value)
            args = []
            for a in e.args:
                t, ty = self.expr(a, env)
                args.append(self.to_str(t, ty, a))
            return "py_format %s [%s]" % (self.atom(self.to_str(ft, fty, e)), "; ".join(args)), "str"
        if f.attr == "join":
            if len(e.args) != 1 or e.keywords or not (isinstance(f.value, ast.Constant) and isinstance(f.value.value, str)):
                bad(e, "join on something else than a literal separator")
            t, ty = self.expr(e.args[0], env)
            if ty != "lst":
                bad(e, "join of a %s" % ty)
            return "py_join %s %s" % (coq_str(f.value.value, e), self.atom(t)), "str"
        if f.attr == "lower":
            if e.args or e.keywords:
                bad(e, "lower(...)")
            t, ty = self.expr(f.value, env)
            return "py_lower %s" % self.atom(self.to_obj(t, ty, e)), "str"
        if f.attr == "startswith":
            if len(e.args) != 1 or e.keywords or not (isinstance(e.args[0], ast.Constant) and isinstance(e.args[0].value, str)):
                bad(e, "startswith(...) other than a literal prefix")
            t, ty = self.expr(f.value, env)
            return "py_startswith %s %s" % (self.atom(self.to_obj(t, ty, e)), coq_str(e.args[0].value, e)), "bool"
        bad(e, "call of method %r" % f.attr)

    def check_format(self, s, nargs, node):
        i, n = 0, 0
        while i < len(s):
            if s[i] == "{":
                if s[i + 1:i + 2] == "{":
                    i += 2
                    continue
                if s[i + 1:i + 2] == "}":
                    n += 1
                    i += 2
                    continue
                bad(node, "format string with a field other than {}")
            if s[i] == "}":
                if s[i + 1:i + 2] == "}":
                    i += 2
                    continue
                bad(node, "format string with a lone }")
            i += 1
        if n != nargs:
            bad(node, "format string with %d fields given %d arguments" % (n, nargs))

    # ---- statements ------------------------------------------------------------------------------------------
    def comment(self, s):
        if getattr(s, "_rule_O", False):
            return "(* %d: rule O: the body of this branch (objects outside the universe) is not translated *)" % s.lineno
        try:
            txt = ast.unparse(s).splitlines()[0]
        except Exception:
            txt = type(s).__name__
        return "(* %d: %s *)" % (s.lineno, clean(txt)[:120])

    def terminates(self, stmts):
        return bool(stmts) and isinstance(stmts[-1], (ast.Return, ast.Continue))

    def has_terminator(self, stmts):
        for s in stmts:
            for n in ast.walk(s):
                if isinstance(n, (ast.Return, ast.Continue, ast.Break, ast.Raise)):
                    return True
        return False

    def assigned(self, stmts, with_state=True):
        """names a statement list may assign, in first-assignment order; 'st' (rule S) last"""
        out = []

        def add(n):
            if n not in out and n not in self.erased:
                out.append(n)
        for s in stmts:
            if isinstance(s, ast.Assign):
                for t in s.targets:
                    for q in (t.elts if isinstance(t, ast.Tuple) else [t]):
                        if isinstance(q, ast.Name):
                            add(q.id)
            elif isinstance(s, ast.AugAssign):
                if isinstance(s.target, ast.Name):
                    add(s.target.id)
                elif isinstance(s.target, ast.Subscript) and isinstance(s.target.value, ast.Name):
                    add(s.target.value.id)
            elif isinstance(s, ast.Expr) and isinstance(s.value, ast.Call) and isinstance(s.value.func, ast.Attribute) \
                    and s.value.func.attr in ("append", "sort") and isinstance(s.value.func.value, ast.Name):
                add(s.value.func.value.id)
            elif isinstance(s, ast.If):
                for n in self.assigned(s.body, False) + self.assigned(s.orelse, False):
                    add(n)
            elif isinstance(s, ast.Try):
                for n in self.assigned(s.body, False) + self.assigned(s.orelse, False) + [x for h in s.handlers for x in self.assigned(h.body, False)]:
                    add(n)
            elif isinstance(s, ast.For):
                for n in self.assigned(s.body, False):
                    add(n)
        if with_state and self.touches_state(stmts):
            out.append("st")
        return out

    def touches_state(self, stmts):
        for s in stmts:
            for n in ast.walk(s):
                if isinstance(n, ast.Call) and isinstance(n.func, ast.Attribute) and isinstance(n.func.value, ast.Name) \
                        and n.func.value.id == "self" and n.func.attr in SIGS and SIGS[n.func.attr][0] == "state":
                    return True
                if isinstance(n, ast.Call) and isinstance(n.func, ast.Attribute) and n.func.attr == "_prep_obj":
                    return True
                if isinstance(n, ast.Attribute) and n.attr == "hashes" and isinstance(n.value, ast.Name) and n.value.id == "self":
                    return True
        return False

    def reads(self, stmts):
        """names read by a statement list (a comprehension's own targets are local to it)"""
        out = set()

        def go(n):
            if isinstance(n, (ast.ListComp, ast.SetComp, ast.GeneratorExp, ast.DictComp)):
                bound = set()
                for g in n.generators:
                    go(g.iter)
                    bound |= {q.id for q in ast.walk(g.target) if isinstance(q, ast.Name)}
                inner = set()
                saved = set(out)
                out.clear()
                for c in ([n.key, n.value] if isinstance(n, ast.DictComp) else [n.elt]):
                    go(c)
                for g in n.generators:
                    for c in g.ifs:
                        go(c)
                inner |= out
                out.clear()
                out.update(saved | (inner - bound))
                return
            if isinstance(n, ast.Name) and isinstance(n.ctx, ast.Load):
                out.add(n.id)
            for c in ast.iter_child_nodes(n):
                go(c)
        for s in stmts:
            go(s)
        return out

    def tuple_term(self, names, env, types, node):
        ts = [self.coerce(n, env[n], ty, node) for n, ty in zip(names, types)]
        return ts[0] if len(ts) == 1 else "(" + ", ".join(ts) + ")"

    def pattern(self, names):
        return names[0] if len(names) == 1 else "'(" + ", ".join(names) + ")"

    def block(self, stmts, env, end, ind, after=()):
        """lines for a statement list.  `end(env)` gives the term for falling off the end of the list.
        `after`: statements that follow the enclosing construct (for the read-afterwards check)."""
        L = []
        pad = "  " * ind
        i = 0
        while i < len(stmts):
            s = stmts[i]
            rest = stmts[i + 1:]
            if isinstance(s, ast.Expr) and isinstance(s.value, ast.Constant) and isinstance(s.value.value, str):
                i += 1
                continue                                                              # docstring
            L.append(pad + self.comment(s))
            if isinstance(s, ast.Pass):
                pass
            elif isinstance(s, ast.Assign):
                L += [pad + q for q in self.assign(s, env)]
            elif isinstance(s, ast.AugAssign):
                L += [pad + q for q in self.augassign(s, env)]
            elif isinstance(s, ast.Expr):
                L += [pad + q for q in self.expr_stmt(s, env)]
            elif isinstance(s, ast.Return):
                if rest:
                    bad(rest[0], "statement after return")
                L.append(pad + self.ret(s, env))
                return L
            elif isinstance(s, ast.Continue):
                if rest:
                    bad(rest[0], "statement after continue")
                if self.loop_end is None:
                    bad(s, "continue outside a loop")
                L.append(pad + self.loop_end(env))
                return L
            elif isinstance(s, ast.If):
                done = self.if_stmt(s, env, rest, end, ind, L, after)
                if done:
                    return L
            elif isinstance(s, ast.For):
                L += self.for_stmt(s, env, ind, list(rest) + list(after))
            elif isinstance(s, ast.Try):
                done = self.try_stmt(s, env, rest, end, ind, L, after)
                if done:
                    return L
            else:
                bad(s, "statement")
            i += 1
        L.append(pad + end(env))
        return L

    # -- if
    def fixed_false(self, test):
        """rule F / X: a test that is constant under the fixed options; returns True (constant false), False (constant true)
        or None (a real test)"""
        if isinstance(test, ast.Compare) and len(test.ops) == 1 and isinstance(test.ops[0], ast.IsNot) \
                and self.is_self_attr(test.left, "custom_operators") and isinstance(test.comparators[0], ast.Constant) \
                and test.comparators[0].value is None:
            return True
        if isinstance(test, ast.BoolOp) and isinstance(test.op, ast.And) and self.is_self_attr(test.values[0], "use_enum_value"):
            return True
        if isinstance(test, ast.Name) and test.id in self.fixed:
            if self.fixed[test.id] is False:
                return True
            bad(test, "fixed parameter %r used as a test" % test.id)
        return None

    def is_dataframe_test(self, t):
        return (isinstance(t, ast.BoolOp) and isinstance(t.op, ast.And) and len(t.values) == 2 and isinstance(t.values[0], ast.Name)
                and t.values[0].id in ("pandas", "polars"))

    def outside_body(self, node):
        """rule O: the body of a DataFrame branch is not translated"""
        b = ast.parse("result, counts = self._prep_obj(obj=obj, parent=parent, parents_ids=parents_ids)").body[0]
        for n in ast.walk(b):
            ast.copy_location(n, node)
        b._rule_O = True
        return [b]

    def flatten_chain(self, s):
        """if / elif / else -> [(test, body)], else_body"""
        arms = []
        while True:
            arms.append((s.test, s.body, s))
            if len(s.orelse) == 1 and isinstance(s.orelse[0], ast.If):
                s = s.orelse[0]
                continue
            return arms, s.orelse

    def if_stmt(self, s, env, rest, end, ind, L, after):
        pad = "  " * ind
        ff = self.fixed_false(s.test)
        if ff is True:                                                                # rules F / X: branch dropped
            L.append(pad + "(* rule F/X: the test is constant false under the fixed options; its branch is not translated *)")
            if s.orelse:
                L += self.block(list(s.orelse) + list(rest), env, end, ind, after)
                return True
            return False
        if self.terminates(s.body):
            # `if c: ...; continue/return` [elif/else ...]; rest
            c = self.cond(s.test, env)
            L.append(pad + "if %s then (" % c)
            L += self.block(s.body, dict(env), end, ind + 1, after)
            L.append(pad + ") else")
            L += self.block(list(s.orelse) + list(rest), env, end, ind, after)
            return True
        if self.has_terminator([s]):
            bad(s, "return / continue / raise nested inside an if that also falls through")
        # value-returning chain
        arms, els = self.flatten_chain(s)
        arms = [(t, (self.outside_body(n) if self.is_dataframe_test(t) else b), n) for (t, b, n) in arms
                if self.fixed_false(t) is not True]
        dropped = [n for (t, b, n) in self.flatten_chain(s)[0] if self.fixed_false(t) is True]
        branches = [b for (_t, b, _n) in arms] + [els]
        names_all = self.assigned([s])
        envs, blocks = [], []
        for b in branches:
            e2 = dict(env)
            envs.append(e2)
        # variables carried out of the chain: defined before it, or assigned in every (translated) branch
        per_branch = [self.assigned(b) for b in branches]
        V = [n for n in names_all if n in env or n == "st" or all(n in pb for pb in per_branch)]
        if "st" in V and "st" not in env:
            bad(s, "state touched in a function without state")
        local_only = [n for n in names_all if n not in V]
        later = self.reads(list(rest) + list(after))
        for n in local_only:
            if n in later:
                bad(s, "local %r is assigned on some paths through this if only and read afterwards" % n)
        if not V:
            bad(s, "an if that assigns nothing")
        # first pass: types at the end of each branch
        outs = []
        for b, e2 in zip(branches, envs):
            probe = Fn.__new__(Fn)
            probe.__dict__.update(self.__dict__)
            res = {}

            def endp(envx, res=res):
                res.update(envx)
                return "PROBE"
            probe.block(b, e2, endp, 0, list(rest) + list(after))
            outs.append(dict(res))
        types = []
        for n in V:
            ty = None
            for o_ in outs:
                if n not in o_:
                    bad(s, "local %r is not defined on every path through this if" % n)
                ty = o_[n] if ty is None else self.join(ty, o_[n], s)
            types.append(ty)
        # second pass: emit
        def endv(envx):
            return self.tuple_term(V, envx, types, s)
        L.append(pad + "let %s := (" % self.pattern(V))
        for k, (t, b, n) in enumerate(arms):
            c = self.cond(t, env)
            L.append(pad + ("if %s then" % c if k == 0 else "else if %s then" % c))
            L += self.block(b, dict(env), endv, ind + 1, list(rest) + list(after))
        L.append(pad + "else")
        if dropped:
            L.append(pad + "  (* rule F: %d elif branch(es) with a test that is constant false under the fixed options dropped *)" % len(dropped))
        L += self.block(els, dict(env), endv, ind + 1, list(rest) + list(after))
        L.append(pad + ") in")
        for n, ty in zip(V, types):
            env[n] = ty
        return False

    # -- try (rules T1, T2, T3)
    def try_stmt(self, s, env, rest, end, ind, L, after):
        pad = "  " * ind
        txt = ast.unparse(s)
        if s.finalbody:
            bad(s, "try ... finally")
        T1 = "try:\n    result, counts = self.hashes[obj]\nexcept (TypeError, KeyError):\n    pass\nelse:\n    return (result, counts)"
        T2 = "try:\n    self.hashes[obj] = (result, counts)\nexcept TypeError:\n    obj_id = get_id(obj)\n    self.hashes[obj_id] = (result, counts)"
        if txt == T1:
            if env.get("obj") != "obj" or "st" not in env:
                bad(s, "table lookup outside _hash")
            L.append(pad + "match hashes_get st obj with")
            L.append(pad + "| Some result => (result, st)")
            L.append(pad + "| None =>")
            L += self.block(list(rest), env, end, ind, after)
            L.append(pad + "end")
            return True
        if txt == T2:
            if env.get("obj") != "obj" or env.get("result") != "obj" or "st" not in env:
                bad(s, "table store outside _hash")
            if "obj_id" in self.reads(list(rest) + list(after)):
                bad(s, "obj_id read after the table store")
            L.append(pad + "let st := hashes_set st obj result in")
            return False
        # T3
        ok = (len(s.body) == 1 and isinstance(s.body[0], ast.Expr) and isinstance(s.body[0].value, ast.Attribute)
              and s.body[0].value.attr == "_asdict" and isinstance(s.body[0].value.value, ast.Name)
              and len(s.handlers) == 1 and isinstance(s.handlers[0].type, ast.Name) and s.handlers[0].type.id == "AttributeError"
              and s.handlers[0].name is None and s.orelse)
        if ok:
            t, ty = self.expr(s.body[0].value.value, env)
            if ty != "obj":
                bad(s, "_asdict of a %s" % ty)
            fake = ast.If(test=ast.Constant(value=True), body=list(s.orelse), orelse=list(s.handlers[0].body))
            ast.copy_location(fake, s)
            fake.test = ast.Name(id="__has_asdict__", ctx=ast.Load())
            self.asdict_term = "has_asdict %s" % self.atom(t)
            done = self.if_stmt(fake, env, rest, end, ind, L, after)
            self.asdict_term = None
            return done
        bad(s, "try statement that is none of the shapes T1 / T2 / T3")

    # -- for (rule L)
    def for_stmt(self, s, env, ind, after):
        pad = "  " * ind
        if s.orelse or getattr(s, "type_comment", None):
            bad(s, "for ... else")
        tg = s.target
        if not (isinstance(tg, ast.Tuple) and len(tg.elts) == 2 and all(isinstance(x, ast.Name) for x in tg.elts)):
            bad(s, "loop target that is not a pair of names")
        a, b = (self.var(x.id, x) for x in tg.elts)
        it = s.iter
        if isinstance(it, ast.Call) and isinstance(it.func, ast.Name) and it.func.id == "enumerate" and len(it.args) == 1 and not it.keywords:
            t, ty = self.expr(it.args[0], env)
            src, ety, tys = "py_enumerate %s" % self.atom(t), "nat * pobj", ("nat", "obj")
        elif isinstance(it, ast.Call) and isinstance(it.func, ast.Attribute) and it.func.attr == "items" and not it.args and not it.keywords:
            t, ty = self.expr(it.func.value, env)
            src, ety, tys = "py_dict_items %s" % self.atom(t), "pobj * pobj", ("obj", "obj")
        else:
            bad(s, "loop over something else than enumerate(x) / x.items()")
        if ty != "obj":
            bad(s, "iteration over a %s" % ty)
        for n in ast.walk(ast.Module(body=s.body, type_ignores=[])):
            if isinstance(n, (ast.Return, ast.Break, ast.For, ast.While, ast.Try, ast.With)):
                bad(n, "return / break / nested loop / try inside a loop body")
        carried = [n for n in self.assigned(s.body) if n in env or n == "st"]
        if not carried:
            bad(s, "a loop that assigns nothing")
        local = [n for n in self.assigned(s.body) if n not in carried] + [a, b]
        later = self.reads(after)
        for n in local:
            if n in later:
                bad(s, "loop-local %r is read after the loop" % n)
        types = [env[n] for n in carried]
        accty = " * ".join(COQTY[x] for x in types)
        env2 = dict(env)
        if a not in self.erased:
            env2[a] = tys[0]
        env2[b] = tys[1]
        if a in env or b in env:
            bad(s, "loop variable shadows a local")

        def endl(envx):
            for n, ty0 in zip(carried, types):
                if envx.get(n) != ty0:
                    bad(s, "loop-carried %r changes its type (%s -> %s)" % (n, ty0, envx.get(n)))
            return self.tuple_term(carried, envx, types, s)
        old = self.loop_end
        self.loop_end = endl
        L = [pad + "let %s := fold_left (fun (acc : %s) (it : %s) =>" % (self.pattern(carried), accty, ety),
             pad + "  let %s := acc in let '(%s, %s) := it in" % (self.pattern(carried), a if a not in self.erased else "_", b)]
        L += self.block(s.body, env2, endl, ind + 1, [])
        self.loop_end = old
        init = carried[0] if len(carried) == 1 else "(" + ", ".join(carried) + ")"
        L.append(pad + "  ) (%s) %s in" % (src, init))
        return L

    # -- simple statements
    def erased_assign(self, s):
        """rules C / P: an assignment whose every target is erased"""
        self.pure_expr(s.value)
        for n in ast.walk(s.value):
            if isinstance(n, ast.Name) and n.id not in self.erased and n.id not in ("isinstance", "strings", "INDEX_VS_ATTRIBUTE") \
                    and n.id not in self.cur_env:
                bad(n, "unknown name %r in an erased assignment" % n.id)
        return ["(* rules C / P: not translated *)"]

    def assign(self, s, env):
        if getattr(s, "type_comment", None) or len(s.targets) != 1:
            bad(s, "multiple-target / typed assignment")
        self.cur_env = env
        tg = s.targets[0]
        if isinstance(tg, ast.Name):
            if tg.id in self.erased:
                if tg.id in ERASED_COUNTS and not (isinstance(s.value, ast.Constant) and s.value.value == 1):
                    bad(s, "counts assigned something else than 1 (rule C)")
                return self.erased_assign(s)
            n = self.var(tg.id, tg)
            t, ty = self.expr(s.value, env)
            if ty in ("bool",) and False:
                pass
            env[n] = ty
            return ["let %s := %s in" % (n, t)]
        if isinstance(tg, ast.Tuple) and len(tg.elts) == 2 and all(isinstance(x, ast.Name) for x in tg.elts):
            a, b = tg.elts
            if b.id not in ERASED_COUNTS or a.id in self.erased:
                bad(s, "pair assignment whose second target is not the erased count (rule C)")
            n = self.var(a.id, a)
            t = self.state_call(s.value, env)
            env[n] = "obj"
            return ["let '(%s, st) := %s in" % (n, t)]
        bad(s, "assignment target")

    def state_call(self, e, env):
        """a call of _hash / _prep_dict / _prep_iterable / _prep_tuple / _prep_obj: term of type pobj * memo"""
        if "st" not in env:
            bad(e, "a stateful call in a function without state")
        if not (isinstance(e, ast.Call) and isinstance(e.func, ast.Attribute) and isinstance(e.func.value, ast.Name)
                and e.func.value.id == "self"):
            bad(e, "right-hand side of a pair assignment that is not a call of self._hash / self._prep_*")
        m = e.func.attr
        if m == "_prep_obj":                                                          # rule O
            return "outside_fragment st"
        if m not in SIGS or SIGS[m][0] != "state":
            bad(e, "pair assignment from self.%s" % m)
        names = SIGS[m][1][1:]
        kw = self.kwargs(e, set(names))
        slots = dict(zip(names, e.args))
        if len(e.args) > len(names):
            bad(e, "too many arguments")
        for k, v in kw.items():
            if k in slots:
                bad(e, "argument %r given twice" % k)
            slots[k] = v
        for k in FIXED_PARAMS.get(m, {}):                                             # rule X
            if k in slots:
                bad(e, "the fixed parameter %r of %s is passed" % (k, m))
        if "obj" not in slots or "parent" not in slots or "parents_ids" not in slots:
            bad(e, "self.%s(...) without obj / parent / parents_ids" % m)
        self.parent_arg(slots["parent"])
        if m == "_prep_tuple" or m in ("_prep_dict", "_prep_iterable"):
            pass
        # (gen() of the DataFrame branches never gets here: rule O replaces those branches)
        ot, oty = self.expr(slots["obj"], env)
        pt, pty = self.expr(slots["parents_ids"], env)
        if (oty, pty) != ("obj", "ids"):
            bad(e, "self.%s on %s, %s" % (m, oty, pty))
        if m == "_hash":
            if self.name == "_hash":
                bad(e, "_hash calls itself directly")
            return "rec_hash %s %s st" % (self.atom(ot), self.atom(pt))
        self.tr.need(m, e)
        return "g%s rec_hash self %s %s st" % (m, self.atom(ot), self.atom(pt))

    def augassign(self, s, env):
        if not isinstance(s.op, ast.Add):
            bad(s, "augmented assignment other than +=")
        tg = s.target
        if isinstance(tg, ast.Name):
            if tg.id not in ERASED_COUNTS:
                bad(s, "+= on %r" % tg.id)
            v = s.value
            if not ((isinstance(v, ast.Name) and v.id in ERASED_COUNTS) or (isinstance(v, ast.Constant) and isinstance(v.value, int))):
                bad(s, "counts += something that is not a count (rule C)")
            return ["(* rule C: not translated *)"]
        if isinstance(tg, ast.Subscript) and isinstance(tg.value, ast.Name):
            d = tg.value.id
            if env.get(d) != "dd" or not (isinstance(s.value, ast.Constant) and s.value.value == 1):
                bad(s, "<x>[k] += n other than <counter>[k] += 1")
            t, ty = self.expr(tg.slice, env)
            if ty != "obj":
                bad(s, "counter key of type %s" % ty)
            return ["let %s := dd_incr %s %s in" % (d, d, self.atom(t))]
        bad(s, "augmented assignment target")

    def expr_stmt(self, s, env):
        e = s.value
        if ast.unparse(e) == "self.hashes[UNPROCESSED_KEY].append(obj)":
            if env.get("obj") != "obj" or "st" not in env:
                bad(s, "UNPROCESSED_KEY outside _hash")
            return ["let st := hashes_unprocessed_append st obj in"]
        if isinstance(e, ast.Call) and isinstance(e.func, ast.Attribute) and isinstance(e.func.value, ast.Name) and not e.keywords:
            d = e.func.value.id
            if e.func.attr == "append" and len(e.args) == 1 and env.get(d) == "lst":
                t, ty = self.expr(e.args[0], env)
                return ["let %s := py_append %s %s in" % (d, d, self.atom(self.to_obj(t, ty, e)))]
            if e.func.attr == "sort" and not e.args and env.get(d) == "lst":
                return ["let %s := py_sorted %s in" % (d, d)]
        bad(s, "expression statement")

    def ret(self, s, env):
        v = s.value
        if v is None:
            bad(s, "bare return")
        if self.kind == "pure":
            t, ty = self.expr(v, env)
            return self.to_obj(t, ty, s)
        if not (isinstance(v, ast.Tuple) and len(v.elts) == 2):
            bad(s, "a stateful function returns something else than a (result, counts) pair")
        c = v.elts[1]
        if not ((isinstance(c, ast.Name) and c.id in ERASED_COUNTS) or (isinstance(c, ast.Constant) and isinstance(c.value, int))):
            bad(s, "second component of the returned pair is not a count (rule C)")
        t, ty = self.expr(v.elts[0], env)
        return "(%s, st)" % self.to_obj(t, ty, s)

    # ---- whole function ---------------------------------------------------------------------------------------
    def check_sig(self, params, defaults):
        fn = self.fn
        a = fn.args
        if fn.decorator_list or a.vararg or a.kwarg or a.kwonlyargs or a.posonlyargs or fn.returns is not None or getattr(fn, "type_params", None):
            bad(fn, "decorator / unsupported signature of %s" % self.name)
        if any(x.annotation is not None for x in a.args):
            bad(fn, "annotated parameter of %s" % self.name)
        names = [x.arg for x in a.args]
        if names != params:
            bad(fn, "%s takes %r, expected %r" % (self.name, names, params))
        got = []
        for d in a.defaults:
            if isinstance(d, ast.Constant):
                got.append(d.value)
            elif isinstance(d, ast.Name):
                got.append(d.id)
            else:
                bad(d, "default value")
        if len(got) != len(defaults) or any(g is not d and g != d for g, d in zip(got, defaults)) or any(type(g) is not type(d) for g, d in zip(got, defaults)):
            bad(fn, "changed parameter defaults of %s: %r" % (self.name, got))

    def emit(self):
        kind, params, defaults = SIGS[self.name]
        self.check_sig(params, defaults)
        self.loop_end = None
        self.asdict_term = None
        env = {"obj": "obj"}
        if kind == "state":
            env["parents_ids"] = "ids"
            env["st"] = "memo"

        def end(envx):
            bad(self.fn, "%s can fall off its end without returning" % self.name)
        lines = self.block(list(self.fn.body), env, end, 1)
        if kind == "pure":
            head = "Definition g%s (self : hself) (obj : pobj) : pobj :=" % self.name
        else:
            nm = "g_hash_body" if self.name == "_hash" else "g" + self.name
            head = "Definition %s (rec_hash : %s) (self : hself) (obj : pobj) (parents_ids : pids) (st : memo) : pobj * memo :=" % (nm, REC_TY)
        return "(* DeepHash.%s, %s:%d *)\n%s\n%s.\n" % (self.name, SRC, self.fn.lineno, head, "\n".join(lines))

    # the fake test of rule T3
    _orig_cond = cond

    def cond(self, e, env):                                                            # noqa: F811
        if isinstance(e, ast.Name) and e.id == "__has_asdict__" and self.asdict_term:
            return self.asdict_term
        return Fn._orig_cond(self, e, env)


class PrepString(Fn):
    """the module-level prepare_string_for_hashing"""
    PARAMS = ["obj", "ignore_string_type_changes", "ignore_string_case", "encodings", "ignore_encoding_errors"]

    def __init__(self, tr, fn):
        Fn.__init__(self, tr, fn, "prepare_string_for_hashing", "pure", False)
        self.erased = {"encodings", "ignore_encoding_errors", "errors_mode"}

    def emit(self):
        self.check_sig(self.PARAMS, [False, False, None, False])
        self.loop_end = None
        self.asdict_term = None
        env = {"obj": "obj", "ignore_string_type_changes": "bool", "ignore_string_case": "bool"}
        body = []
        seen_decode = False
        for s in self.fn.body:
            if (isinstance(s, ast.If) and isinstance(s.test, ast.Call) and isinstance(s.test.func, ast.Name) and s.test.func.id == "isinstance"
                    and len(s.test.args) == 2 and isinstance(s.test.args[1], ast.Name) and s.test.args[1].id == "bytes"):
                if seen_decode or text_sha(s) != DECODE_BLOCK_SHA:                      # rule F
                    bad(s, "the bytes branch of prepare_string_for_hashing is not the pinned text (sha256 %s)" % text_sha(s))
                seen_decode = True
                body.append(("decode", s))
            elif isinstance(s, ast.Assign) and len(s.targets) == 1 and isinstance(s.targets[0], ast.Name) and s.targets[0].id == "errors_mode":
                if ast.unparse(s.value) != "'ignore' if ignore_encoding_errors else 'strict'":
                    bad(s, "errors_mode")
                body.append(("skip", s))
            else:
                body.append(("stmt", s))
        if not seen_decode:
            bad(self.fn, "the bytes branch of prepare_string_for_hashing is missing")

        def end(envx):
            bad(self.fn, "prepare_string_for_hashing can fall off its end")
        L = []
        run = []

        def flush(final):
            nonlocal run
            if run or final:
                L.extend(self.block(run, env, (end if final else (lambda e: "CONT")), 1))
                if not final:
                    assert L[-1].strip() == "CONT"
                    L.pop()
            run = []
        for kind, s in body:
            if kind == "stmt":
                run.append(s)
                continue
            flush(False)
            L.append("  " + self.comment(s))
            if kind == "decode":
                L.append("  (* rule F: the bytes branch (encodings=None, ignore_encoding_errors=False), pinned by hash *)")
                L.append("  let obj := prim_decode_bytes obj in")
            else:
                L.append("  (* rule F: not translated *)")
        flush(True)
        head = ("Definition g_prepare_string_for_hashing (obj : pobj) (ignore_string_type_changes : bool) "
                "(ignore_string_case : bool) : pobj :=")
        return "(* prepare_string_for_hashing, %s:%d *)\n%s\n%s.\n" % (SRC, self.fn.lineno, head, "\n".join(L))


# ---- the module ------------------------------------------------------------------------------------------
class Translator:
    def __init__(self, repo):
        self.repo = repo
        self.emitted, self.order, self.stack = {}, [], []

    def parse(self, rel):
        p = os.path.join(self.repo, rel)
        try:
            return ast.parse(open(p).read())
        except (OSError, SyntaxError) as e:
            raise Unsupported("%s: cannot read / parse: %s" % (rel, e))

    def need(self, name, node):
        if name in self.emitted:
            return
        if name in self.stack:
            bad(node, "recursive call of %s" % name)
        if name not in self.methods:
            bad(node, "method %s not found" % name)
        self.stack.append(name)
        txt = Fn(self, self.methods[name], name, SIGS[name][0], True).emit()
        self.stack.pop()
        self.emitted[name] = txt
        self.order.append(name)

    # -- checks on the surroundings (rules F, E)
    def check_helper(self):
        tree = self.parse(HELPER)
        found = {}
        key = None
        for n in tree.body:
            tg = val = None
            if isinstance(n, ast.Assign) and len(n.targets) == 1 and isinstance(n.targets[0], ast.Name):
                tg, val = n.targets[0].id, n.value
            elif isinstance(n, ast.AnnAssign) and isinstance(n.target, ast.Name) and n.value is not None:
                tg, val = n.target.id, n.value
            elif isinstance(n, (ast.FunctionDef, ast.ClassDef)) and (n.name in HELPER_PINS or n.name == "KEY_TO_VAL_STR"):
                bad(n, "%s redefined as a function / class" % n.name, HELPER)
            if tg in HELPER_PINS:
                if tg in found:
                    bad(n, "%s assigned twice" % tg, HELPER)
                found[tg] = ast.unparse(val)
                if found[tg] != HELPER_PINS[tg]:
                    bad(n, "%s = %s, expected %s (the isinstance primitives of HashSrcPrims.v assume it)" % (tg, found[tg], HELPER_PINS[tg]), HELPER)
            if tg == "KEY_TO_VAL_STR":
                if key is not None or not (isinstance(val, ast.Constant) and isinstance(val.value, str)):
                    bad(n, "KEY_TO_VAL_STR is not one string literal", HELPER)
                key = (val.value, n)
        for n in ast.walk(tree):
            if isinstance(n, (ast.Global, ast.Nonlocal)) and (set(n.names) & (set(HELPER_PINS) | {"KEY_TO_VAL_STR"})):
                bad(n, "global statement on a pinned name", HELPER)
        missing = set(HELPER_PINS) - set(found)
        if missing or key is None:
            raise Unsupported("%s: missing definitions %s" % (HELPER, sorted(missing) + ([] if key else ["KEY_TO_VAL_STR"])))
        return key

    def check_base(self):
        tree = self.parse(BASE)
        ok = False
        for n in ast.walk(tree):
            if isinstance(n, ast.FunctionDef) and n.name == "get_significant_digits":
                if ok or text_sha(n) != GSD_SHA:
                    bad(n, "Base.get_significant_digits is not the pinned text (self_significant_digits = eff_digits assumes it)", BASE)
                ok = True
        vals = [ast.unparse(n.value) for n in tree.body if isinstance(n, ast.Assign) and len(n.targets) == 1
                and isinstance(n.targets[0], ast.Name) and n.targets[0].id == "DEFAULT_SIGNIFICANT_DIGITS_WHEN_IGNORE_NUMERIC_TYPES"]
        if not ok or vals != ["12"]:
            raise Unsupported("%s: get_significant_digits / DEFAULT_SIGNIFICANT_DIGITS_WHEN_IGNORE_NUMERIC_TYPES = %r" % (BASE, vals))

    def check_module(self, tree):
        names = set()
        mods = set()
        for n in tree.body:
            if isinstance(n, ast.ImportFrom):
                if n.level or any(a.asname for a in n.names):
                    bad(n, "relative / renamed import")
                for a in n.names:
                    if n.module == "deepdiff.helper":
                        names.add(a.name)
                    mods.add((n.module, a.name))
        if not HELPER_IMPORTS <= names:
            raise Unsupported("%s: names not imported from deepdiff.helper: %s" % (SRC, sorted(HELPER_IMPORTS - names)))
        if not MODULE_IMPORTS <= mods:
            raise Unsupported("%s: missing imports %s" % (SRC, sorted(MODULE_IMPORTS - mods)))
        # module-level (re)definitions of the names the translation gives a fixed meaning
        fixed = HELPER_IMPORTS | {"Iterable", "MutableMapping", "defaultdict", "Path", "Enum", "isinstance", "type", "str", "bytes",
                                  "tuple", "sorted", "map", "list", "enumerate", "int"}
        top = {}
        for n in ast.walk(tree):
            if isinstance(n, (ast.Global, ast.Nonlocal)):
                bad(n, "global / nonlocal statement")
        for n in tree.body:
            tgts = []
            if isinstance(n, ast.Assign):
                tgts = [q.id for t in n.targets for q in ast.walk(t) if isinstance(q, ast.Name)]
            elif isinstance(n, (ast.AnnAssign, ast.AugAssign)) and isinstance(n.target, ast.Name):
                tgts = [n.target.id]
            elif isinstance(n, (ast.FunctionDef, ast.ClassDef)):
                tgts = [n.name]
            for t in tgts:
                if t in fixed:
                    bad(n, "module-level redefinition of %r" % t)
                top.setdefault(t, []).append(n)
        # booleanTypes, pandas, polars: the three try / except ImportError blocks
        tries = [ast.unparse(n) for n in tree.body if isinstance(n, ast.Try)]
        want = ["try:\n    import pandas\nexcept ImportError:\n    pandas = False",
                "try:\n    import polars\nexcept ImportError:\n    polars = False",
                "try:\n    import numpy as np\n    booleanTypes = (bool, np.bool_)\nexcept ImportError:\n    booleanTypes = bool"]
        if tries != want:
            raise Unsupported("%s: the module-level try blocks (pandas, polars, booleanTypes) are not the expected ones" % SRC)
        for nm in ("booleanTypes", "pandas", "polars", "BoolObj", "INDEX_VS_ATTRIBUTE", "prepare_string_for_hashing", "DeepHash",
                   "UNPROCESSED_KEY", "EMPTY_FROZENSET"):
            if len(top.get(nm, [])) != (0 if nm in ("booleanTypes", "pandas", "polars") else 1):
                raise Unsupported("%s: %s is defined %d times at module level" % (SRC, nm, len(top.get(nm, []))))
        if ast.unparse(top["BoolObj"][0]) != BOOLOBJ_TEXT:
            bad(top["BoolObj"][0], "class BoolObj is not the expected Enum")
        if ast.unparse(top["EMPTY_FROZENSET"][0]) != "EMPTY_FROZENSET = frozenset()" or ast.unparse(top["UNPROCESSED_KEY"][0]) != "UNPROCESSED_KEY = object()":
            bad(top["EMPTY_FROZENSET"][0], "EMPTY_FROZENSET / UNPROCESSED_KEY")
        return top

    def check_init(self, cls):
        init = [s for s in cls.body if isinstance(s, ast.FunctionDef) and s.name == "__init__"]
        if len(init) != 1:
            bad(cls, "DeepHash.__init__ defined %d times" % len(init))
        init = init[0]
        a = init.args
        if a.vararg or a.posonlyargs or [x.arg for x in a.args] != ["self", "obj"]:
            bad(init, "signature of DeepHash.__init__")
        kwd = {}
        for x, d in zip(a.kwonlyargs, a.kw_defaults):
            if d is None:
                bad(init, "keyword-only parameter %s without default" % x.arg)
            kwd[x.arg] = d
        for k, v in INIT_DEFAULTS.items():
            d = kwd.get(k)
            if not (isinstance(d, ast.Constant) and d.value == v and type(d.value) is type(v)):
                bad(init, "default of DeepHash(%s=...) is not %r (rule F)" % (k, v))
        stores = {}
        for s in ast.walk(init):
            if isinstance(s, (ast.Assign, ast.AugAssign, ast.AnnAssign)):
                tgts = s.targets if isinstance(s, ast.Assign) else [s.target]
                for t in tgts:
                    for q in ast.walk(t):
                        if isinstance(q, ast.Attribute) and isinstance(q.value, ast.Name) and q.value.id == "self":
                            stores.setdefault(q.attr, []).append(s)
            if isinstance(s, ast.Call) and isinstance(s.func, ast.Name) and s.func.id in ("setattr", "delattr", "vars"):
                bad(s, "setattr / vars in __init__")
        for k in INIT_COPIED:
            if [ast.unparse(x) for x in stores.get(k, [])] != ["self.%s = %s" % (k, k)]:
                bad(init, "__init__ does not store %s unchanged (self.%s = %s, exactly once)" % (k, k, k))
        for k, txt in INIT_PINNED.items():
            if [ast.unparse(x) for x in stores.get(k, [])] != [txt]:
                bad(init, "__init__: expected `%s` (exactly once)" % txt)
        for k in list(INIT_COPIED) + list(INIT_PINNED):
            for x in stores.get(k, []):
                if x not in init.body:
                    bad(x, "self.%s is assigned inside a nested statement of __init__" % k)
        # `self._hash(obj, parent=parent, parents_ids=frozenset({get_id(obj)}))` is the only call of _hash in __init__
        calls = [ast.unparse(n) for n in ast.walk(init) if isinstance(n, ast.Call) and isinstance(n.func, ast.Attribute) and n.func.attr == "_hash"]
        if calls != ["self._hash(obj, parent=parent, parents_ids=frozenset({get_id(obj)}))"]:
            bad(init, "the call of _hash in __init__ is %r" % calls)

    def run(self):
        key, keynode = self.check_helper()
        self.check_base()
        tree = self.parse(SRC)
        top = self.check_module(tree)
        out = []
        out.append("(* KEY_TO_VAL_STR, %s:%d *)\nDefinition g_KEY_TO_VAL_STR : pobj := OText %s.\n" % (HELPER, keynode.lineno, coq_str(key, keynode)))
        iva = top["INDEX_VS_ATTRIBUTE"][0]
        v = iva.value if isinstance(iva, ast.Assign) else None
        if not (isinstance(v, ast.Tuple) and len(v.elts) == 2 and all(isinstance(x, ast.Constant) and isinstance(x.value, str) for x in v.elts)):
            bad(iva, "INDEX_VS_ATTRIBUTE is not a pair of string literals")
        out.append("(* INDEX_VS_ATTRIBUTE, %s:%d *)\nDefinition g_INDEX_VS_ATTRIBUTE : pobj * pobj := (OText %s, OText %s).\n" % (
            SRC, iva.lineno, coq_str(v.elts[0].value, iva), coq_str(v.elts[1].value, iva)))
        psh = top["prepare_string_for_hashing"][0]
        if not isinstance(psh, ast.FunctionDef):
            bad(psh, "prepare_string_for_hashing is not a function")
        out.append(PrepString(self, psh).emit())
        cls = top["DeepHash"][0]
        if not isinstance(cls, ast.ClassDef) or [ast.unparse(b) for b in cls.bases] != ["Base"] or cls.keywords or cls.decorator_list:
            bad(cls, "class DeepHash(Base) expected")
        self.check_init(cls)
        self.methods = {}
        for s in cls.body:
            if isinstance(s, ast.FunctionDef):
                if s.name in self.methods:
                    bad(s, "method %s defined twice" % s.name)
                self.methods[s.name] = s
            elif isinstance(s, ast.Assign):
                for t in s.targets:
                    for q in ast.walk(t):
                        if isinstance(q, ast.Name) and (q.id in SIGS or q.id in ("_prep_obj", "_skip_this", "hashes", "hasher")):
                            bad(s, "class-level assignment to %s" % q.id)
        for nm in SIGS:
            if nm not in self.methods:
                raise Unsupported("%s: method DeepHash.%s not found" % (SRC, nm))
        # nobody else writes the table or rebinds the methods
        for nm, fn in self.methods.items():
            for n in ast.walk(fn):
                if isinstance(n, ast.Attribute) and isinstance(n.ctx, (ast.Store, ast.Del)) and isinstance(n.value, ast.Name) \
                        and n.value.id == "self" and nm != "__init__":
                    bad(n, "DeepHash.%s assigns self.%s" % (nm, n.attr))
                if isinstance(n, ast.Call) and isinstance(n.func, ast.Name) and n.func.id in ("setattr", "delattr", "exec", "eval"):
                    bad(n, "DeepHash.%s calls %s" % (nm, n.func.id))
        for nm in ORDER:
            self.need(nm, cls)
        out += [self.emitted[k] for k in self.order]
        out.append("(* rule R: the recursion of _hash through _prep_dict / _prep_iterable / _prep_tuple *)\n"
                   "Fixpoint g_hash (fuel : nat) (self : hself) (obj : pobj) (parents_ids : pids) (st : memo) {struct fuel} : pobj * memo :=\n"
                   "  match fuel with\n"
                   "  | O => (ONotHashed, st)\n"
                   "  | S fuel' => g_hash_body (g_hash fuel' self) self obj parents_ids st\n"
                   "  end.\n")
        return out


HEADER = """(* GENERATED by /verif/harness/translate/deephashprep.py from %s (KEY_TO_VAL_STR of %s; Base.get_significant_digits
   of %s is checked only).  DO NOT EDIT: regenerated from the current source on every run of ./check C06 / C07.
   Definitions only.  Types and primitives are those of DD.Hash.HashSrcPrims (and the model's types of Hash.HashModel /
   Hash.HashXModel); none of the model's functions that this file re-derives is used. *)
From Coq Require Import List ZArith NArith Bool String.
Import ListNotations.
From DD Require Import Base.PyStr Base.Value Hash.HashModel Hash.HashXModel Hash.HashSrcPrims.

"""


def translate(repo):
    defs = Translator(repo).run()
    return HEADER % (SRC, HELPER, BASE) + "\n".join(defs)


if __name__ == "__main__":
    import sys
    sys.stdout.write(translate(sys.argv[1] if len(sys.argv) > 1 else "/repo"))

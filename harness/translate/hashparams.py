"""Source tie of C12 (`hashparams`): the option forwarding DeepDiff -> DeepHash and the hashtable of the
order-ignoring list diff  ->  Gallina (coq/srctie/HashDiffGen.v, module DDGen.HashDiffGen).

translate(repo_root) reads /repo's CURRENT deepdiff/diff.py, deepdiff/deephash.py, deepdiff/base.py, walks the `ast`
of the named constants / methods with an explicit white-list of node shapes and emits one Gallina definition
`g_<python name>` per Python definition, statement by statement, in the vocabulary of
coq/theories/HashDiff/HashDiffSrcPrims.v (whose TYPES and PRIMITIVES it imports: pv, pdict, truthy, p_*, pd_*, kwarg,
hres, IndexedHash, htable, ht_*, SetOrdered, so_sub, enumerate, for_loop, args_of, hopts_of_self; none of the hand
model's functions).  Anything outside the white-list raises Unsupported("file:line: what [node]").  No eval, no
import of deepdiff.  The translation is syntax-directed and dumb; equality with the hand model is the business of
coq/srctie/HashDiffGenEquiv.v.

TRANSLATED
  diff.py      DEEPHASH_PARAM_KEYS                          -> g_DEEPHASH_PARAM_KEYS : list string
               DeepDiff.__init__ (up to and including `self.deephash_parameters = self._get_deephash_params()`)
                                                            -> g_DeepDiff___init__ : pdict -> pv   (PD self.__dict__ | PRaise)
               DeepDiff._get_deephash_params                -> g__get_deephash_params : pdict -> pv
               DeepDiff._add_hash                           -> g__add_hash
               DeepDiff._create_hashtable                   -> g__create_hashtable, g__create_hashtable_DeepHash_kwargs
               DeepDiff._diff_iterable_with_deephash (up to the first statement that mentions
               _get_most_in_common_pairs_in_iterables)      -> g__diff_iterable_with_deephash
  deephash.py  DeepHash.__init__ (up to the call of self._hash) -> g_DeepHash___init__ : pdict -> pv
  base.py      DEFAULT_SIGNIFICANT_DIGITS_WHEN_IGNORE_NUMERIC_TYPES, Base.get_significant_digits
  glue (fixed text, compositions of the above only): g_deephash_self, g_deephash_params

ENCODING RULES (each is part of the trusted base of this tie; listed in coq/theories/HashDiff/NOTES_srctie.md)
 E1  option values are `pv` (None, bool, non-negative int, str, list/tuple/set display, str-keyed dict, PConst name = the
     module-level object of deepdiff bound to that name, PX text = the value of an expression outside the modelled
     fragment, PRaise name = an exception propagates).  Python locals are let-bound Coq variables `v_<name>`; the object
     under construction is the str-keyed dict `self` (= self.__dict__): `self.a = e` -> `let self := pd_set self "a" E`,
     `self.a` -> `pd_get self "a"`, `self.__dict__.update(d)` -> pd_update, `self.__dict__.copy()` -> PD self.
 E2  a keyword / defaulted parameter p=D is `let v_p := kwarg A "p" D'` (A = the keyword arguments of the call; D' = D when D is
     a constant, `PX "<text>"` otherwise - never for a MODELLED parameter); `**kwargs` = the entries of A that name no
     parameter; positional-only-by-use parameters (t1, t2, obj) are opaque.
 E3  `x = e` -> `let v_x := E in`; `d['k'] = e` on a local dict -> p_setitem; `if c: A else: B` (no raise inside) ->
     `let '(assigned variables) := if truthy C then (A; tuple) else (B; tuple) in`; an `if` with a raise inside is
     translated in continuation style (the rest of the block is emitted in each branch that continues);
     `raise X(...)` -> `PRaise "X"`; `return e` -> E.  Operators: not/and/or (Python's value semantics), is / is not / == / !=
     / in / not in / < / > / <= / >= (single comparison), conditional expression, displays, `x['k']`, `x.copy()`,
     `{key: e for key in DEEPHASH_PARAM_KEYS}` -> pd_comprehension, `self.m(args)` for a translated method m.
 E4  a right-hand side outside the white-list is `PX "<source text>"` - allowed ONLY when the target is not MODELLED
     (MODELLED attributes: the seven that Hash.HashModel.hopts has a field for, report_repetition on the DeepDiff side; MODELLED
     locals: every local that flows into one of them, computed syntactically).  For a MODELLED target it is Unsupported.
 E5  the hashtable world is typed by a fixed table (hashes / local_hashes / full_t*_hashtable / t*_hashtable : htable,
     item_hash / hash keys : pystr, item : value, i : nat, t*_hashes / hashes_added / hashes_removed : list pystr).
     `h in table` -> ht_has, `table[h].indexes.append(i)` -> ht_append_index, `table[h] = IndexedHash(indexes=.., item=..)` ->
     ht_set, `SetOrdered(t.keys())` -> SetOrdered (ht_keys t), `a - b` -> so_sub, `{k: v for k, v in t.items() if k in s}` ->
     ht_restrict, `for (i, item) in enumerate(obj)` -> for_loop (enumerate obj).  The in-place mutation of `hashes` by _add_hash
     is the returned table.
 E6  `DeepHash(item, ...)` followed by `deep_hash[item]` is the ORACLE `dh : value -> hres` (HOk h | HUnprocessed |
     HCallExc name | HItemExc name); the try / except / else structure around them becomes the case analysis on it: handlers of the
     outer `try` catch HCallExc of their class, handlers of the inner `try` catch HItemExc of theirs, `raise` / an uncaught class ->
     None (the exception leaves the loop), `pass` -> the table unchanged, `item_hash is unprocessed` -> the HUnprocessed case.
     The keyword arguments of that call are g__create_hashtable_DeepHash_kwargs (explicit keywords, then ** of
     self.deephash_parameters; a repeated keyword is a TypeError).
SKIP RULES
 S1  docstrings; `super().__init__()`; calls of logger.* / self.log_err / self.progress_logger (Expr statements).
 S2  a compound statement whose condition is outside the white-list (isinstance, callable, ...) or a statement of another
     kind (def, try, for, with, del) is skipped ONLY IF nothing inside it stores to / deletes / mutates a TRACKED name
     (every DEEPHASH_PARAM_KEY, report_repetition, number_to_string, _parameters, deephash_parameters, __dict__ and the MODELLED
     locals); otherwise Unsupported.  The statements AFTER the translated prefix of a function are checked the same way
     (`del self._parameters` inside the `finally` of DeepDiff.__init__ - after the diff is complete - is allowed).
 S3  in _create_hashtable: `parent = "{}[{}]".format(...)` (a path text for messages); the statement `err.reason = ...`
     before a bare `raise`; the trailing `DeepHash(obj, ...)` whose result is discarded (it only fills the shared `hashes`
     memo table, which the hand model does not thread) - CHECKED to pass the same ** parameters.
 S4  in _diff_iterable_with_deephash: the `if ... > self.cutoff_intersection_for_pairs: get_pairs = ...` statement (pairing
     heuristic; checked to assign only get_pairs).
 S5  comments, type annotations, `# pragma`, `# type: ignore`.
STRUCTURAL CHECKS  no decorators on the translated methods; DeepDiff and DeepHash derive from Base and do not override
 get_significant_digits; every key of DEEPHASH_PARAM_KEYS is a parameter of DeepDiff.__init__, a keyword parameter of
 DeepHash.__init__ is NOT required (a foreign key makes g_DeepHash___init__ raise, as the code does); every key is stored by a
 top-level `self.<key> = ...` of the root branch before `_parameters = self.__dict__.copy()`; the names IndexedHash,
 unprocessed, SetOrdered, numbers, strings, number_to_string, dict_ are imported from deepdiff.helper and not rebound.
"""
import ast
import os

DIFF = "deepdiff/diff.py"
HASH = "deepdiff/deephash.py"
BASE = "deepdiff/base.py"


class Unsupported(Exception):
    pass


def bad(src, node, what):
    raise Unsupported("%s:%s: %s%s" % (src, getattr(node, "lineno", "?"), what,
                                       (" [" + type(node).__name__ + "]") if node is not None else ""))


def cq(s):
    """Coq string literal"""
    s = " ".join(str(s).split())
    return '"' + s.replace('"', '""') + '"'


def v(name):
    return "v_" + name


def text_of(e):
    t = " ".join(ast.unparse(e).split())
    return t if len(t) <= 160 else t[:157] + "..."


# attributes / parameters the hand model has a field for (no opaque fallback for them)
MODELLED_HASH = {"ignore_repetition", "ignore_iterable_order", "ignore_private_variables", "ignore_string_case",
                 "ignore_string_type_changes", "ignore_numeric_type_changes", "significant_digits"}
MODELLED_DIFF = {"ignore_private_variables", "ignore_string_case", "ignore_string_type_changes", "ignore_numeric_type_changes",
                 "significant_digits", "report_repetition"}
HELPER_NAMES = ("IndexedHash", "unprocessed", "SetOrdered", "numbers", "strings", "number_to_string", "dict_")
READONLY_METHODS = {"copy", "get", "keys", "items", "values"}
LOG_CALLS = {("logger", None), ("self", "log_err"), ("self", "progress_logger")}


# ----------------------------------------------------------------------------------------------------------------
# the pv world: expressions
# ----------------------------------------------------------------------------------------------------------------

class PvExpr:
    def __init__(self, src, consts, methods, keylists):
        self.src = src
        self.consts = consts        # python global name -> Coq term of type pv
        self.methods = methods      # method name -> (coq function, number of positional args, takes self)
        self.keylists = keylists    # python global name -> Coq term of type list string

    def tr(self, e, bound, strvars=()):
        t = lambda x: self.tr(x, bound, strvars)  # noqa
        if isinstance(e, ast.Constant):
            c = e.value
            if c is True:
                return "(PB true)"
            if c is False:
                return "(PB false)"
            if c is None:
                return "PNone"
            if isinstance(c, int) and c >= 0:
                return "(PN %d)" % c
            if isinstance(c, str):
                return "(PS %s)" % cq(c)
            bad(self.src, e, "constant %r outside the white-list" % (c,))
        if isinstance(e, ast.Name):
            if e.id in strvars:
                return "(PS %s)" % v(e.id)
            if e.id in bound:
                return v(e.id)
            if e.id in self.consts:
                return self.consts[e.id]
            bad(self.src, e, "name %s is neither a local nor a known module-level object" % e.id)
        if isinstance(e, ast.BoolOp):
            op = "p_and" if isinstance(e.op, ast.And) else "p_or"
            out = t(e.values[-1])
            for x in reversed(e.values[:-1]):
                out = "(%s %s %s)" % (op, t(x), out)
            return out
        if isinstance(e, ast.UnaryOp) and isinstance(e.op, ast.Not):
            return "(p_not %s)" % t(e.operand)
        if isinstance(e, ast.Compare):
            if len(e.ops) != 1:
                bad(self.src, e, "chained comparison")
            ops = {ast.Is: "p_is", ast.IsNot: "p_is_not", ast.Eq: "p_eq", ast.NotEq: "p_ne", ast.In: "p_in", ast.NotIn: "p_not_in",
                   ast.Lt: "p_lt", ast.Gt: "p_gt", ast.LtE: "p_le", ast.GtE: "p_ge"}
            f = ops.get(type(e.ops[0]))
            if not f:
                bad(self.src, e, "comparison operator outside the white-list")
            return "(%s %s %s)" % (f, t(e.left), t(e.comparators[0]))
        if isinstance(e, ast.IfExp):
            return "(p_ifexp %s %s %s)" % (t(e.test), t(e.body), t(e.orelse))
        if isinstance(e, (ast.List, ast.Tuple, ast.Set)):
            return "(PL [%s])" % "; ".join(t(x) for x in e.elts)
        if isinstance(e, ast.Dict):
            items = []
            for k, x in zip(e.keys, e.values):
                if not (isinstance(k, ast.Constant) and isinstance(k.value, str)):
                    bad(self.src, e, "dict display with a key that is not a str literal")
                items.append("(%s, %s)" % (cq(k.value), t(x)))
            return "(PD [%s])" % "; ".join(items)
        if isinstance(e, ast.Attribute):
            if isinstance(e.value, ast.Name) and e.value.id == "self":
                if e.attr == "__dict__":
                    return "(PD self)"
                return "(pd_get self %s)" % cq(e.attr)
            bad(self.src, e, "attribute access on something other than self")
        if isinstance(e, ast.Subscript):
            k = e.slice
            if isinstance(k, ast.Constant) and isinstance(k.value, str):
                return "(p_item %s %s)" % (t(e.value), cq(k.value))
            if isinstance(k, ast.Name) and k.id in strvars:
                return "(p_item %s %s)" % (t(e.value), v(k.id))
            bad(self.src, e, "subscript whose index is neither a str literal nor the comprehension variable")
        if isinstance(e, ast.Call):
            f = e.func
            if isinstance(f, ast.Attribute) and f.attr == "copy" and not e.args and not e.keywords:
                return "(p_copy %s)" % t(f.value)
            if isinstance(f, ast.Attribute) and isinstance(f.value, ast.Name) and f.value.id == "self" and f.attr in self.methods:
                g, n, takes_self = self.methods[f.attr]
                if e.keywords or len(e.args) != n or any(isinstance(a, ast.Starred) for a in e.args):
                    bad(self.src, e, "call of self.%s with other than %d positional arguments" % (f.attr, n))
                return "(%s%s%s)" % (g, " self" if takes_self else "", "".join(" " + t(a) for a in e.args))
            bad(self.src, e, "call outside the white-list")
        if isinstance(e, ast.DictComp):
            if len(e.generators) != 1:
                bad(self.src, e, "dict comprehension with several generators")
            gen = e.generators[0]
            if gen.ifs or gen.is_async or not isinstance(gen.target, ast.Name) or not isinstance(gen.iter, ast.Name) \
                    or gen.iter.id not in self.keylists or not (isinstance(e.key, ast.Name) and e.key.id == gen.target.id):
                bad(self.src, e, "dict comprehension other than {key: <expr> for key in <tuple of str literals>}")
            kv = gen.target.id
            return "(PD (pd_comprehension %s (fun %s => %s)))" % (self.keylists[gen.iter.id], v(kv),
                                                                self.tr(e.value, bound, tuple(strvars) + (kv,)))
        bad(self.src, e, "expression outside the white-list")


def reads(e):
    """names read by an expression: local / global names and ('self', attr)"""
    out = set()
    for n in ast.walk(e):
        if isinstance(n, ast.Name) and isinstance(n.ctx, ast.Load):
            out.add(n.id)
        if isinstance(n, ast.Attribute) and isinstance(n.value, ast.Name) and n.value.id == "self":
            out.add(("self", n.attr))
    return out


# ----------------------------------------------------------------------------------------------------------------
# the pv world: statements
# ----------------------------------------------------------------------------------------------------------------

def is_docstring(s):
    return isinstance(s, ast.Expr) and isinstance(s.value, ast.Constant) and isinstance(s.value.value, str)


def is_log_call(s):
    if not (isinstance(s, ast.Expr) and isinstance(s.value, ast.Call)):
        return False
    f = s.value.func
    if isinstance(f, ast.Attribute) and isinstance(f.value, ast.Name):
        return (f.value.id, None) in LOG_CALLS or (f.value.id, f.attr) in LOG_CALLS
    return False


def is_super_init(s):
    if not (isinstance(s, ast.Expr) and isinstance(s.value, ast.Call)):
        return False
    c = s.value
    f = c.func
    return (isinstance(f, ast.Attribute) and f.attr == "__init__" and isinstance(f.value, ast.Call) and isinstance(f.value.func, ast.Name)
            and f.value.func.id == "super" and not f.value.args and not c.args and not c.keywords)


class PvBlock:
    """statement lists -> nested lets.  tracked_* : names that may not be touched inside a skipped statement;
    modelled_* : names whose right-hand sides must be inside the white-list."""

    def __init__(self, src, ex, modelled_attrs, tracked_attrs, modelled_locals, tracked_locals):
        self.src, self.ex = src, ex
        self.modelled_attrs, self.tracked_attrs = set(modelled_attrs), set(tracked_attrs) | set(modelled_attrs)
        self.modelled_locals, self.tracked_locals = set(modelled_locals), set(tracked_locals) | set(modelled_locals)
        self.skipped = []

    # ---- S2: nothing tracked is touched ----
    def harmless(self, node, why, in_finally=False):
        def base_tracked(x):
            if isinstance(x, ast.Name):
                return x.id in self.tracked_locals
            if isinstance(x, ast.Attribute) and isinstance(x.value, ast.Name) and x.value.id == "self":
                return x.attr in self.tracked_attrs or x.attr == "__dict__"
            if isinstance(x, (ast.Subscript, ast.Attribute)):
                return base_tracked(x.value)
            return False
        for n in ast.walk(node):
            if isinstance(n, (ast.Global, ast.Nonlocal)):
                bad(self.src, n, "global / nonlocal inside a statement that would be skipped (%s)" % why)
            if isinstance(n, (ast.Name, ast.Attribute, ast.Subscript)) and isinstance(getattr(n, "ctx", None), (ast.Store, ast.Del)):
                if isinstance(n.ctx, ast.Del) and in_finally:
                    continue
                if base_tracked(n):
                    bad(self.src, n, "a tracked name (%s) is stored / deleted inside a statement outside the white-list (%s)" % (text_of(n), why))
            if isinstance(n, ast.Call):
                f = n.func
                if in_finally and isinstance(f, ast.Attribute) and f.attr == "clear" and text_of(f.value) == "self.__dict__":
                    continue     # S2: cache_purge_level == 2 empties the object after the diff is complete
                if isinstance(f, ast.Attribute) and f.attr not in READONLY_METHODS and base_tracked(f.value) and not \
                        (isinstance(f.value, ast.Name) and f.value.id == "self"):
                    bad(self.src, n, "a tracked object is mutated by %s inside a statement outside the white-list (%s)" % (text_of(f), why))
                if isinstance(f, ast.Name) and f.id in ("setattr", "delattr", "vars", "locals", "exec", "eval"):
                    bad(self.src, n, "%s() inside a statement outside the white-list (%s)" % (f.id, why))
        self.skipped.append("%s:%s %s (%s)" % (self.src, getattr(node, "lineno", "?"), type(node).__name__, why))

    def harmless_rest(self, stmts, why):
        for s in stmts:
            if isinstance(s, ast.Try):
                for part in (s.body, s.orelse) + tuple(h.body for h in s.handlers):
                    for x in part:
                        self.harmless(x, why)
                for x in s.finalbody:
                    self.harmless(x, why, in_finally=True)
            else:
                self.harmless(s, why)

    # ---- expressions with the opaque fallback of E4 ----
    def rhs(self, e, bound, modelled):
        try:
            return self.ex.tr(e, bound)
        except Unsupported:
            if modelled:
                raise
            return "(PX %s)" % cq(text_of(e))

    @staticmethod
    def contains_raise(stmts):
        return any(isinstance(n, ast.Raise) for s in stmts for n in ast.walk(s))

    @staticmethod
    def terminates(stmts):
        if not stmts:
            return False
        last = stmts[-1]
        if isinstance(last, (ast.Raise, ast.Return)):
            return True
        if isinstance(last, ast.If) and last.orelse:
            return PvBlock.terminates(last.body) and PvBlock.terminates(last.orelse)
        return False

    # ---- the translation proper ----
    def block(self, stmts, bound, k, ind, stop=None):
        """returns Coq text; k(bound) -> text of what follows the block (None: the block must terminate);
        stop(stmt) -> True: translate this statement, then end the function with k (used for prefixes)"""
        if not stmts:
            if k is None:
                bad(self.src, None, "control reaches the end of a block that must end in return / raise")
            return k(bound)
        s, rest = stmts[0], stmts[1:]
        pad = " " * ind

        def cont(b):
            return self.block(rest, b, k, ind, stop)
        if is_docstring(s) or is_log_call(s) or is_super_init(s) or isinstance(s, ast.Pass):
            return cont(bound)
        if isinstance(s, ast.Raise):
            name = "Exception"
            if s.exc is not None:
                f = s.exc.func if isinstance(s.exc, ast.Call) else s.exc
                name = f.id if isinstance(f, ast.Name) else text_of(f)
            return pad + "PRaise %s" % cq(name)
        if isinstance(s, ast.Return):
            return pad + (self.ex.tr(s.value, bound) if s.value is not None else "PNone")
        if isinstance(s, ast.Assign) and len(s.targets) == 1:
            tg = s.targets[0]
            if isinstance(tg, ast.Name):
                e = self.rhs(s.value, bound, tg.id in self.modelled_locals)
                return pad + "let %s := %s in\n" % (v(tg.id), e) + cont(bound | {tg.id})
            if isinstance(tg, ast.Attribute) and isinstance(tg.value, ast.Name) and tg.value.id == "self" and tg.attr != "__dict__":
                e = self.rhs(s.value, bound, tg.attr in self.modelled_attrs)
                return pad + "let self := pd_set self %s %s in\n" % (cq(tg.attr), e) + cont(bound)
            if isinstance(tg, ast.Subscript) and isinstance(tg.value, ast.Name) and tg.value.id in bound \
                    and isinstance(tg.slice, ast.Constant) and isinstance(tg.slice.value, str):
                e = self.rhs(s.value, bound, tg.value.id in self.modelled_locals and tg.slice.value in self.tracked_attrs)
                return pad + "let %s := p_setitem %s %s %s in\n" % (v(tg.value.id), v(tg.value.id), cq(tg.slice.value), e) + cont(bound | {tg.value.id})
        if isinstance(s, ast.Expr) and isinstance(s.value, ast.Call):
            c = s.value
            f = c.func
            # self.__dict__.update(d)
            if isinstance(f, ast.Attribute) and f.attr == "update" and isinstance(f.value, ast.Attribute) and f.value.attr == "__dict__" \
                    and isinstance(f.value.value, ast.Name) and f.value.value.id == "self" and len(c.args) == 1 and not c.keywords:
                return pad + "let self := pd_update self (p_dict %s) in\n" % self.ex.tr(c.args[0], bound) + cont(bound)
        if isinstance(s, ast.If):
            try:
                cnd = self.ex.tr(s.test, bound)
            except Unsupported:
                self.harmless(s, "condition outside the white-list: " + text_of(s.test))
                return cont(bound)
            t1, t2 = self.terminates(s.body), self.terminates(s.orelse)
            if t1 or t2 or self.contains_raise(s.body) or self.contains_raise(s.orelse):
                # continuation style: the rest of the block follows each branch that continues
                kb = None if t1 else cont
                ke = None if t2 else cont
                a = self.block(s.body, bound, kb, ind + 2, None)
                b = self.block(s.orelse, bound, ke, ind + 2, None) if s.orelse else cont(bound)
                return pad + "if truthy %s then\n%s\n%selse\n%s" % (cnd, a, pad, b)
            # no raise inside: the variables assigned in either branch are rebound by one let
            seen = []

            def probe(b):
                seen.append(b)
                return ""
            self.block(s.body, bound, probe, 0, None)
            self.block(s.orelse, bound, probe, 0, None)
            assigned = []
            for part in (s.body, s.orelse):
                for n in self.assigned_names(part):
                    if n not in assigned:
                        assigned.append(n)
            if not assigned:
                return cont(bound)
            names = ["self" if n == "self" else v(n) for n in assigned]
            pre = "".join(pad + "let %s := PRaise \"UnboundLocalError\" in\n" % v(n) for n in assigned if n != "self" and n not in bound)
            b2 = bound | {n for n in assigned if n != "self"}
            tup = "(" + ", ".join(names) + ")" if len(names) > 1 else names[0]
            pat = "'" + tup if len(names) > 1 else tup
            a = self.block(s.body, b2, lambda _b: " " * (ind + 4) + tup, ind + 4, None)
            b = self.block(s.orelse, b2, lambda _b: " " * (ind + 4) + tup, ind + 4, None)
            return pre + pad + "let %s :=\n%s  if truthy %s then\n%s\n%s  else\n%s in\n" % (pat, pad, cnd, a, pad, b) + cont(b2)
        self.harmless(s, "statement outside the white-list")
        return cont(bound)

    def assigned_names(self, stmts):
        """variables (and `self`) that the TRANSLATION of stmts rebinds, in order"""
        out = []

        def add(n):
            if n not in out:
                out.append(n)
        for s in stmts:
            if isinstance(s, ast.Assign) and len(s.targets) == 1:
                tg = s.targets[0]
                if isinstance(tg, ast.Name):
                    add(tg.id)
                elif isinstance(tg, ast.Attribute) and isinstance(tg.value, ast.Name) and tg.value.id == "self":
                    add("self")
                elif isinstance(tg, ast.Subscript) and isinstance(tg.value, ast.Name):
                    add(tg.value.id)
            elif isinstance(s, ast.Expr) and isinstance(s.value, ast.Call) and isinstance(s.value.func, ast.Attribute) \
                    and s.value.func.attr == "update" and not is_log_call(s):
                add("self")
            elif isinstance(s, ast.If):
                try:
                    self.ex.tr(s.test, set(n.id for n in ast.walk(s.test) if isinstance(n, ast.Name)))
                except Unsupported:
                    continue
                for n in self.assigned_names(s.body) + self.assigned_names(s.orelse):
                    add(n)
        return out


def modelled_locals_of(fn, modelled_attrs):
    """E4: the locals that flow (syntactically) into a modelled attribute"""
    need = set()
    changed = True
    while changed:
        changed = False

        def visit(stmts, conds):
            nonlocal changed
            for s in stmts:
                if isinstance(s, ast.Assign) and len(s.targets) == 1:
                    tg = s.targets[0]
                    hit = (isinstance(tg, ast.Attribute) and isinstance(tg.value, ast.Name) and tg.value.id == "self" and tg.attr in modelled_attrs) \
                        or (isinstance(tg, ast.Name) and tg.id in need)
                    if hit:
                        new = {n for n in reads(s.value) if isinstance(n, str)} | conds
                        if not new <= need:
                            need.update(new)
                            changed = True
                elif isinstance(s, ast.If):
                    c = conds | {n for n in reads(s.test) if isinstance(n, str)}
                    visit(s.body, c)
                    visit(s.orelse, c)
                elif isinstance(s, ast.Try):
                    for part in (s.body, s.orelse, s.finalbody) + tuple(h.body for h in s.handlers):
                        visit(part, conds)
                elif isinstance(s, (ast.For, ast.While, ast.With)):
                    visit(s.body, conds)
        visit(fn.body, set())
    return need


# ----------------------------------------------------------------------------------------------------------------
# reading the sources
# ----------------------------------------------------------------------------------------------------------------

def parse(repo, rel):
    p = os.path.join(repo, rel)
    try:
        with open(p) as f:
            return ast.parse(f.read())
    except (OSError, SyntaxError) as e:
        raise Unsupported("%s: cannot read / parse: %s" % (rel, e))


def find_class(tree, src, name):
    cl = [n for n in tree.body if isinstance(n, ast.ClassDef) and n.name == name]
    if len(cl) != 1:
        bad(src, None, "expected exactly one class %s at module level" % name)
    return cl[0]


def find_method(cls, src, name):
    ms = [n for n in cls.body if isinstance(n, (ast.FunctionDef, ast.AsyncFunctionDef)) and n.name == name]
    if len(ms) != 1 or not isinstance(ms[0], ast.FunctionDef):
        bad(src, cls, "expected exactly one plain method %s.%s" % (cls.name, name))
    if ms[0].decorator_list:
        bad(src, ms[0], "decorator on %s.%s" % (cls.name, name))
    return ms[0]


def module_const(tree, src, name):
    hits = [n for n in ast.walk(tree) if isinstance(n, (ast.Assign, ast.AnnAssign, ast.AugAssign))
            and any(isinstance(t, ast.Name) and t.id == name for t in (n.targets if isinstance(n, ast.Assign) else [n.target]))]
    if len(hits) != 1 or hits[0] not in tree.body or not isinstance(hits[0], ast.Assign) or len(hits[0].targets) != 1:
        bad(src, hits[0] if hits else None, "expected exactly one plain module-level assignment of %s" % name)
    return hits[0]


def check_helper_imports(tree, src, names):
    imported = set()
    for n in tree.body:
        if isinstance(n, ast.ImportFrom) and n.module == "deepdiff.helper":
            imported |= {a.name for a in n.names if a.asname in (None, a.name)}
    for nm in names:
        if nm not in imported:
            bad(src, None, "%s is not imported from deepdiff.helper" % nm)
    for n in ast.walk(tree):
        if isinstance(n, ast.Name) and isinstance(n.ctx, (ast.Store, ast.Del)) and n.id in names:
            bad(src, n, "%s is rebound" % n.id)
        if isinstance(n, (ast.FunctionDef, ast.ClassDef)) and n.name in names:
            bad(src, n, "%s is redefined" % n.name)


def plain_params(fn, src, want_kwonly):
    a = fn.args
    if a.posonlyargs or a.vararg:
        bad(src, fn, "positional-only parameters / *args in %s" % fn.name)
    if a.kwarg is None:
        bad(src, fn, "%s has no **kwargs" % fn.name)
    if want_kwonly:
        pos = [x.arg for x in a.args]
        params = [(x.arg, d) for x, d in zip(a.kwonlyargs, a.kw_defaults)]
        if a.defaults:
            bad(src, fn, "defaulted positional parameter in %s" % fn.name)
    else:
        if a.kwonlyargs:
            bad(src, fn, "keyword-only parameters in %s" % fn.name)
        nd = len(a.defaults)
        pos = [x.arg for x in a.args[:len(a.args) - nd]]
        params = [(x.arg, d) for x, d in zip(a.args[len(a.args) - nd:], a.defaults)]
    if any(d is None for _n, d in params):
        bad(src, fn, "keyword parameter without default in %s" % fn.name)
    return pos, params, a.kwarg.arg


def bind_params(src, ex, pos, params, kwname, modelled, argvar):
    lines, bound = [], set()
    for p in pos:
        if p == "self":
            continue
        lines.append("  let %s := PX %s in" % (v(p), cq(p)))
        bound.add(p)
    for name, d in params:
        try:
            dt = ex.tr(d, set())
        except Unsupported:
            if name in modelled:
                bad(src, d, "default of the modelled parameter %s is outside the white-list" % name)
            dt = "(PX %s)" % cq(text_of(d))
        lines.append("  let %s := kwarg %s %s %s in" % (v(name), argvar, cq(name), dt))
        bound.add(name)
    lines.append("  let %s := PD (pd_without %s [%s]) in" % (v(kwname), argvar, "; ".join(cq(n) for n, _d in params)))
    bound.add(kwname)
    return "\n".join(lines) + "\n", bound


# ----------------------------------------------------------------------------------------------------------------
# the hashtable world (E5, E6)
# ----------------------------------------------------------------------------------------------------------------

class HtExpr:
    def __init__(self, src, types):
        self.src, self.types = src, dict(types)

    def ty(self, e):
        if isinstance(e, ast.Name) and e.id in self.types:
            return self.types[e.id]
        bad(self.src, e, "expression of unknown type in the hashtable fragment: " + text_of(e))

    def tr(self, e):
        if isinstance(e, ast.Name):
            self.ty(e)
            return v(e.id)
        if isinstance(e, ast.List) and len(e.elts) == 1 and self.ty(e.elts[0]) == "nat":
            return "[%s]" % self.tr(e.elts[0])
        if isinstance(e, ast.Call) and isinstance(e.func, ast.Name) and e.func.id == "IndexedHash":
            kw = {k.arg: k.value for k in e.keywords}
            if e.args or set(kw) != {"indexes", "item"}:
                bad(self.src, e, "IndexedHash(...) other than IndexedHash(indexes=..., item=...)")
            return "(IndexedHash %s %s)" % (self.tr(kw["indexes"]), self.tr(kw["item"]))
        if isinstance(e, ast.Call) and isinstance(e.func, ast.Name) and e.func.id == "SetOrdered" and len(e.args) == 1 and not e.keywords:
            a = e.args[0]
            if isinstance(a, ast.Call) and isinstance(a.func, ast.Attribute) and a.func.attr == "keys" and not a.args and not a.keywords \
                    and self.ty(a.func.value) == "htable":
                return "(SetOrdered (ht_keys %s))" % self.tr(a.func.value)
            bad(self.src, e, "SetOrdered(...) of something other than <hashtable>.keys()")
        if isinstance(e, ast.Call) and isinstance(e.func, ast.Name) and e.func.id == "dict_" and not e.args and not e.keywords:
            return "([] : htable)"
        if isinstance(e, ast.BinOp) and isinstance(e.op, ast.Sub) and self.ty(e.left) == "hset" and self.ty(e.right) == "hset":
            return "(so_sub %s %s)" % (self.tr(e.left), self.tr(e.right))
        if isinstance(e, ast.DictComp):
            g = e.generators
            ok = (len(g) == 1 and not g[0].is_async and isinstance(g[0].target, ast.Tuple) and len(g[0].target.elts) == 2
                  and all(isinstance(x, ast.Name) for x in g[0].target.elts) and isinstance(e.key, ast.Name) and isinstance(e.value, ast.Name)
                  and e.key.id == g[0].target.elts[0].id and e.value.id == g[0].target.elts[1].id and e.key.id != e.value.id
                  and isinstance(g[0].iter, ast.Call) and isinstance(g[0].iter.func, ast.Attribute) and g[0].iter.func.attr == "items"
                  and not g[0].iter.args and not g[0].iter.keywords and len(g[0].ifs) == 1)
            if ok:
                c = g[0].ifs[0]
                ok = (isinstance(c, ast.Compare) and len(c.ops) == 1 and isinstance(c.ops[0], ast.In) and isinstance(c.left, ast.Name)
                      and c.left.id == e.key.id)
            if not ok:
                bad(self.src, e, "dict comprehension other than {k: v for k, v in <hashtable>.items() if k in <hash set>}")
            if self.ty(g[0].iter.func.value) != "htable" or self.ty(c.comparators[0]) != "hset":
                bad(self.src, e, "dict comprehension over something other than a hashtable / filtered by something other than a hash set")
            return "(ht_restrict %s %s)" % (self.tr(g[0].iter.func.value), self.tr(c.comparators[0]))
        bad(self.src, e, "expression outside the white-list of the hashtable fragment")

    def cond(self, e):
        """boolean conditions: `h in table`, `h not in table`, `not c`, self.report_repetition"""
        if isinstance(e, ast.UnaryOp) and isinstance(e.op, ast.Not):
            return "(negb %s)" % self.cond(e.operand)
        if isinstance(e, ast.Compare) and len(e.ops) == 1 and isinstance(e.ops[0], (ast.In, ast.NotIn)):
            l, r = e.left, e.comparators[0]
            if self.ty(l) == "hash" and self.ty(r) == "htable":
                t = "(ht_has %s %s)" % (self.tr(r), self.tr(l))
            elif self.ty(l) == "hash" and self.ty(r) == "hset":
                t = "(mem_h %s %s)" % (self.tr(l), self.tr(r))
            else:
                bad(self.src, e, "membership test outside the white-list")
            return t if isinstance(e.ops[0], ast.In) else "(negb %s)" % t
        if isinstance(e, ast.Attribute) and isinstance(e.value, ast.Name) and e.value.id == "self" and e.attr == "report_repetition":
            return "report_repetition"
        bad(self.src, e, "condition outside the white-list of the hashtable fragment")


def tr_add_hash(src, fn):
    params = [a.arg for a in fn.args.args]
    if params != ["self", "hashes", "item_hash", "item", "i"] or fn.args.vararg or fn.args.kwarg or fn.args.kwonlyargs or fn.args.defaults:
        bad(src, fn, "_add_hash: signature other than (self, hashes, item_hash, item, i)")
    hx = HtExpr(src, {"hashes": "htable", "item_hash": "hash", "item": "value", "i": "nat"})
    body = [s for s in fn.body if not is_docstring(s)]

    def stmts(ss, ind):
        """each statement rebinds v_hashes"""
        out = ""
        for s in ss:
            pad = " " * ind
            if isinstance(s, ast.Expr) and isinstance(s.value, ast.Call):
                c = s.value
                f = c.func
                # hashes[item_hash].indexes.append(i)
                if (isinstance(f, ast.Attribute) and f.attr == "append" and isinstance(f.value, ast.Attribute) and f.value.attr == "indexes"
                        and isinstance(f.value.value, ast.Subscript) and hx.ty(f.value.value.value) == "htable" and hx.ty(f.value.value.slice) == "hash"
                        and len(c.args) == 1 and not c.keywords and hx.ty(c.args[0]) == "nat"):
                    out += pad + "let %s := ht_append_index %s %s %s in\n" % (hx.tr(f.value.value.value), hx.tr(f.value.value.value),
                                                                             hx.tr(f.value.value.slice), hx.tr(c.args[0]))
                    continue
            if isinstance(s, ast.Assign) and len(s.targets) == 1 and isinstance(s.targets[0], ast.Subscript):
                tg = s.targets[0]
                if hx.ty(tg.value) == "htable" and hx.ty(tg.slice) == "hash":
                    out += pad + "let %s := ht_set %s %s %s in\n" % (hx.tr(tg.value), hx.tr(tg.value), hx.tr(tg.slice), hx.tr(s.value))
                    continue
            if isinstance(s, ast.If):
                a = stmts(s.body, ind + 4)
                b = stmts(s.orelse, ind + 4)
                out += pad + "let v_hashes :=\n%s  if %s then\n%s%s    v_hashes\n%s  else\n%s%s    v_hashes in\n" % (
                    pad, hx.cond(s.test), a, pad, pad, b, pad)
                continue
            if isinstance(s, ast.Pass):
                continue
            bad(src, s, "_add_hash: statement outside the white-list")
        return out
    return ("Definition g__add_hash (v_hashes : htable) (v_item_hash : pystr) (v_item : value) (v_i : nat) : htable :=\n"
            + stmts(body, 2) + "  v_hashes.\n"), params[1:]


def exc_names(h, src):
    t = h.type
    if t is None:
        bad(src, h, "bare except")
    ts = t.elts if isinstance(t, ast.Tuple) else [t]
    if not all(isinstance(x, ast.Name) for x in ts):
        bad(src, h, "except clause whose classes are not plain names")
    return [x.id for x in ts]


def handler_action(h, src, keep):
    """[..., raise] -> None ; [pass] -> the table unchanged"""
    body = h.body
    if body and isinstance(body[-1], ast.Raise) and body[-1].exc is None:
        for s in body[:-1]:      # S3: `err.reason = ...` before the bare raise
            if not (isinstance(s, ast.Assign) and len(s.targets) == 1 and isinstance(s.targets[0], ast.Attribute)
                    and isinstance(s.targets[0].value, ast.Name) and s.targets[0].value.id == h.name):
                bad(src, s, "statement other than `<err>.attr = ...` before the bare raise of an except clause")
        return "None"
    if len(body) == 1 and isinstance(body[0], ast.Pass):
        return keep
    bad(src, h, "except clause other than [...; raise] / [pass]")


def deephash_call_kwargs(src, call, first_arg, pex):
    """the keyword arguments of DeepHash(<first_arg>, k=v, ..., **self.deephash_parameters)"""
    if not (isinstance(call.func, ast.Name) and call.func.id == "DeepHash"):
        bad(src, call, "expected a call of DeepHash")
    if len(call.args) != 1 or not (isinstance(call.args[0], ast.Name) and call.args[0].id == first_arg):
        bad(src, call, "DeepHash(...) whose only positional argument is not %s" % first_arg)
    explicit, star = [], None
    for k in call.keywords:
        if k.arg is None:
            if star is not None:
                bad(src, call, "several ** arguments")
            if not (isinstance(k.value, ast.Attribute) and isinstance(k.value.value, ast.Name) and k.value.value.id == "self"):
                bad(src, call, "** of something other than a self attribute")
            star = k.value.attr
        else:
            if star is not None:
                bad(src, call, "keyword argument after **")
            try:
                val = pex.tr(k.value, set()) if isinstance(k.value, ast.Constant) else None
            except Unsupported:
                val = None
            if val is None:
                if k.arg in MODELLED_HASH:
                    bad(src, k.value, "a modelled DeepHash option is passed explicitly with a non-constant value")
                val = "(PX %s)" % cq(text_of(k.value))
            explicit.append((k.arg, val))
    if star is None:
        bad(src, call, "DeepHash(...) without **self.<parameters>")
    return explicit, star


def tr_create_hashtable(src, fn, add_params, pex):
    params = [a.arg for a in fn.args.args]
    if params != ["self", "level", "t"] or fn.args.vararg or fn.args.kwarg or fn.args.kwonlyargs or fn.args.defaults:
        bad(src, fn, "_create_hashtable: signature other than (self, level, t)")
    body = [s for s in fn.body if not is_docstring(s)]
    # obj = getattr(level, t)
    s0 = body[0]
    if not (isinstance(s0, ast.Assign) and len(s0.targets) == 1 and isinstance(s0.targets[0], ast.Name) and isinstance(s0.value, ast.Call)
            and isinstance(s0.value.func, ast.Name) and s0.value.func.id == "getattr" and [getattr(a, "id", None) for a in s0.value.args] == ["level", "t"]
            and not s0.value.keywords):
        bad(src, s0, "_create_hashtable: first statement other than <obj> = getattr(level, t)")
    obj = s0.targets[0].id
    s1 = body[1]
    hx = HtExpr(src, {})
    if not (isinstance(s1, ast.Assign) and len(s1.targets) == 1 and isinstance(s1.targets[0], ast.Name) and hx.tr(s1.value) == "([] : htable)"):
        bad(src, s1, "_create_hashtable: second statement other than <table> = dict_()")
    table = s1.targets[0].id
    loop = body[2]
    if not (isinstance(loop, ast.For) and not loop.orelse and isinstance(loop.target, ast.Tuple) and len(loop.target.elts) == 2
            and all(isinstance(x, ast.Name) for x in loop.target.elts) and isinstance(loop.iter, ast.Call) and isinstance(loop.iter.func, ast.Name)
            and loop.iter.func.id == "enumerate" and len(loop.iter.args) == 1 and isinstance(loop.iter.args[0], ast.Name)
            and loop.iter.args[0].id == obj and not loop.iter.keywords):
        bad(src, loop, "_create_hashtable: third statement other than `for (i, item) in enumerate(<obj>)`")
    iv, itemv = (x.id for x in loop.target.elts)
    if len(loop.body) != 1 or not isinstance(loop.body[0], ast.Try):
        bad(src, loop, "_create_hashtable: loop body other than one try statement")
    outer = loop.body[0]
    if outer.finalbody:
        bad(src, outer, "finally clause")
    # outer try body: [parent = "...".format(...)] ; deep_hash = DeepHash(item, ...)
    call_stmt = None
    for s in outer.body:
        if isinstance(s, ast.Assign) and len(s.targets) == 1 and isinstance(s.targets[0], ast.Name) and isinstance(s.value, ast.Call) \
                and isinstance(s.value.func, ast.Name) and s.value.func.id == "DeepHash" and call_stmt is None:
            call_stmt = s
        elif call_stmt is None and isinstance(s, ast.Assign) and len(s.targets) == 1 and isinstance(s.targets[0], ast.Name) and s.targets[0].id == "parent" \
                and isinstance(s.value, ast.Call) and isinstance(s.value.func, ast.Attribute) and s.value.func.attr == "format" \
                and isinstance(s.value.func.value, ast.Constant):
            continue     # S3
        else:
            bad(src, s, "_create_hashtable: statement outside the white-list inside the outer try")
    if call_stmt is None:
        bad(src, outer, "_create_hashtable: no <deep_hash> = DeepHash(item, ...) inside the outer try")
    dhv = call_stmt.targets[0].id
    explicit, star = deephash_call_kwargs(src, call_stmt.value, itemv, pex)
    arms_call = []
    for h in outer.handlers:
        for nm in exc_names(h, src):
            arms_call.append((nm, handler_action(h, src, "Some %s" % v(table)), h.lineno))
    # else: inner try
    if len(outer.orelse) != 1 or not isinstance(outer.orelse[0], ast.Try):
        bad(src, outer, "_create_hashtable: else clause of the outer try other than one try statement")
    inner = outer.orelse[0]
    if inner.finalbody:
        bad(src, inner, "finally clause")
    g = inner.body
    if not (len(g) == 1 and isinstance(g[0], ast.Assign) and len(g[0].targets) == 1 and isinstance(g[0].targets[0], ast.Name)
            and isinstance(g[0].value, ast.Subscript) and isinstance(g[0].value.value, ast.Name) and g[0].value.value.id == dhv
            and isinstance(g[0].value.slice, ast.Name) and g[0].value.slice.id == itemv):
        bad(src, inner, "_create_hashtable: inner try body other than <item_hash> = <deep_hash>[<item>]")
    ihv = g[0].targets[0].id
    arms_item = []
    for h in inner.handlers:
        for nm in exc_names(h, src):
            arms_item.append((nm, handler_action(h, src, "Some %s" % v(table)), h.lineno))
    # else of the inner try: if item_hash is [not] unprocessed: A else: B
    if len(inner.orelse) != 1 or not isinstance(inner.orelse[0], ast.If):
        bad(src, inner, "_create_hashtable: else clause of the inner try other than one if statement")
    iff = inner.orelse[0]
    tst = iff.test
    if not (isinstance(tst, ast.Compare) and len(tst.ops) == 1 and isinstance(tst.ops[0], (ast.Is, ast.IsNot)) and isinstance(tst.left, ast.Name)
            and tst.left.id == ihv and isinstance(tst.comparators[0], ast.Name) and tst.comparators[0].id == "unprocessed"):
        bad(src, iff, "_create_hashtable: condition other than <item_hash> is [not] unprocessed")

    def branch(ss):
        cur = v(table)
        for s in ss:
            if is_log_call(s) or isinstance(s, ast.Pass):
                continue
            if isinstance(s, ast.Expr) and isinstance(s.value, ast.Call) and isinstance(s.value.func, ast.Attribute) \
                    and isinstance(s.value.func.value, ast.Name) and s.value.func.value.id == "self" and s.value.func.attr == "_add_hash":
                c = s.value
                names = {table: "htable", ihv: "hash", itemv: "value", iv: "nat"}
                hx2 = HtExpr(src, names)
                vals = {}
                for p, a in zip(add_params, c.args):
                    vals[p] = a
                for k in c.keywords:
                    if k.arg is None or k.arg in vals or k.arg not in add_params:
                        bad(src, c, "_add_hash call: unexpected / repeated keyword")
                    vals[k.arg] = k.value
                if set(vals) != set(add_params):
                    bad(src, c, "_add_hash call: missing argument")
                want = dict(zip(add_params, ("htable", "hash", "value", "nat")))
                for p in add_params:
                    if hx2.ty(vals[p]) != want[p]:
                        bad(src, vals[p], "_add_hash call: argument %s of the wrong kind" % p)
                if not (isinstance(vals[add_params[0]], ast.Name) and vals[add_params[0]].id == table):
                    bad(src, c, "_add_hash is applied to a table other than the one being built")
                cur = "(g__add_hash %s %s %s %s)" % tuple((cur if p == add_params[0] else hx2.tr(vals[p])) for p in add_params)
                continue
            bad(src, s, "_create_hashtable: statement outside the white-list in the branch on `unprocessed`")
        return "Some " + cur
    b_then, b_else = branch(iff.body), branch(iff.orelse)
    is_un = isinstance(tst.ops[0], ast.Is)
    arm_unprocessed = b_then if is_un else b_else
    arm_ok = b_else if is_un else b_then
    # after the loop: [DeepHash(obj, ...)] ; return table
    rest = body[3:]
    if not rest or not (isinstance(rest[-1], ast.Return) and isinstance(rest[-1].value, ast.Name) and rest[-1].value.id == table):
        bad(src, fn, "_create_hashtable: last statement other than `return <table>`")
    for s in rest[:-1]:
        if isinstance(s, ast.Expr) and isinstance(s.value, ast.Call) and isinstance(s.value.func, ast.Name) and s.value.func.id == "DeepHash":
            _e2, star2 = deephash_call_kwargs(src, s.value, obj, pex)      # S3
            if star2 != star:
                bad(src, s, "the trailing DeepHash(obj, ...) passes other ** parameters than the per-item call")
            continue
        bad(src, s, "_create_hashtable: statement outside the white-list after the loop")

    def chain(arms, default):
        out = default
        for nm, act, _ln in reversed(arms):
            out = "if String.eqb e %s then %s else %s" % (cq(nm), act, out)
        return out
    txt = ("(* the keyword arguments of the per-item call DeepHash(%s, ...) (diff.py:%d) *)\n" % (itemv, call_stmt.lineno)
           + "Definition g__create_hashtable_DeepHash_kwargs (self : pdict) : pv :=\n"
           + "  pd_call [%s]\n          (p_dict (pd_get self %s)).\n\n" % ("; ".join("(%s, %s)" % (cq(k), x) for k, x in explicit), cq(star)))
    txt += ("Definition g__create_hashtable (dh : value -> hres) (%s : list value) : option htable :=\n" % v(obj)
            + "  let %s := ([] : htable) in\n" % v(table)
            + "  for_loop (enumerate %s) %s (fun %s '(%s, %s) =>\n" % (v(obj), v(table), v(table), v(iv), v(itemv))
            + "    match dh %s with\n" % v(itemv)
            + "    | HCallExc e => %s\n" % chain(arms_call, "None")
            + "    | HItemExc e => %s\n" % chain(arms_item, "None")
            + "    | HUnprocessed => %s\n" % arm_unprocessed
            + "    | HOk %s => %s\n" % (v(ihv), arm_ok)
            + "    end).\n")
    return txt, star


def tr_iterable_prefix(src, fn):
    params = [a.arg for a in fn.args.args]
    if params[:3] != ["self", "level", "parents_ids"] or fn.args.vararg or fn.args.kwarg:
        bad(src, fn, "_diff_iterable_with_deephash: signature other than (self, level, parents_ids, ...)")
    body = [s for s in fn.body if not is_docstring(s)]
    types, order, lines = {}, [], []
    stop = None
    for idx, s in enumerate(body):
        if any(isinstance(n, ast.Attribute) and n.attr == "_get_most_in_common_pairs_in_iterables" for n in ast.walk(s)):
            stop = idx
            break
        hx = HtExpr(src, types)
        # x = self._create_hashtable(level, 't1')
        if isinstance(s, ast.Assign) and len(s.targets) == 1 and isinstance(s.targets[0], ast.Name):
            tg = s.targets[0].id
            e = s.value
            if isinstance(e, ast.Call) and isinstance(e.func, ast.Attribute) and isinstance(e.func.value, ast.Name) and e.func.value.id == "self" \
                    and e.func.attr == "_create_hashtable":
                if e.keywords or len(e.args) != 2 or not (isinstance(e.args[0], ast.Name) and e.args[0].id == "level") \
                        or not (isinstance(e.args[1], ast.Constant) and e.args[1].value in ("t1", "t2")):
                    bad(src, e, "self._create_hashtable(...) other than (level, 't1' | 't2')")
                lines.append(("bind", tg, "g__create_hashtable dh %s" % v(e.args[1].value)))
                types[tg] = "htable"
                order.append(tg)
                continue
            txt = hx.tr(e)
            ty = "htable" if txt.startswith("(ht_restrict") or txt == "([] : htable)" else "hset" if txt.startswith(("(SetOrdered", "(so_sub")) else hx.ty(e)
            lines.append(("let", tg, txt))
            types[tg] = ty
            if tg not in order:
                order.append(tg)
            continue
        if isinstance(s, ast.If):
            stores = {n.id for n in ast.walk(s) if isinstance(n, ast.Name) and isinstance(n.ctx, ast.Store)}
            if stores == {"get_pairs"} and not any(isinstance(n, (ast.Attribute, ast.Subscript)) and isinstance(n.ctx, ast.Store) for n in ast.walk(s)) \
                    and not any(isinstance(n, ast.Call) and not (isinstance(n.func, ast.Name) and n.func.id == "len") for n in ast.walk(s)):
                continue     # S4
            cnd = hx.cond(s.test)

            def assigns(ss):
                out = []
                for x in ss:
                    if not (isinstance(x, ast.Assign) and len(x.targets) == 1 and isinstance(x.targets[0], ast.Name)):
                        bad(src, x, "_diff_iterable_with_deephash: statement other than a plain assignment inside the branch on report_repetition")
                    out.append((x.targets[0].id, hx.tr(x.value)))
                return out
            a, b = assigns(s.body), assigns(s.orelse)
            names = []
            for n, _t in a + b:
                if n not in names:
                    names.append(n)
            if [n for n, _t in a] != names or sorted(n for n, _t in b) != sorted(names) or len(b) != len(names):
                bad(src, s, "_diff_iterable_with_deephash: the two branches on report_repetition do not assign the same variables once each")
            bd = dict(b)
            lines.append(("if", names, cnd, [t for _n, t in a], [bd[n] for n in names]))
            for n in names:
                types[n] = "htable"
                if n not in order:
                    order.append(n)
            continue
        bad(src, s, "_diff_iterable_with_deephash: statement outside the white-list before the pairing heuristic")
    if stop is None:
        bad(src, fn, "_diff_iterable_with_deephash: no statement mentions _get_most_in_common_pairs_in_iterables")
    out = ("(* the part of _diff_iterable_with_deephash before the pairing heuristic (diff.py:%d-%d); result: (%s) *)\n" % (
        fn.lineno, body[stop].lineno - 1, ", ".join(order))
        + "Definition g__diff_iterable_with_deephash (dh : value -> hres) (report_repetition : bool) (v_t1 v_t2 : list value) :=\n")
    ind = 2
    for ln in lines:
        pad = " " * ind
        if ln[0] == "bind":
            out += pad + "match %s with\n%s| None => None\n%s| Some %s =>\n" % (ln[2], pad, pad, v(ln[1]))
            ind += 2
        elif ln[0] == "let":
            out += pad + "let %s := %s in\n" % (v(ln[1]), ln[2])
        else:
            _k, names, cnd, ta, tb = ln
            tup = lambda xs: "(" + ", ".join(xs) + ")" if len(xs) > 1 else xs[0]  # noqa
            pat = ("'" if len(names) > 1 else "") + tup([v(n) for n in names])
            out += pad + "let %s :=\n%s  if %s then %s\n%s  else %s in\n" % (pat, pad, cnd, tup(ta), pad, tup(tb))
    out += " " * ind + "Some (%s)\n" % ", ".join(v(n) for n in order)
    n_bind = sum(1 for ln in lines if ln[0] == "bind")
    while ind > 2:
        ind -= 2
        out += " " * ind + "end\n"
    out = out.rstrip() + ".\n"
    return out, order


# ----------------------------------------------------------------------------------------------------------------
# translate
# ----------------------------------------------------------------------------------------------------------------

def translate(repo):
    tdiff, thash, tbase = parse(repo, DIFF), parse(repo, HASH), parse(repo, BASE)
    out = ["(* GENERATED by harness/translate/hashparams.py from %s, %s, %s - do not edit.\n"
           "   Statement-level model of the option forwarding DeepDiff -> DeepHash and of the hashtable of the order-ignoring\n"
           "   list diff; definitions only.  Equivalence with the hand model: coq/srctie/HashDiffGenEquiv.v *)\n"
           "From Coq Require Import List NArith Bool String.\nImport ListNotations.\n"
           "From DD Require Import Base.PyStr Base.Value Hash.HashModel DiffIO.DiffIOModel HashDiff.HashDiffSrcPrims.\n"
           "Local Open Scope string_scope.\n" % (DIFF, HASH, BASE)]

    # ---- base.py ----
    c = module_const(tbase, BASE, "DEFAULT_SIGNIFICANT_DIGITS_WHEN_IGNORE_NUMERIC_TYPES")
    if not (isinstance(c.value, ast.Constant) and isinstance(c.value.value, int) and not isinstance(c.value.value, bool) and c.value.value >= 0):
        bad(BASE, c, "DEFAULT_SIGNIFICANT_DIGITS_WHEN_IGNORE_NUMERIC_TYPES is not a non-negative int literal")
    out.append("(* %s:%d *)\nDefinition g_DEFAULT_SIGNIFICANT_DIGITS_WHEN_IGNORE_NUMERIC_TYPES : pv := PN %d.\n" % (BASE, c.lineno, c.value.value))
    base_cls = find_class(tbase, BASE, "Base")
    gsd = find_method(base_cls, BASE, "get_significant_digits")
    if [a.arg for a in gsd.args.args] != ["self", "significant_digits", "ignore_numeric_type_changes"] or gsd.args.defaults or gsd.args.vararg \
            or gsd.args.kwarg or gsd.args.kwonlyargs:
        bad(BASE, gsd, "get_significant_digits: signature other than (self, significant_digits, ignore_numeric_type_changes)")
    ex_base = PvExpr(BASE, {"DEFAULT_SIGNIFICANT_DIGITS_WHEN_IGNORE_NUMERIC_TYPES": "g_DEFAULT_SIGNIFICANT_DIGITS_WHEN_IGNORE_NUMERIC_TYPES"}, {}, {})
    blk = PvBlock(BASE, ex_base, set(), set(), {"significant_digits", "ignore_numeric_type_changes"}, set())
    if not PvBlock.terminates(gsd.body):
        bad(BASE, gsd, "get_significant_digits does not end in return")
    out.append("(* %s:%d Base.get_significant_digits *)\n"
               "Definition g_get_significant_digits (v_significant_digits v_ignore_numeric_type_changes : pv) : pv :=\n%s.\n"
               % (BASE, gsd.lineno, blk.block(gsd.body, {"significant_digits", "ignore_numeric_type_changes"}, None, 2)))

    # ---- diff.py: DEEPHASH_PARAM_KEYS ----
    check_helper_imports(tdiff, DIFF, HELPER_NAMES)
    kc = module_const(tdiff, DIFF, "DEEPHASH_PARAM_KEYS")
    if not isinstance(kc.value, ast.Tuple) or not all(isinstance(e, ast.Constant) and isinstance(e.value, str) for e in kc.value.elts):
        bad(DIFF, kc, "DEEPHASH_PARAM_KEYS is not a tuple of string literals")
    keys = [e.value for e in kc.value.elts]
    out.append("(* %s:%d *)\nDefinition g_DEEPHASH_PARAM_KEYS : list string :=\n  [%s].\n" % (DIFF, kc.lineno, ";\n   ".join(cq(k) for k in keys)))

    dd = find_class(tdiff, DIFF, "DeepDiff")
    dh = find_class(thash, HASH, "DeepHash")
    for cls, src in ((dd, DIFF), (dh, HASH)):
        if "Base" not in [getattr(b, "id", None) for b in cls.bases]:
            bad(src, cls, "%s does not derive from Base" % cls.name)
        if any(isinstance(n, ast.FunctionDef) and n.name == "get_significant_digits" for n in cls.body):
            bad(src, cls, "%s overrides get_significant_digits" % cls.name)
        for n in cls.body:
            if isinstance(n, ast.Assign) and any(isinstance(t, ast.Name) and t.id in ("get_significant_digits", "_get_deephash_params", "_add_hash",
                                                                                       "_create_hashtable", "__init__") for t in n.targets):
                bad(src, n, "a translated method of %s is rebound in the class body" % cls.name)

    # ---- diff.py: _get_deephash_params ----
    gdp = find_method(dd, DIFF, "_get_deephash_params")
    if [a.arg for a in gdp.args.args] != ["self"] or gdp.args.vararg or gdp.args.kwarg or gdp.args.kwonlyargs:
        bad(DIFF, gdp, "_get_deephash_params: signature other than (self)")
    ex_gdp = PvExpr(DIFF, {}, {}, {"DEEPHASH_PARAM_KEYS": "g_DEEPHASH_PARAM_KEYS"})
    every = set(keys) | {"ignore_repetition", "number_to_string_func", "report_repetition", "number_to_string", "_parameters"}
    blk = PvBlock(DIFF, ex_gdp, every, set(), {n.id for n in ast.walk(gdp) if isinstance(n, ast.Name) and isinstance(n.ctx, ast.Store)}, set())
    if not PvBlock.terminates(gdp.body):
        bad(DIFF, gdp, "_get_deephash_params does not end in return")
    out.append("(* %s:%d DeepDiff._get_deephash_params *)\nDefinition g__get_deephash_params (self : pdict) : pv :=\n%s.\n"
               % (DIFF, gdp.lineno, blk.block(gdp.body, set(), None, 2)))

    # ---- diff.py: DeepDiff.__init__ ----
    init = find_method(dd, DIFF, "__init__")
    pos, params, kwname = plain_params(init, DIFF, want_kwonly=False)
    pnames = [n for n, _d in params]
    for k in keys:
        if k not in pnames:
            bad(DIFF, kc, "key %r of DEEPHASH_PARAM_KEYS is not a parameter of DeepDiff.__init__" % k)
    consts = {"numbers": '(PConst "numbers")', "strings": '(PConst "strings")', "number_to_string": '(PConst "number_to_string")'}
    methods = {"get_significant_digits": ("g_get_significant_digits", 2, False), "_get_deephash_params": ("g__get_deephash_params", 0, True)}
    ex_dd = PvExpr(DIFF, consts, methods, {})
    mloc = modelled_locals_of(init, MODELLED_DIFF) | (MODELLED_DIFF & set(pnames))
    tracked_attrs = set(keys) | {"report_repetition", "number_to_string", "_parameters", "deephash_parameters"}
    blk = PvBlock(DIFF, ex_dd, MODELLED_DIFF | {"_parameters", "deephash_parameters"}, tracked_attrs, mloc | {"_parameters"}, {"_parameters", kwname})
    head, bound = bind_params(DIFF, ex_dd, pos, params, kwname, mloc, "A")
    # the prefix ends with `self.deephash_parameters = self._get_deephash_params()`
    stop_i = None
    for i, s in enumerate(init.body):
        if isinstance(s, ast.Assign) and len(s.targets) == 1 and isinstance(s.targets[0], ast.Attribute) and s.targets[0].attr == "deephash_parameters" \
                and isinstance(s.targets[0].value, ast.Name) and s.targets[0].value.id == "self":
            stop_i = i
    if stop_i is None:
        bad(DIFF, init, "DeepDiff.__init__: no top-level `self.deephash_parameters = ...`")
    sv = init.body[stop_i].value
    if not (isinstance(sv, ast.Call) and isinstance(sv.func, ast.Attribute) and sv.func.attr == "_get_deephash_params" and not sv.args and not sv.keywords):
        bad(DIFF, init.body[stop_i], "self.deephash_parameters is not self._get_deephash_params()")
    # structural check: root branch stores every key under its own name, then copies __dict__ into _parameters
    root = None
    for s in init.body[:stop_i]:
        if isinstance(s, ast.If) and isinstance(s.test, ast.Name) and s.test.id == "_parameters":
            root = s
    if root is None:
        bad(DIFF, init, "DeepDiff.__init__: no `if _parameters: ... else: ...` before self.deephash_parameters")
    stored, copied = [], False
    for s in root.orelse:
        if isinstance(s, ast.Assign) and len(s.targets) == 1:
            tg = s.targets[0]
            if isinstance(tg, ast.Attribute) and isinstance(tg.value, ast.Name) and tg.value.id == "self" and not copied:
                stored.append(tg.attr)
            if isinstance(tg, ast.Name) and tg.id == "_parameters" and text_of(s.value) == "self.__dict__.copy()":
                copied = True
    if not copied:
        bad(DIFF, root, "DeepDiff.__init__: the root branch does not set `_parameters = self.__dict__.copy()`")
    for k in keys:
        if k not in stored:
            bad(DIFF, root, "key %r of DEEPHASH_PARAM_KEYS is not stored by a top-level `self.%s = ...` of the root branch before the copy" % (k, k))
    blk.harmless_rest(init.body[stop_i + 1:], "after the translated prefix of DeepDiff.__init__")
    body_txt = blk.block(init.body[:stop_i + 1], bound, lambda _b: "  PD self", 2)
    out.append("(* %s:%d DeepDiff.__init__, up to line %d *)\nDefinition g_DeepDiff___init__ (A : pdict) : pv :=\n  let self := ([] : pdict) in\n%s%s.\n"
               % (DIFF, init.lineno, init.body[stop_i].lineno, head, body_txt))
    skipped = list(blk.skipped)

    # ---- deephash.py: DeepHash.__init__ ----
    hinit = find_method(dh, HASH, "__init__")
    hpos, hparams, hkw = plain_params(hinit, HASH, want_kwonly=True)
    if hpos != ["self", "obj"]:
        bad(HASH, hinit, "DeepHash.__init__: positional parameters other than (self, obj)")
    hnames = [n for n, _d in hparams]
    for m in MODELLED_HASH:
        if m not in hnames:
            bad(HASH, hinit, "DeepHash.__init__ has no keyword parameter %s" % m)
    ex_dh = PvExpr(HASH, {"number_to_string": '(PConst "number_to_string")', "default_hasher": '(PConst "default_hasher")'},
                   {"get_significant_digits": ("g_get_significant_digits", 2, False)}, {})
    hmloc = modelled_locals_of(hinit, MODELLED_HASH) | set(MODELLED_HASH)
    blk = PvBlock(HASH, ex_dh, MODELLED_HASH, set(), hmloc, {hkw})
    head, bound = bind_params(HASH, ex_dh, hpos, hparams, hkw, hmloc, "KW")
    stop_i = None
    for i, s in enumerate(hinit.body):
        if isinstance(s, ast.Expr) and isinstance(s.value, ast.Call) and isinstance(s.value.func, ast.Attribute) and s.value.func.attr == "_hash" \
                and isinstance(s.value.func.value, ast.Name) and s.value.func.value.id == "self":
            stop_i = i
            break
    if stop_i is None:
        bad(HASH, hinit, "DeepHash.__init__: no top-level call of self._hash")
    blk.harmless_rest(hinit.body[stop_i:], "from the call of self._hash on")
    body_txt = blk.block(hinit.body[:stop_i], bound, lambda _b: "  PD self", 2)
    out.append("(* %s:%d DeepHash.__init__, up to the call of self._hash (line %d) *)\nDefinition g_DeepHash___init__ (KW : pdict) : pv :=\n"
               "  let self := ([] : pdict) in\n%s%s.\n" % (HASH, hinit.lineno, hinit.body[stop_i].lineno, head, body_txt))
    skipped += blk.skipped

    # ---- diff.py: the hashtable ----
    addh = find_method(dd, DIFF, "_add_hash")
    t_add, add_params = tr_add_hash(DIFF, addh)
    out.append("(* %s:%d DeepDiff._add_hash *)\n%s" % (DIFF, addh.lineno, t_add))
    cht = find_method(dd, DIFF, "_create_hashtable")
    t_cht, star = tr_create_hashtable(DIFF, cht, add_params, PvExpr(DIFF, {}, {}, {}))
    if star != "deephash_parameters":
        bad(DIFF, cht, "_create_hashtable passes **self.%s, not **self.deephash_parameters" % star)
    out.append("(* %s:%d DeepDiff._create_hashtable *)\n%s" % (DIFF, cht.lineno, t_cht))
    itf = find_method(dd, DIFF, "_diff_iterable_with_deephash")
    t_it, _order = tr_iterable_prefix(DIFF, itf)
    out.append(t_it)

    # ---- glue: compositions only ----
    out.append("(* glue (fixed text): the DeepHash object that the per-item calls of _create_hashtable construct, for the DeepDiff call\n"
               "   with keyword arguments A; its option record in the hand model's vocabulary *)\n"
               "Definition g_deephash_self (A : pdict) : pv :=\n"
               "  match g_DeepDiff___init__ A with\n"
               "  | PD self =>\n"
               "      match g__create_hashtable_DeepHash_kwargs self with\n"
               "      | PD KW => g_DeepHash___init__ KW\n"
               "      | other => other\n"
               "      end\n"
               "  | other => other\n"
               "  end.\n"
               "Definition g_deephash_params (A : pdict) : option hopts := hopts_of_self (g_deephash_self A).\n")
    out.append("(* skipped by rule S2 (checked to touch no tracked name):\n" + "".join("   %s\n" % s.replace("*)", "* )") for s in skipped) + "*)\n")
    return "\n".join(out)


if __name__ == "__main__":
    import sys
    sys.stdout.write(translate(sys.argv[1] if len(sys.argv) > 1 else "/repo"))

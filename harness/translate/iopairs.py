"""Source tie of C05 (`iopairs`): the pairing heuristic of the order-ignoring list diff  ->  Gallina
(coq/srctie/DiffIOGen.v, module DDGen.DiffIOGen).

translate(repo_root) reads /repo's CURRENT deepdiff/diff.py, walks the `ast` of the named methods with an explicit white-list
of node shapes and emits Gallina definitions `g_<python name>`, statement by statement, in the vocabulary of
coq/theories/DiffIO/MemoPairs.v (whose TYPES and PRIMITIVES it imports: dgroup, mic, amem, sadd, dadd, dget, madd, mget,
pset, sort_d; none of the functions it re-derives: build_mic, build_d2f, inner, outer_from, outer, select_raw, select).
Anything outside the white-list raises Unsupported("file:line: what [node]").  No eval, no import of deepdiff.  The
translation is syntax-directed and dumb; equality with the hand model is the business of coq/srctie/DiffIOGenEquiv.v.

TRANSLATED
  diff.py  DeepDiff._get_most_in_common_pairs_in_iterables   -> g__get_most_in_common_pairs_in_iterables
           (the statements between the cache lookup and the cache write: the double loop, the distance cut, the table
           most_in_common_pairs, distances_to_from_hashes, the greedy selection, the symmetric closure)
           DeepDiff._diff_iterable_with_deephash, the statements that decide whether pairs are computed
           (`get_pairs`, the max_passes test)                 -> g__diff_iterable_with_deephash_get_pairs,
                                                                 g__diff_iterable_with_deephash_pairs_decision

ENCODING RULES (each is part of the trusted base of this tie; listed in coq/theories/DiffIO/NOTES_srctie_C05.md)
 E1  hashes are an arbitrary type A with a decidable equality aeqb, distances an arbitrary type D with dltb (<) and deqb (== as
     dict key); Python locals are let-bound Coq variables `v_<name>`; a statement that mutates a container rebinds its variable.
     Containers are association lists in insertion order (MemoPairs.v): defaultdict(defaultdict_orderedset) : mic A D,
     defaultdict(SetOrdered) : dgroup A D, SetOrdered / set() : list A, dict_() : list (A * A).
     `M[a]` -> mget, `G[d]` -> dget, `G[d].add(x)` -> dadd, `M[a][d].add(x)` -> madd (also through the alias `x = M[a]`
     followed by `x[d].add(v)`), `S.add(x)` -> sadd, `x in S` -> amem, `P[k] = v` -> pset, `{v: k for k, v in P.items()}` ->
     fold of pset over P from the empty dict, `P.update(Q)` -> fold of pset over Q, `sorted(G.keys())` -> sort_d (map fst G),
     iterating a dict -> its keys (map fst), `.items()` -> the association list, `P.copy()` -> P.
 E2  `for x in L: B` -> `let S := fold_left (fun S x => B; S) L S in` where S is the tuple of the variables bound before the loop
     that B rebinds, in the order of their binding; `continue` (last statement of an `if` body) -> the current S;
     `if c: A else: B` -> `if C then .. else ..` on the tuple of the variables A or B rebind.
 E3  `while X: y = X.pop(); B` for a local X bound by the statement `X = G[k]` of the same block, not mentioned in B nor after the
     loop -> fold_left over `rev X` (SetOrdered.pop takes the LAST element; the emptied set is never read again).
 E4  comparisons of distances: `a < b` -> dltb a b, `a >= b` -> negb (dltb a b), `a > b` -> dltb b a, `a <= b` -> negb (dltb b a)
     (distances are totally ordered: no nan).
 E5  _diff_iterable_with_deephash: `len(hashes_added)` / `len(hashes_removed)` -> inject_Z (Z.of_nat (length ..)); `len(full_t*_hashtable)` -> the
     parameter len_full_t*_hashtable : N; int literals, `+`, `/` and self.cutoff_intersection_for_pairs are EXACT rationals (Q: Python's true
     division and the float cut-off are read without rounding); `a > b` -> negb (Qle_bool a b), `>=`, `<`, `<=` likewise;
     `self._stats[PASSES_COUNT] < self.max_passes` -> N.ltb; `self._stats[PASSES_COUNT] += 1` rebinds stats_PASSES_COUNT; `and` -> &&;
     the call of _get_most_in_common_pairs_in_iterables with exactly the arguments (hashes_added, hashes_removed, t1_hashtable,
     t2_hashtable, parents_ids, _original_type) is the generated definition above with the same oracles.
ORACLES
 O1  the three statements `_distance = None` / `if pre_calced_distances: _distance = pre_calced_distances.get("{}--{}".format(a, r))` /
     `if _distance is None: _distance = self._get_rough_distance_of_hashed_objs(a, r, <t2_hashtable[a]>, <t1_hashtable[r]>, _original_type)`
     are ONE oracle call `o_distance a r` (the distance table the harness supplies, exactly as in the hand model).
 O2  `id(<t1_hashtable[r]>.item) in parents_ids` is the oracle `o_loop_detected r`.
 O3  `self.cutoff_distance_for_pairs` is the parameter `self_cutoff_distance_for_pairs : D`.
SKIP RULES
 S1  docstrings.
 S2  statements that store only to `pre_calced_distances` (`= None`, `if <cond>: pre_calced_distances = self._precalculate_*(...)`):
     the variable is read by O1 only.
 S3  `x = t1_hashtable[r]` / `x = t2_hashtable[a]` bind object names that may occur in O1 / O2 only.
 S4  the memoisation wrapper: `cache_key = None`, `if self._stats[DISTANCE_CACHE_ENABLED]: cache_key = combine_hashes_lists(items=
     [hashes_added, hashes_removed], prefix='pairs_cache'); if cache_key in self._distance_cache: return self._distance_cache.get(
     cache_key).copy()`, `if cache_key and self._stats[DISTANCE_CACHE_ENABLED]: self._distance_cache.set(cache_key, value=pairs)`
     are checked for exactly this shape and position (first / last before the return) and not translated (C17's model and
     correspondence are about them).
 S6  `if not self._stats[MAX_PASS_LIMIT_REACHED]: self._stats[MAX_PASS_LIMIT_REACHED] = True; logger.warning(...)` (the once-only
     warning) is skipped; the statements between the get_pairs test and the pairs decision are checked not to store to any name the two read.
 S5  the nested `def defaultdict_orderedset(): return defaultdict(SetOrdered)` is checked for exactly this shape.
"""
import ast
import os

DIFF = "deepdiff/diff.py"
FN = "_get_most_in_common_pairs_in_iterables"
PARAMS = ["self", "hashes_added", "hashes_removed", "t1_hashtable", "t2_hashtable", "parents_ids", "_original_type"]


class Unsupported(Exception):
    pass


def bad(node, what):
    raise Unsupported("%s:%s: %s%s" % (DIFF, getattr(node, "lineno", "?"), what,
                                       (" [" + type(node).__name__ + "]") if node is not None else ""))


def v(name):
    return "v_" + name


def dump(e):
    return ast.dump(e, annotate_fields=False).replace("Store()", "Load()")


def same(e, text):
    """the expression e is, up to layout, the Python expression `text`"""
    return dump(e) == dump(ast.parse(text, mode="eval").body)


def same_stmt(s, text):
    return dump(s) == dump(ast.parse(text).body[0])


def is_docstring(s):
    return isinstance(s, ast.Expr) and isinstance(s.value, ast.Constant) and isinstance(s.value.value, str)


def names_in(node):
    return {n.id for n in ast.walk(node) if isinstance(n, ast.Name)}


def pat(names):
    names = list(names)
    if len(names) == 1:
        return names[0]
    return "'(" + ", ".join(names) + ")"


def tup(names):
    names = list(names)
    if len(names) == 1:
        return names[0]
    return "(" + ", ".join(names) + ")"


# kinds: hash, dist, hlist, mic, dgroup, aset, uset, pairs, dlist, ('obj', table, keyvar), ('alias', micvar, keyvar), 'pre', 'ckey'
EMPTY = {"mic": "(@nil (A * dgroup A D))", "dgroup": "(@nil (D * list A))", "uset": "(@nil A)", "pairs": "(@nil (A * A))"}


class Tr:
    def __init__(self):
        self.lines_skipped = []

    # ---------------- expressions ----------------
    def expr(self, e, env):
        """-> (coq text, kind)"""
        if isinstance(e, ast.Name):
            k = env.get(e.id)
            if k in ("hash", "dist", "hlist", "mic", "dgroup", "aset", "uset", "pairs", "dlist"):
                return v(e.id), k
            if isinstance(k, tuple) and k[0] == "alias":
                return "(mget A D aeqb %s %s)" % (v(k[2]), v(k[1])), "dgroup"
            bad(e, "name %r is not a value of the modelled fragment here" % e.id)
        if isinstance(e, ast.Attribute) and isinstance(e.value, ast.Name) and e.value.id == "self" and e.attr == "cutoff_distance_for_pairs":
            return "self_cutoff_distance_for_pairs", "dist"
        if isinstance(e, ast.Subscript):
            base, bk = self.expr(e.value, env)
            key, kk = self.expr(e.slice, env)
            if bk == "mic" and kk == "hash":
                return "(mget A D aeqb %s %s)" % (key, base), "dgroup"
            if bk == "dgroup" and kk == "dist":
                return "(dget A D deqb %s %s)" % (key, base), "aset"
            bad(e, "subscript of a %s by a %s" % (bk, kk))
        if isinstance(e, ast.Call) and isinstance(e.func, ast.Name) and e.func.id == "sorted" and len(e.args) == 1 and not e.keywords:
            a = e.args[0]
            if isinstance(a, ast.Call) and isinstance(a.func, ast.Attribute) and a.func.attr == "keys" and not a.args and not a.keywords:
                base, bk = self.expr(a.func.value, env)
                if bk == "dgroup":
                    return "(sort_d D dltb (map fst %s))" % base, "dlist"
            bad(e, "sorted(...) of something other than the keys of a distance-keyed dict")
        if isinstance(e, ast.Call) and isinstance(e.func, ast.Attribute) and e.func.attr == "items" and not e.args and not e.keywords:
            base, bk = self.expr(e.func.value, env)
            if bk in ("mic", "pairs"):
                return base, bk + "_items"
            bad(e, ".items() of a %s" % bk)
        if isinstance(e, ast.Call) and isinstance(e.func, ast.Attribute) and e.func.attr == "copy" and not e.args and not e.keywords:
            base, bk = self.expr(e.func.value, env)
            if bk == "pairs":
                return base, bk
        bad(e, "expression outside the white-list: " + ast.unparse(e)[:80])

    def cond(self, e, env):
        if isinstance(e, ast.UnaryOp) and isinstance(e.op, ast.Not):
            return "(negb %s)" % self.cond(e.operand, env)
        if isinstance(e, ast.Compare) and len(e.ops) == 1:
            op, l, r = e.ops[0], e.left, e.comparators[0]
            # O2
            if isinstance(op, ast.In) and isinstance(r, ast.Name) and r.id == "parents_ids" and env.get("parents_ids") == "param":
                if (isinstance(l, ast.Call) and isinstance(l.func, ast.Name) and l.func.id == "id" and len(l.args) == 1 and not l.keywords
                        and isinstance(l.args[0], ast.Attribute) and l.args[0].attr == "item" and isinstance(l.args[0].value, ast.Name)):
                    k = env.get(l.args[0].value.id)
                    if isinstance(k, tuple) and k[0] == "obj" and k[1] == "t1_hashtable":
                        return "(o_loop_detected %s)" % v(k[2])
                bad(e, "loop detection other than `id(<t1_hashtable[removed]>.item) in parents_ids`")
            if isinstance(op, (ast.In, ast.NotIn)):
                a, ak = self.expr(l, env)
                s, sk = self.expr(r, env)
                if ak == "hash" and sk in ("uset", "aset"):
                    t = "(amem A aeqb %s %s)" % (a, s)
                    return t if isinstance(op, ast.In) else "(negb %s)" % t
                bad(e, "membership of a %s in a %s" % (ak, sk))
            if isinstance(op, (ast.Lt, ast.GtE, ast.Gt, ast.LtE)):
                a, ak = self.expr(l, env)
                b, bk = self.expr(r, env)
                if ak == "dist" and bk == "dist":
                    return {ast.Lt: "(dltb %s %s)" % (a, b), ast.GtE: "(negb (dltb %s %s))" % (a, b),
                            ast.Gt: "(dltb %s %s)" % (b, a), ast.LtE: "(negb (dltb %s %s))" % (b, a)}[type(op)]
                bad(e, "order comparison of a %s with a %s" % (ak, bk))
        bad(e, "condition outside the white-list: " + ast.unparse(e)[:80])

    # ---------------- which outer variables a block rebinds ----------------
    def mutated(self, stmts, env):
        out = []
        env = dict(env)
        for s in stmts:          # aliases `x = M[a]` bound inside the block write through to M
            for n in ast.walk(s):
                if (isinstance(n, ast.Assign) and len(n.targets) == 1 and isinstance(n.targets[0], ast.Name) and n.targets[0].id not in env
                        and isinstance(n.value, ast.Subscript) and isinstance(n.value.value, ast.Name) and env.get(n.value.value.id) == "mic"):
                    env[n.targets[0].id] = ("alias", n.value.value.id, None)

        def add(n):
            k = env.get(n)
            if isinstance(k, tuple) and k[0] == "alias":
                n = k[1]
                k = env.get(n)
            if k in ("mic", "dgroup", "uset", "pairs", "aset", "hlist", "hash", "dist", "dlist") and n not in out:
                out.append(n)

        def base_name(e):
            while isinstance(e, (ast.Subscript, ast.Attribute, ast.Call)):
                e = e.value if not isinstance(e, ast.Call) else e.func
            return e.id if isinstance(e, ast.Name) else None
        for s in stmts:
            for n in ast.walk(s):
                if isinstance(n, (ast.Assign, ast.AugAssign, ast.AnnAssign)):
                    for t in (n.targets if isinstance(n, ast.Assign) else [n.target]):
                        for m in ast.walk(t):
                            if isinstance(m, ast.Name) and isinstance(m.ctx, ast.Store):
                                add(m.id)
                        if isinstance(t, (ast.Subscript, ast.Attribute)):
                            b = base_name(t)
                            if b:
                                add(b)
                elif isinstance(n, ast.Call) and isinstance(n.func, ast.Attribute) and n.func.attr not in ("items", "keys", "copy", "get", "format"):
                    b = base_name(n.func.value)
                    if b:
                        add(b)
                elif isinstance(n, (ast.Delete, ast.Global, ast.Nonlocal)):
                    bad(n, "statement outside the white-list")
        order = list(env.keys())
        return sorted(out, key=order.index)

    # ---------------- statements ----------------
    def block(self, stmts, env, state, ind, top=False):
        """Coq expression for the statements; its value is the tuple `state` (or the returned value at top level)"""
        sp = " " * ind
        env = dict(env)
        out = []
        i = 0
        fin = tup(v(n) for n in state) if state is not None else None
        while i < len(stmts):
            s = stmts[i]
            rest = stmts[i + 1:]
            if isinstance(s, ast.Pass):
                i += 1
                continue
            if isinstance(s, ast.Continue):
                if top or rest:
                    bad(s, "`continue` that is not the last statement of a loop / if body")
                return "".join(out) + sp + fin
            if isinstance(s, ast.Return):
                if not top or rest:
                    bad(s, "`return` inside a loop / before the end")
                t, k = self.expr(s.value, env)
                if k != "pairs":
                    bad(s, "returns a %s" % k)
                return "".join(out) + sp + t
            if isinstance(s, ast.Assign) and len(s.targets) == 1 and isinstance(s.targets[0], ast.Name):
                name, rhs = s.targets[0].id, s.value
                # S2
                if name == "pre_calced_distances" and isinstance(rhs, ast.Constant) and rhs.value is None:
                    env[name] = "pre"
                    i += 1
                    continue
                # O1
                if name == "_distance" and isinstance(rhs, ast.Constant) and rhs.value is None:
                    a, r = self.distance_group(s, rest[:2], env)
                    out.append("%slet %s := o_distance %s %s in\n" % (sp, v(name), v(a), v(r)))
                    env[name] = "dist"
                    i += 3
                    continue
                # S3
                if (isinstance(rhs, ast.Subscript) and isinstance(rhs.value, ast.Name) and rhs.value.id in ("t1_hashtable", "t2_hashtable")
                        and env.get(rhs.value.id) == "param" and isinstance(rhs.slice, ast.Name) and env.get(rhs.slice.id) == "hash"):
                    if name in env:
                        bad(s, "rebinding of %r to a hashtable entry" % name)
                    env[name] = ("obj", rhs.value.id, rhs.slice.id)
                    i += 1
                    continue
                if name in env and env[name] in ("param", "pre", "ckey") or isinstance(env.get(name), tuple):
                    bad(s, "assignment to %r" % name)
                # constructors
                kind = None
                if same(rhs, "defaultdict(defaultdict_orderedset)") and env.get("defaultdict_orderedset") == "ctor":
                    kind = "mic"
                elif same(rhs, "defaultdict(SetOrdered)"):
                    kind = "dgroup"
                elif same(rhs, "dict_()"):
                    kind = "pairs"
                elif same(rhs, "set()"):
                    kind = "uset"
                if kind:
                    out.append("%slet %s := %s in\n" % (sp, v(name), EMPTY[kind]))
                    env[name] = kind
                    i += 1
                    continue
                # alias x = M[a]
                if isinstance(rhs, ast.Subscript) and isinstance(rhs.value, ast.Name) and env.get(rhs.value.id) == "mic" \
                        and isinstance(rhs.slice, ast.Name) and env.get(rhs.slice.id) == "hash":
                    if name in env:
                        bad(s, "rebinding of %r" % name)
                    env[name] = ("alias", rhs.value.id, rhs.slice.id)
                    i += 1
                    continue
                if isinstance(rhs, ast.DictComp):
                    g = rhs.generators
                    if (len(g) == 1 and not g[0].ifs and not g[0].is_async and isinstance(g[0].target, ast.Tuple) and len(g[0].target.elts) == 2
                            and all(isinstance(x, ast.Name) for x in g[0].target.elts) and isinstance(rhs.key, ast.Name) and isinstance(rhs.value, ast.Name)):
                        kn, vn = [x.id for x in g[0].target.elts]
                        it, ik = self.expr(g[0].iter, env)
                        if ik == "pairs_items" and kn != vn and {rhs.key.id, rhs.value.id} == {kn, vn}:
                            out.append("%slet %s := fold_left (fun acc '(%s, %s) => pset A aeqb %s %s acc) %s (@nil (A * A)) in\n"
                                       % (sp, v(name), v(kn), v(vn), v(rhs.key.id), v(rhs.value.id), it))
                            env[name] = "pairs"
                            i += 1
                            continue
                    bad(s, "dict comprehension outside the white-list")
                t, k = self.expr(rhs, env)
                if k not in ("dgroup", "aset", "hash", "dist", "dlist"):
                    bad(s, "binding of a %s" % k)
                if name in env and env[name] != k:
                    bad(s, "rebinding of %r with another kind" % name)
                out.append("%slet %s := %s in\n" % (sp, v(name), t))
                env[name] = k
                i += 1
                continue
            if isinstance(s, ast.Assign) and len(s.targets) == 1 and isinstance(s.targets[0], ast.Subscript):
                t = s.targets[0]
                if isinstance(t.value, ast.Name) and env.get(t.value.id) == "pairs":
                    k, kk = self.expr(t.slice, env)
                    x, xk = self.expr(s.value, env)
                    if kk == "hash" and xk == "hash":
                        out.append("%slet %s := pset A aeqb %s %s %s in\n" % (sp, v(t.value.id), k, x, v(t.value.id)))
                        i += 1
                        continue
                bad(s, "item assignment outside the white-list")
            if isinstance(s, ast.Expr) and isinstance(s.value, ast.Call) and isinstance(s.value.func, ast.Attribute) and not s.value.keywords:
                c = s.value
                tgt, meth = c.func.value, c.func.attr
                if meth == "add" and len(c.args) == 1:
                    x, xk = self.expr(c.args[0], env)
                    if xk != "hash":
                        bad(s, ".add of a %s" % xk)
                    if isinstance(tgt, ast.Name) and env.get(tgt.id) == "uset":
                        out.append("%slet %s := sadd A aeqb %s %s in\n" % (sp, v(tgt.id), x, v(tgt.id)))
                        i += 1
                        continue
                    if isinstance(tgt, ast.Subscript):
                        d, dk = self.expr(tgt.slice, env)
                        b = tgt.value
                        if dk == "dist" and isinstance(b, ast.Name) and env.get(b.id) == "dgroup":
                            out.append("%slet %s := dadd A D aeqb deqb %s %s %s in\n" % (sp, v(b.id), d, x, v(b.id)))
                            i += 1
                            continue
                        mk = None
                        if dk == "dist" and isinstance(b, ast.Name) and isinstance(env.get(b.id), tuple) and env[b.id][0] == "alias":
                            mk = (env[b.id][1], v(env[b.id][2]))
                        elif dk == "dist" and isinstance(b, ast.Subscript) and isinstance(b.value, ast.Name) and env.get(b.value.id) == "mic":
                            a, ak = self.expr(b.slice, env)
                            if ak == "hash":
                                mk = (b.value.id, a)
                        if mk:
                            out.append("%slet %s := madd A D aeqb deqb %s %s %s %s in\n" % (sp, v(mk[0]), mk[1], d, x, v(mk[0])))
                            i += 1
                            continue
                    bad(s, ".add on something other than a set / an entry of a distance-keyed defaultdict")
                if meth == "update" and len(c.args) == 1 and isinstance(tgt, ast.Name) and env.get(tgt.id) == "pairs":
                    q, qk = self.expr(c.args[0], env)
                    if qk == "pairs":
                        out.append("%slet %s := fold_left (fun acc '(k, x) => pset A aeqb k x acc) %s %s in\n" % (sp, v(tgt.id), q, v(tgt.id)))
                        i += 1
                        continue
                bad(s, "call statement outside the white-list")
            if isinstance(s, ast.If):
                # S2
                if (not s.orelse and len(s.body) == 1 and isinstance(s.body[0], ast.Assign) and len(s.body[0].targets) == 1
                        and isinstance(s.body[0].targets[0], ast.Name) and s.body[0].targets[0].id == "pre_calced_distances"
                        and env.get("pre_calced_distances") == "pre"):
                    c = s.body[0].value
                    if (isinstance(c, ast.Call) and isinstance(c.func, ast.Attribute) and isinstance(c.func.value, ast.Name) and c.func.value.id == "self"
                            and c.func.attr.startswith("_precalculate_")):
                        self.lines_skipped.append("%d: if ...: pre_calced_distances = self.%s(...)" % (s.lineno, c.func.attr))
                        i += 1
                        continue
                    bad(s, "store to pre_calced_distances other than a self._precalculate_* call")
                if state is None:
                    bad(s, "`if` at the top level of the function outside the skip rules")
                c = self.cond(s.test, env)
                if s.body and isinstance(s.body[-1], ast.Continue) and not s.orelse:
                    if len(s.body) != 1:
                        bad(s, "statements before `continue`")
                    out.append("%sif %s then %s else\n" % (sp, c, fin))
                    i += 1
                    continue
                mut = self.mutated(s.body + s.orelse, env)
                if not mut:
                    bad(s, "`if` that rebinds nothing")
                for n in mut:
                    if n not in state:
                        bad(s, "`if` rebinds %r which is not part of the loop state" % n)
                a = self.block(s.body, env, mut, ind + 4)
                b = self.block(s.orelse, env, mut, ind + 4)
                out.append("%slet %s :=\n%s  if %s then\n%s\n%s  else\n%s in\n" % (sp, pat(v(n) for n in mut), sp, c, a, sp, b))
                i += 1
                continue
            if isinstance(s, ast.For):
                if s.orelse:
                    bad(s, "for ... else")
                it, ik = self.expr(s.iter, env)
                benv = dict(env)
                if ik in ("hlist", "aset", "uset") and isinstance(s.target, ast.Name):
                    tp, benv[s.target.id] = v(s.target.id), "hash"
                elif ik == "dlist" and isinstance(s.target, ast.Name):
                    tp, benv[s.target.id] = v(s.target.id), "dist"
                elif ik == "dgroup" and isinstance(s.target, ast.Name):
                    it, tp, benv[s.target.id] = "(map fst %s)" % it, v(s.target.id), "dist"
                elif ik == "mic_items" and isinstance(s.target, ast.Tuple) and len(s.target.elts) == 2 and all(isinstance(x, ast.Name) for x in s.target.elts):
                    a, b = [x.id for x in s.target.elts]
                    tp, benv[a], benv[b] = "'(%s, %s)" % (v(a), v(b)), "hash", "dgroup"
                else:
                    bad(s, "for loop over a %s" % ik)
                for n in names_in(s.target):
                    if n in env:
                        bad(s, "loop variable %r shadows a bound name" % n)
                mut = self.mutated(s.body, env)
                if not mut:
                    bad(s, "loop that rebinds nothing")
                body = self.block(s.body, benv, mut, ind + 4)
                out.append("%slet %s := fold_left (fun %s %s =>\n%s)\n%s  %s %s in\n"
                           % (sp, pat(v(n) for n in mut), pat(v(n) for n in mut), tp, body, sp, it, tup(v(n) for n in mut)))
                i += 1
                continue
            if isinstance(s, ast.While):
                # E3
                if s.orelse or not isinstance(s.test, ast.Name) or env.get(s.test.id) != "aset":
                    bad(s, "while loop other than `while <SetOrdered local>:`")
                x = s.test.id
                if not any(isinstance(p, ast.Assign) and len(p.targets) == 1 and isinstance(p.targets[0], ast.Name) and p.targets[0].id == x
                           for p in stmts[:i]):
                    bad(s, "the set %r popped by the while loop is not bound in the same block" % x)
                if not (s.body and isinstance(s.body[0], ast.Assign) and len(s.body[0].targets) == 1 and isinstance(s.body[0].targets[0], ast.Name)
                        and same(s.body[0].value, "%s.pop()" % x)):
                    bad(s, "while body does not start with `y = %s.pop()`" % x)
                y = s.body[0].targets[0].id
                if y in env:
                    bad(s, "popped element %r shadows a bound name" % y)
                for p in s.body[1:] + rest:
                    if x in names_in(p):
                        bad(p, "the popped set %r is mentioned again" % x)
                benv = dict(env)
                benv[y] = "hash"
                del benv[x]
                mut = self.mutated(s.body[1:], env)
                if not mut:
                    bad(s, "loop that rebinds nothing")
                body = self.block(s.body[1:], benv, mut, ind + 4)
                out.append("%slet %s := fold_left (fun %s %s =>\n%s)\n%s  (rev %s) %s in\n"
                           % (sp, pat(v(n) for n in mut), pat(v(n) for n in mut), v(y), body, sp, v(x), tup(v(n) for n in mut)))
                i += 1
                continue
            bad(s, "statement outside the white-list")
        if top:
            bad(stmts[-1] if stmts else None, "function does not end in `return pairs.copy()`")
        return "".join(out) + sp + fin

    def distance_group(self, s0, nxt, env):
        """O1: returns (added var, removed var)"""
        if len(nxt) != 2 or env.get("pre_calced_distances") != "pre":
            bad(s0, "`_distance = None` not followed by the two lookups")
        s1, s2 = nxt
        ok1 = (isinstance(s1, ast.If) and not s1.orelse and same(s1.test, "pre_calced_distances") and len(s1.body) == 1
               and isinstance(s1.body[0], ast.Assign) and same(s1.body[0].targets[0], "_distance") and len(s1.body[0].targets) == 1)
        a = r = None
        if ok1:
            c = s1.body[0].value
            if (isinstance(c, ast.Call) and same(c.func, "pre_calced_distances.get") and len(c.args) == 1 and not c.keywords
                    and isinstance(c.args[0], ast.Call) and same(c.args[0].func, "'{}--{}'.format") and len(c.args[0].args) == 2
                    and not c.args[0].keywords and all(isinstance(x, ast.Name) for x in c.args[0].args)):
                a, r = [x.id for x in c.args[0].args]
        if a is None or env.get(a) != "hash" or env.get(r) != "hash" or a == r:
            bad(s1, "pre-calculated distance lookup other than pre_calced_distances.get('{}--{}'.format(added, removed))")
        ok2 = (isinstance(s2, ast.If) and not s2.orelse and same(s2.test, "_distance is None") and len(s2.body) == 1
               and isinstance(s2.body[0], ast.Assign) and len(s2.body[0].targets) == 1 and same(s2.body[0].targets[0], "_distance"))
        if ok2:
            c = s2.body[0].value
            ok2 = (isinstance(c, ast.Call) and same(c.func, "self._get_rough_distance_of_hashed_objs") and not c.keywords and len(c.args) == 5
                   and all(isinstance(x, ast.Name) for x in c.args))
            if ok2:
                n = [x.id for x in c.args]
                ok2 = (n[0] == a and n[1] == r and env.get(n[2]) == ("obj", "t2_hashtable", a) and env.get(n[3]) == ("obj", "t1_hashtable", r)
                       and n[4] == "_original_type" and env.get(n[4]) == "param")
        if not ok2:
            bad(s2, "rough distance call other than self._get_rough_distance_of_hashed_objs(added, removed, t2_hashtable[added], t1_hashtable[removed], _original_type)")
        return a, r


def parse(repo):
    p = os.path.join(repo, DIFF)
    try:
        with open(p) as f:
            return ast.parse(f.read())
    except (OSError, SyntaxError) as e:
        raise Unsupported("%s: cannot read / parse: %s" % (DIFF, e))


def find_method(tree, name):
    cl = [n for n in tree.body if isinstance(n, ast.ClassDef) and n.name == "DeepDiff"]
    if len(cl) != 1:
        bad(None, "expected exactly one class DeepDiff at module level")
    ms = [n for n in cl[0].body if isinstance(n, (ast.FunctionDef, ast.AsyncFunctionDef)) and n.name == name]
    if len(ms) != 1 or not isinstance(ms[0], ast.FunctionDef):
        bad(cl[0], "expected exactly one plain method DeepDiff.%s" % name)
    if ms[0].decorator_list:
        bad(ms[0], "decorator on DeepDiff.%s" % name)
    return ms[0]


def check_imports(tree):
    want = {"defaultdict": "collections", "SetOrdered": "deepdiff.helper", "dict_": "deepdiff.helper", "combine_hashes_lists": "deepdiff.deephash"}
    got = {}
    for n in tree.body:
        if isinstance(n, ast.ImportFrom):
            for a in n.names:
                if (a.asname or a.name) in want:
                    got[a.asname or a.name] = (n.module, a.name)
        elif isinstance(n, (ast.Assign, ast.FunctionDef, ast.ClassDef)):
            for m in ([t for t in n.targets] if isinstance(n, ast.Assign) else [n]):
                nm = getattr(m, "id", getattr(m, "name", None))
                if nm in want or nm in ("sorted", "set", "id", "len"):
                    bad(n, "module-level rebinding of %r" % nm)
    for k, mod in want.items():
        if got.get(k) != (mod, k):
            bad(None, "%s is not imported from %s" % (k, mod))


CACHE_HEAD = ["cache_key = None",
              "if self._stats[DISTANCE_CACHE_ENABLED]:\n    cache_key = combine_hashes_lists(items=[hashes_added, hashes_removed], prefix='pairs_cache')\n"
              "    if cache_key in self._distance_cache:\n        return self._distance_cache.get(cache_key).copy()"]
CACHE_TAIL = "if cache_key and self._stats[DISTANCE_CACHE_ENABLED]:\n    self._distance_cache.set(cache_key, value=pairs)"


def tr_pairs(tree):
    fn = find_method(tree, FN)
    a = fn.args
    if [x.arg for x in a.args] != PARAMS or a.defaults or a.vararg or a.kwarg or a.kwonlyargs or a.posonlyargs or a.kw_defaults:
        bad(fn, "%s: signature other than (%s)" % (FN, ", ".join(PARAMS)))
    body = list(fn.body)
    if body and is_docstring(body[0]):
        body = body[1:]
    # S4
    if len(body) < 5 or not same_stmt(body[0], CACHE_HEAD[0]) or not same_stmt(body[1], CACHE_HEAD[1]):
        bad(body[0] if body else fn, "the cache lookup at the start is not of the expected shape")
    if not same_stmt(body[-2], CACHE_TAIL):
        bad(body[-2], "the cache write before the return is not of the expected shape")
    if not same_stmt(body[-1], "return pairs.copy()"):
        bad(body[-1], "the function does not end in `return pairs.copy()`")
    core_ = body[2:-2] + [body[-1]]
    for s in core_:
        if "cache_key" in names_in(s) or any(isinstance(n, ast.Attribute) and n.attr in ("_distance_cache", "_stats") for n in ast.walk(s)):
            bad(s, "the cache is touched between the lookup and the write")
    # S5
    env = {p: "param" for p in PARAMS}
    env["hashes_added"] = env["hashes_removed"] = "hlist"
    rest = []
    for s in core_:
        if isinstance(s, ast.FunctionDef):
            if s.name != "defaultdict_orderedset" or s.decorator_list or ast.dump(s.args) != ast.dump(ast.parse("def f(): pass").body[0].args) \
                    or len(s.body) != 1 or not same_stmt(s.body[0], "return defaultdict(SetOrdered)") or "defaultdict_orderedset" in env:
                bad(s, "nested function other than `def defaultdict_orderedset(): return defaultdict(SetOrdered)`")
            env["defaultdict_orderedset"] = "ctor"
        else:
            rest.append(s)
    tr = Tr()
    text = tr.block(rest, env, None, 2, top=True)
    return fn.lineno, text, tr.lines_skipped


HEADER = """(* GENERATED by harness/translate/iopairs.py from %s - do not edit.
   Statement-level model of the pairing heuristic of the order-ignoring list diff (DeepDiff.%s and the
   decision of DeepDiff._diff_iterable_with_deephash whether pairs are computed); definitions only.
   Equivalence with the hand model: coq/srctie/DiffIOGenEquiv.v *)
From Coq Require Import List ZArith NArith QArith Bool.
Import ListNotations.
From DD Require Import DiffIO.MemoPairs.
Local Open Scope Q_scope.

Section Gen.
Variables A D : Type.
Variable aeqb : A -> A -> bool.
Variable dltb : D -> D -> bool.
Variable deqb : D -> D -> bool.
"""


FN2 = "_diff_iterable_with_deephash"
PAIRS_CALL = "self._get_most_in_common_pairs_in_iterables(hashes_added, hashes_removed, t1_hashtable, t2_hashtable, parents_ids, _original_type)"
LEN_LISTS = ("hashes_added", "hashes_removed")                      # list A arguments of the generated definition
LEN_TABLES = ("full_t1_hashtable", "full_t2_hashtable")             # only their lengths occur: parameters len_<name> : N


def stores(node):
    """names / self attributes / self._stats keys a statement may store to (syntactic)"""
    out = set()
    for n in ast.walk(node):
        if isinstance(n, ast.Name) and isinstance(n.ctx, (ast.Store, ast.Del)):
            out.add(n.id)
        elif isinstance(n, (ast.Attribute, ast.Subscript)) and isinstance(n.ctx, (ast.Store, ast.Del)):
            out.add(ast.unparse(n))
        elif isinstance(n, ast.FunctionDef):
            out.add(n.name)
    return out


class Dec:
    """E5: the statements of _diff_iterable_with_deephash that decide whether pairs are computed"""

    def num(self, e):
        if isinstance(e, ast.BinOp) and isinstance(e.op, (ast.Add, ast.Div)):
            return "(%s %s %s)" % (self.num(e.left), "+" if isinstance(e.op, ast.Add) else "/", self.num(e.right))
        if isinstance(e, ast.Call) and isinstance(e.func, ast.Name) and e.func.id == "len" and len(e.args) == 1 and not e.keywords and isinstance(e.args[0], ast.Name):
            n = e.args[0].id
            if n in LEN_LISTS:
                return "(inject_Z (Z.of_nat (List.length v_%s)))" % n
            if n in LEN_TABLES:
                return "(inject_Z (Z.of_N len_%s))" % n
            bad(e, "len of %r" % n)
        if isinstance(e, ast.Constant) and isinstance(e.value, int) and not isinstance(e.value, bool) and e.value >= 0:
            return "(inject_Z %d)" % e.value
        if same(e, "self.cutoff_intersection_for_pairs"):
            return "self_cutoff_intersection_for_pairs"
        bad(e, "arithmetic outside the white-list: " + ast.unparse(e)[:80])

    def cond(self, e):
        if isinstance(e, ast.BoolOp) and isinstance(e.op, ast.And):
            return "(" + " && ".join(self.cond(x) for x in e.values) + ")"
        if isinstance(e, ast.UnaryOp) and isinstance(e.op, ast.Not):
            return "(negb %s)" % self.cond(e.operand)
        if isinstance(e, ast.Name) and e.id == "get_pairs":
            return "v_get_pairs"
        if isinstance(e, ast.Compare) and len(e.ops) == 1:
            l, r, op = e.left, e.comparators[0], e.ops[0]
            if same(l, "self._stats[PASSES_COUNT]") and same(r, "self.max_passes") and isinstance(op, (ast.Lt, ast.LtE)):
                return "(%s stats_PASSES_COUNT self_max_passes)" % ("N.ltb" if isinstance(op, ast.Lt) else "N.leb")
            if isinstance(op, (ast.Gt, ast.GtE, ast.Lt, ast.LtE)):
                a, b = self.num(l), self.num(r)
                return {ast.Gt: "(negb (Qle_bool %s %s))" % (a, b), ast.LtE: "(Qle_bool %s %s)" % (a, b),
                        ast.Lt: "(negb (Qle_bool %s %s))" % (b, a), ast.GtE: "(Qle_bool %s %s)" % (b, a)}[type(op)]
        bad(e, "condition outside the white-list: " + ast.unparse(e)[:80])

    def branch(self, stmts, ind):
        sp = " " * ind
        out = []
        for k, s in enumerate(stmts):
            if same_stmt(s, "self._stats[PASSES_COUNT] += 1"):
                out.append("%slet stats_PASSES_COUNT := (stats_PASSES_COUNT + 1)%%N in\n" % sp)
            elif same_stmt(s, "pairs = " + PAIRS_CALL):
                out.append("%slet v_pairs := g__get_most_in_common_pairs_in_iterables A D aeqb dltb deqb o_loop_detected o_distance "
                           "self_cutoff_distance_for_pairs v_hashes_added v_hashes_removed in\n" % sp)
            elif same_stmt(s, "pairs = dict_()"):
                out.append("%slet v_pairs := (@nil (A * A)) in\n" % sp)
            elif (isinstance(s, ast.If) and not s.orelse and same(s.test, "not self._stats[MAX_PASS_LIMIT_REACHED]")
                  and stores(s) <= {"self._stats[MAX_PASS_LIMIT_REACHED]"}
                  and all(same_stmt(x, "self._stats[MAX_PASS_LIMIT_REACHED] = True") or
                          (isinstance(x, ast.Expr) and isinstance(x.value, ast.Call) and ast.unparse(x.value.func).startswith("logger.")) for x in s.body)):
                continue        # S6: the once-only warning that max_passes is reached
            elif isinstance(s, ast.If) and k == len(stmts) - 1:
                return "".join(out) + self.ite(s, ind)
            else:
                bad(s, "statement outside the white-list in the pairs decision")
        if not any("v_pairs" in x for x in out):
            bad(stmts[0] if stmts else None, "a branch of the pairs decision does not bind `pairs`")
        return "".join(out) + sp + "(v_pairs, stats_PASSES_COUNT)"

    def ite(self, s, ind):
        sp = " " * ind
        if not s.orelse:
            bad(s, "pairs decision without else")
        return "%sif %s then\n%s\n%selse\n%s" % (sp, self.cond(s.test), self.branch(s.body, ind + 2), sp, self.branch(s.orelse, ind + 2))


def tr_decision(tree):
    fn = find_method(tree, FN2)
    a = fn.args
    if [x.arg for x in a.args] != ["self", "level", "parents_ids", "_original_type", "local_tree"] or a.vararg or a.kwarg or a.kwonlyargs or a.posonlyargs \
            or len(a.defaults) != 2 or not all(isinstance(d, ast.Constant) and d.value is None for d in a.defaults):
        bad(fn, "%s: signature other than (self, level, parents_ids, _original_type=None, local_tree=None)" % FN2)
    body = fn.body
    gp = [i for i, s in enumerate(body) if "get_pairs" in stores(s)]
    dec = [i for i, s in enumerate(body) if "pairs" in stores(s) and not isinstance(s, ast.FunctionDef)]
    if len(gp) != 1 or len(dec) != 1 or not gp[0] < dec[0]:
        bad(fn, "expected exactly one top-level statement that binds get_pairs, followed by exactly one that binds pairs")
    sg, sd = body[gp[0]], body[dec[0]]
    for s in body[gp[0] + 1:dec[0]]:
        st = stores(s)
        if st & {"hashes_added", "hashes_removed", "get_pairs", "pairs"} or any("_stats" in x or "max_passes" in x or "cutoff" in x for x in st):
            bad(s, "a statement between the get_pairs test and the pairs decision stores to a name they read")
    for s in body[:gp[0]]:
        if any("_stats" in x or "max_passes" in x or "cutoff" in x for x in stores(s)):
            bad(s, "a statement before the get_pairs test stores to the pass counter / a cut-off")
    for n in LEN_LISTS + LEN_TABLES:
        if sum(1 for s in body[:gp[0]] if n in stores(s)) != 1 or any(n in stores(s) for s in body[gp[0]:]):
            bad(fn, "%r is not bound exactly once, before the get_pairs test" % n)
    d = Dec()
    if not (isinstance(sg, ast.If) and len(sg.body) == 1 and len(sg.orelse) == 1
            and all(isinstance(x, ast.Assign) and len(x.targets) == 1 and same(x.targets[0], "get_pairs") and isinstance(x.value, ast.Constant)
                    and isinstance(x.value.value, bool) for x in (sg.body[0], sg.orelse[0]))):
        bad(sg, "get_pairs is not bound by `if <test>: get_pairs = <bool> else: get_pairs = <bool>`")
    cb = lambda x: "true" if x.value.value else "false"      # noqa
    gp_text = "  let v_get_pairs := if %s then %s else %s in\n" % (d.cond(sg.test), cb(sg.body[0]), cb(sg.orelse[0]))
    if not isinstance(sd, ast.If):
        bad(sd, "pairs is not bound by an if / elif / else statement")
    text = gp_text + d.ite(sd, 2)
    return ("\n(* %s:%d, %d DeepDiff.%s: the statements that decide whether pairs are computed (E5; skip rule S6);\n"
            "   result: the pairs dictionary of the level and self._stats[PASSES_COUNT] afterwards *)\n"
            "Definition g__diff_iterable_with_deephash_pairs (A D : Type) (aeqb : A -> A -> bool) (dltb deqb : D -> D -> bool)\n"
            "    (o_loop_detected : A -> bool) (o_distance : A -> A -> D) (self_cutoff_distance_for_pairs : D)\n"
            "    (self_cutoff_intersection_for_pairs : Q) (self_max_passes stats_PASSES_COUNT len_full_t1_hashtable len_full_t2_hashtable : N)\n"
            "    (v_hashes_added v_hashes_removed : list A) : list (A * A) * N :=\n%s.\n" % (DIFF, sg.lineno, sd.lineno, FN2, text))


def translate(repo):
    tree = parse(repo)
    check_imports(tree)
    line, text, skipped = tr_pairs(tree)
    out = [HEADER % (DIFF, FN)]
    out.append("(* %s:%d DeepDiff.%s; oracles O1 o_distance, O2 o_loop_detected, O3 the cut-off *)\n"
               "Definition g__get_most_in_common_pairs_in_iterables\n"
               "    (o_loop_detected : A -> bool) (o_distance : A -> A -> D) (self_cutoff_distance_for_pairs : D)\n"
               "    (v_hashes_added v_hashes_removed : list A) : list (A * A) :=\n%s.\n" % (DIFF, line, FN, text))
    out.append("\nEnd Gen.\n")
    out.append(tr_decision(tree))
    out.append("\n(* statements skipped by rule S2:\n%s *)\n" % "\n".join("   %s:%s" % (DIFF, s) for s in skipped))
    return "".join(out)

"""C01 - edit chains on the RUNNING result (C01_chain_veq_run_partial, Delta/DeltaChainRun.v).

stream(ctx) generates edit histories t0..tk (k <= 4) whose steps are all inside the guards, starts from t0 or from
a reordered copy of it (every dict's insertion order reversed), and applies the deltas of consecutive pairs in turn
to the running result - on the implementation and, inside Coq, on the model (Delta/DeltaChainRunShow.chain_run).

correspondence   per step: [okbb at the model's running value, [running result (dict / set order forgotten), error logged],
                 running result WITH the insertion order of its dicts (okbb of the later steps depends on it),
                 okb_allb t_i t_{i+1} (DeltaChainAll.v: okb at every reordering of t_i, the hypothesis of the older
                 C01_chain_veq_partial) when t_i has at most ALL_LIMIT reorderings]
                 against [okb_py (the Python mirror of okbb) at the implementation's running value, ..., okb_all_py].
                 okbb is the exact boolean of the hypothesis okb of the theorem (DeltaChainRun.okbb_iff): the hypothesis
                 chain_okv_run is observed on every generated chain.  The constructor oracle conv is tabulated per step on
                 the old values of the diff's type changes, on what sits at their paths in the running value, and on every
                 call okb asks for along its own (positional) pairing.
direct oracle    the statement of one step of the theorem (C01_roundtrip_veq_base_partial at the running value): whenever the
                 running value is typed-equal to t_i and okb_py holds at the step, the result is typed-equal to t_{i+1} and
                 nothing is logged.  (If okb_py holds at every step so far this is the chain statement.)  Where okb_py
                 fails the outcome is counted, never a failure.
"""
import copy

from harness import values as V, diffcommon as D, deltacommon as DC
from harness.core import coq_list

HDR = DC.HDR[:-1] + " Delta.DeltaChainRun Delta.DeltaChainRunShow."

_CONTAINERS = (list, tuple, dict, set, frozenset)


# ---- the constructor oracle conv: new_type(old_value), as DC.conv_table tabulates it ----

def conv_py(ty, old):
    """(True, new_type(old)) or (False, None) when the call raises or leaves the universe (the table then says None)"""
    try:
        r = ty(copy.deepcopy(old))
    except Exception:
        return False, None
    if not DC.in_universe(r):
        return False, None
    return True, r


# ---- Python mirror of DeltaChainRun.okbb (independent of the Coq text: written from the definition of okb) ----

def tc_py(v, t1, t2, stored):
    """a type change t1 -> t2 met at the current value v: the values travel in the delta (stored), or the constructor
    call does not reproduce t2 from t1 up to == (then to_delta stores them), or it rebuilds t2, with its types, from v too"""
    if stored:
        return True
    ok, a = conv_py(type(t2), t1)
    if not ok or not (a == t2):
        return True
    ok, w = conv_py(type(t2), v)
    return ok and V.typed_eq(w, t2)


def okb_py(v, t1, t2, stored):
    """along the pairing of okb: lists positionally, dicts by key, tuples not entered; a type change is asked tc_py"""
    if isinstance(t1, list) and isinstance(t2, list) and isinstance(v, list):
        return all(okb_py(w, x, y, stored) for x, y, w in zip(t1, t2, v))
    if isinstance(t1, tuple) and isinstance(t2, tuple):
        return True
    if isinstance(t1, dict) and isinstance(t2, dict) and isinstance(v, dict):
        return all(okb_py(v[k], x, t2[k], stored) for k, x in t1.items() if k in t2 and k in v)
    return type(t1) is type(t2) or tc_py(v, t1, t2, stored)


def okb_conv_pairs(v, t1, t2, acc):
    """(new_type, argument) of every constructor call okb can ask for along its pairing (t1 and the current value)"""
    if isinstance(t1, list) and isinstance(t2, list) and isinstance(v, list):
        for x, y, w in zip(t1, t2, v):
            okb_conv_pairs(w, x, y, acc)
    elif isinstance(t1, tuple) and isinstance(t2, tuple):
        return
    elif isinstance(t1, dict) and isinstance(t2, dict) and isinstance(v, dict):
        for k, x in t1.items():
            if k in t2 and k in v:
                okb_conv_pairs(v[k], x, t2[k], acc)
    elif type(t1) is not type(t2) and type(t2) in DC.TY_COQ:
        acc.append((type(t2), t1))
        if DC.in_universe(v):
            acc.append((type(t2), v))


# ---- okb_all (hypothesis of C01_chain_veq_partial): okb at EVERY reordering of t1; mirror of DeltaChainAll.okb_allb ----

def n_reorders(v):
    """size of DeltaChainAll.reorders v: permutations of every dict's items and every set's members, at every depth"""
    import math
    if isinstance(v, (list, tuple)):
        n = 1
        for x in v:
            n *= n_reorders(x)
        return n
    if isinstance(v, dict):
        n = math.factorial(len(v))
        for x in v.values():
            n *= n_reorders(x)
        return n
    if isinstance(v, (set, frozenset)):
        return math.factorial(len(v))
    return 1


def dict_reorders(v):
    """every value equal to v up to the insertion order of its dicts (the iteration order of a Python set cannot be
    chosen; a table-given conv does not depend on it: DeltaShow.tbl_conv compares renderings with sorted set members)"""
    import itertools
    if isinstance(v, (list, tuple)):
        for combo in itertools.product(*[list(dict_reorders(x)) for x in v]):
            yield list(combo) if isinstance(v, list) else tuple(combo)
    elif isinstance(v, dict):
        keys = list(v)
        for combo in itertools.product(*[list(dict_reorders(v[k])) for k in keys]):
            for perm in itertools.permutations(range(len(keys))):
                yield {keys[i]: combo[i] for i in perm}
    else:
        yield v


ALL_LIMIT = 48


def okb_all_py(a, b, stored):
    return all(okb_py(w, a, b, stored) for w in dict_reorders(a))


def step_conv_table(tree, cur, a, b, with_all=False):
    """conv for one step: the old values of the diff's type changes (to_delta), whatever sits at their paths in the
    CURRENT value (apply calls the constructor on it), and the calls okb asks for along its own pairing"""
    pairs = DC.type_change_pairs(tree)
    for lv in tree.get("type_changes", []) or []:
        if type(lv.t2) not in DC.TY_COQ:
            continue
        try:
            sub = V.get_at(cur, lv.path(output_format="list"))
        except Exception:
            continue
        if DC.in_universe(sub):
            pairs.append((type(lv.t2), sub))
    okb_conv_pairs(cur, a, b, pairs)
    if with_all:
        for w in dict_reorders(a):
            okb_conv_pairs(w, a, b, pairs)
    return DC.conv_table(pairs)


# ---- generation ----

KINDS = ["replace_atom", "replace_sub", "list_insert", "list_delete", "list_move", "dict_add", "dict_del", "dict_rekey",
         "set_add", "set_del", "type_change", "tuple_item", "retype_equal", "retype_equal", "wrap"]


def retype_container(rng, v):
    """one container re-typed into another container type such that new_type(old) == new: the delta omits the values.
    dict -> list of its keys (depends on the insertion order), list of pairs -> dict, list of distinct hashable
    scalars -> set / frozenset, list of scalars <-> tuple, set <-> frozenset; (v, None) when nothing applies"""
    v = copy.deepcopy(v)
    pos = [p for p in V.positions(v)]
    rng.shuffle(pos)
    for p in pos:
        sub = V.get_at(v, p)
        cands = []
        if isinstance(sub, dict) and sub:
            cands.append(("dict_to_keys", list(sub)))
        if isinstance(sub, list):
            if all(not isinstance(x, _CONTAINERS) for x in sub):
                cands.append(("list_to_tuple", tuple(sub)))
                try:
                    if len(set(sub)) == len(sub) and not V.contains_alias(sub):
                        cands.append(("list_to_set", set(sub) if rng.random() < 0.5 else frozenset(sub)))
                except TypeError:
                    pass
            if sub and all(isinstance(x, list) and len(x) == 2 and not isinstance(x[0], _CONTAINERS + (bytes,)) for x in sub):
                try:
                    d = dict(sub)
                    if len(d) == len(sub):
                        cands.append(("pairs_to_dict", d))
                except TypeError:
                    pass
        if isinstance(sub, tuple) and all(not isinstance(x, _CONTAINERS) for x in sub):
            cands.append(("tuple_to_list", list(sub)))
        if isinstance(sub, set) and not isinstance(sub, frozenset):
            cands.append(("set_to_frozenset", frozenset(sub)))
        if isinstance(sub, frozenset):
            cands.append(("frozenset_to_set", set(sub)))
        if cands:
            kind, new = rng.choice(cands)
            return V.set_at(v, p, new), kind
    return v, None


def gen_chain(rng):
    """(values t0..tk, edit kinds): random edits mixed with container re-typings"""
    r = rng.random()
    if r < 0.5:
        t0 = V.gen_value(rng, depth=3, width=3, kinds="LLDDDSFA")
    elif r < 0.8:
        # dicts of dicts / lists of pairs: many places for a re-typing that depends on the insertion order
        t0 = {k: V.gen_value(rng, depth=2, width=3, kinds="DDLA") for k in rng.sample(["k", "z", "m", 3, None], rng.randint(1, 3))}
    else:
        t0 = [V.gen_value(rng, depth=2, width=3, kinds="DDLSA") for _ in range(rng.randint(1, 3))]
    vals, kinds = [t0], []
    cur = t0
    for _ in range(rng.randint(1, 4)):
        if rng.random() < 0.4:
            nv, k = retype_container(rng, cur)
        else:
            nv, k = cur, None
            for _try in range(6):
                nv, k = V.edit(rng, cur, kinds=KINDS)
                if k is not None:
                    break
        if k is None:
            continue
        cur = nv
        vals.append(cur)
        kinds.append(k)
    return vals, kinds


# fixed chains: (values, start or None for t0 / "reordered", always_include_values)
FIXED = [
    # C01_chain_veq_refuted_rebuild: from the reordered base list(dict) yields ['b','a'] - okb fails
    ([{'k': {'a': 1, 'b': 2}}, {'k': ['a', 'b']}], "reordered", False),
    # the same from the base itself - okb holds (DeltaChainRun.rb_okv_run)
    ([{'k': {'a': 1, 'b': 2}}, {'k': ['a', 'b']}], None, False),
    # ... and with the values stored nothing is asked
    ([{'k': {'a': 1, 'b': 2}}, {'k': ['a', 'b']}], "reordered", True),
    # DeltaChainRun.chain_okv_run_strict: reordered start that leaves the re-typed dict alone
    ([{'k': {'a': 1, 'b': 2}, 'z': {'p': 1, 'q': 2}}, {'k': {'a': 1, 'b': 2}, 'z': {'p': 7, 'r': 3}},
      {'k': ['a', 'b'], 'z': {'p': 7, 'r': 3}}], {'z': {'q': 2, 'p': 1}, 'k': {'a': 1, 'b': 2}}, False),
    # the key is added by the first step: the running dict holds the keys in the order of t1 - okb holds at step 2
    ([{'k': {'a': 1}}, {'k': {'a': 1, 'b': 2}}, {'k': ['a', 'b']}], "reordered", False),
    # ... and here it holds them in another order than t1 although the start is t0 itself - okb fails at step 2
    ([{'k': {'b': 2}}, {'k': {'a': 1, 'b': 2}}, {'k': ['a', 'b']}], None, False),
    # list of pairs -> dict -> list of keys; tuple <-> list; set <-> frozenset
    ([[['a', 1], ['b', 2]], {'a': 1, 'b': 2}, ['a', 'b'], ('a', 'b')], None, False),
    ([{'s': {1, 2}, 'd': {'x': [1, 2], 'y': (1, 2)}}, {'s': frozenset({1, 2}), 'd': {'x': (1, 2), 'y': [1, 2]}},
      {'s': frozenset({1, 3}), 'd': {'y': [1, 2, 3], 'x': (1, 5)}}], "reordered", False),
    # first step of the Coq example cv0 -> cv1 -> cv2 (DeltaExamples.v)
    ([{'a': {1, 2}, 'b': {'x': 1, 'y': 2}}, {'a': {2, 3}, 'b': {'y': 7, 'z': 5}},
      {'b': {'z': 5, 'y': 7, 'w': frozenset({1})}, 'c': 'q'}], "reordered", False),
]


def check_omission_rule(ctx, dd, d, always, case):
    """tc_py's reading of to_delta (values omitted iff not stored and new_type(old) == new) against the payload"""
    payload = d.diff.get("type_changes", {})
    for lv in dd.tree.get("type_changes", []) or []:
        ch = payload.get(lv.path())
        if ch is None or type(lv.t2) not in DC.TY_COQ:
            continue
        ok, a = conv_py(type(lv.t2), lv.t1)
        mirror = (not always) and ok and a == lv.t2
        impl = "new_value" not in ch
        ctx.count("chainrun:type_change:values_" + ("omitted" if impl else "stored"))
        if mirror != impl:
            ctx.break_("correspondence", {"name": "c01chain omission rule", "detail": "values omitted in the payload: %s, by new_type(old) == new: %s"
                                          % (impl, mirror), "case": case, "path": lv.path()})


def coq_step(a, b, conv_tbl, rem, add, with_all):
    return "(mkCStep %s %s %s %s %s %s %s %s)" % (
        V.to_coq(a), V.to_coq(b), D.coq_udiff_table(D.udiff_table(a, b)), D.coq_ops_table(D.opcode_table(a, b)),
        conv_tbl, DC.coq_paths(rem), DC.coq_paths(add), "true" if with_all else "false")


def run_chain(ctx, C, vals, start, zip_, thr, always, kinds=(), perturb=None):
    """one chain on the implementation; returns the correspondence case (or None when no step was run)"""
    from deepdiff import DeepDiff, Delta
    cfg = dict(zip_ordered_iterables=zip_, threshold_to_diff_deeper=thr)
    cur = copy.deepcopy(start)
    steps, exp = [], []
    all_okb = True
    for i, (a, b) in enumerate(zip(vals, vals[1:])):
        base = copy.deepcopy(cur)
        pre_ok = V.typed_eq(cur, a)
        okb = okb_py(cur, a, b, always)
        with_all = n_reorders(a) <= ALL_LIMIT
        okb_all = okb_all_py(a, b, always) if with_all else None
        try:
            dd = DeepDiff(copy.deepcopy(a), copy.deepcopy(b), **cfg)
            d = Delta(dd, always_include_values=always, mutate=False)
            conv_tbl = step_conv_table(dd.tree, cur, a, b, with_all)
            with DC.Counting() as cnt:
                r = cur + d
            raised = None
        except Exception as e:
            raised = e
        case = dict(t1=repr(a), t2=repr(b), chain=[repr(v) for v in vals], start=repr(start), base=repr(base), step=i, cfg=cfg,
                    always_include_values=always, okb=okb, okb_at_every_step_so_far=all_okb and okb, **C.describe(a, b))
        if raised is not None:
            ctx.count("chainrun:raised_" + type(raised).__name__)
            if pre_ok and okb:
                ctx.fail(dict(case, observed="raised %s: %s" % (type(raised).__name__, str(raised)[:200])),
                         "edit chain on the running result: step %d raised" % i)
            break
        ctx.count("chainrun:steps")
        check_omission_rule(ctx, dd, d, always, case)
        good = V.typed_eq(r, b) and cnt.n == 0
        if not okb:
            ctx.count("chainrun:outside_okb")
            ctx.count("chainrun:outside_okb:" + ("result_equals_t2" if good else "result_differs_or_error_logged"))
        elif pre_ok:
            ctx.count("chainrun:okb_holds")
            if any("new_value" not in ch for ch in d.diff.get("type_changes", {}).values()):
                ctx.count("chainrun:okb_holds:with_a_type_change_whose_values_are_omitted")
            if not good:
                obs = repr(r) if not V.typed_eq(r, b) else "%d error(s) logged while applying" % cnt.n
                ctx.fail(dict(case, observed=obs, errors=cnt.n),
                         "edit chain on the running result: step %d does not reproduce t%d (okb holds at the running value)" % (i, i + 1))
        all_okb = all_okb and okb
        # the hypothesis of the older theorem (okb at every reordering of t_i) against the one about the running value
        if okb_all is None:
            ctx.count("chainrun:okb_all:not_evaluated_more_than_%d_reorderings" % ALL_LIMIT)
        else:
            ctx.count("chainrun:okb_all:%s:okb_at_running_value:%s" % (okb_all, okb))
            if okb_all and pre_ok and not okb:
                ctx.break_("correspondence", {"name": "c01chain okb_all implies okb", "case": case,
                                              "detail": "okb holds at every reordering of t1 but not at the running value, which is one of them"})
        rem, add = DC.impl_orders(d)
        steps.append(coq_step(a, b, conv_tbl, rem, add, with_all))
        exp.append([okb, [DC.canon_unordered(r), cnt.n > 0], V.canon(r), None if okb_all is None else ["Some", okb_all]])
        cur = r
        if not good:
            # the running value has left the chain: later steps are outside the statement (and outside the model's guards)
            ctx.count("chainrun:chain_cut_after_a_step_that_did_not_arrive")
            break
    if not steps:
        return None
    ctx.count("chainrun:chains")
    ctx.count("chainrun:chain_len_%d" % len(steps))
    ctx.count("chainrun:chains_okb_at_every_step" if all_okb else "chainrun:chains_with_a_step_outside_okb")
    for k in kinds[:len(steps)]:
        ctx.count("chainrun:edit:" + k)
    if perturb:
        exp = perturb(exp)
    expr = "sx_chain_run %s false %s %s %s" % (D.coq_cfg(zip_, thr), "true" if always else "false", V.to_coq(start), coq_list(steps))
    tag = dict(chain=[repr(v) for v in vals[:len(steps) + 1]], start=repr(start), zip=zip_, thr=thr, always=always)
    return expr, exp, tag


def in_guard_prefix(C, vals):
    """the longest prefix of the chain whose steps are all inside the guards"""
    n = 0
    for a, b in zip(vals, vals[1:]):
        if not C.in_guard(a, b):
            break
        n += 1
    return vals[:n + 1]


def stream(ctx, perturb=None):
    C = ctx.mod if hasattr(getattr(ctx, "mod", None), "in_guard") else __import__("harness.props.c01", fromlist=["c01"])
    rng = ctx.rng
    cases = []

    def one(vals, start, zip_, thr, always, kinds=()):
        ctx.seen(("chainrun", repr(vals), repr(start), zip_, thr, always), nontrivial=len(vals) > 1)
        ctx.count("chainrun:start_" + ("is_t0" if V.canon(start) == V.canon(vals[0]) else "reordered"))
        c = run_chain(ctx, C, vals, start, zip_, thr, always, kinds, perturb)
        if c:
            cases.append(c)

    for vals, start, always in FIXED:
        if any(not C.in_guard(a, b) for a, b in zip(vals, vals[1:])):
            ctx.break_("correspondence", {"name": "c01chain fixed case outside the guards", "chain": repr(vals)})
            continue
        st = C.reordered(vals[0]) if start == "reordered" else (vals[0] if start is None else start)
        for zip_ in (False, True):
            one(vals, st, zip_, 0.33, always)
    n = 300 if ctx.thorough else 40
    done = tries = 0
    while done < n and tries < 60 * n:
        tries += 1
        want_reordered = done % 2 == 0        # half of the chains start from a reordered copy that really differs from t0
        vals, kinds = gen_chain(rng)
        if len(vals) < 2:
            continue
        if want_reordered and V.canon(C.reordered(vals[0])) == V.canon(vals[0]) and tries % 8:
            continue
        keep = in_guard_prefix(C, vals)
        if len(keep) < 2:
            ctx.count("chainrun:gen_rejected_first_step_outside_guards")
            continue
        if len(keep) < len(vals):
            ctx.count("chainrun:gen_cut_at_a_step_outside_guards")
        zip_, thr, always = rng.random() < 0.5, rng.choice(C.THRS), rng.random() < 0.15
        start = C.reordered(keep[0]) if want_reordered else copy.deepcopy(keep[0])
        before = len(cases)
        one(keep, start, zip_, thr, always, kinds)
        done += len(cases) - before
    ctx.coq_cases("c01chain", HDR, cases, shard=25 if not ctx.thorough else 40, label="chain on the running result: okbb+result per step")
    for c in cases[:1]:
        ctx.sample(c[2])

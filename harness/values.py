"""Python values <-> the Coq universe of Base/Value.v.

to_coq(v)   Coq term of type `value` (dict insertion order / set iteration order
            are the actual ones of the Python object)
canon(v)    nested lists mirroring Coq's sx_value (type-tagged: 1, True, 1.0 differ)
generators  atoms, nested values, single-edit neighbours, edit scripts,
            a small exhaustive universe.
Floats are half-integers only (k/2), matching `AHalf`.
"""
import copy
import itertools

from harness.core import coq_pystr, coq_Z, sx_sorted


def atom_to_coq(a):
    if a is None:
        return "ANone"
    if a is True:
        return "(ABool true)"
    if a is False:
        return "(ABool false)"
    if isinstance(a, int):
        return "(AInt %s)" % coq_Z(a)
    if isinstance(a, float):
        t = a * 2
        assert t == int(t), "only half-integer floats are in the universe: %r" % a
        return "(AHalf %s)" % coq_Z(int(t))
    if isinstance(a, str):
        return "(AStr %s)" % coq_pystr(a)
    if isinstance(a, bytes):
        return "(ABytes %s)" % coq_pystr(a)
    raise TypeError("not an atom: %r" % (a,))


def to_coq(v):
    if isinstance(v, list):
        return "(VList [%s])" % "; ".join(to_coq(x) for x in v)
    if isinstance(v, tuple):
        return "(VTuple [%s])" % "; ".join(to_coq(x) for x in v)
    if isinstance(v, dict):
        return "(VDict [%s])" % "; ".join("(%s, %s)" % (atom_to_coq(k), to_coq(x)) for k, x in v.items())
    if isinstance(v, frozenset):
        return "(VFrozen [%s])" % "; ".join(atom_to_coq(x) for x in v)
    if isinstance(v, set):
        return "(VSet [%s])" % "; ".join(atom_to_coq(x) for x in v)
    return "(VAtom %s)" % atom_to_coq(v)


def canon_atom(a):
    if a is None:
        return None
    if a is True or a is False:
        return ["b", a]
    if isinstance(a, int):
        return ["i", a]
    if isinstance(a, float):
        t = a * 2
        assert t == int(t), a
        return ["f", int(t)]
    if isinstance(a, str):
        return ["s", a]
    if isinstance(a, bytes):
        return ["y", a.decode("latin-1")]
    raise TypeError("not an atom: %r" % (a,))


def canon(v):
    if isinstance(v, list):
        return ["L", [canon(x) for x in v]]
    if isinstance(v, tuple):
        return ["T", [canon(x) for x in v]]
    if isinstance(v, dict):
        return ["D", [[canon_atom(k), canon(x)] for k, x in v.items()]]
    if isinstance(v, frozenset):
        return ["F", sx_sorted([canon_atom(x) for x in v])]
    if isinstance(v, set):
        return ["S", sx_sorted([canon_atom(x) for x in v])]
    return canon_atom(v)


def canon_sorted(v):
    """Order-insensitive canonical form (dict/set order forgotten) for comparing
    results whose container order is not an observable."""
    if isinstance(v, list):
        return ["L", [canon_sorted(x) for x in v]]
    if isinstance(v, tuple):
        return ["T", [canon_sorted(x) for x in v]]
    if isinstance(v, dict):
        return ["D", sorted(([canon_atom(k), canon_sorted(x)] for k, x in v.items()), key=repr)]
    if isinstance(v, frozenset):
        return ["F", sorted((canon_atom(x) for x in v), key=repr)]
    if isinstance(v, set):
        return ["S", sorted((canon_atom(x) for x in v), key=repr)]
    return canon_atom(v)


def typed_eq(a, b):
    """Equality with type tags at every position (1 != True != 1.0), containers
    compared as Python compares them (dict/set order-insensitive)."""
    return canon_sorted(a) == canon_sorted(b)


# ---------------------------------------------------------------------------
# generators
# ---------------------------------------------------------------------------

ATOMS_PLAIN = [None, True, False, 0, 1, 2, 3, -1, 10, 0.5, 1.5, 2.5, -0.5, "a", "b", "c", "", "ab", "x y", b"a", b"", b"ab"]
ATOMS_ALIAS = [0, False, 0.0, 1, True, 1.0, 2, 2.0]   # py_eq but not identical
STR_POOL = ["a", "b", "c", "d", "", "ab", "ba", "A", "aB", "x y", "k1", "k2", "0", "1", "old_value", "new_value"]


def gen_atom(rng, alias=False, strings=None):
    r = rng.random()
    if alias and r < 0.35:
        return rng.choice(ATOMS_ALIAS)
    if r < 0.15:
        return None if rng.random() < 0.4 else rng.random() < 0.5
    if r < 0.45:
        return rng.randint(-3, 12)
    if r < 0.6:
        return rng.randint(-4, 9) + 0.5
    if r < 0.9:
        return rng.choice(strings or STR_POOL)
    return rng.choice([b"a", b"b", b"", b"ab"])


def _distinct_keys(rng, n, alias, strings, keygen=None):
    keys = []
    tries = 0
    while len(keys) < n and tries < 40:
        tries += 1
        k = keygen(rng) if keygen else gen_atom(rng, alias, strings)
        if isinstance(k, bytes):   # bytes dict keys crash DeepDiff's path printer (finding F5); not in any quantifier
            continue
        if all(not (k == q) for q in keys):   # Python equality: one dict key
            keys.append(k)
    return keys


def gen_value(rng, depth=3, width=4, alias=False, strings=None, kinds="LTDSFA", keygen=None):
    """A tree-shaped value; every container is fresh."""
    if depth <= 0 or rng.random() < 0.25:
        return gen_atom(rng, alias, strings)
    k = rng.choice(kinds)
    n = rng.randint(0, width)
    if k == "L":
        return [gen_value(rng, depth - 1, width, alias, strings, kinds, keygen) for _ in range(n)]
    if k == "T":
        return tuple(gen_value(rng, depth - 1, width, alias, strings, kinds, keygen) for _ in range(n))
    if k == "D":
        return {q: gen_value(rng, depth - 1, width, alias, strings, kinds, keygen) for q in _distinct_keys(rng, n, alias, strings, keygen)}
    if k == "S":
        return set(_distinct_keys(rng, n, alias, strings))
    if k == "F":
        return frozenset(_distinct_keys(rng, n, alias, strings))
    return gen_atom(rng, alias, strings)


def positions(v, path=()):
    """All positions (as key/index tuples) of sub-values, root included."""
    yield path
    if isinstance(v, (list, tuple)):
        for i, x in enumerate(v):
            yield from positions(x, path + (i,))
    elif isinstance(v, dict):
        for k, x in v.items():
            yield from positions(x, path + (k,))


def get_at(v, path):
    for p in path:
        v = v[p]
    return v


def set_at(v, path, new):
    """Functional update (fresh containers along the path)."""
    if not path:
        return new
    p = path[0]
    if isinstance(v, list):
        c = list(v)
        c[p] = set_at(v[p], path[1:], new)
        return c
    if isinstance(v, tuple):
        c = list(v)
        c[p] = set_at(v[p], path[1:], new)
        return tuple(c)
    if isinstance(v, dict):
        c = dict(v)
        c[p] = set_at(v[p], path[1:], new)
        return c
    raise TypeError(v)


EDIT_KINDS = ["replace_atom", "replace_sub", "list_insert", "list_delete", "list_move", "list_dup",
              "dict_add", "dict_del", "dict_rekey", "set_add", "set_del", "type_change", "tuple_item", "retype_equal", "wrap"]


def edit(rng, v, alias=False, strings=None, tuples_inplace=True, kinds=None):
    """One random single edit somewhere in v; returns (new_value, kind) or
    (v, None) when the chosen edit does not apply."""
    v = copy.deepcopy(v)
    pos = list(positions(v))
    path = rng.choice(pos)
    sub = get_at(v, path)
    # a tuple may only be edited in place (same length) when tuples_inplace
    kind = rng.choice(kinds or EDIT_KINDS)
    new = None
    if kind == "replace_atom":
        new = gen_atom(rng, alias, strings)
    elif kind == "replace_sub":
        new = gen_value(rng, 2, 3, alias, strings)
    elif kind == "wrap":
        # the sub-value becomes an item of a new container of ITS OWN type: for tuples of scalars the
        # wrapped object is (by identity) the object t1 holds one level higher
        if isinstance(sub, tuple):
            new = (sub, gen_atom(rng, alias, strings)) if rng.random() < 0.5 else (gen_atom(rng, alias, strings), sub)
        elif isinstance(sub, list):
            new = [sub, gen_atom(rng, alias, strings)] if rng.random() < 0.5 else [gen_atom(rng, alias, strings), sub]
        elif isinstance(sub, dict):
            new = {"w": sub}
        else:
            return v, None
    elif kind == "retype_equal":
        # same items, another container type that Python's == may not tell apart (set/frozenset) or may (list/tuple)
        if isinstance(sub, frozenset):
            new = set(sub)
        elif isinstance(sub, set):
            new = frozenset(sub)
        elif isinstance(sub, list):
            new = tuple(sub)
        elif isinstance(sub, tuple):
            new = list(sub)
        else:
            return v, None
    elif kind == "type_change":
        if isinstance(sub, list):
            new = {"k%d" % i: x for i, x in enumerate(sub)} if rng.random() < 0.5 else "s"
        elif isinstance(sub, dict):
            new = list(sub.values())
        elif isinstance(sub, (set, frozenset)):
            new = sorted(sub, key=repr)
        else:
            new = [sub]
    elif isinstance(sub, list) and kind.startswith("list_"):
        new = list(sub)
        if kind == "list_insert":
            new.insert(rng.randint(0, len(new)), gen_value(rng, 1, 2, alias, strings))
        elif kind == "list_delete" and new:
            del new[rng.randrange(len(new))]
        elif kind == "list_move" and len(new) >= 2:
            x = new.pop(rng.randrange(len(new)))
            new.insert(rng.randint(0, len(new)), x)
        elif kind == "list_dup" and new:
            new.insert(rng.randint(0, len(new)), copy.deepcopy(rng.choice(new)))
        else:
            return v, None
    elif isinstance(sub, tuple) and kind == "tuple_item" and sub:
        i = rng.randrange(len(sub))
        new = sub[:i] + (gen_value(rng, 1, 2, alias, strings),) + sub[i + 1:]
    elif isinstance(sub, dict) and kind.startswith("dict_"):
        new = dict(sub)
        if kind == "dict_add":
            k = gen_atom(rng, alias, strings)
            if isinstance(k, bytes) or k in new:
                return v, None
            new[k] = gen_value(rng, 1, 2, alias, strings)
        elif kind == "dict_del" and new:
            del new[rng.choice(list(new))]
        elif kind == "dict_rekey" and new:
            k = rng.choice(list(new))
            k2 = gen_atom(rng, alias, strings)
            if isinstance(k2, bytes) or k2 in new:
                return v, None
            new = {(k2 if q == k and type(q) is type(k) else q): x for q, x in new.items()}
        else:
            return v, None
    elif isinstance(sub, (set, frozenset)) and kind.startswith("set_"):
        new = set(sub)
        if kind == "set_add":
            a = gen_atom(rng, alias, strings)
            if a in new:
                return v, None
            new.add(a)
        elif new:
            new.discard(rng.choice(sorted(new, key=repr)))
        else:
            return v, None
        if isinstance(sub, frozenset):
            new = frozenset(new)
    else:
        return v, None
    # do not let a tuple change length / become something else implicitly: that
    # is decided by the caller through `kinds`
    return set_at(v, path, new), kind


def edit_script(rng, v, n, **kw):
    """Apply up to n edits; returns (list of successive values incl. v, kinds)."""
    vals, kinds = [v], []
    cur = v
    for _ in range(n):
        for _try in range(6):
            nv, k = edit(rng, cur, **kw)
            if k is not None:
                break
        if k is None:
            continue
        cur = nv
        vals.append(cur)
        kinds.append(k)
    return vals, kinds


def small_universe(atoms=(None, True, 2, 0.5, "a", ""), maxlen=2, depth=2, kinds="LDS"):
    """Exhaustive small universe of nested values (deterministic order)."""
    level = list(atoms)
    hashable_atoms = list(atoms)
    for _ in range(depth):
        new = list(atoms)
        for n in range(0, maxlen + 1):
            for combo in itertools.product(level, repeat=n):
                if "L" in kinds:
                    new.append([copy.deepcopy(x) for x in combo])
                if "T" in kinds:
                    new.append(tuple(copy.deepcopy(x) for x in combo))
            if "D" in kinds:
                for keys in itertools.combinations(hashable_atoms, n):
                    for combo in itertools.product(level, repeat=n):
                        new.append({k: copy.deepcopy(x) for k, x in zip(keys, combo)})
            if "S" in kinds:
                for keys in itertools.combinations(hashable_atoms, n):
                    new.append(set(keys))
        # dedupe by canonical form
        seen, out = set(), []
        for x in new:
            c = repr(canon_sorted(x))
            if c not in seen:
                seen.add(c)
                out.append(x)
        level = out
    return level


def contains_alias(*vals):
    """True when two atoms that are == but of different type occur anywhere in vals."""
    atoms = []

    def walk(v):
        if isinstance(v, (list, tuple)):
            for x in v:
                walk(x)
        elif isinstance(v, dict):
            for k, x in v.items():
                atoms.append(k)
                walk(x)
        elif isinstance(v, (set, frozenset)):
            atoms.extend(v)
        else:
            atoms.append(v)
    for v in vals:
        walk(v)
    nums = {}
    for a in atoms:
        if isinstance(a, (bool, int, float)):
            nums.setdefault(a, set()).add(type(a))
    return any(len(t) > 1 for t in nums.values())


def gen_atom_list_pair(rng, maxlen=12, alphabet=None):
    """Two lists over a small alphabet related by insert/delete/replace/move/
    duplicate edits - the shapes on which the difflib pass and the pairwise pass
    of DeepDiff's default mode each win sometimes."""
    alphabet = alphabet or rng.choice([["a", "b", "c", "d"], [1, 2, 3, 4], ["a", 1, None, 2.5], ["x", "y"]])
    n = rng.randint(0, maxlen)
    a = [rng.choice(alphabet) for _ in range(n)]
    b = list(a)
    kinds = []
    for _ in range(rng.randint(0, 5)):
        k = rng.choice(["insert", "delete", "replace", "move", "dup", "rotate"])
        if k == "insert":
            b.insert(rng.randint(0, len(b)), rng.choice(alphabet))
        elif k == "delete" and b:
            del b[rng.randrange(len(b))]
        elif k == "replace" and b:
            b[rng.randrange(len(b))] = rng.choice(alphabet)
        elif k == "move" and len(b) >= 2:
            x = b.pop(rng.randrange(len(b)))
            b.insert(rng.randint(0, len(b)), x)
        elif k == "dup" and b:
            b.insert(rng.randint(0, len(b)), rng.choice(b))
        elif k == "rotate" and len(b) >= 2:
            r = rng.randrange(1, len(b))
            b = b[r:] + b[:r]
        else:
            continue
        kinds.append(k)
    return a, b[:maxlen + 3], kinds


def plant(rng, outer_depth, leaf_pair):
    """Wrap a pair (x, y) identically into `outer_depth` levels of dict/list so
    that the interesting difference sits below a common path."""
    a, b = leaf_pair
    for _ in range(outer_depth):
        k = rng.choice(["L", "D", "T"])
        if k == "L":
            pre = [gen_atom(rng) for _ in range(rng.randint(0, 2))]
            a, b = copy.deepcopy(pre) + [a], copy.deepcopy(pre) + [b]
        elif k == "T":
            a, b = (a, 1), (b, 1)
        else:
            key = rng.choice(["k", "k2", 1, 2.5, None, True])
            a, b = {key: a, "z": 0}, {key: b, "z": 0}
    return a, b


def share(rng, v):
    """Return a copy of v in which one container occurs (as the SAME object) at a
    second position, replacing a container of the same type there; (v, False) if
    impossible.  For properties whose quantifier allows shared sub-objects."""
    v = copy.deepcopy(v)
    pos = [p for p in positions(v) if p and isinstance(get_at(v, p), (list, dict))]
    rng.shuffle(pos)
    for i, p in enumerate(pos):
        for q in pos[i + 1:]:
            if p == q[:len(p)] or q == p[:len(q)]:
                continue
            a = get_at(v, p)
            parent = get_at(v, q[:-1])
            if isinstance(parent, (list, dict)) and type(get_at(v, q)) is type(a):
                parent[q[-1]] = a
                return v, True
    return v, False


def gen_row_list_pair(rng, maxrows=7):
    """Two lists of tuple rows (scalars) related by a row insertion/deletion in
    front and a later row that gains / loses / changes an element."""
    n = rng.randint(3, maxrows)
    rows = [tuple(rng.randint(0, 9) for _ in range(rng.randint(1, 3))) for _ in range(n)]
    a = list(rows)
    b = list(rows)
    k = rng.randrange(len(b))
    if rng.random() < 0.5:
        b.insert(rng.randint(0, k), tuple(rng.randint(10, 19) for _ in range(2)))
    else:
        del b[rng.randint(0, max(0, k - 1))]
    if b:
        j = rng.randrange(len(b))
        r = list(b[j])
        c = rng.random()
        if c < 0.4:
            r.append(rng.randint(20, 29))
        elif c < 0.7 and r:
            r.pop()
        elif r:
            r[rng.randrange(len(r))] = rng.randint(30, 39)
        b[j] = tuple(r)
    return a, b


def reorder_dicts(rng, v):
    """an equal value whose dicts were built in a shuffled insertion order (at every depth)"""
    if isinstance(v, dict):
        ks = list(v)
        rng.shuffle(ks)
        return {k: reorder_dicts(rng, v[k]) for k in ks}
    if isinstance(v, list):
        return [reorder_dicts(rng, x) for x in v]
    if isinstance(v, tuple):
        return tuple(reorder_dicts(rng, x) for x in v)
    return v


def gen_wide_dict_pair(rng, minkeys=4, maxkeys=8):
    """two dicts with 4-8 common keys inserted in different orders; some values changed,
    optionally a key added/removed"""
    n = rng.randint(minkeys, maxkeys)
    keys = rng.sample(["a", "b", "c", "d", "e", "f", "g", "h", "i", "j", 1, 2, 3, 4, 5, None, True], n)
    # True == 1: keep keys pairwise != (Python's dict invariant does that for us)
    t1 = {}
    for k in keys:
        t1[k] = gen_value(rng, depth=rng.choice([0, 0, 1, 2]), width=3)
    t2 = {}
    ks = list(t1)
    rng.shuffle(ks)
    nchg = rng.randint(0, 3)
    chg = set(rng.sample(range(len(ks)), min(nchg, len(ks))))
    for i, k in enumerate(ks):
        t2[k] = edit(rng, t1[k])[0] if i in chg else reorder_dicts(rng, t1[k])
    r = rng.random()
    if r < 0.15:
        t2["zz"] = gen_atom(rng)
    elif r < 0.3:
        del t2[rng.choice(list(t2))]
    return t1, t2


ML_PAIRS = [("x\n", "x"), ("a\nb", "a\nb\n"), ("a\r\nb", "a\nb"), ("a\nb", "a\nc"), ("l1\nl2\nl3", "l1\nl3"),
            ("a\x0cb", "a\nb"), (b"p\n", b"p"), ("title", "title\n"), ("a\nb", "a\nb")]


def plant_multiline(rng, t1, t2):
    """replace the sub-values at one position common to t1 and t2 by a pair of multi-line strings
    (differing in content, only in line terminators, or not at all); returns (t1, t2, done)"""
    pos = [p for p in positions(t1) if p]
    rng.shuffle(pos)
    for p in pos[:6]:
        try:
            get_at(t2, p)
        except Exception:
            continue
        a, b = rng.choice(ML_PAIRS)
        if rng.random() < 0.5:
            a, b = b, a
        try:
            return set_at(t1, p, a), set_at(t2, p, b), True
        except TypeError:
            continue
    return t1, t2, False

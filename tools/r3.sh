#!/bin/bash
# tools/r3.sh <Cnn> <a|b> <n>   take a round-3 seeded candidate from /tmp/r3/<Cnn>-out/<a|b>, verify it and run the check on it;
# result lines go to /tmp/r3/results/<Cnn>-<n>.txt ; the candidate is staged as /verif/seeded/<Cnn>-<n>/ (meta.json result filled in by the lead)
P=$1; X=$2; N=$3
S=/tmp/r3/$P-out/$X; D=/verif/seeded/$P-$N
mkdir -p /tmp/r3/results $D
cp $S/patch.diff $S/demo.py $D/ && cp $S/notes.md $D/ 2>/dev/null
cat > $D/meta.json <<J
{"property": "$P", "breaks": "$P", "round": 3, "needs_to_manifest": "", "confirmed": "", "ran": "", "result": ""}
J
R=/tmp/r3/results/$P-$N.txt
{ echo "== verify"; /verif/tools/seeded.py verify $D 2>&1 | grep -v conda; echo "== run"; /verif/tools/seeded.py run $D quick 2>&1 | grep -v conda | cut -c1-400; } > $R
tail -1 $R

#!/bin/bash
# tools/archive_seed.sh <prop> <src dir> <n> <detected|missed> "<needs>"  -> /verif/seeded/<prop>-<n>/
set -e
P=$1; S=$2; N=$3; R=$4; NEEDS=$5
D=/verif/seeded/$P-$N
mkdir -p $D
cp $S/patch.diff $S/demo.py $D/
[ -f $S/notes.md ] && cp $S/notes.md $D/
/venv/bin/python - "$P" "$D" "$R" "$NEEDS" <<'PY'
import json,sys
p,d,r,needs=sys.argv[1:5]
json.dump({"property":p,"breaks":p,"needs_to_manifest":needs,
 "confirmed":"tools/seeded.py verify: patch applies to /repo HEAD, pinned suite (937 stable tests) still passes with it, demo.py exits 0 without and non-zero with the patch",
 "ran":"tools/seeded.py run (git -C /repo apply patch.diff; ./check %s --tier quick; git -C /repo checkout -- .)"%p,
 "result":r}, open(d+"/meta.json","w"), indent=1)
PY
echo archived $D

#!/bin/bash
# tools/regress_seeded.sh [pattern]   re-run every archived seeded change (and harmless rewrite) against the CURRENT checks; 3 at a time
# results: /tmp/regress/<id>.txt ; summary line per id on stdout
mkdir -p /tmp/regress
P=${1:-'C*-*'}
ls -d /verif/seeded/$P /verif/seeded/harmless/${2:-H*} 2>/dev/null | xargs -P3 -I{} bash -c 'id=$(basename {}); /verif/tools/seeded.py run {} quick > /tmp/regress/$id.txt 2>&1; echo "$id $(tail -n 1 /tmp/regress/$id.txt)"'

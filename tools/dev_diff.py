import sys, os
sys.path.insert(0, "/verif"); sys.path.insert(0, "/repo")
from harness import core, values as V, diffcommon as D
import random, copy
ctx = core.Ctx("DEV", "quick", int(sys.argv[1]) if len(sys.argv) > 1 else 1)
rng = ctx.rng
N = int(sys.argv[2]) if len(sys.argv) > 2 else 300
cases = []
HDR = "From DD Require Import Base.PyStr Base.Value Diff.Tree Diff.DiffModel Diff.DiffShow."
skipped = 0
for n in range(N):
    t1 = V.gen_value(rng, depth=3, width=4, strings=V.STR_POOL + ["a\nb", "a\nc\n", "__p"])
    if rng.random() < 0.3:
        t2 = V.gen_value(rng, depth=3, width=4)
    else:
        vals, kinds = V.edit_script(rng, t1, rng.randint(1, 3))
        t2 = vals[-1]
    if D.set_alias(t1, t2) or D.tag_unsafe(t1, t2):
        skipped += 1
        continue
    for zip_ in (True, False):
        for thr in (0, 0.33, 0.9):
            r, unmod = D.run_deepdiff(t1, t2, view="tree", zip_ordered_iterables=zip_, threshold_to_diff_deeper=thr, verbose_level=2)
            if isinstance(r, Exception):
                print("EXC", repr(r), t1, t2); continue
            obs = [D.tree_obs(r), core.sx_sorted([p for p, _ in []])]
            rec = core.sx_sorted([p for p, ops in D.opcode_table(t1, t2) if False])
            # recorded opcode paths from the implementation
            from deepdiff.path import _path_to_elements
            recp = []
            for ps in r._iterable_opcodes.keys():
                els = _path_to_elements(ps, root_element=None)
                # type the elements by walking t1
                cur = t1; cp = []
                for el, _act in els:
                    if isinstance(cur, (list, tuple)):
                        cp.append(["x", el])
                    else:
                        cp.append(["k", V.canon_atom(el)])
                    cur = cur[el]
                recp.append(cp)
            obs = [D.tree_obs(r), core.sx_sorted(recp)]
            expr = "sx_tree (run_diff hatom_simple (tbl_udiff %s) (tbl_ops %s) no_paths no_paths %s %s %s)" % (
                D.coq_udiff_table(D.udiff_table(t1, t2)), D.coq_ops_table(D.opcode_table(t1, t2)), D.coq_cfg(zip_, thr),
                V.to_coq(t1), V.to_coq(t2))
            cases.append((expr, obs, {"t1": repr(t1), "t2": repr(t2), "zip": zip_, "thr": thr}))
bad = ctx.coq_cases("dev", HDR, cases)
print("cases", len(cases), "skipped", skipped, "bad", len(bad))
for b in ctx.breaks[:4]:
    print(b)
import shutil; shutil.rmtree(ctx.scratch)

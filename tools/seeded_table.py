#!/venv/bin/python
"""tools/seeded_table.py [lo hi]  - markdown rows for DESIGN.md section 10.1 from seeded/<P>-<n>/meta.json (+ patch sites)"""
import glob, json, os, re, sys
lo, hi = (int(sys.argv[1]), int(sys.argv[2])) if len(sys.argv) > 2 else (1, 99)
rows = []
for d in sorted(glob.glob("/verif/seeded/C[0-9][0-9]-*")):
    m = re.match(r".*/(C\d\d)-(\d+)$", d)
    if not m or not (lo <= int(m.group(2)) <= hi):
        continue
    meta = json.load(open(d + "/meta.json"))
    patch = open(d + "/patch.diff").read()
    files = sorted(set(os.path.basename(f) for f in re.findall(r"^\+\+\+ b/(\S+)", patch, re.M)))
    funcs = []
    for f in re.findall(r"^@@.*@@\s*(?:def|class)\s+(\w+)", patch, re.M):
        if f not in funcs:
            funcs.append(f)
    res = meta.get("result", "")
    res = res if res.startswith("detected") else ("**missed at first** → " + res.split(":", 1)[1].strip() if ":" in res and res.startswith("missed-then") else res)
    rows.append("| %s-%s | %s (%s) | %s | %s |" % (m.group(1), m.group(2), ", ".join(files), ", ".join(funcs[:3]),
                                                 meta.get("needs_to_manifest", "").replace("|", "/"), res.replace("|", "/")))
print("| id | site | needs, to manifest | result |\n|---|---|---|---|")
print("\n".join(rows))

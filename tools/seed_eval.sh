#!/bin/bash
# tools/seed_eval.sh <srcdir with patch.diff demo.py notes.md> <Cnn> <n> [round]  -> stages /verif/seeded/<Cnn>-<n>, verifies and runs the check
S=$1; P=$2; N=$3; R=${4:-4}
D=/verif/seeded/$P-$N
mkdir -p /tmp/seedres $D
cp $S/patch.diff $S/demo.py $D/ && cp $S/notes.md $D/ 2>/dev/null
[ -f $D/meta.json ] || echo "{\"property\": \"$P\", \"breaks\": \"$P\", \"round\": $R, \"needs_to_manifest\": \"\", \"confirmed\": \"\", \"ran\": \"\", \"result\": \"\"}" > $D/meta.json
F=/tmp/seedres/$P-$N.txt
{ echo "== verify"; /verif/tools/seeded.py verify $D 2>&1 | grep -v conda; echo "== run"; /verif/tools/seeded.py run $D quick 2>&1 | grep -v conda | cut -c1-400; } > $F
echo "$P-$N $(tail -n 1 $F)"

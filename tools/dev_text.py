import sys
sys.path.insert(0, "/verif"); sys.path.insert(0, "/repo")
from harness import core, values as V, diffcommon as D
ctx = core.Ctx("DEV", "quick", int(sys.argv[1]) if len(sys.argv) > 1 else 1)
rng = ctx.rng
N = int(sys.argv[2]) if len(sys.argv) > 2 else 200
cases = []
for n in range(N):
    t1 = V.gen_value(rng, depth=3, width=4, strings=V.STR_POOL + ["a\nb", "a\nc\n", "__p", "it's", 'q"q'])
    if rng.random() < 0.3:
        t2 = V.gen_value(rng, depth=3, width=4)
    else:
        t2 = V.edit_script(rng, t1, rng.randint(1, 3))[0][-1]
    if not D.in_model_guard(t1, t2):
        continue
    for zip_ in (True, False):
        for verbose in (0, 1, 2):
            c, r, unmod = D.text_case(t1, t2, zip_, rng.choice([0, 0.33, 0.9]), verbose, ignore_private=rng.random() < 0.5)
            if c is None:
                print("EXC", repr(r), t1, t2); continue
            cases.append(c)
bad = ctx.coq_cases("devt", D.MODEL_HDR, cases)
print("cases", len(cases), "bad", len(bad))
for b in ctx.breaks[:3]:
    d = b["detail"]; print(str(d)[:1500])
import shutil; shutil.rmtree(ctx.scratch)

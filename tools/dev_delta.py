import sys, copy
sys.path.insert(0, "/verif"); sys.path.insert(0, "/repo")
from harness import core, values as V, diffcommon as D, deltacommon as DC
from deepdiff import DeepDiff, Delta
ctx = core.Ctx("DEV", "quick", int(sys.argv[1]) if len(sys.argv) > 1 else 1)
rng = ctx.rng
N = int(sys.argv[2]) if len(sys.argv) > 2 else 100
cases = []
skipped = exc = 0
for n in range(N):
    if rng.random() < 0.4:
        a, b, _ = V.gen_atom_list_pair(rng)
        t1, t2 = V.plant(rng, rng.choice([0, 1, 2]), (a, b))
    else:
        t1 = V.gen_value(rng, depth=3, width=4)
        t2 = V.edit_script(rng, t1, rng.randint(1, 3))[0][-1]
    if not D.in_model_guard(t1, t2) or V.contains_alias(t1, t2) or DC.has_container_in_tuple(t1) or DC.has_container_in_tuple(t2):
        skipped += 1; continue
    for zip_ in (False, True):
        thr = rng.choice([0, 0.33, 0.9])
        for bidir in (False, True):
            always = rng.random() < 0.3
            dd = DeepDiff(copy.deepcopy(t1), copy.deepcopy(t2), zip_ordered_iterables=zip_, threshold_to_diff_deeper=thr, view="tree")
            d = Delta(dd, bidirectional=bidir, always_include_values=always)
            payload = DC.delta_obs(d.diff)
            rem, add = DC.impl_orders(d)
            conv = DC.conv_table(DC.type_change_pairs(dd))
            base = copy.deepcopy(t1)
            with DC.Counting() as cnt:
                try:
                    r = base + d
                    res = [DC.canon_unordered(r), cnt.n > 0]
                except Exception as e:
                    exc += 1; continue
            expr = DC.model_expr(t1, t2, zip_, thr, bidir, always, t1, conv, rem, add)
            cases.append((expr, [payload, res], {"t1": repr(t1), "t2": repr(t2), "zip": zip_, "thr": thr, "bidir": bidir, "always": always}))
bad = ctx.coq_cases("devd", DC.HDR, cases, shard=100)
print("cases", len(cases), "skipped", skipped, "exc", exc, "bad", len(bad))
for b in ctx.breaks[:3]:
    d = b["detail"]; print(d.get("case"), str(d.get("error"))[-700:]); print(" M:", str(d.get("model"))[:900]); print(" I:", str(d.get("impl"))[:900])
import shutil; shutil.rmtree(ctx.scratch)

#!/bin/bash
# tools/runall.sh [quick|thorough]  - run every claimed check on the unchanged tree, one line each
cd "$(dirname "$0")/.."
T=${1:-quick}
for p in $(cat manifest.d/CLAIMED); do
  s=$(date +%s)
  out=$(./check $p --tier $T 2>&1)
  rc=$?
  echo "$p rc=$rc $(( $(date +%s) - s ))s :: $(echo "$out" | grep -E '^(OK|FAIL) ' | cut -c1-160)"
  echo "$out" | grep -E '^VIOLATION' | cut -c1-200
done

#!/venv/bin/python
"""Merge known_findings.d/*.json (one file per property, written by the block builders) and the lead's
fixed entries into the single committed file /verif/known_findings.json."""
import json, glob, os
V = os.path.dirname(os.path.dirname(os.path.abspath(__file__)))
main = json.load(open(os.path.join(V, "known_findings.json")))
lead = [f for f in main["findings"] if f.get("_source") in (None, "lead")]
for f in lead:
    f["_source"] = "lead"
out, seen = [], set()
for p in sorted(glob.glob(os.path.join(V, "known_findings.d", "C*.json"))):
    for f in json.load(open(p))["findings"]:
        f = dict(f); f["_source"] = os.path.relpath(p, V)
        out.append(f); seen.add((f["property"], f["key"]))
lead = [f for f in lead if (f["property"], f["key"]) not in seen]
main["findings"] = lead + out
main["_format"] = ("findings: [{property, key, status: 'open' | 'fixed:<commit in /repo>', what, call_site, witness, ...}]; "
                   "the matcher of an open entry is harness/props/<cnn>.py MATCHERS[key]; a fixed entry matches nothing; never written at run time; "
                   "assembled by tools/mkfindings.py from known_findings.d/*.json (per-property sources) + the lead's entries")
json.dump(main, open(os.path.join(V, "known_findings.json"), "w"), indent=1)
print(len(main["findings"]), "findings;", sum(1 for f in main["findings"] if f.get("status") == "open"), "open")

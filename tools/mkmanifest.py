#!/venv/bin/python
"""Assemble /verif/MANIFEST.json from manifest.d/header.json + manifest.d/Cnn.json."""
import json, os, glob
V = os.path.dirname(os.path.dirname(os.path.abspath(__file__)))
hdr = json.load(open(os.path.join(V, "manifest.d", "header.json")))
checks = []
claimed_ids = set(open(os.path.join(V, "manifest.d", "CLAIMED")).read().split())
for p in sorted(glob.glob(os.path.join(V, "manifest.d", "C*.json"))):
    c = json.load(open(p))
    if c["property_id"] in claimed_ids:   # only checks the lead has run green on the unchanged tree are claimed
        checks.append(c)
ids = [json.loads(l)["id"] for l in open(os.path.join(V, "properties.jsonl"))]
claimed = {c["property_id"] for c in checks}
na_reasons = hdr.pop("_not_applicable_reasons", {})
hdr["checks"] = checks
hdr["engines"][0]["serves_properties"] = sorted(claimed)
hdr["not_applicable"] = [{"property_id": i, "reason": na_reasons.get(i, "check not built yet (build phase in progress; planned per DESIGN.md section 5)")} for i in ids if i not in claimed]
json.dump(hdr, open(os.path.join(V, "MANIFEST.json"), "w"), indent=1)
print("claimed:", sorted(claimed))

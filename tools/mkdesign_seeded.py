#!/venv/bin/python
"""tools/mkdesign_seeded.py - regenerate the round-2 / round-3 tables of DESIGN.md section 10.1b from seeded/*/meta.json"""
import subprocess, re, json, glob
def table(lo, hi):
    out = subprocess.run(["/venv/bin/python", "/verif/tools/seeded_table.py", str(lo), str(hi)], capture_output=True, text=True).stdout
    return "\n".join(l for l in out.splitlines() if "conda" not in l)
def stats(lo, hi):
    det = miss = 0
    for d in glob.glob("/verif/seeded/C[0-9][0-9]-*"):
        n = int(d.rsplit("-", 1)[1])
        if lo <= n <= hi:
            r = json.load(open(d + "/meta.json")).get("result", "")
            if r.startswith("detected"): det += 1
            else: miss += 1
    return det, miss
d2, m2 = stats(4, 6); d3, m3 = stats(7, 8); d4, m4 = stats(9, 9); d5, m5 = stats(10, 10); d6, m6 = stats(11, 11)
txt = ("**Round 2** (%d changes: %d detected at the first run, %d missed at first and detected after the strengthening named in the row).\n\n%s\n\n"
       "**Round 3** (%d changes: %d detected at the first run, %d missed at first).\n\n%s\n\n"
       "**Round 4** (%d changes, one per property, written after the round-3 deepening and evaluated on the final checks: %d detected at the first run, %d missed at first).\n\n%s\n\n"
       "**Round 5** (%d changes, one per property, written by fresh agents at the start of the fifth session and evaluated against a frozen snapshot of the checks taken before any round-5 work: %d detected at the first run, %d missed at first).\n\n%s\n\n"
       "**Round 6** (%d changes restricted to two kinds: (A) two cooperating edit sites each harmless alone, (B) history-dependent breakage - the property holds for every fresh call and fails only after a multi-step history on one object / in one process; same frozen snapshot: %d detected at the first run, %d missed at first).\n\n%s\n"
       % (d2 + m2, d2, m2, table(4, 6), d3 + m3, d3, m3, table(7, 8), d4 + m4, d4, m4, table(9, 9), d5 + m5, d5, m5, table(10, 10), d6 + m6, d6, m6, table(11, 11)))
p = "/verif/DESIGN.md"
s = open(p).read()
s = re.sub(r"(<!-- SEEDED-ROUNDS-BEGIN -->\n).*?(<!-- SEEDED-ROUNDS-END -->)", lambda m: m.group(1) + txt + m.group(2), s, flags=re.S)
open(p, "w").write(s)
print("round2", d2, m2, "round3", d3, m3, "round4", d4, m4, "round5", d5, m5, "round6", d6, m6)

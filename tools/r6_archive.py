#!/venv/bin/python
"""tools/r6_archive.py  - archive the round-6 candidates evaluated by tools/r6.sh (results under /tmp/r6/results) as /verif/seeded/<Cnn>-<n>/"""
import glob, json, os, re, shutil
for rf in sorted(glob.glob("/tmp/r6/results/C*-*.txt")):
    pid = os.path.basename(rf)[:-4]
    txt = open(rf).read()
    src = "/verif/seeded/" + pid
    dst = "/verif/seeded/" + pid
    ok = '"ok": true' in txt
    last = txt.strip().splitlines()[-1].strip()
    if not ok or last not in ("DETECTED", "MISSED"):
        print(pid, "NOT ARCHIVED", ok, last[:60]); continue
    os.makedirs(dst, exist_ok=True)
    for f in ("patch.diff", "demo.py", "notes.md"):
        if src != dst and os.path.exists(os.path.join(src, f)):
            shutil.copy(os.path.join(src, f), dst)
    notes = open(os.path.join(dst, "notes.md")).read() if os.path.exists(os.path.join(dst, "notes.md")) else ""
    m = re.search(r"(?is)(?:\*\*|#+\s*)[^\n*]*(?:needed|needs|manifest|trigger)[^\n*]*(?:\*\*|\n)\s*(.+?)(?:\n\s*\n|\Z)", notes)
    needs = re.sub(r"\s+", " ", m.group(1)).strip()[:400] if m else re.sub(r"\s+", " ", notes[:300])
    lines = [l for l in txt.splitlines() if "VIOLATION" in l or l.strip().startswith(('"OK', '"FAIL'))]
    old = {}
    if os.path.exists(os.path.join(dst, "meta.json")):
        old = json.load(open(os.path.join(dst, "meta.json")))
    meta = {"property": pid[:3], "breaks": pid[:3], "round": 6, "needs_to_manifest": needs,
            "confirmed": "tools/seeded.py verify: patch applies to /repo HEAD, pinned suite (937 stable tests) still passes with it, demo.py exits 0 without and non-zero with the patch",
            "ran": "tools/seeded.py run against the frozen snapshot /tmp/vsnap5 of /verif (commit 9272ba5 + core source-tie support, before any round-6 work), quick tier: " + "; ".join(l.strip().strip('",')[:160] for l in lines[-2:]),
            "result": old.get("result") if old.get("result", "").startswith("missed-then") else ("detected" if last == "DETECTED" else "missed")}
    json.dump(meta, open(os.path.join(dst, "meta.json"), "w"), indent=1)
    print(pid, meta["result"])

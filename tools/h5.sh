#!/bin/bash
# tools/h5.sh <letter> <Hnn-name> "<C..,C..>"  - stage the harmless rewrite /tmp/h5/<letter>-out/a as seeded/harmless/<Hnn-name>, verify
# that it applies and that the pinned suite still passes with it, and run the listed checks on it (must stay silent)
L=$1; N=$2; PROPS=$3; S=/tmp/h5/$L-out/a; D=/verif/seeded/harmless/$N
mkdir -p /tmp/h5/results $D
cp $S/patch.diff $D/ && cp $S/notes.md $D/ 2>/dev/null; cp $S/difftest.py $D/equiv.py 2>/dev/null
/venv/bin/python - "$D" "$PROPS" <<'PY'
import json, sys
d, props = sys.argv[1], sys.argv[2].split(",")
json.dump({"kind": "harmless rewrite (behaviour-preserving; written by an independent agent with a differential equivalence test equiv.py)",
           "property": props, "round": 5, "required": "exit 0, no VIOLATION line (a SOURCE-TIE-NOTE line is allowed)", "result": ""},
          open(d + "/meta.json", "w"), indent=1)
PY
F=/tmp/h5/results/$N.txt
/verif/tools/seeded.py run $D quick > $F 2>&1
echo "$N $(tail -n 1 $F) :: $(grep -o 'SOURCE-TIE-NOTE[^"]*status=[a-z-]*' $F | sort -u | tr '\n' ' ')"

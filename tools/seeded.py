#!/venv/bin/python
"""Seeded-change workflow.
  tools/seeded.py verify <dir>      dir has patch.diff + demo.py: in a scratch worktree check that the patch applies,
                                    the pinned suite still passes, demo.py fails with the patch and passes without it
  tools/seeded.py run <dir> [tier]  apply patch to /repo, run the property's check (meta.json: property), restore /repo
"""
import json, os, subprocess, sys, tempfile, shutil

def sh(cmd, **kw):
    p = subprocess.run(cmd, shell=True, stdout=subprocess.PIPE, stderr=subprocess.STDOUT, **kw)
    return p.returncode, "\n".join(l for l in p.stdout.decode("utf-8", "replace").splitlines() if "conda.cli" not in l)

def verify(d):
    d = os.path.abspath(d)
    wt = tempfile.mkdtemp(prefix="seedwt_")
    os.rmdir(wt)
    rc, out = sh("git -C /repo worktree add --detach %s HEAD" % wt)
    res = {}
    try:
        env = dict(os.environ, PYTHONPATH=wt, PYTHONHASHSEED="0"); env.pop("SEPERMAN_DEEPDIFF_VERIF", None)
        rc0, out0 = sh("cd %s && timeout 300 /venv/bin/python %s/demo.py" % (wt, d), env=env)
        res["demo_without_patch_rc"] = rc0
        rc, out = sh("git -C %s apply %s/patch.diff" % (wt, d))
        res["patch_applies"] = rc == 0
        if rc != 0:
            res["apply_output"] = out[-500:]
        rc1, out1 = sh("cd %s && timeout 300 /venv/bin/python %s/demo.py" % (wt, d), env=env)
        res["demo_with_patch_rc"] = rc1
        res["demo_with_patch_tail"] = out1[-400:]
        # the pinned suite on the patched worktree
        b = json.load(open("/root/.vp/BASELINE.json"))
        x = os.path.join(wt, "_junit.xml")
        sh(b["cmd"].replace("cd /repo", "cd " + wt).replace("<file>", x), env=env)
        import xml.etree.ElementTree as ET
        passed = set()
        for tc in ET.parse(x).getroot().iter("testcase"):
            if not any(c.tag in ("failure", "error", "skipped") for c in tc):
                passed.add("%s::%s" % (tc.get("classname"), tc.get("name")))
        missing = [t for t in b["stable_pass"] if t not in passed]
        res["suite_stable_failing"] = missing[:10]
        res["ok"] = bool(res["patch_applies"] and rc0 == 0 and rc1 != 0 and not missing)
    finally:
        sh("git -C /repo worktree remove --force %s" % wt)
        shutil.rmtree(wt, ignore_errors=True)
    print(json.dumps(res, indent=1))
    return 0 if res.get("ok") else 1

def run(d, tier="quick"):
    """Runs the property's check against a scratch worktree of /repo HEAD with the patch
    applied (DEEPDIFF_REPO), so that /repo itself is never modified while other work is
    going on.  (Equivalent to: git -C /repo apply patch.diff; ./check ...; git -C /repo checkout -- .)"""
    d = os.path.abspath(d)
    meta = json.load(open(os.path.join(d, "meta.json")))
    props = meta["property"] if isinstance(meta["property"], list) else [meta["property"]]
    wt = tempfile.mkdtemp(prefix="seedrun_")
    os.rmdir(wt)
    sh("git -C /repo worktree add --detach %s HEAD" % wt)
    results = {}
    try:
        rc, out = sh("git -C %s apply %s/patch.diff" % (wt, d))
        if rc != 0:
            print("patch does not apply:", out); return 2
        for p in props:
            rc, out = sh("cd %s && DEEPDIFF_REPO=%s timeout 1800 ./check %s --tier %s %s" % (os.environ.get("SEEDED_VERIF", "/verif"), wt, p, tier, os.environ.get("SEEDED_ARGS", "")))
            lines = [l for l in out.splitlines() if l.startswith(("VIOLATION", "KNOWN-FINDING", "OK ", "FAIL ", "SOURCE-TIE-NOTE", "EXTENSION-NOTE"))]
            results[p] = {"rc": rc, "lines": [l[:300] for l in lines]}
    finally:
        sh("git -C /repo worktree remove --force %s" % wt)
        shutil.rmtree(wt, ignore_errors=True)
    print(json.dumps(results, indent=1))
    detected = all(any(l.startswith("VIOLATION") for l in r["lines"]) for r in results.values())
    if "harmless" in meta.get("kind", ""):
        silent = all(r["rc"] == 0 and not any(l.startswith("VIOLATION") for l in r["lines"]) for r in results.values())
        print("SILENT (as required)" if silent else "FALSE ALARM")
        return 0 if silent else 1
    print("DETECTED" if detected else "MISSED")
    return 0 if detected else 1

if __name__ == "__main__":
    sys.exit(verify(sys.argv[2]) if sys.argv[1] == "verify" else run(*sys.argv[2:]))

#!/venv/bin/python
"""Run the repository's pinned test suite and compare with /root/.vp/BASELINE.json (stable_pass)."""
import json, subprocess, sys, tempfile, os, xml.etree.ElementTree as ET
b = json.load(open("/root/.vp/BASELINE.json"))
with tempfile.TemporaryDirectory() as d:
    x = os.path.join(d, "j.xml")
    env = dict(os.environ); env.pop("SEPERMAN_DEEPDIFF_VERIF", None)
    subprocess.run(b["cmd"].replace("<file>", x), shell=True, env=env, stdout=subprocess.DEVNULL, stderr=subprocess.DEVNULL)
    passed = set()
    for tc in ET.parse(x).getroot().iter("testcase"):
        if not any(c.tag in ("failure", "error", "skipped") for c in tc):
            passed.add("%s::%s" % (tc.get("classname"), tc.get("name")))
stable = set(b["stable_pass"])
def norm(s): return s
missing = sorted(t for t in stable if t not in passed)
print("stable:", len(stable), "passed now:", len(passed), "stable tests not passing:", len(missing))
for m in missing[:20]: print("  ", m)
sys.exit(1 if missing else 0)

#!/bin/bash
# tools/r5.sh <Cnn> [n]  - stage the round-5 candidate /tmp/r6/<Cnn>-out/a as /verif/seeded/<Cnn>-<n> (default 10), verify it, and run
# the FROZEN snapshot of the checks (/tmp/vsnap5 = /verif at commit of 08:40 UTC, before round 5's own work) on it
P=$1; N=${2:-11}; S=/tmp/r6/$P-out/a; D=/verif/seeded/$P-$N
mkdir -p /tmp/r6/results $D
cp $S/patch.diff $S/demo.py $D/ && cp $S/notes.md $D/ 2>/dev/null
[ -f $D/meta.json ] || echo "{\"property\": \"$P\", \"breaks\": \"$P\", \"round\": 6, \"needs_to_manifest\": \"\", \"confirmed\": \"\", \"ran\": \"\", \"result\": \"\"}" > $D/meta.json
F=/tmp/r6/results/$P-$N.txt
{ echo "== verify"; /verif/tools/seeded.py verify $D 2>&1 | grep -v conda; echo "== run"; SEEDED_VERIF=/tmp/vsnap5 /verif/tools/seeded.py run $D quick 2>&1 | grep -v conda | cut -c1-400; } > $F
echo "$P-$N $(grep -c '"ok": true' $F) $(tail -n 1 $F)"

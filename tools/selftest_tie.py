#!/venv/bin/python
"""tools/selftest_tie.py - exercise core.source_tie_step with the smallest tie (harness/translate/selftest.py)."""
import os, sys, types, json
sys.path.insert(0, os.path.dirname(os.path.dirname(os.path.abspath(__file__))))
from harness import core
ctx = core.Ctx("C09", "quick", 1)
ctx.mod = types.SimpleNamespace(SOURCE_TIES=[{"name": "selftest", "translator": "selftest", "gen_module": "SelfTest",
                                              "equiv": ["SelfTestEquiv"], "needs": [], "sources": ["deepdiff/path.py"],
                                              "fragment": "DEFAULT_FIRST_ELEMENT"}])
core.source_tie_step(ctx)
print(json.dumps(ctx.source_ties, indent=1))
import shutil; shutil.rmtree(ctx.scratch, ignore_errors=True)
sys.exit(0 if not ctx.tie_broken() else 1)

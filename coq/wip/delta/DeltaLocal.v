(** C01 - locality: a step of [apply] addressed below the key k of a list or
    dict acts on that child only, exactly as it acts on the child standing
    alone; simulation of a run on a container by the runs on its children. *)
From Coq Require Import List ZArith NArith Bool Arith Lia.
Import ListNotations.
From DD Require Import Base.PyStr Base.Value Base.ValueFacts Path.PathModel Diff.Tree Diff.DiffModel
  Diff.DiffFacts Delta.DeltaModel Delta.DeltaFacts.

Definition box (W : value) : bool := match W with VList _ | VDict _ => true | _ => false end.

Lemma list_slot xs k c :
  get_item (VList xs) k = Some c ->
  exists i, i < length xs /\ nth_error xs i = Some c /\
    forall ys, length ys = length xs -> list_index ys k = Some i /\ get_item (VList ys) k = nth_error ys i.
Proof.
  cbn [get_item]. unfold list_index. destruct (int_of_atom k) as [z|]; [|discriminate].
  unfold seq_index. cbv zeta.
  destruct (Z.ltb_spec z 0) as [Hz|Hz].
  - destruct (Z.ltb_spec (z + Z.of_nat (length xs)) 0) as [H1|H1]; cbn [orb]; [discriminate|].
    destruct (Z.leb_spec (Z.of_nat (length xs)) (z + Z.of_nat (length xs))) as [H2|H2]; [discriminate|].
    intros H. exists (Z.to_nat (z + Z.of_nat (length xs))). split; [lia|]. split; [exact H|].
    intros ys L. rewrite L.
    destruct (Z.leb_spec (- Z.of_nat (length xs)) z) as [H3|H3]; [|lia]. split; [reflexivity|].
    destruct (Z.ltb_spec (z + Z.of_nat (length xs)) 0) as [H4|H4]; [lia|]. cbn [orb].
    destruct (Z.leb_spec (Z.of_nat (length xs)) (z + Z.of_nat (length xs))) as [H5|H5]; [lia|]. reflexivity.
  - destruct (Z.ltb_spec z 0) as [H1|H1]; [lia|]. cbn [orb].
    destruct (Z.leb_spec (Z.of_nat (length xs)) z) as [H2|H2]; [discriminate|].
    intros H. exists (Z.to_nat z). split; [lia|]. split; [exact H|].
    intros ys L. rewrite L. split; [reflexivity|].
    destruct (Z.leb_spec (Z.of_nat (length xs)) z) as [H5|H5]; [lia|]. reflexivity.
Qed.

Lemma box_set_same W k c : box W = true -> get_item W k = Some c -> set_item W k c = Some W.
Proof.
  destruct W as [a|xs|xs|kvs|xs|xs]; try discriminate; intros _ H.
  - destruct (list_slot xs k c H) as (i & Hi & Hn & Hall). destruct (Hall xs eq_refl) as [Hl _].
    unfold set_item. rewrite Hl, list_set_lt by exact Hi. cbn. rewrite repl_same by exact Hn. reflexivity.
  - cbn in *. rewrite dict_set_same by exact H. reflexivity.
Qed.

Lemma box_get_set W k c v : box W = true -> get_item W k = Some c ->
  exists W', set_item W k v = Some W' /\ box W' = true /\ get_item W' k = Some v /\
             (forall w, set_item W' k w = set_item W k w).
Proof.
  destruct W as [a|xs|xs|kvs|xs|xs]; try discriminate; intros _ H.
  - destruct (list_slot xs k c H) as (i & Hi & Hn & Hall). destruct (Hall xs eq_refl) as [Hl _].
    exists (VList (repl i v xs)). unfold set_item at 1. rewrite Hl, list_set_lt by exact Hi.
    split; [reflexivity|]. split; [reflexivity|].
    destruct (Hall (repl i v xs) (repl_length i v xs Hi)) as [Hl2 Hg2]. split.
    + rewrite Hg2. apply repl_nth_same. exact Hi.
    + intros w. unfold set_item. rewrite Hl, Hl2. rewrite !list_set_lt by (rewrite ?repl_length; exact Hi).
      cbn. rewrite repl_repl by exact Hi. reflexivity.
  - exists (VDict (dict_set kvs k v)). split; [reflexivity|]. split; [reflexivity|]. split.
    + cbn. apply assoc_dict_set_same.
    + intros w. cbn. rewrite dict_set_set. reflexivity.
Qed.

Lemma upd_box W k r f c : box W = true -> get_item W k = Some c ->
  upd W (PKey k :: r) f = match upd c r f with Some c' => set_item W k c' | None => None end.
Proof.
  intros B H. cbn [upd key_atom]. rewrite H. destruct (upd c r f) as [c'|]; [|reflexivity].
  destruct W; try discriminate B; reflexivity.
Qed.

Lemma resolve_box W k r c : get_item W k = Some c -> resolve W (PKey k :: r) = resolve c r.
Proof. intros H. cbn [resolve key_atom]. rewrite H. reflexivity. Qed.

(* the state of the container, given the state [s'] of the run on its child *)
Definition wrapst (W : value) (k : atom) (po : list path) (e : nat) (s' : st) : st :=
  match set_item W k (root s') with
  | Some W' => mkSt W' (po ++ map (cons (PKey k)) (post s')) (e + errs s')
  | None => mkSt W po (S (e + errs s'))
  end.

Lemma wrapst_err W k po e s' : wrapst W k po e (err s') = err (wrapst W k po e s').
Proof.
  unfold wrapst, err. cbn [root post errs]. destruct (set_item W k (root s')); cbn; f_equal; lia.
Qed.

Lemma wrapst_same W k po e c : box W = true -> get_item W k = Some c ->
  wrapst W k po e (mkSt c [] 0) = mkSt W po e.
Proof.
  intros B H. unfold wrapst. cbn [root post errs]. rewrite (box_set_same W k c B H).
  cbn. rewrite app_nil_r, Nat.add_0_r. reflexivity.
Qed.

Lemma removelast_cons2 {A} (a b : A) l : removelast (a :: b :: l) = a :: removelast (b :: l).
Proof. reflexivity. Qed.
Lemma last_cons2 {A} (a b : A) l d : last (a :: b :: l) d = last (b :: l) d.
Proof. reflexivity. Qed.

Section Local.
Variable conv : ty -> value -> option value.
Variable bidir : bool.
Notation istep := (istep conv bidir).
Notation irun := (irun conv bidir).

Definition local (F : path -> st -> st) (okr : path -> Prop) : Prop :=
  forall W k c r po e, okr r -> box W = true -> get_item W k = Some c ->
    F (PKey k :: r) (mkSt W po e) = wrapst W k po e (F r (mkSt c [] 0)).

Lemma local_set_new_value v : local (fun p s => set_new_value s p v) (fun _ => True).
Proof.
  intros W k c r po e _ B H. destruct r as [|k2 r].
  - (* the child itself is replaced *)
    unfold set_new_value at 1. cbn [removelast last key_atom resolve root post errs upd].
    replace (is_tuple W) with false by (destruct W; try discriminate B; reflexivity).
    replace (untuple W) with W by (destruct W; try discriminate B; reflexivity).
    destruct (box_get_set W k c v B H) as (W' & HS & _).
    unfold wrapst, set_new_value, with_root. cbn [root post errs]. rewrite HS.
    cbn. rewrite app_nil_r, Nat.add_0_r. reflexivity.
  - unfold set_new_value. rewrite removelast_cons2, last_cons2.
    cbn [root post errs]. rewrite (resolve_box W k _ c H).
    destruct (resolve c (removelast (k2 :: r))) as [obj|].
    + rewrite (upd_box W k _ _ c B H).
      destruct (upd c (removelast (k2 :: r)) _) as [c'|].
      * destruct (box_get_set W k c c' B H) as (W' & HS & _). rewrite HS.
        unfold wrapst. cbn [root post errs]. rewrite HS. rewrite Nat.add_0_r.
        destruct (is_tuple obj); cbn [map app]; rewrite ?app_nil_r; reflexivity.
      * rewrite wrapst_err, (wrapst_same W k po e c B H). reflexivity.
    + rewrite wrapst_err, (wrapst_same W k po e c B H). reflexivity.
Qed.

Lemma local_after F okr : local F okr -> (forall p, framed (F p)) ->
  forall W k c r po e s', okr r -> box W = true -> get_item W k = Some c ->
    F (PKey k :: r) (wrapst W k po e s') = wrapst W k po e (F r s').
Proof.
  intros HL HF W k c r po e [c1 po1 e1] Hr B H.
  destruct (box_get_set W k c c1 B H) as (W1 & HS & B1 & G1 & Hsame).
  unfold wrapst at 1. cbn [root post errs]. rewrite HS.
  rewrite (HL W1 k c1 r _ _ Hr B1 G1). rewrite (HF r c1 po1 e1).
  set (L := F r (mkSt c1 [] 0)). unfold frame, wrapst. cbn [root post errs].
  rewrite Hsame. destruct (box_get_set W k c (root L) B H) as (W2 & HS2 & _). rewrite HS2.
  rewrite map_app, app_assoc, Nat.add_assoc. reflexivity.
Qed.

Lemma local_del_elem k2 : local (fun op s => del_elem s op k2) (fun _ => True).
Proof.
  intros W k c r po e _ B H. unfold del_elem. cbn [root post errs]. rewrite (resolve_box W k _ c H).
  destruct (resolve c r) as [obj|].
  - rewrite (upd_box W k _ _ c B H). destruct (upd c r _) as [c'|].
    + destruct (box_get_set W k c c' B H) as (W' & HS & _). rewrite HS.
      unfold wrapst. cbn [root post errs]. rewrite HS. rewrite Nat.add_0_r.
      destruct (is_tuple obj); cbn [map app]; rewrite ?app_nil_r; reflexivity.
    + rewrite wrapst_err, (wrapst_same W k po e c B H). reflexivity.
  - rewrite wrapst_err, (wrapst_same W k po e c B H). reflexivity.
Qed.

Lemma local_upd_step f : local (fun p s => upd_step s p f) (fun _ => True).
Proof.
  intros W k c r po e _ B H. unfold upd_step. cbn [root post errs]. rewrite (upd_box W k _ _ c B H).
  destruct (upd c r f) as [c'|].
  - destruct (box_get_set W k c c' B H) as (W' & HS & _). rewrite HS.
    unfold wrapst, with_root. cbn [root post errs]. rewrite HS. cbn. rewrite app_nil_r, Nat.add_0_r. reflexivity.
  - rewrite wrapst_err, (wrapst_same W k po e c B H). reflexivity.
Qed.

Lemma wrapst_verify W k po e e0 cur s' :
  verify bidir e0 cur (wrapst W k po e s') = wrapst W k po e (verify bidir e0 cur s').
Proof.
  unfold verify. destruct bidir; [|reflexivity]. destruct e0 as [x|]; [|symmetry; apply wrapst_err].
  destruct (py_eqv x cur); [reflexivity|symmetry; apply wrapst_err].
Qed.

Definition okr (x : item) (r : path) : Prop :=
  match x with IRem _ _ | IAdd _ _ _ => r <> [] | _ => True end.

Lemma istep_local x W k c r po e :
  ipath x = PKey k :: r -> okr x r -> box W = true -> get_item W k = Some c ->
  istep (mkSt W po e) x = wrapst W k po e (istep (mkSt c [] 0) (irestrict x)).
Proof.
  intros HP HO B H.
  destruct x as [vc|tc|un p xs|p os|p v|ins p v|p]; cbn [ipath] in HP; cbn [istep irestrict].
  - (* values_changed *)
    unfold vc_step, current_at. cbn [vc_path vc_old vc_new root]. rewrite HP. cbn [tl].
    rewrite (resolve_box W k r c H). destruct (resolve c r) as [cur|].
    + rewrite (local_set_new_value (vc_new vc) W k c r po e I B H). apply wrapst_verify.
    + rewrite wrapst_err, (wrapst_same W k po e c B H). reflexivity.
  - unfold tc_step, current_at. cbn [tc_path tc_old tc_new tc_new_ty root]. rewrite HP. cbn [tl].
    rewrite (resolve_box W k r c H). destruct (resolve c r) as [cur|].
    + destruct (match tc_new tc with Some v => Some v | None => conv (tc_new_ty tc) cur end) as [nv|].
      * rewrite (local_set_new_value nv W k c r po e I B H). apply wrapst_verify.
      * rewrite wrapst_err, (wrapst_same W k po e c B H). reflexivity.
    + rewrite wrapst_err, (wrapst_same W k po e c B H). reflexivity.
  - subst p. cbn [tl]. destruct un; apply (local_upd_step _ W k c r po e I B H).
  - subst p. cbn [tl]. apply (local_upd_step _ W k c r po e I B H).
  - (* remove_one *)
    subst p. cbn [tl]. cbn in HO. destruct r as [|k2 r]; [congruence|].
    unfold remove_one. rewrite removelast_cons2, last_cons2.
    set (op := removelast (k2 :: r)). set (kk := key_atom (last (k2 :: r) (PIdx 0))).
    cbn [root]. rewrite (resolve_box W k op c H).
    destruct (resolve c op) as [obj|].
    2:{ rewrite wrapst_err, (wrapst_same W k po e c B H). reflexivity. }
    assert (D : forall k3 cur, verify bidir (Some v) cur (del_elem (mkSt W po e) (PKey k :: op) k3)
                = wrapst W k po e (verify bidir (Some v) cur (del_elem (mkSt c [] 0) op k3))).
    { intros k3 cur. rewrite (local_del_elem k3 W k c op po e I B H). apply wrapst_verify. }
    assert (Sm : mkSt W po e = wrapst W k po e (mkSt c [] 0)) by (symmetry; apply wrapst_same; assumption).
    cbv zeta. destruct obj; try (destruct (get_item _ kk); [apply D|exact Sm]).
    destruct (match get_item (VList xs) kk with Some c0 => negb (py_eqv c0 v) | None => true end); [|apply D].
    destruct (int_of_atom kk); [|exact Sm]. destruct (find_closest _ _ _); [apply D|exact Sm].
  - (* add_one *)
    subst p. cbn [tl]. cbn in HO. destruct r as [|k2 r]; [congruence|].
    unfold add_one. rewrite removelast_cons2, last_cons2.
    set (op := removelast (k2 :: r)). set (kk := key_atom (last (k2 :: r) (PIdx 0))).
    set (nv := match v with Some x => x | None => VAtom ANone end).
    cbn [root]. rewrite (resolve_box W k op c H).
    destruct (resolve c op) as [obj|].
    2:{ rewrite wrapst_err, (wrapst_same W k po e c B H). reflexivity. }
    assert (Sm : mkSt W po e = wrapst W k po e (mkSt c [] 0)) by (symmetry; apply wrapst_same; assumption).
    assert (A : forall s', set_new_value (wrapst W k po e s') (PKey k :: k2 :: r) nv
                         = wrapst W k po e (set_new_value s' (k2 :: r) nv)).
    { intros s'. apply (local_after (fun p s => set_new_value s p nv) (fun _ => True) (local_set_new_value nv)
                          (fun p => framed_set_new_value p nv) W k c (k2 :: r) po e s' I B H). }
    cbv zeta.
    assert (A0 : set_new_value (mkSt W po e) (PKey k :: k2 :: r) nv = wrapst W k po e (set_new_value (mkSt c [] 0) (k2 :: r) nv)).
    { rewrite Sm at 1. apply A. }
    destruct obj; try exact A0. destruct ins; [|exact A0].
    destruct (int_of_atom kk); [|exact A0]. destruct (_ && _); [|exact A0].
    pose proof (local_upd_step (fun _ => Some (VList (list_insert xs (Z.to_nat z) (VAtom ANone)))) W k c op po e I B H) as U.
    unfold upd_step in U. cbn [root] in U. rewrite U. apply A.
  - subst p. cbn [tl]. apply (local_upd_step _ W k c r po e I B H).
Qed.

End Local.

From Coq Require Import List ZArith NArith Bool Arith.
Import ListNotations.
From DD Require Import Base.PyStr Base.Value Path.PathModel Diff.Tree Diff.DiffModel Diff.DiffShow Delta.DeltaModel.
Definition noops (_ : path) (_ _ : list value) : list opcode := [].
Definition cv (_ : ty) (_ : value) : option value := None.
Definition run (c : cfg) ops t1 t2 :=
  let r := run_diff hatom_simple (fun _ _ => []) ops no_paths no_paths c t1 t2 in
  let d := to_delta cv false false ops t1 t2 (fst r) (snd r) in
  (d, apply cv (@rev _) (fun l => l) d t1).
Definition A z := VAtom (AInt z).
Definition cz := mkCfg true 0 1 true.
Definition cd := mkCfg false 0 1 true.
(* tuple length change, zip mode *)
Eval vm_compute in snd (run cz noops (VTuple [A 1; A 2]) (VTuple [A 1; A 2; A 3])).
Eval vm_compute in snd (run cz noops (VTuple [A 1; A 2; A 3]) (VTuple [A 1])).
Eval vm_compute in snd (run cz noops (VList [VTuple [A 1; A 2; A 3]; A 5]) (VList [VTuple [A 1]])).
(* nested tuple in tuple *)
Eval vm_compute in snd (run cz noops (VTuple [A 1; VSet [AInt 2]]) (VTuple [A 1; VSet [AInt 3]])).
(* KA *)
Eval vm_compute in snd (run cz noops (VSet [ABool false; AStr [97%N]]) (VSet [AInt 0; AStr [97%N]])).
(* default mode, one insertion with opcodes *)
Definition ops1 (_ : path) (_ _ : list value) := [mkOp OEqual 0 1 0 1; mkOp OInsert 1 1 1 2; mkOp OEqual 1 2 2 3].
Eval vm_compute in (run cd ops1 (VList [A 1; A 2]) (VList [A 1; A 7; A 2])).
Eval vm_compute in (run cd ops1 (VTuple [A 1; A 2]) (VTuple [A 1; A 7; A 2])).

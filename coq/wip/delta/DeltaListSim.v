(** C01 - the round trip for a list compared position by position, given the
    round trip for its paired children. *)
From Coq Require Import List ZArith NArith Bool Arith Lia Permutation.
Import ListNotations.
From DD Require Import Base.PyStr Base.Value Base.ValueFacts Path.PathModel Diff.Tree Diff.DiffModel
  Diff.DiffFacts Diff.DiffFaithful Delta.DeltaModel Delta.DeltaFacts Delta.DeltaLocal Delta.DeltaEntries
  Delta.DeltaStruct Delta.DeltaRun Delta.DeltaGuard Delta.DeltaGood Delta.DeltaCompose Delta.DeltaListNode.

Lemma repl_app_l {A} i (v : A) l1 l2 : i < length l1 -> repl i v (l1 ++ l2) = repl i v l1 ++ l2.
Proof.
  intros H. unfold repl. rewrite firstn_app, skipn_app.
  replace (i - length l1) with 0 by lia. replace (S i - length l1) with 0 by lia.
  cbn [firstn skipn]. rewrite app_nil_r, <- app_assoc. reflexivity.
Qed.

Lemma all2_nth {A} (f : A -> A -> bool) (b ys : list A) :
  length b = length ys ->
  (forall i x y, nth_error b i = Some x -> nth_error ys i = Some y -> f x y = true) -> all2 f b ys = true.
Proof.
  revert ys; induction b as [|x b IH]; intros [|y ys] L H; try discriminate L; [reflexivity|].
  cbn. rewrite (H 0 x y eq_refl eq_refl). cbn. apply IH; [cbn in L; lia|].
  intros i x0 y0 Hx Hy. apply (H (S i)); assumption.
Qed.

(* own_run from the subsequence of own items *)
Lemma own_run_filter (own : item -> bool) l :
  own_run (list item) (fun q x q' => q = x :: q') own (filter own l) l [].
Proof.
  induction l as [|x l IH]; cbn; [constructor|].
  destruct (own x) eqn:O.
  - eapply own_run_own; [exact O|reflexivity|exact IH].
  - apply own_run_child; [exact O|exact IH].
Qed.

Section OwnSteps.
Variable conv : ty -> value -> option value.
Variable bidir : bool.
Notation istep := (istep conv bidir).

Lemma own_rem_step b0 v po e : py_eqv v v = true ->
  istep (mkSt (VList (b0 ++ [v])) po e) (IRem [PKey (ik (length b0))] v) = mkSt (VList b0) po e.
Proof.
  intros R. cbn [istep]. unfold remove_one. cbn [removelast last key_atom resolve root].
  rewrite get_item_list_ik. rewrite nth_error_app2 by lia. rewrite Nat.sub_diag. cbn [nth_error].
  rewrite R. cbn [negb].
  unfold del_elem. cbn [resolve root is_tuple untuple upd post errs].
  rewrite del_item_list_ik by (rewrite app_length; cbn; lia).
  rewrite firstn_app, Nat.sub_diag, firstn_all. cbn [firstn]. rewrite app_nil_r.
  rewrite skipn_all2 by (rewrite app_length; cbn; lia). rewrite app_nil_r.
  unfold verify. destruct bidir; [rewrite R|]; reflexivity.
Qed.

Lemma own_add_step b v po e :
  istep (mkSt (VList b) po e) (IAdd true [PKey (ik (length b))] (Some v)) = mkSt (VList (b ++ [v])) po e.
Proof.
  cbn [istep]. unfold add_one. cbn [removelast last key_atom resolve root int_of_atom ik].
  rewrite Z.ltb_irrefl. cbn [andb].
  unfold set_new_value. cbn [removelast last key_atom resolve root is_tuple untuple upd post errs].
  change (AInt (Z.of_nat (length b))) with (ik (length b)). rewrite set_item_list_append. reflexivity.
Qed.
End OwnSteps.

(* ---- facts about the trailing items ---- *)
Lemma combine_seq_snoc {A} i (t : list A) v :
  combine (seq i (length (t ++ [v]))) (t ++ [v]) = combine (seq i (length t)) t ++ [(i + length t, v)].
Proof.
  revert i; induction t as [|x t IH]; intros i; cbn.
  - rewrite Nat.add_0_r. reflexivity.
  - rewrite IH. cbn. rewrite Nat.add_succ_r. reflexivity.
Qed.

Lemma tail_rem_snoc i t v : tail_rem i (t ++ [v]) = tail_rem i t ++ [IRem [PKey (ik (i + length t))] v].
Proof. unfold tail_rem. rewrite combine_seq_snoc, map_app. reflexivity. Qed.
Lemma tail_add_cons i y t : tail_add i (y :: t) = IAdd true [PKey (ik i)] (Some y) :: tail_add (S i) t.
Proof. reflexivity. Qed.

Lemma tail_rem_In i t x : In x (tail_rem i t) -> exists j v, x = IRem [PKey (ik j)] v /\ i <= j < i + length t /\ nth_error t (j - i) = Some v.
Proof.
  unfold tail_rem. intros H. apply in_map_iff in H as ([j v] & <- & Hj). apply in_combine_seq in Hj as [H1 H2].
  exists j, v. split; [reflexivity|]. split; [exact H1|exact H2].
Qed.
Lemma tail_add_In i t x : In x (tail_add i t) -> exists j v, x = IAdd true [PKey (ik j)] (Some v) /\ i <= j < i + length t /\ nth_error t (j - i) = Some v.
Proof.
  unfold tail_add. intros H. apply in_map_iff in H as ([j v] & <- & Hj). apply in_combine_seq in Hj as [H1 H2].
  exists j, v. split; [reflexivity|]. split; [exact H1|exact H2].
Qed.

Lemma kf1_rem j v : kf1 (IRem [PKey (ik j)] v) = Z.of_nat j.
Proof. reflexivity. Qed.
Lemma kf1_add j v : kf1 (IAdd true [PKey (ik j)] v) = Z.of_nat j.
Proof. reflexivity. Qed.

Lemma rev_tail_rem_sorted i t : ForallOrdPairs (fun x y => (kf1 y <= kf1 x)%Z) (rev (tail_rem i t)).
Proof.
  induction t as [|v t IH] using rev_ind; [constructor|].
  rewrite tail_rem_snoc, rev_app_distr. cbn [rev app]. constructor; [|exact IH].
  apply Forall_forall. intros y Hy. apply in_rev in Hy. apply tail_rem_In in Hy as (j & w & -> & Hj & _).
  rewrite !kf1_rem. lia.
Qed.
Lemma tail_add_sorted i t : ForallOrdPairs (fun x y => (kf1 x <= kf1 y)%Z) (tail_add i t).
Proof.
  revert i; induction t as [|v t IH]; intros i; [constructor|].
  rewrite tail_add_cons. constructor; [|apply IH].
  apply Forall_forall. intros y Hy. apply tail_add_In in Hy as (j & w & -> & Hj & _).
  rewrite !kf1_add. lia.
Qed.

Lemma tail_rem_kf_inj i t x y : In x (tail_rem i t) -> In y (tail_rem i t) -> kf1 x = kf1 y -> x = y.
Proof.
  intros Hx Hy E. apply tail_rem_In in Hx as (j & v & -> & Hj & Hv). apply tail_rem_In in Hy as (j2 & v2 & -> & Hj2 & Hv2).
  rewrite !kf1_rem in E. assert (j = j2) by lia. subst j2. congruence.
Qed.
Lemma tail_add_kf_inj i t x y : In x (tail_add i t) -> In y (tail_add i t) -> kf1 x = kf1 y -> x = y.
Proof.
  intros Hx Hy E. apply tail_add_In in Hx as (j & v & -> & Hj & Hv). apply tail_add_In in Hy as (j2 & v2 & -> & Hj2 & Hv2).
  rewrite !kf1_add in E. assert (j = j2) by lia. subst j2. congruence.
Qed.

Definition own6 (x : item) : bool := match x with IRem [_] _ => true | _ => false end.
Definition own7 (x : item) : bool := match x with IAdd _ [_] _ => true | _ => false end.

Lemma child_not_own6 K l x : child_items K l -> In x l -> own6 x = false.
Proof.
  intros H Hx. destruct (H x Hx) as (k & r & Hp & _ & Ho). destruct x as [| | | |p v| |]; try reflexivity.
  cbn in Hp, Ho. subst p. destruct r; [congruence|reflexivity].
Qed.
Lemma child_not_own7 K l x : child_items K l -> In x l -> own7 x = false.
Proof.
  intros H Hx. destruct (H x Hx) as (k & r & Hp & _ & Ho). destruct x as [| | | | |i p v|]; try reflexivity.
  cbn in Hp, Ho. subst p. destruct r; [congruence|reflexivity].
Qed.

Lemma filter_own_split (own : item -> bool) c t :
  (forall x, In x c -> own x = false) -> (forall x, In x t -> own x = true) -> filter own (c ++ t) = t.
Proof.
  intros Hc Ht. rewrite filter_app. rewrite (filter_nil own c Hc). cbn. apply filter_all. exact Ht.
Qed.

(* the own items of an admissible arrangement come in the expected order *)
Lemma own6_order K c i t q6 :
  child_items K c -> Permutation (c ++ tail_rem i t) q6 -> desc q6 -> filter own6 q6 = rev (tail_rem i t).
Proof.
  intros Hc HP HD.
  assert (P1 : Permutation (filter own6 q6) (rev (tail_rem i t))).
  { eapply Permutation_trans; [apply Permutation_sym, Permutation_filter'; exact HP|].
    rewrite filter_own_split.
    - apply Permutation_rev.
    - intros x Hx. eapply child_not_own6; eassumption.
    - intros x Hx. apply tail_rem_In in Hx as (j & v & -> & _). reflexivity. }
  apply (sorted_perm_unique kf1); [exact P1| | |apply rev_tail_rem_sorted].
  - intros x y Hx Hy. apply in_rev in Hx, Hy. apply (tail_rem_kf_inj i t); assumption.
  - apply desc_kf1.
    + intros x Hx. eapply Permutation_in in Hx; [|exact P1]. apply in_rev in Hx.
      apply tail_rem_In in Hx as (j & v & -> & _). exists (Z.of_nat j). reflexivity.
    + unfold desc. apply FOP_filter. exact HD.
Qed.

Lemma own7_order K c i t q7 :
  child_items K c -> Permutation (c ++ tail_add i t) q7 -> asc q7 -> filter own7 q7 = tail_add i t.
Proof.
  intros Hc HP HD.
  assert (P1 : Permutation (filter own7 q7) (tail_add i t)).
  { eapply Permutation_trans; [apply Permutation_sym, Permutation_filter'; exact HP|].
    rewrite filter_own_split.
    - apply Permutation_refl.
    - intros x Hx. eapply child_not_own7; eassumption.
    - intros x Hx. apply tail_add_In in Hx as (j & v & -> & _). reflexivity. }
  assert (G : forall l l', Permutation l l' ->
     (forall x y, In x l' -> In y l' -> kf1 x = kf1 y -> x = y) ->
     ForallOrdPairs (fun x y => (kf1 x <= kf1 y)%Z) l -> ForallOrdPairs (fun x y => (kf1 x <= kf1 y)%Z) l' -> l = l').
  { intros l l' Hp Hi S1 S2.
    apply (sorted_perm_unique (fun x => (- kf1 x)%Z)); try assumption.
    - intros x y Hx Hy E. apply Hi; try assumption. lia.
    - clear -S1. induction S1 as [|a l Fa S1 IH]; constructor; [|exact IH].
      eapply Forall_impl; [|exact Fa]. cbn. intros; lia.
    - clear -S2. induction S2 as [|a l Fa S2 IH]; constructor; [|exact IH].
      eapply Forall_impl; [|exact Fa]. cbn. intros; lia. }
  apply G; [exact P1| | |apply tail_add_sorted].
  - intros x y Hx Hy. apply (tail_add_kf_inj i t); assumption.
  - apply asc_kf1.
    + intros x Hx. eapply Permutation_in in Hx; [|exact P1].
      apply tail_add_In in Hx as (j & v & -> & _). exists (Z.of_nat j). reflexivity.
    + unfold asc. apply FOP_filter. exact HD.
Qed.

Lemma filter_ext_in' {A} (f g : A -> bool) l : (forall x, In x l -> f x = g x) -> filter f l = filter g l.
Proof.
  induction l as [|x l IH]; intros H; cbn; [reflexivity|].
  rewrite (H x (or_introl eq_refl)). rewrite IH; [reflexivity|]. intros y Hy. apply H. right. exact Hy.
Qed.

Section ListPasses.
Variable conv : ty -> value -> option value.
Variable bidir : bool.
Notation istep := (istep conv bidir).
Notation irun := (irun conv bidir).

Definition Kof (m : nat) : list atom := map ik (seq 0 m).
Lemma Kof_In m k : In k (Kof m) <-> exists i, k = ik i /\ i < m.
Proof.
  unfold Kof. rewrite in_map_iff. split.
  - intros (i & <- & Hi). apply in_seq in Hi. exists i. split; [reflexivity|lia].
  - intros (i & -> & Hi). exists i. split; [reflexivity|apply in_seq; lia].
Qed.

Lemma Rel_reroot m b b' po e S :
  Rel (Kof m) (mkSt (VList b) po e) S -> m <= length b' ->
  (forall i, i < m -> nth_error b' i = nth_error b i) ->
  Rel (Kof m) (mkSt (VList b') po e) S.
Proof.
  intros (H1 & H2 & H3 & H4 & H5) L N. unfold Rel. cbn [root post errs] in *. repeat split; try assumption.
  - cbn [sepK]. intros k Hk. apply Kof_In in Hk as (i & -> & Hi). exists i. split; [reflexivity|lia].
  - intros k Hk. pose proof (H2 k Hk) as G. apply Kof_In in Hk as (i & -> & Hi).
    rewrite get_item_list_ik in *. rewrite N by exact Hi. exact G.
Qed.

Lemma list_pass6 m s S c6 tail q6 :
  Rel (Kof m) s S -> (exists b0, root s = VList (b0 ++ tail) /\ length b0 = m) -> forallb wf tail = true ->
  child_items (Kof m) c6 -> Permutation (c6 ++ tail_rem m tail) q6 -> desc q6 ->
  Rel (Kof m) (irun q6 s) (fun k => irun (restrictL k q6) (S k)) /\
  exists b0', root (irun q6 s) = VList b0' /\ length b0' = m.
Proof.
  intros HR (b0 & Hroot & Hb0) Wt Hc HP HD.
  set (Inv := fun (rest : list item) (W : value) =>
     exists b1 elems, length b1 = m /\ W = VList (b1 ++ elems) /\ rest = rev (tail_rem m elems) /\ forallb wf elems = true).
  destruct (rel_fold conv bidir (Kof m) (list item) Inv (fun q x q' => q = x :: q') own6) with
    (l := q6) (s := s) (S := S) (q := rev (tail_rem m tail)) (qf := @nil item) as [A B].
  - (* child steps keep the invariant *)
    intros rest W k v W' (b1 & elems & L1 & -> & Hr & We) Hk HS.
    apply Kof_In in Hk as (i & -> & Hi).
    rewrite set_item_list_ik in HS by (rewrite app_length; lia). inversion HS; subst W'.
    exists (repl i v b1), elems. split; [rewrite repl_length by lia; exact L1|].
    split; [rewrite repl_app_l by lia; reflexivity|]. split; assumption.
  - (* own steps *)
    intros rest rest' s0 S0 x HR0 (b1 & elems & L1 & Hr0 & Hr & We) Ox ->.
    destruct elems as [|v t _] using rev_ind; [cbn in Hr; discriminate|].
    rewrite tail_rem_snoc, rev_app_distr in Hr. cbn [rev app] in Hr. inversion Hr; subst x rest'.
    destruct s0 as [W po e]. cbn [root] in Hr0. subst W.
    rewrite forallb_app in We. apply andb_true_iff in We as [Wt' Wv]. cbn in Wv. apply andb_true_iff in Wv as [Wv _].
    rewrite app_assoc. replace (m + length t) with (length (b1 ++ t)) by (rewrite app_length; lia).
    rewrite own_rem_step by (apply py_eqv_rfl; exact Wv). cbn [root]. split.
    + rewrite app_assoc in HR0. eapply Rel_reroot; [exact HR0|rewrite app_length; lia|].
      intros i Hi. rewrite (nth_error_app1 (b1 ++ t)) by (rewrite app_length; lia). reflexivity.
    + exists b1, t. repeat split; assumption.
  - (* every other item is a child item *)
    intros x Hx Ox. apply (Permutation_in _ (Permutation_sym HP)) in Hx. apply in_app_or in Hx as [Hx|Hx].
    + apply Hc. exact Hx.
    + apply tail_rem_In in Hx as (j & v & -> & _). discriminate.
  - exact HR.
  - exists b0, tail. repeat split; assumption.
  - rewrite <- (own6_order (Kof m) c6 m tail q6 Hc HP HD). apply own_run_filter.
  - split.
    + eapply Rel_ext; [|exact A]. intros k Hk. unfold runS, restrictL. f_equal. f_equal.
      apply filter_ext_in'. intros x Hx. unfold cls0, cls. destruct (own6 x) eqn:Ox; [|reflexivity].
      cbn [negb andb]. apply (Permutation_in _ (Permutation_sym HP)) in Hx. apply in_app_or in Hx as [Hx|Hx].
      * rewrite (child_not_own6 _ _ _ Hc Hx) in Ox. discriminate.
      * apply tail_rem_In in Hx as (j & v & -> & Hj & _). apply Kof_In in Hk as (i & -> & Hi).
        unfold fkey. cbn. destruct (Z.eqb_spec (Z.of_nat j) (Z.of_nat i)); [lia|reflexivity].
    + destruct B as (b1 & elems & L1 & Hr0 & Hr & _). destruct elems as [|v t _] using rev_ind.
      * exists b1. rewrite app_nil_r in Hr0. split; assumption.
      * rewrite tail_rem_snoc, rev_app_distr in Hr. discriminate.
Qed.


Lemma list_pass7 m s S c7 tail q7 :
  Rel (Kof m) s S -> (exists b0, root s = VList b0 /\ length b0 = m) ->
  child_items (Kof m) c7 -> Permutation (c7 ++ tail_add m tail) q7 -> asc q7 ->
  Rel (Kof m) (irun q7 s) (fun k => irun (restrictL k q7) (S k)) /\
  exists b0', root (irun q7 s) = VList (b0' ++ tail) /\ length b0' = m.
Proof.
  intros HR (b0 & Hroot & Hb0) Hc HP HD.
  set (Inv := fun (rest : list item) (W : value) =>
     exists b1 done todo, length b1 = m /\ W = VList (b1 ++ done) /\ done ++ todo = tail /\
                          rest = tail_add (m + length done) todo).
  destruct (rel_fold conv bidir (Kof m) (list item) Inv (fun q x q' => q = x :: q') own7) with
    (l := q7) (s := s) (S := S) (q := tail_add m tail) (qf := @nil item) as [A B].
  - intros rest W k v W' (b1 & done & todo & L1 & -> & Ht & Hr) Hk HS.
    apply Kof_In in Hk as (i & -> & Hi).
    rewrite set_item_list_ik in HS by (rewrite app_length; lia). inversion HS; subst W'.
    exists (repl i v b1), done, todo. split; [rewrite repl_length by lia; exact L1|].
    split; [rewrite repl_app_l by lia; reflexivity|]. split; assumption.
  - intros rest rest' s0 S0 x HR0 (b1 & done & todo & L1 & Hr0 & Ht & Hr) Ox ->.
    destruct todo as [|y todo]; [discriminate Hr|]. rewrite tail_add_cons in Hr. inversion Hr; subst x rest'.
    destruct s0 as [W po e]. cbn [root] in Hr0. subst W.
    replace (m + length done) with (length (b1 ++ done)) by (rewrite app_length; lia).
    rewrite own_add_step. cbn [root]. split.
    + eapply Rel_reroot; [exact HR0|rewrite !app_length; lia|].
      intros i Hi. rewrite nth_error_app1 by (rewrite app_length; lia). reflexivity.
    + exists b1, (done ++ [y]), todo. split; [exact L1|]. split; [rewrite app_assoc; reflexivity|].
      split; [rewrite <- app_assoc; exact Ht|]. rewrite !app_length. cbn [length].
      f_equal. lia.
  - intros x Hx Ox. apply (Permutation_in _ (Permutation_sym HP)) in Hx. apply in_app_or in Hx as [Hx|Hx].
    + apply Hc. exact Hx.
    + apply tail_add_In in Hx as (j & v & -> & _). discriminate.
  - exact HR.
  - exists b0, [], tail. rewrite app_nil_r, Nat.add_0_r. repeat split; assumption.
  - rewrite <- (own7_order (Kof m) c7 m tail q7 Hc HP HD). apply own_run_filter.
  - split.
    + eapply Rel_ext; [|exact A]. intros k Hk. unfold runS, restrictL. f_equal. f_equal.
      apply filter_ext_in'. intros x Hx. unfold cls0, cls. destruct (own7 x) eqn:Ox; [|reflexivity].
      cbn [negb andb]. apply (Permutation_in _ (Permutation_sym HP)) in Hx. apply in_app_or in Hx as [Hx|Hx].
      * rewrite (child_not_own7 _ _ _ Hc Hx) in Ox. discriminate.
      * apply tail_add_In in Hx as (j & v & -> & Hj & _). apply Kof_In in Hk as (i & -> & Hi).
        unfold fkey. cbn. destruct (Z.eqb_spec (Z.of_nat j) (Z.of_nat i)); [lia|reflexivity].
    + destruct B as (b1 & done & todo & L1 & Hr0 & Ht & Hr). destruct todo as [|y todo]; [|discriminate Hr].
      rewrite app_nil_r in Ht. subst done. exists b1. split; assumption.
Qed.

End ListPasses.

(** C01 - node lemmas for sets, tuples and all-atom sequences under difflib alignment. *)
From Coq Require Import List ZArith NArith Bool Arith Lia Permutation.
Import ListNotations.
From DD Require Import Base.PyStr Base.Value Base.ValueFacts Path.PathModel Diff.Tree Diff.DiffModel
  Diff.DiffFacts Diff.DiffFaithful Delta.DeltaModel Delta.DeltaFacts Delta.DeltaLocal Delta.DeltaEntries
  Delta.DeltaStruct Delta.DeltaRun Delta.DeltaGuard Delta.DeltaGood Delta.DeltaNodes Delta.DeltaCompose
  Delta.DeltaListNode Delta.DeltaListSim.

Section Leaves.
Variable hatom : atom -> pystr.
Variable udiff : pystr -> pystr -> pystr.
Variable ops : path -> list value -> list value -> list opcode.
Variable c : cfg.
Variable conv : ty -> value -> option value.
Variables bidir always : bool.
Notation Good := (Good hatom udiff ops c conv bidir always).

Hypothesis Hinj : forall a b, hatom a = hatom b -> a = b.
Hypothesis Hops : forall p xs ys, forallb is_atom xs = true -> forallb is_atom ys = true -> valid_ops xs ys (ops p xs ys).
Hypothesis Hconv : forall ty0 v v', conv ty0 v = Some v' -> type_of v' = ty0.

Lemma Good_set (fr : bool) xs ys q :
  nodup_atoms xs = true -> nodup_atoms ys = true -> alias_free (xs ++ ys) ->
  Good (if fr then VFrozen xs else VSet xs) (if fr then VFrozen ys else VSet ys) q.
Proof.
Admitted.

Lemma Good_tuple_zip xs ys q :
  zip c = true -> forallb is_atom xs = true -> forallb is_atom ys = true -> length xs = length ys ->
  Good (VTuple xs) (VTuple ys) q.
Proof.
Admitted.

Lemma Good_leaf_seq (tup : bool) xs ys q :
  zip c = false -> forallb is_atom xs = true -> forallb is_atom ys = true ->
  alias_free (flat_map atoms_of xs ++ flat_map atoms_of ys) ->
  (tup = true -> length xs = length ys) ->
  Good (if tup then VTuple xs else VList xs) (if tup then VTuple ys else VList ys) q.
Proof.
Admitted.

End Leaves.

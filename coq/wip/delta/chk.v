From DD Require Import Delta.DeltaRoundtrip.
Print Assumptions roundtrip.
Check roundtrip.

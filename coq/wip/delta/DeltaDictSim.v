(** C01 - the round trip for a dict compared key by key, given the round trip
    for the values of its common keys. *)
From Coq Require Import List ZArith NArith Bool Arith Lia Permutation.
Import ListNotations.
From DD Require Import Base.PyStr Base.Value Base.ValueFacts Path.PathModel Diff.Tree Diff.DiffModel
  Diff.DiffFacts Diff.DiffFaithful Delta.DeltaModel Delta.DeltaFacts Delta.DeltaLocal Delta.DeltaEntries
  Delta.DeltaStruct Delta.DeltaRun Delta.DeltaGuard Delta.DeltaGood Delta.DeltaCompose Delta.DeltaListNode
  Delta.DeltaListSim Delta.DeltaDictNode.

(* ---- dict primitives ---- *)
Lemma nodup_py l a b : nodup_atoms l = true -> In a l -> In b l -> a <> b -> py_eq a b = false.
Proof.
  induction l as [|x l IH]; cbn; intros N Ha Hb Nab; [destruct Ha|].
  apply andb_true_iff in N as [Nx N]. apply negb_true_iff in Nx.
  destruct Ha as [->|Ha], Hb as [->|Hb].
  - congruence.
  - destruct (py_eq a b) eqn:E; [|reflexivity].
    assert (mem_atom a l = true) by (apply mem_atom_In; exists b; split; assumption). congruence.
  - destruct (py_eq a b) eqn:E; [|reflexivity]. rewrite py_eq_sym in E.
    assert (mem_atom b l = true) by (apply mem_atom_In; exists a; split; assumption). congruence.
  - apply IH; assumption.
Qed.

Lemma nodup_NoDup l : nodup_atoms l = true -> NoDup l.
Proof.
  induction l as [|x l IH]; cbn; intros N; [constructor|].
  apply andb_true_iff in N as [Nx N]. apply negb_true_iff in Nx. constructor; [|apply IH; exact N].
  intros H. assert (mem_atom x l = true) by (apply mem_atom_In; exists x; split; [exact H|apply py_eq_refl]). congruence.
Qed.

Lemma assoc_app_l {B} k (l1 l2 : list (atom * B)) v : assoc k l1 = Some v -> assoc k (l1 ++ l2) = Some v.
Proof.
  induction l1 as [|[k' v'] l1 IH]; cbn; [discriminate|]. destruct (py_eq k' k); [trivial|exact IH].
Qed.
Lemma assoc_app_r {B} k (l1 l2 : list (atom * B)) : assoc k l1 = None -> assoc k (l1 ++ l2) = assoc k l2.
Proof.
  induction l1 as [|[k' v'] l1 IH]; cbn; [reflexivity|]. destruct (py_eq k' k); [discriminate|exact IH].
Qed.

Lemma assoc_In_key {B} k (l : list (atom * B)) : nodup_atoms (map fst l) = true -> In k (map fst l) -> exists v, assoc k l = Some v /\ In (k, v) l.
Proof.
  intros N H. apply in_map_iff in H as ([k0 v] & E0 & Hin). cbn in E0. subst k0. exists v. split; [|exact Hin].
  eapply assoc_nodup; [exact N|exact Hin|apply py_eq_refl].
Qed.

Lemma dict_del_spec kvs k v :
  nodup_atoms (map fst kvs) = true -> assoc k kvs = Some v ->
  exists kvs', dict_del kvs k = Some kvs' /\ nodup_atoms (map fst kvs') = true /\
    (forall k', In k' (map fst kvs') -> In k' (map fst kvs) /\ py_eq k' k = false) /\
    (forall k', py_eq k k' = false -> assoc k' kvs' = assoc k' kvs).
Proof.
  induction kvs as [|[k0 v0] kvs IH]; cbn; intros N A; [discriminate|].
  apply andb_true_iff in N as [N0 N]. apply negb_true_iff in N0.
  destruct (py_eq k0 k) eqn:E.
  - exists kvs. split; [reflexivity|]. split; [exact N|]. split.
    + intros k' Hk'. split; [right; exact Hk'|]. destruct (py_eq k' k) eqn:E2; [|reflexivity].
      assert (mem_atom k0 (map fst kvs) = true).
      { apply mem_atom_In. exists k'. split; [exact Hk'|]. eapply py_eq_trans; [exact E|rewrite py_eq_sym; exact E2]. }
      congruence.
    + intros k' Nk. destruct (py_eq k0 k') eqn:E2; [|reflexivity].
      rewrite (py_eq_trans k k0 k') in Nk; [discriminate|rewrite py_eq_sym; exact E|exact E2].
  - destruct (IH N A) as (kvs' & Hd & Nd & Hk & Ha). exists ((k0, v0) :: kvs'). rewrite Hd. split; [reflexivity|].
    split; [|split].
    + cbn. apply andb_true_iff. split; [|exact Nd]. apply negb_true_iff.
      destruct (mem_atom k0 (map fst kvs')) eqn:M; [|reflexivity].
      apply mem_atom_In in M as (b & Hb & Eb). destruct (Hk b Hb) as [Hb' _].
      assert (mem_atom k0 (map fst kvs) = true) by (apply mem_atom_In; exists b; split; assumption). congruence.
    + intros k' [<-|Hk']; [split; [left; reflexivity|exact E]|]. destruct (Hk k' Hk') as [H1 H2]. split; [right; exact H1|exact H2].
    + intros k' Nk. cbn. destruct (py_eq k0 k'); [reflexivity|apply Ha; exact Nk].
Qed.

Section DictSteps.
Variable conv : ty -> value -> option value.
Variable bidir : bool.
Notation istep := (istep conv bidir).
Notation irun := (irun conv bidir).

Lemma dict_add_step kvs k v po e :
  istep (mkSt (VDict kvs) po e) (IAdd false [PKey k] (Some v)) = mkSt (VDict (dict_set kvs k v)) po e.
Proof. reflexivity. Qed.

Lemma dict_rem_step kvs kvs' k v po e :
  assoc k kvs = Some v -> py_eqv v v = true -> dict_del kvs k = Some kvs' ->
  istep (mkSt (VDict kvs) po e) (IRem [PKey k] v) = mkSt (VDict kvs') po e.
Proof.
  intros A R Dl. cbn [istep]. unfold remove_one. cbn [removelast last key_atom resolve root get_item].
  rewrite A. unfold del_elem. cbn [resolve root is_tuple untuple upd del_item post errs]. rewrite Dl. cbn [option_map].
  unfold verify. destruct bidir; [rewrite R|]; reflexivity.
Qed.

Lemma Rel_reroot_dict K kvs kvs' po e S :
  Rel K (mkSt (VDict kvs) po e) S ->
  (forall k, In k K -> assoc k kvs' = assoc k kvs) ->
  Rel K (mkSt (VDict kvs') po e) S.
Proof.
  intros (H1 & H2 & H3 & H4 & H5) A. unfold Rel. cbn [root post errs] in *. repeat split; try assumption.
  - cbn [sepK] in *. destruct H1 as [M P]. split; [|exact P]. intros k Hk.
    pose proof (H2 k Hk) as G. cbn in G. rewrite <- (A k Hk) in G.
    destruct (mem_atom k (map fst kvs')) eqn:E; [reflexivity|]. apply assoc_None in E. congruence.
  - intros k Hk. cbn [get_item]. rewrite (A k Hk). apply (H2 k Hk).
Qed.

End DictSteps.

From DD Require Import Delta.DeltaListNode Delta.DeltaCompose.
Check D_pref. Check restrictP_child_same. Check child_item_paths. Check DL_struct.

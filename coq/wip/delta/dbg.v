(** C01 - node lemma for all-atom lists and tuples under difflib alignment. *)
From Coq Require Import List ZArith NArith Bool Arith Lia Permutation.
Import ListNotations.
From DD Require Import Base.PyStr Base.Value Base.ValueFacts Path.PathModel Diff.Tree Diff.DiffModel
  Diff.DiffFacts Diff.DiffFaithful Delta.DeltaModel Delta.DeltaFacts Delta.DeltaLocal Delta.DeltaEntries
  Delta.DeltaStruct Delta.DeltaRun Delta.DeltaGuard Delta.DeltaGood Delta.DeltaNodes Delta.DeltaCompose
  Delta.DeltaListNode Delta.DeltaListSim Delta.DeltaSets Delta.DeltaSeq Delta.DeltaSeqNodes Delta.DeltaOpcodes Delta.DeltaSingle.

Section Leaves.
Variable hatom : atom -> pystr.
Variable udiff : pystr -> pystr -> pystr.
Variable ops : path -> list value -> list value -> list opcode.
Variable c : cfg.
Variable conv : ty -> value -> option value.
Variables bidir always : bool.
Notation Good := (Good hatom udiff ops c conv bidir always).
Notation GoodD := (GoodD conv bidir).
Notation td := (to_delta conv bidir always ops).

Hypothesis Hconv : forall ty0 v v', conv ty0 v = Some v' -> type_of v' = ty0.

(* at most one entry and nothing recorded: one removal, one insertion or one change *)
Lemma caseA (tup : bool) xs ys q T1 T2 :
  forallb is_atom xs = true -> forallb is_atom ys = true ->
  alias_free (flat_map atoms_of xs ++ flat_map atoms_of ys) ->
  (tup = true -> length xs = length ys) ->
  valid_ops xs ys (ops q xs ys) ->
  length (by_opcodes udiff nos (ops q xs ys) xs ys q q) <= 1 ->
  GoodD (td T1 T2 (mutual (by_opcodes udiff nos (ops q xs ys) xs ys q q)) []) (length q) (sroot tup xs) (sroot tup ys).
Proof.
  intros Ax Ay AF L [Tl HB] Len.
  destruct (by_opcodes udiff nos (ops q xs ys) xs ys q q) as [|e [|e2 es']] eqn:Ees; [| |cbn in Len; lia].
  - (* nothing reported: the sequences coincide *)
    pose proof (bo_nil udiff q xs ys Ax Ay AF _ 0 0 Tl HB Ees) as E0. cbn [skipn] in E0. subst ys.
    apply good_empty. apply veqb_refl. apply wf_sroot. exact Ax.
  - destruct (bo_one udiff q xs ys Ax Ay AF _ 0 e Tl HB Ees) as (P & X & Y & Sx & Hx & Hy & Sh).
    cbn [skipn Nat.add] in Hx, Hy, Sh. subst xs ys.
    destruct Sh as [(x & -> & -> & ->)|[(y & -> & -> & ->)|(a & b & -> & -> & Hd)]].
    + destruct tup.
      * exfalso. specialize (L eq_refl). rewrite !app_length in L. cbn in L. lia.
      * cbn [sroot app]. apply good_single_rem. exact Ax.
    + destruct tup.
      * exfalso. specialize (L eq_refl). rewrite !app_length in L. cbn in L. lia.
      * cbn [sroot app]. apply good_single_add. exact Ay.
    + destruct (diff_atom_shape udiff a b (snoc q (PIdx (length P))) (snoc q (PIdx (length P)))) as [E0|(k & d & Hk & E0)];
        rewrite E0 in Hd; [discriminate|]. inversion Hd; subst e.
      apply seq_positional_good; try assumption.
      * intros e [<-|[]]. split; [cbn; tauto|]. exists (length P), a, b. rewrite Nat.sub_0_r.
        rewrite !nth_error_app2 by lia. rewrite Nat.sub_diag. cbn. repeat split; try reflexivity. Show.
Abort.
End Leaves.

(** C01 - the round trip for a list compared position by position, given the
    round trip for its paired children. *)
From Coq Require Import List ZArith NArith Bool Arith Lia Permutation.
Import ListNotations.
From DD Require Import Base.PyStr Base.Value Base.ValueFacts Path.PathModel Diff.Tree Diff.DiffModel
  Diff.DiffFacts Diff.DiffFaithful Delta.DeltaModel Delta.DeltaFacts Delta.DeltaLocal Delta.DeltaEntries
  Delta.DeltaStruct Delta.DeltaRun Delta.DeltaGuard Delta.DeltaGood Delta.DeltaCompose Delta.DeltaListNode.

Lemma repl_app_l {A} i (v : A) l1 l2 : i < length l1 -> repl i v (l1 ++ l2) = repl i v l1 ++ l2.
Proof.
  intros H. unfold repl. rewrite firstn_app, skipn_app.
  replace (i - length l1) with 0 by lia. replace (S i - length l1) with 0 by lia.
  cbn [firstn skipn]. rewrite app_nil_r, <- app_assoc. reflexivity.
Qed.

Lemma all2_nth {A} (f : A -> A -> bool) (b ys : list A) :
  length b = length ys ->
  (forall i x y, nth_error b i = Some x -> nth_error ys i = Some y -> f x y = true) -> all2 f b ys = true.
Proof.
  revert ys; induction b as [|x b IH]; intros [|y ys] L H; try discriminate L; [reflexivity|].
  cbn. rewrite (H 0 x y eq_refl eq_refl). cbn. apply IH; [cbn in L; lia|].
  intros i x0 y0 Hx Hy. apply (H (S i)); assumption.
Qed.

(* own_run from the subsequence of own items *)
Lemma own_run_filter (own : item -> bool) l :
  own_run (list item) (fun q x q' => q = x :: q') own (filter own l) l [].
Proof.
  induction l as [|x l IH]; cbn; [constructor|].
  destruct (own x) eqn:O.
  - eapply own_run_own; [exact O|reflexivity|exact IH].
  - apply own_run_child; [exact O|exact IH].
Qed.

Section OwnSteps.
Variable conv : ty -> value -> option value.
Variable bidir : bool.
Notation istep := (istep conv bidir).

Lemma own_rem_step b0 v po e : py_eqv v v = true ->
  istep (mkSt (VList (b0 ++ [v])) po e) (IRem [PKey (ik (length b0))] v) = mkSt (VList b0) po e.
Proof.
  intros R. cbn [istep]. unfold remove_one. cbn [removelast last key_atom resolve root].
  rewrite get_item_list_ik. rewrite nth_error_app2 by lia. rewrite Nat.sub_diag. cbn [nth_error].
  rewrite R. cbn [negb].
  unfold del_elem. cbn [resolve root is_tuple untuple upd post errs].
  rewrite del_item_list_ik by (rewrite app_length; cbn; lia).
  rewrite firstn_app, Nat.sub_diag, firstn_all. cbn [firstn]. rewrite app_nil_r.
  rewrite skipn_all2 by (rewrite app_length; cbn; lia). rewrite app_nil_r.
  unfold verify. destruct bidir; [rewrite R|]; reflexivity.
Qed.

Lemma own_add_step b v po e :
  istep (mkSt (VList b) po e) (IAdd true [PKey (ik (length b))] (Some v)) = mkSt (VList (b ++ [v])) po e.
Proof.
  cbn [istep]. unfold add_one. cbn [removelast last key_atom resolve root int_of_atom ik].
  rewrite Z.ltb_irrefl. cbn [andb].
  unfold set_new_value. cbn [removelast last key_atom resolve root is_tuple untuple upd post errs].
  change (AInt (Z.of_nat (length b))) with (ik (length b)). rewrite set_item_list_append. reflexivity.
Qed.
End OwnSteps.

(* ---- facts about the trailing items ---- *)
Lemma combine_seq_snoc {A} i (t : list A) v :
  combine (seq i (length (t ++ [v]))) (t ++ [v]) = combine (seq i (length t)) t ++ [(i + length t, v)].
Proof.
  revert i; induction t as [|x t IH]; intros i; cbn.
  - rewrite Nat.add_0_r. reflexivity.
  - rewrite IH. cbn. rewrite Nat.add_succ_r. reflexivity.
Qed.

Lemma tail_rem_snoc i t v : tail_rem i (t ++ [v]) = tail_rem i t ++ [IRem [PKey (ik (i + length t))] v].
Proof. unfold tail_rem. rewrite combine_seq_snoc, map_app. reflexivity. Qed.
Lemma tail_add_cons i y t : tail_add i (y :: t) = IAdd true [PKey (ik i)] (Some y) :: tail_add (S i) t.
Proof. reflexivity. Qed.

Lemma tail_rem_In i t x : In x (tail_rem i t) -> exists j v, x = IRem [PKey (ik j)] v /\ i <= j < i + length t /\ nth_error t (j - i) = Some v.
Proof.
  unfold tail_rem. intros H. apply in_map_iff in H as ([j v] & <- & Hj). apply in_combine_seq in Hj as [H1 H2].
  exists j, v. split; [reflexivity|]. split; [exact H1|exact H2]. Show. Unshelve. Show.

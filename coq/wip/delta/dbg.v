(** C01 - a list compared position by position: its delta is the concatenation of
    the children's deltas and of the trailing removals / additions. *)
From Coq Require Import List ZArith NArith Bool Arith Lia Permutation.
Import ListNotations.
From DD Require Import Base.PyStr Base.Value Base.ValueFacts Path.PathModel Diff.Tree Diff.DiffModel
  Diff.DiffFacts Diff.DiffFaithful Delta.DeltaModel Delta.DeltaFacts Delta.DeltaLocal Delta.DeltaEntries
  Delta.DeltaStruct Delta.DeltaRun Delta.DeltaGuard Delta.DeltaGood Delta.DeltaCompose.

Lemma flat_map_map_nil {A B C} (g : A -> B) (f : B -> list C) l : (forall p, f (g p) = []) -> flat_map f (map g l) = [].
Proof. intros H. induction l as [|p l IH]; cbn; [reflexivity|]. rewrite H, IH. reflexivity. Qed.
Lemma sg_map_none {A} sel (g : A -> entry) l : (forall p, sel (g p) = None) -> sg sel (map g l) [] = [].
Proof. intros H. unfold sg. induction l as [|p l IH]; cbn; [reflexivity|]. rewrite H. exact IH. Qed.

Definition idx_from (i : nat) (K : pkey) : Prop := exists j, K = PIdx j /\ i <= j.

Section ListNode.
Variable hatom : atom -> pystr.
Variable udiff : pystr -> pystr -> pystr.
Variable ops : path -> list value -> list value -> list opcode.
Variable c : cfg.
Variable conv : ty -> value -> option value.
Variables bidir always : bool.
Variables T1 T2 : value.
Variable q : path.
Notation diff := (diff hatom udiff ops nos nos c).
Notation E := (E hatom udiff ops c).
Notation D := (D hatom udiff ops c conv bidir always T1 T2).
Notation td := (to_delta conv bidir always ops T1 T2).

Definition GL (i : nat) (xs ys : list value) := go_list nos diff q q xs ys i.
Definition DL (i : nat) (xs ys : list value) : delta := td (mutual (fst (GL i xs ys))) (snd (GL i xs ys)).

Definition add_entry (p : nat * value) : entry :=
  mkEntry KIterAdd (snoc q (PIdx (fst p))) (snoc q (PIdx (fst p))) None (Some (snd p)) None.
Definition rem_entry (p : nat * value) : entry :=
  mkEntry KIterRem (snoc q (PIdx (fst p))) (snoc q (PIdx (fst p))) (Some (snd p)) None None.

Lemma added_from_eq ys j : added_from nos ys j q q = map add_entry (combine (seq j (length ys)) ys).
Proof. revert j; induction ys as [|y ys IH]; intros j; cbn; [reflexivity|]. rewrite IH. reflexivity. Qed.
Lemma removed_from_eq xs j : removed_from nos xs j q q = map rem_entry (combine (seq j (length xs)) xs).
Proof. revert j; induction xs as [|x xs IH]; intros j; cbn; [reflexivity|]. rewrite IH. reflexivity. Qed.

Lemma in_combine_seq {A} j (l : list A) k x : In (k, x) (combine (seq j (length l)) l) -> j <= k < j + length l /\ nth_error l (k - j) = Some x.
Proof.
  revert j; induction l as [|y l IH]; intros j; cbn; [tauto|].
  intros [H|H].
  - inversion H; subst. split; [lia|]. rewrite Nat.sub_diag. reflexivity.
  - apply IH in H as [H1 H2]. split; [lia|]. replace (k - j) with (S (k - S j)) by lia. exact H2.
Qed.

Lemma added_under ys i : Forall (fun e => under q (idx_from i) (ep1 e)) (added_from nos ys i q q).
Proof.
  rewrite added_from_eq. apply Forall_forall. intros e He. apply in_map_iff in He as ([k y] & <- & Hk).
  apply in_combine_seq in Hk as [Hk _]. exists (PIdx k), []. split; [exists k; split; [reflexivity|lia]|reflexivity].
Qed.
Lemma removed_under xs i : Forall (fun e => under q (idx_from i) (ep1 e)) (removed_from nos xs i q q).
Proof.
  rewrite removed_from_eq. apply Forall_forall. intros e He. apply in_map_iff in He as ([k y] & <- & Hk).
  apply in_combine_seq in Hk as [Hk _]. exists (PIdx k), []. split; [exists k; split; [reflexivity|lia]|reflexivity].
Qed.

Lemma GL_under xs : forall ys i,
  Forall (fun e => under q (idx_from i) (ep1 e)) (fst (GL i xs ys)) /\ Forall (under q (idx_from i)) (snd (GL i xs ys)).
Proof.
  induction xs as [|x xs IH]; intros ys i.
  - cbn. split; [apply added_under|constructor].
  - destruct ys as [|y ys]; [cbn [GL go_list fst snd]; split; [apply removed_under|constructor]|].
    unfold GL. cbn [go_list]. unfold app2. cbn [fst snd].
    destruct (diff_pref hatom udiff ops nos nos c x y (snoc q (PIdx i)) (snoc q (PIdx i))) as [A B].
    destruct (IH ys (S i)) as [C D0]. split; apply Forall_app; split.
    + eapply Forall_impl; [|exact A]. intros e He. apply pref_under in He.
      eapply under_weaken; [|exact He]. intros K ->. exists i. split; [reflexivity|lia].
    + eapply Forall_impl; [|exact C]. intros e He. eapply under_weaken; [|exact He].
      intros K (j & -> & Hj). exists j. split; [reflexivity|lia].
    + eapply Forall_impl; [|exact B]. intros e He. apply ppref_under in He.
      eapply under_weaken; [|exact He]. intros K ->. exists i. split; [reflexivity|lia].
    + eapply Forall_impl; [|exact D0]. intros e He. eapply under_weaken; [|exact He].
      intros K (j & -> & Hj). exists j. split; [reflexivity|lia].
Qed.

Lemma DL_cons i x xs y ys :
  DL i (x :: xs) (y :: ys) = dapp (D x y (snoc q (PIdx i))) (DL (S i) xs ys).
Proof.
  unfold DL, DeltaGood.D, DeltaGood.E. unfold GL at 1 2. cbn [go_list]. unfold app2. cbn [fst snd].
  fold (GL (S i) xs ys).
  destruct (diff_pref hatom udiff ops nos nos c x y (snoc q (PIdx i)) (snoc q (PIdx i))) as [A B].
  destruct (GL_under xs ys (S i)) as [C D0].
  set (ea := fst (diff x y (snoc q (PIdx i)) (snoc q (PIdx i)))) in *.
  set (ra := snd (diff x y (snoc q (PIdx i)) (snoc q (PIdx i)))) in *.
  assert (UA : Forall (fun e => under q (fun K => K = PIdx i) (ep1 e)) ea).
  { eapply Forall_impl; [|exact A]. intros e He. apply pref_under. exact He. }
  assert (URA : Forall (under q (fun K => K = PIdx i)) ra).
  { eapply Forall_impl; [|exact B]. intros e He. apply ppref_under. exact He. }
  assert (Dj : forall K1 K2 : pkey, K1 = PIdx i -> idx_from (S i) K2 -> K1 <> K2).
  { intros K1 K2 -> (j & -> & Hj) E0. inversion E0. lia. }
  assert (Dk : forall K1 K2 : pkey, K1 = PIdx i -> idx_from (S i) K2 -> key_atom K1 <> key_atom K2).
  { intros K1 K2 -> (j & -> & Hj) E0. cbn in E0. inversion E0. lia. }
  rewrite mutual_app.
  - apply td_app.
    + intros e He. eapply in_paths_split_l; [|exact D0|exact Dj].
      pose proof (mutual_under q _ ea UA) as M. eapply Forall_forall in M; eassumption.
    + intros e He. eapply in_paths_split_r; [|exact URA|exact Dj].
      pose proof (mutual_under q _ _ C) as M. eapply Forall_forall in M; eassumption.
    + intros e1 e2 H1 H2. eapply under_npath_neq; [| |exact Dk].
      * pose proof (mutual_under q _ ea UA) as M. eapply Forall_forall in M; eassumption.
      * pose proof (mutual_under q _ _ C) as M. eapply Forall_forall in M; eassumption.
  - intros e1 e2 H1 H2 _ _ E0.
    eapply Forall_forall in UA; [|exact H1]. eapply Forall_forall in C; [|exact H2].
    apply (under_npath_neq q _ _ _ _ UA C Dk). rewrite E0. reflexivity.
Qed.


(* ---- the trailing items ---- *)
Definition tail_rem (i : nat) (xs : list value) : list item :=
  map (fun p => IRem [PKey (ik (fst p))] (snd p)) (combine (seq i (length xs)) xs).
Definition tail_add (i : nat) (ys : list value) : list item :=
  map (fun p => IAdd true [PKey (ik (fst p))] (Some (snd p))) (combine (seq i (length ys)) ys).

Lemma strip_snoc k : skipn (length q) (npath (snoc q (PIdx k))) = [PKey (ik k)].
Proof. unfold snoc. rewrite skipn_npath. reflexivity. Qed.

Lemma mutual_added ys i : mutual (added_from nos ys i q q) = added_from nos ys i q q.
Proof.
  apply mutual_id. intros a r Ha Hr Ka Kr. rewrite added_from_eq in Hr. apply in_map_iff in Hr as (p & <- & _). discriminate.
Qed.
Lemma mutual_removed xs i : mutual (removed_from nos xs i q q) = removed_from nos xs i q q.
Proof.
  apply mutual_id. intros a r Ha Hr Ka Kr. rewrite removed_from_eq in Ha. apply in_map_iff in Ha as (p & <- & _). discriminate.
Qed.

Lemma sbase_DL_nil_l i ys :
  sbase (length q) (DL i [] ys) = [[]; []; []; []; []; []; tail_add i ys; []; []].
Proof.
  unfold DL, GL. cbn [go_list fst snd]. rewrite mutual_added, added_from_eq.
  unfold sbase, base, p1, p2, p3, p4, p5, p6, p7, p8, p9.
  rewrite td_sadd, td_srem. unfold to_delta. cbn [d_val d_type d_dadd d_drem d_iadd d_irem d_ops map].
  set (l := combine (seq i (length ys)) ys). unfold tail_add. fold l.
  rewrite !flat_map_map_nil by reflexivity. rewrite !sg_map_none by reflexivity. cbn [map].
  Show.
Abort.
End ListNode.

From DD Require Import Delta.DeltaModel.
Check do_values_changed. Check do_type_changes. Check do_set_items. Check do_opcodes. Check do_post. Check remove_one. Check add_one. Check do_item_removed. Check do_item_added. Check do_iterable_item_removed. Check do_iterable_item_added. Check apply. Check to_delta. Check set_new_value. Check verify.

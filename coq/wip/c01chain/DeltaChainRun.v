(** C01 - edit chains: the hypothesis on omitted values of type changes ([okb]) as an exact
    boolean observable ([okbb]), and the chain theorem under the hypothesis stated about the
    RUNNING results only ([chain_okv_run]), which is what the proof of [chain_veq] uses.
    [chain_okv] (every reordering of every left end) implies it; the converse fails. *)
From Coq Require Import List ZArith NArith Bool Arith Lia Permutation String.
Import ListNotations.
From DD Require Import Base.PyStr Base.Value Base.ValueFacts Path.PathModel Diff.Tree Diff.DiffModel
  Diff.DiffFacts Delta.DeltaModel Delta.DeltaFacts Delta.DeltaStruct Delta.DeltaRun Delta.DeltaGuard
  Delta.DeltaGood Delta.DeltaRoundtrip Delta.DeltaChain Delta.DeltaExamples.

(* ---- [okb] is decidable for a computable constructor oracle ---- *)
Section Okbb.
Variable conv : ty -> value -> option value.
Variables bidir always : bool.

(* the body of [tc_b]: values stored, or the constructor does not reproduce the new value from
   t1 up to == (then to_delta stores the values), or it rebuilds it from the current value too *)
Definition tc_bb (v t1 t2 : value) : bool :=
  bidir || always ||
  match conv (type_of t2) t1 with
  | Some a' =>
      if py_eqv a' t2
      then match conv (type_of t2) v with Some v' => veqb v' t2 | None => false end
      else true
  | None => true
  end.

Lemma tc_bb_iff v t1 t2 : tc_bb v t1 t2 = true <-> tc_b conv bidir always v t1 t2.
Proof.
  unfold tc_bb, tc_b. destruct (bidir || always) eqn:F; cbn [orb].
  - split; [intros _; left; reflexivity|reflexivity].
  - split.
    + intros H. right. intros a' Ca Ea. rewrite Ca, Ea in H.
      destruct (conv (type_of t2) v) as [v'|]; [|discriminate H]. exists v'. split; [reflexivity|exact H].
    + intros [H|H]; [discriminate H|].
      destruct (conv (type_of t2) t1) as [a'|] eqn:Ca; [|reflexivity].
      destruct (py_eqv a' t2) eqn:Ea; [|reflexivity].
      destruct (H a' eq_refl Ea) as (v' & Cv & Vv). rewrite Cv. exact Vv.
Qed.

(* [tc_bb] along the pairing of the ordered diff: the shape of [okb] *)
Fixpoint okbb (v t1 t2 : value) {struct t1} : bool :=
  match t1, t2, v with
  | VList xs, VList ys, VList vs =>
      (fix go (xs ys vs : list value) {struct xs} : bool :=
         match xs, ys, vs with
         | x :: xs', y :: ys', w :: vs' => okbb w x y && go xs' ys' vs'
         | _, _, _ => true
         end) xs ys vs
  | VTuple _, VTuple _, _ => true
  | VDict kvs1, VDict kvs2, VDict kvb =>
      (fix go (l : list (atom * value)) : bool :=
         match l with
         | [] => true
         | (k, v1) :: r =>
             match assoc k kvs2, assoc k kvb with Some v2, Some w => okbb w v1 v2 | _, _ => true end && go r
         end) kvs1
  | _, _, _ => if ty_eqb (type_of t1) (type_of t2) then true else tc_bb v t1 t2
  end.

Definition okbb_list := fix go (xs ys vs : list value) {struct xs} : bool :=
  match xs, ys, vs with
  | x :: xs', y :: ys', w :: vs' => okbb w x y && go xs' ys' vs'
  | _, _, _ => true
  end.
Definition okbb_dict (kvs2 kvb : list (atom * value)) := fix go (l : list (atom * value)) : bool :=
  match l with
  | [] => true
  | (k, v1) :: r => match assoc k kvs2, assoc k kvb with Some v2, Some w => okbb w v1 v2 | _, _ => true end && go r
  end.
Lemma okbb_list_eq vs xs ys : okbb (VList vs) (VList xs) (VList ys) = okbb_list xs ys vs.
Proof. reflexivity. Qed.
Lemma okbb_dict_eq kvb kvs1 kvs2 : okbb (VDict kvb) (VDict kvs1) (VDict kvs2) = okbb_dict kvs2 kvb kvs1.
Proof. reflexivity. Qed.

(* the boolean is an exact observation of the proposition *)
Theorem okbb_iff : forall t1 t2 v, okbb v t1 t2 = true <-> okb conv bidir always v t1 t2.
Proof.
  assert (TC : forall v t1 t2,
            (if ty_eqb (type_of t1) (type_of t2) then true else tc_bb v t1 t2) = true <->
            (if ty_eqb (type_of t1) (type_of t2) then True else tc_b conv bidir always v t1 t2)).
  { intros v t1 t2. destruct (ty_eqb _ _); [split; [intros _; exact Logic.I|reflexivity]|apply tc_bb_iff]. }
  assert (TT : true = true <-> True) by (split; [intros _; exact Logic.I|reflexivity]).
  induction t1 as [a|xs IH|xs IH|kvs IH|xs|xs] using value_ind'; intros t2 v.
  - destruct t2, v; apply (TC _ (VAtom a)).
  - destruct t2; try (destruct v; apply (TC _ (VList xs))). destruct v; try (cbn; exact TT).
    rewrite okbb_list_eq, okb_list_eq. revert xs0 xs1. induction IH as [|x xs Hx _ IHl]; intros ys vs; [exact TT|].
    destruct ys as [|y ys]; [exact TT|]. destruct vs as [|w vs]; [exact TT|]. cbn.
    rewrite andb_true_iff. rewrite (Hx y w). rewrite (IHl ys vs). reflexivity.
  - destruct t2; try (destruct v; apply (TC _ (VTuple xs))). destruct v; exact TT.
  - destruct t2; try (destruct v; apply (TC _ (VDict kvs))). destruct v; try (cbn; exact TT).
    rewrite okbb_dict_eq, okb_dict_eq. induction IH as [|[k v1] l Hk _ IHl]; [exact TT|]. cbn.
    rewrite andb_true_iff. rewrite IHl. cbn [snd] in Hk.
    destruct (assoc k kvs0) as [v2|]; [|split; [intros [_ H]; split; [exact Logic.I|exact H]|intros [_ H]; split; [reflexivity|exact H]]].
    destruct (assoc k kvs1) as [w|]; [|split; [intros [_ H]; split; [exact Logic.I|exact H]|intros [_ H]; split; [reflexivity|exact H]]].
    rewrite (Hk v2 w). reflexivity.
  - destruct t2, v; apply (TC _ (VSet xs)).
  - destruct t2, v; apply (TC _ (VFrozen xs)).
Qed.

Corollary okbb_sound v t1 t2 : okbb v t1 t2 = true -> okb conv bidir always v t1 t2.
Proof. apply okbb_iff. Qed.
Corollary okbb_false v t1 t2 : okbb v t1 t2 = false -> ~ okb conv bidir always v t1 t2.
Proof. intros H O. apply okbb_iff in O. congruence. Qed.

End Okbb.

(* ---- chains: the hypothesis about the running results only ---- *)
Section ChainRun.
Variable hatom : atom -> pystr.
Variable udiff : pystr -> pystr -> pystr.
Variable ops : path -> list value -> list value -> list opcode.
Variable c : cfg.
Variable conv : ty -> value -> option value.
Variables bidir always : bool.
Variable ro : list (path * value) -> list (path * value).
Variable ao : list (path * option value) -> list (path * option value).

Hypothesis Hinj : forall a b, hatom a = hatom b -> a = b.
Hypothesis Hconv : forall ty0 v v', conv ty0 v = Some v' -> type_of v' = ty0.

Notation delta_of := (delta_of hatom udiff ops c conv bidir always).
Notation chain_ok := (chain_ok hatom udiff ops c conv bidir always ro ao).
Notation chain_from := (chain_from hatom udiff ops c conv bidir always ro ao).

(* at every step, [okb] at the value the delta is actually applied to: the running result *)
Fixpoint chain_okv_run (cur prev : value) (rest : list value) : Prop :=
  match rest with
  | [] => True
  | t :: r => okb conv bidir always cur prev t /\
              chain_okv_run (fst (apply conv ro ao (delta_of prev t) cur)) t r
  end.

Fixpoint chain_okv_runb (cur prev : value) (rest : list value) : bool :=
  match rest with
  | [] => true
  | t :: r => okbb conv bidir always cur prev t &&
              chain_okv_runb (fst (apply conv ro ao (delta_of prev t) cur)) t r
  end.

Theorem chain_okv_runb_iff rest : forall cur prev,
  chain_okv_runb cur prev rest = true <-> chain_okv_run cur prev rest.
Proof.
  induction rest as [|t r IH]; intros cur prev; cbn [chain_okv_runb chain_okv_run].
  - split; [intros _; exact Logic.I|reflexivity].
  - rewrite andb_true_iff, okbb_iff, IH. reflexivity.
Qed.

(* the running result stays equal, up to dict / set order, to the corresponding value of the
   chain, without error - under [okb] at the running results only *)
Theorem chain_veq_run rest : forall cur prev, chain_ok prev rest -> chain_okv_run cur prev rest ->
  wf cur = true -> veqb cur prev = true ->
  Forall2 (fun res t => snd res = 0 /\ veqb (fst res) t = true) (chain_from cur prev rest) rest.
Proof.
  induction rest as [|t r IH]; intros cur prev H HV W V; [constructor|].
  cbn [DeltaChain.chain_ok] in H. cbn [chain_okv_run] in HV. destruct H as [(G & OV & HO) H]. destruct HV as [OB HV].
  destruct (roundtrip_from hatom udiff ops c conv bidir always Hinj Hconv ro ao prev t cur G OV W V OB HO) as (t' & E & V').
  assert (E' : apply conv ro ao (delta_of prev t) cur = (t', 0)) by exact E.
  cbn [DeltaChain.chain_from]. rewrite E' in *. cbn [fst] in *. constructor; [split; [reflexivity|exact V']|].
  apply IH; [exact H|exact HV| |exact V'].
  destruct G as (_ & W2 & _). apply (veqb_facts t' t V' W2).
Qed.

(* the hypothesis of [chain_veq] implies the one of [chain_veq_run] wherever [chain_veq] applies *)
Theorem chain_okv_implies_run rest : forall cur prev, chain_ok prev rest -> chain_okv conv bidir always prev rest ->
  wf cur = true -> veqb cur prev = true -> chain_okv_run cur prev rest.
Proof.
  induction rest as [|t r IH]; intros cur prev H HV W V; [exact Logic.I|].
  cbn [DeltaChain.chain_ok] in H. cbn [chain_okv] in HV. destruct H as [(G & OV & HO) H]. destruct HV as [OB HV].
  cbn [chain_okv_run]. split; [apply OB; assumption|].
  destruct (roundtrip_from hatom udiff ops c conv bidir always Hinj Hconv ro ao prev t cur G OV W V (OB cur W V) HO) as (t' & E & V').
  assert (E' : apply conv ro ao (delta_of prev t) cur = (t', 0)) by exact E.
  rewrite E'. cbn [fst]. apply IH; [exact H|exact HV| |exact V'].
  destruct G as (_ & W2 & _). apply (veqb_facts t' t V' W2).
Qed.

(* with the values stored nothing is asked *)
Lemma chain_okv_run_flags : bidir || always = true -> forall rest cur prev, chain_okv_run cur prev rest.
Proof.
  intros F. induction rest as [|t r IH]; intros cur prev; [exact Logic.I|]. split; [apply okb_flags; exact F|apply IH].
Qed.

End ChainRun.

(* ---- strictness: [chain_okv_run] holds, [chain_okv] does not ----
   {'k': {'a':1,'b':2}} -> {'k': ['a','b']} with list(dict) = the keys in insertion order.
   From the base itself list(current value) = ['a','b'] rebuilds the new value; [okb_all] fails
   at the reordering {'k': {'b':2,'a':1}} (DeltaExamples.rb_v). *)
Lemma rb_step : step_ok hatom_ex (fun _ _ => []) no_ops ex_cfg keys_conv false false (@rev _) (fun l => l) rb_t1 rb_t2.
Proof.
  split; [exact rb_guards|]. split.
  - unfold rb_t1, rb_t2. opsv_dict_tac.
  - orders_tac (delta_of hatom_ex (fun _ _ => []) no_ops ex_cfg keys_conv false false rb_t1 rb_t2).
Qed.

Lemma rb_chain_ok : chain_ok hatom_ex (fun _ _ => []) no_ops ex_cfg keys_conv false false (@rev _) (fun l => l) rb_t1 [rb_t2].
Proof. exact (conj rb_step Logic.I). Qed.

Lemma rb_okv_run :
  chain_okv_run hatom_ex (fun _ _ => []) no_ops ex_cfg keys_conv false false (@rev _) (fun l => l) rb_t1 rb_t1 [rb_t2].
Proof. apply chain_okv_runb_iff. vm_compute. reflexivity. Qed.

Lemma rb_not_okv : ~ chain_okv keys_conv false false rb_t1 [rb_t2].
Proof.
  intros [H _]. specialize (H rb_v eq_refl eq_refl). revert H. apply okbb_false. vm_compute. reflexivity.
Qed.

(* the same with a genuinely reordered start and two steps: the outer dict and the dict under 'z'
   are reordered, the dict under 'k' (the one that becomes a list of its keys at the second step)
   is not; the first step edits below 'z' *)
Definition rc_t0 : value := VDict [(s "k", VDict [(s "a", I 1); (s "b", I 2)]); (s "z", VDict [(s "p", I 1); (s "q", I 2)])].
Definition rc_t1 : value := VDict [(s "k", VDict [(s "a", I 1); (s "b", I 2)]); (s "z", VDict [(s "p", I 7); (s "r", I 3)])].
Definition rc_t2 : value := VDict [(s "k", VList [Sv "a"; Sv "b"]); (s "z", VDict [(s "p", I 7); (s "r", I 3)])].
Definition rc_start : value := VDict [(s "z", VDict [(s "q", I 2); (s "p", I 1)]); (s "k", VDict [(s "a", I 1); (s "b", I 2)])].
Definition rc_bad : value := VDict [(s "k", VDict [(s "b", I 2); (s "a", I 1)]); (s "z", VDict [(s "p", I 7); (s "r", I 3)])].

Lemma rc_guards12 : guards ex_cfg keys_conv false false rc_t1 rc_t2.
Proof.
  split; [reflexivity|]. split; [reflexivity|]. split; [apply alias_freeb_sound; vm_compute; reflexivity|]. split.
  - unfold rc_t1, rc_t2. rewrite okp_dict_eq. cbn [okp_dict].
    repeat match goal with |- context [assoc ?k ?l] => let r := eval vm_compute in (assoc k l) in change (assoc k l) with r end.
    cbn beta iota. split; [|split; [|exact Logic.I]].
    + cbn. right. intros v' H _. vm_compute in H. inversion H. vm_compute. reflexivity.
    + rewrite okp_dict_eq. cbn [okp_dict].
      repeat match goal with |- context [assoc ?k ?l] => let r := eval vm_compute in (assoc k l) in change (assoc k l) with r end.
      cbn. auto.
  - right. vm_compute. split; reflexivity.
Qed.

Lemma rc_step01 : step_ok hatom_ex (fun _ _ => []) no_ops ex_cfg keys_conv false false (@rev _) (fun l => l) rc_t0 rc_t1.
Proof.
  split; [apply (guardsb_sound ex_cfg keys_conv false false keys_conv_typed); vm_compute; reflexivity|]. split.
  - unfold rc_t0, rc_t1. opsv_dict_tac; opsv_dict_tac.
  - orders_tac (delta_of hatom_ex (fun _ _ => []) no_ops ex_cfg keys_conv false false rc_t0 rc_t1).
Qed.

Lemma rc_step12 : step_ok hatom_ex (fun _ _ => []) no_ops ex_cfg keys_conv false false (@rev _) (fun l => l) rc_t1 rc_t2.
Proof.
  split; [exact rc_guards12|]. split.
  - unfold rc_t1, rc_t2. opsv_dict_tac. opsv_dict_tac.
  - orders_tac (delta_of hatom_ex (fun _ _ => []) no_ops ex_cfg keys_conv false false rc_t1 rc_t2).
Qed.

Lemma rc_chain_ok : chain_ok hatom_ex (fun _ _ => []) no_ops ex_cfg keys_conv false false (@rev _) (fun l => l) rc_t0 [rc_t1; rc_t2].
Proof. exact (conj rc_step01 (conj rc_step12 Logic.I)). Qed.

Lemma rc_start_ok : wf rc_start = true /\ veqb rc_start rc_t0 = true /\ value_eqb rc_start rc_t0 = false.
Proof. vm_compute. repeat split; reflexivity. Qed.

Lemma rc_okv_run :
  chain_okv_run hatom_ex (fun _ _ => []) no_ops ex_cfg keys_conv false false (@rev _) (fun l => l) rc_start rc_t0 [rc_t1; rc_t2].
Proof. apply chain_okv_runb_iff. vm_compute. reflexivity. Qed.

Lemma rc_not_okv : ~ chain_okv keys_conv false false rc_t0 [rc_t1; rc_t2].
Proof.
  intros (_ & H & _). specialize (H rc_bad eq_refl eq_refl). revert H. apply okbb_false. vm_compute. reflexivity.
Qed.

(* [chain_veq_run] applies to it (and [chain_veq] does not) *)
Lemma rc_chain :
  Forall2 (fun res t => snd res = 0 /\ veqb (fst res) t = true)
    (chain_from hatom_ex (fun _ _ => []) no_ops ex_cfg keys_conv false false (@rev _) (fun l => l) rc_start rc_t0 [rc_t1; rc_t2])
    [rc_t1; rc_t2].
Proof.
  apply (chain_veq_run hatom_ex (fun _ _ => []) no_ops ex_cfg keys_conv false false (@rev _) (fun l => l) hatom_ex_inj keys_conv_typed
           [rc_t1; rc_t2] rc_start rc_t0 rc_chain_ok rc_okv_run); apply rc_start_ok.
Qed.

Lemma chain_okv_run_strict :
  chain_ok hatom_ex (fun _ _ => []) no_ops ex_cfg keys_conv false false (@rev _) (fun l => l) rc_t0 [rc_t1; rc_t2] /\
  (wf rc_start = true /\ veqb rc_start rc_t0 = true /\ value_eqb rc_start rc_t0 = false) /\
  chain_okv_run hatom_ex (fun _ _ => []) no_ops ex_cfg keys_conv false false (@rev _) (fun l => l) rc_start rc_t0 [rc_t1; rc_t2] /\
  ~ chain_okv keys_conv false false rc_t0 [rc_t1; rc_t2] /\
  Forall2 (fun res t => snd res = 0 /\ veqb (fst res) t = true)
    (chain_from hatom_ex (fun _ _ => []) no_ops ex_cfg keys_conv false false (@rev _) (fun l => l) rc_start rc_t0 [rc_t1; rc_t2])
    [rc_t1; rc_t2].
Proof. exact (conj rc_chain_ok (conj rc_start_ok (conj rc_okv_run (conj rc_not_okv rc_chain)))). Qed.

Print Assumptions okbb_iff.
Print Assumptions chain_okv_runb_iff.
Print Assumptions chain_veq_run.
Print Assumptions chain_okv_implies_run.
Print Assumptions chain_okv_run_strict.
Print Assumptions rb_not_okv.

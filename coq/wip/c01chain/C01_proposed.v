(* proposed additions to Properties/C01.v (scratch: compiled to check the texts) *)
From Coq Require Import List ZArith NArith Bool Arith Permutation.
Import ListNotations.
From DD Require Import Base.PyStr Base.Value Path.PathModel Diff.Tree Diff.DiffModel
  Hash.HashModel DiffIO.DiffIOModel
  Delta.DeltaModel Delta.DeltaRun Delta.DeltaGuard Delta.DeltaGood Delta.DeltaRoundtrip Delta.DeltaChain Delta.DeltaExamples
  Delta.DeltaIO Delta.DeltaIOProofs.
From DD Require Import Delta.DeltaChainRun Delta.DeltaChainAll.

(* the hypothesis [okb] is decidable for a computable constructor oracle: [okbb] is its exact boolean
   (evaluated by the correspondence on every step of every generated chain, harness/c01chain.py) *)
Theorem C01_okb_decidable :
  forall conv bidir always t1 t2 v, okbb conv bidir always v t1 t2 = true <-> okb conv bidir always v t1 t2.
Proof. exact okbb_iff. Qed.
Print Assumptions C01_okb_decidable.

(* C01_chain_veq_partial under the weaker hypothesis that its proof uses: [okb] at the RUNNING results
   only ([chain_okv_run]: at every step, at the value the delta is actually applied to), instead of at
   every reordering of every left end ([chain_okv]) *)
Theorem C01_chain_veq_run_partial :
  forall hatom udiff ops c conv bidir always ro ao,
    (forall a b, hatom a = hatom b -> a = b) ->
    (forall ty0 v v', conv ty0 v = Some v' -> type_of v' = ty0) ->
  forall rest cur t0, chain_ok hatom udiff ops c conv bidir always ro ao t0 rest ->
    chain_okv_run hatom udiff ops c conv bidir always ro ao cur t0 rest ->
    wf cur = true -> veqb cur t0 = true ->
    Forall2 (fun res t => snd res = 0 /\ veqb (fst res) t = true)
      (chain_from hatom udiff ops c conv bidir always ro ao cur t0 rest) rest.
Proof. exact chain_veq_run. Qed.
Print Assumptions C01_chain_veq_run_partial.

(* ... which is decidable: [chain_okv_runb] runs the chain on the model *)
Theorem C01_chain_okv_run_decidable :
  forall hatom udiff ops c conv bidir always ro ao rest cur t0,
    chain_okv_runb hatom udiff ops c conv bidir always ro ao cur t0 rest = true <->
    chain_okv_run hatom udiff ops c conv bidir always ro ao cur t0 rest.
Proof. exact chain_okv_runb_iff. Qed.
Print Assumptions C01_chain_okv_run_decidable.

(* the old hypothesis implies the new one wherever the old theorem applied *)
Theorem C01_chain_okv_implies_run :
  forall hatom udiff ops c conv bidir always ro ao,
    (forall a b, hatom a = hatom b -> a = b) ->
    (forall ty0 v v', conv ty0 v = Some v' -> type_of v' = ty0) ->
  forall rest cur t0, chain_ok hatom udiff ops c conv bidir always ro ao t0 rest ->
    chain_okv conv bidir always t0 rest ->
    wf cur = true -> veqb cur t0 = true ->
    chain_okv_run hatom udiff ops c conv bidir always ro ao cur t0 rest.
Proof. exact chain_okv_implies_run. Qed.
Print Assumptions C01_chain_okv_implies_run.

(* strictly weaker: {'k':{'a':1,'b':2},'z':{'p':1,'q':2}} -> (edit below 'z') -> {'k':['a','b'],...} started from
   {'z':{'q':2,'p':1},'k':{'a':1,'b':2}} (a reordered copy that leaves the dict under 'k' alone): [chain_okv_run] holds and
   the theorem applies, [chain_okv] fails (at the reordering {'k':{'b':2,'a':1},...} of t1) *)
Example C01_chain_okv_run_strict :
  chain_ok hatom_ex (fun _ _ => []) no_ops ex_cfg keys_conv false false (@rev _) (fun l => l) rc_t0 [rc_t1; rc_t2] /\
  (wf rc_start = true /\ veqb rc_start rc_t0 = true /\ value_eqb rc_start rc_t0 = false) /\
  chain_okv_run hatom_ex (fun _ _ => []) no_ops ex_cfg keys_conv false false (@rev _) (fun l => l) rc_start rc_t0 [rc_t1; rc_t2] /\
  ~ chain_okv keys_conv false false rc_t0 [rc_t1; rc_t2] /\
  Forall2 (fun res t => snd res = 0 /\ veqb (fst res) t = true)
    (chain_from hatom_ex (fun _ _ => []) no_ops ex_cfg keys_conv false false (@rev _) (fun l => l) rc_start rc_t0 [rc_t1; rc_t2])
    [rc_t1; rc_t2].
Proof. exact chain_okv_run_strict. Qed.
Print Assumptions C01_chain_okv_run_strict.

(* the witness of C01_chain_veq_refuted_rebuild started from its own t1: [chain_okv_run] holds, [chain_okv] fails *)
Example C01_chain_okv_run_strict_rebuild :
  chain_okv_run hatom_ex (fun _ _ => []) no_ops ex_cfg keys_conv false false (@rev _) (fun l => l) rb_t1 rb_t1 [rb_t2] /\
  ~ chain_okv keys_conv false false rb_t1 [rb_t2].
Proof. exact (conj rb_okv_run rb_not_okv). Qed.
Print Assumptions C01_chain_okv_run_strict_rebuild.

(* the older hypothesis [okb_all] / [chain_okv] (every well-formed value equal to the left end up to dict / set order)
   has a decidable sufficient condition: those values are among the finitely many reorderings of the left end
   ([reorders]: every permutation of every dict's items and every set's members, at every depth) *)
Theorem C01_okb_all_decidable_sufficient :
  forall conv bidir always a b, wf a = true -> okb_allb conv bidir always a b = true -> okb_all conv bidir always a b.
Proof. exact okb_allb_sound. Qed.
Print Assumptions C01_okb_all_decidable_sufficient.

Theorem C01_chain_okv_decidable_sufficient :
  forall conv bidir always rest t0, wf t0 = true -> forallb wf rest = true ->
    chain_okvb conv bidir always t0 rest = true -> chain_okv conv bidir always t0 rest.
Proof. exact chain_okvb_sound. Qed.
Print Assumptions C01_chain_okv_decidable_sufficient.

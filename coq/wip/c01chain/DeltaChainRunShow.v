(** C01 - an edit chain run on the model for the correspondence check: the deltas of consecutive
    pairs applied in turn to the RUNNING result, and at every step the boolean [okbb] (the exact
    observation of the hypothesis [okb] of C01_chain_veq_run_partial, DeltaChainRun.okbb_iff) at the
    value the delta is applied to.  The oracles (unified diff, difflib opcodes, constructor calls,
    visiting orders of the sorted passes) are the tables of the step.  No theorem depends on this file. *)
From Coq Require Import List ZArith NArith Bool Arith String.
Import ListNotations.
From DD Require Import Base.Sx Base.PyStr Base.Value Path.PathModel Diff.Tree Diff.DiffModel Diff.DiffShow
  Delta.DeltaModel Delta.DeltaShow Delta.DeltaChainRun Delta.DeltaChainAll.

Record cstep := mkCStep {
  cs_t1 : value;
  cs_t2 : value;
  cs_udiff : list (pystr * pystr * pystr);
  cs_ops : list (path * list opcode);
  cs_conv : list (ty * value * option value);
  cs_rem : list path;
  cs_add : list path;
  cs_all : bool }.        (* evaluate [okb_allb] (all reorderings of t1: factorial) at this step *)

(* Delta(DeepDiff(t1, t2)) of one step, as DeltaChain.delta_of with the step's tables *)
Definition cs_delta (c : cfg) (bidir always : bool) (s : cstep) : delta :=
  let ops := tbl_ops (cs_ops s) in
  let r := run_diff hatom_deep (tbl_udiff (cs_udiff s)) ops no_paths no_paths c (cs_t1 s) (cs_t2 s) in
  to_delta (tbl_conv (cs_conv s)) bidir always ops (cs_t1 s) (cs_t2 s) (fst r) (snd r).

(* per step: [okbb at the running value; [running result (dict / set order forgotten); error logged];
   running result with the insertion order of its dicts (what [okbb] of the later steps depends on);
   okb_allb t1 t2 - the decidable form of the hypothesis [okb_all] of C01_chain_veq_partial - where asked for] *)
Fixpoint chain_run (c : cfg) (bidir always : bool) (cur : value) (steps : list cstep) : list sx :=
  match steps with
  | [] => []
  | s :: r =>
      let cv := tbl_conv (cs_conv s) in
      let res := apply cv (order_by (cs_rem s) fst) (order_by (cs_add s) fst) (cs_delta c bidir always s) cur in
      SL [sx_bool (okbb cv bidir always cur (cs_t1 s) (cs_t2 s)); sx_result res; sx_value (fst res);
          sx_opt sx_bool (if cs_all s then Some (okb_allb cv bidir always (cs_t1 s) (cs_t2 s)) else None)]
        :: chain_run c bidir always (fst res) r
  end.

Definition sx_chain_run (c : cfg) (bidir always : bool) (start : value) (steps : list cstep) : sx :=
  SL (chain_run c bidir always start steps).

(** C19 - the numpy variant of the number distance (range; K22 refuted), and the findings of the
    date / time dispatch and of the root short cut as [_refuted] witnesses inside the model. *)
From Coq Require Import List ZArith NArith Bool Lia.
From Coq Require Import PrimFloat SpecFloat FloatOps FloatAxioms.
Import ListNotations.
From DD Require Import Base.PyStr Base.Value Diff.Tree Diff.DiffModel Dist.DistModel Dist.DistProofs Dist.DistDiffModel.
Local Open Scope float_scope.

(* ---------- order facts through the specification ---------- *)
Lemma is_nan_spec f : is_nan f = true <-> Prim2SF f = S754_nan.
Proof.
  unfold is_nan. rewrite FloatAxioms.eqb_spec. unfold SFeqb. split.
  - intros H. destruct (Prim2SF f) as [s|s| |s m e] eqn:E; try reflexivity;
      (rewrite SFcompare_refl in H; [cbn in H; discriminate H | discriminate]).
  - intros ->. reflexivity.
Qed.
Lemma is_nan_false f : is_nan f = false <-> Prim2SF f <> S754_nan.
Proof.
  rewrite <- is_nan_spec. destruct (is_nan f); split; intros H; try congruence; try reflexivity; exfalso; apply H; reflexivity.
Qed.

Lemma SFcompare_antisym x y c : SFcompare x y = Some c -> SFcompare y x = Some (CompOpp c).
Proof.
  destruct x as [sx|sx| |sx mx ex], y as [sy|sy| |sy my ey]; cbn; try discriminate;
    try (intros [= <-]; try destruct sx; try destruct sy; reflexivity).
  intros [= <-]. f_equal. destruct sx, sy; try reflexivity.
  - rewrite (Z.compare_antisym ex ey). destruct (Z.compare ex ey); cbn; try reflexivity.
    rewrite (Pos.compare_cont_antisym mx my Eq). reflexivity.
  - rewrite (Z.compare_antisym ex ey). destruct (Z.compare ex ey); cbn; try reflexivity.
    rewrite (Pos.compare_cont_antisym mx my Eq). reflexivity.
Qed.

Lemma SFcompare_some x y : x <> S754_nan -> y <> S754_nan -> exists c, SFcompare x y = Some c.
Proof. destruct x, y; cbn; intros Hx Hy; try congruence; eexists; reflexivity. Qed.

Lemma ltb_false_leb a b : Prim2SF a <> S754_nan -> Prim2SF b <> S754_nan -> (a <? b) = false -> (b <=? a) = true.
Proof.
  intros Ha Hb. rewrite ltb_spec, leb_spec. unfold SFltb, SFleb.
  destruct (SFcompare_some _ _ Ha Hb) as [c Hc]. rewrite Hc, (SFcompare_antisym _ _ _ Hc).
  destruct c; cbn; congruence.
Qed.

Lemma zero_not_nan : Prim2SF 0 <> S754_nan.
Proof. rewrite Prim2SF_zero. discriminate. Qed.

(* ---------- _get_numpy_array_distance, element-wise: nan or in [0, max_] ---------- *)
Theorem np_clip_range : forall x mx, (0 <=? mx) = true ->
  is_nan (np_clip x 0 mx) = true \/ in_range mx (np_clip x 0 mx).
Proof.
  intros x mx Hmx. unfold np_clip.
  assert (Hm : Prim2SF mx <> S754_nan) by (eapply leb_not_nan_r; exact Hmx).
  assert (N0 : is_nan 0 = false) by (apply is_nan_false, zero_not_nan).
  assert (Nm : is_nan mx = false) by (apply is_nan_false; exact Hm).
  destruct (is_nan x) eqn:Nx; [left; rewrite Nx; exact Nx|]. rewrite N0.
  assert (Hx : Prim2SF x <> S754_nan) by (apply is_nan_false; exact Nx).
  set (m1 := if x <? 0 then 0 else x).
  assert (H1 : Prim2SF m1 <> S754_nan /\ (0 <=? m1) = true).
  { unfold m1. destruct (x <? 0) eqn:L.
    - split; [apply zero_not_nan | apply leb_refl, zero_not_nan].
    - split; [exact Hx | apply ltb_false_leb; [exact Hx | apply zero_not_nan | exact L]]. }
  destruct H1 as [Hn1 H01]. assert (N1 : is_nan m1 = false) by (apply is_nan_false; exact Hn1).
  rewrite N1, Nm. right. destruct (mx <? m1) eqn:L.
  - split; [exact Hmx | apply leb_refl; exact Hm].
  - split; [exact H01 | apply ltb_false_leb; assumption].
Qed.

Theorem numbers_np_range : forall x y mx, (0 <=? mx) = true ->
  is_nan (numbers_distance_np x y mx) = true \/ in_range mx (numbers_distance_np x y mx).
Proof. intros x y mx H. unfold numbers_distance_np. apply np_clip_range. exact H. Qed.

Definition X := 0x1.fffffffffffffp+1023. Definition Y := (-0x1.fffffffffffffp+1022). Eval vm_compute in (X - Y, (X+Y)/0.25, is_nan X, is_nan Y, numbers_distance_np X Y 0.25, is_nan (numbers_distance_np X Y 0.25), 0 <? 0.25).

(** C19 - the difference of two different finite floats is not zero (gradual underflow):
    [SFsub_nonzero] for valid binary64 values that do not compare equal, from the definitions of
    SFsub / binary_normalize / binary_round (integer difference at the smaller exponent is non-zero
    because canonical representations are unique; rounding a non-zero integer at an exponent >= emin
    never gives zero).  Used to state the first cause of "0 for different numbers" on the inputs. *)
From Coq Require Import List ZArith NArith Bool Lia Zpower.
From Coq Require Import PrimFloat SpecFloat FloatOps FloatAxioms.
From DD Require Import Dist.DistModel Dist.DistProofs.
Local Open Scope Z_scope.

(* ---------- rounding a non-zero integer at an exponent >= emin ---------- *)
Definition fin_or_inf (r : spec_float) : Prop :=
  match r with S754_finite _ _ _ | S754_infinity _ => True | _ => False end.
Lemma fin_or_inf_nonzero r : fin_or_inf r -> sf_is_zero r = false.
Proof. destruct r; cbn; intros H; try reflexivity; destruct H. Qed.

Lemma binary_round_aux_nonzero_emin : forall s p e l, emin <= e ->
  fin_or_inf (binary_round_aux prec emax s (Zpos p) e l).
Proof.
  intros s p e l He. unfold binary_round_aux.
  pose proof (Pos2Z.is_pos (digits2_pos p)) as Hd.
  pose proof (shr_fexp_pos p e l 0 (or_introl eq_refl)) as H1.
  destruct (shr_fexp prec emax (Zpos p) e l) as [mrs' e'].
  destruct H1 as [Hm He']; [lia | lia |]. change (2 ^ 0) with 1 in Hm.
  pose proof (round_ge (shr_m mrs') (loc_of_shr_record mrs')) as Hr.
  destruct (round_nearest_even (shr_m mrs') (loc_of_shr_record mrs')) as [|p2|p2] eqn:E2; [lia | | lia].
  pose proof (Pos2Z.is_pos (digits2_pos p2)) as Hd2.
  assert (He2 : emin <= e') by (destruct He' as [[-> _]|He']; lia).
  pose proof (shr_fexp_pos p2 e' loc_Exact 0 (or_introl eq_refl)) as H2.
  destruct (shr_fexp prec emax (Zpos p2) e' loc_Exact) as [mrs'' e''].
  destruct H2 as [Hm2 _]; [lia | lia |]. change (2 ^ 0) with 1 in Hm2.
  destruct (shr_m mrs'') as [|q|q]; [lia | | lia].
  destruct (Zle_bool e'' (emax - prec)); exact I.
Qed.

Lemma fexp_ge_emin x : emin <= fexp prec emax x.
Proof. unfold fexp. change (SpecFloat.emin prec emax) with emin. lia. Qed.

Lemma binary_round_nonzero s p e : emin <= e -> fin_or_inf (binary_round prec emax s p e).
Proof.
  intros He. unfold binary_round, shl_align.
  destruct (fexp prec emax (Zpos (digits2_pos p) + e) - e) as [|d|d] eqn:Ed.
  - apply binary_round_aux_nonzero_emin. exact He.
  - apply binary_round_aux_nonzero_emin. exact He.
  - apply binary_round_aux_nonzero_emin. apply fexp_ge_emin.
Qed.

Lemma binary_normalize_nonzero m e sz : m <> 0 -> emin <= e -> fin_or_inf (binary_normalize prec emax m e sz).
Proof. intros Hm He. destruct m as [|p|p]; [congruence | |]; cbn [binary_normalize]; apply binary_round_nonzero; exact He. Qed.

(* ---------- canonical representations ---------- *)
Lemma digits_shift_pos d m : Zpos (digits2_pos (shift_pos d m)) = Zpos (digits2_pos m) + Zpos d.
Proof.
  unfold shift_pos. revert m. induction d as [|d IH] using Pos.peano_ind; intros m.
  - cbn. lia.
  - rewrite Pos.iter_succ. cbn [digits2_pos]. rewrite Pos2Z.inj_succ, IH. lia.
Qed.

Lemma shl_align_fst m e ez : ez <= e ->
  Zpos (fst (shl_align m e ez)) = Zpos m * 2 ^ (e - ez) /\
  Zpos (digits2_pos (fst (shl_align m e ez))) = Zpos (digits2_pos m) + (e - ez).
Proof.
  intros H. unfold shl_align. destruct (ez - e) as [|d|d] eqn:Ed; cbn [fst].
  - replace (e - ez) with 0 by lia. cbn. lia.
  - lia.
  - replace (e - ez) with (Zpos d) by lia. split; [|apply digits_shift_pos].
    rewrite shift_pos_correct, Zpower_pos_nat, Zpower_nat_Z, positive_nat_Z. lia.
Qed.

Lemma canonical_exp m e : valid_binary (S754_finite false m e) = true -> fexp prec emax (Zpos (digits2_pos m) + e) = e /\ emin <= e.
Proof.
  cbn. unfold bounded, canonical_mantissa. intros H. apply andb_prop in H. destruct H as [H _].
  apply Zeq_bool_eq in H. split; [exact H|]. rewrite <- H. apply fexp_ge_emin.
Qed.

Lemma pos_lt_pow_digits p : Zpos p < 2 ^ Zpos (digits2_pos p).
Proof. apply digits2_bounds. Qed.

(* aligned mantissas of two different canonical floats of one sign differ *)
Lemma aligned_differ mx ex my ey :
  valid_binary (S754_finite false mx ex) = true -> valid_binary (S754_finite false my ey) = true ->
  (ex <> ey \/ mx <> my) ->
  Zpos (fst (shl_align mx ex (Z.min ex ey))) <> Zpos (fst (shl_align my ey (Z.min ex ey))).
Proof.
  intros Vx Vy Hne E.
  destruct (canonical_exp _ _ Vx) as [Cx _]. destruct (canonical_exp _ _ Vy) as [Cy _].
  destruct (shl_align_fst mx ex (Z.min ex ey) ltac:(lia)) as [_ Dx].
  destruct (shl_align_fst my ey (Z.min ex ey) ltac:(lia)) as [_ Dy].
  assert (ED : Zpos (digits2_pos mx) + ex = Zpos (digits2_pos my) + ey).
  { apply Pos2Z.inj in E. rewrite E in Dx. lia. }
  assert (Ee : ex = ey) by (rewrite <- Cx, <- Cy, ED; reflexivity).
  subst ey. rewrite Z.min_id in E. unfold shl_align in E. rewrite Z.sub_diag in E. cbn in E.
  destruct Hne as [H|H]; congruence.
Qed.

Lemma valid_sign s m e : valid_binary (S754_finite s m e) = valid_binary (S754_finite false m e).
Proof. reflexivity. Qed.

(* ---------- the difference ---------- *)
Definition sf_fin0 (s : spec_float) : bool :=
  match s with S754_zero _ | S754_finite _ _ _ => true | _ => false end.

Theorem SFsub_fin_or_inf : forall x y,
  valid_binary x = true -> valid_binary y = true ->
  sf_fin0 x = true -> sf_fin0 y = true ->
  SFeqb x y = false ->
  fin_or_inf (SFsub prec emax x y).
Proof.
  intros [sx|sx| |sx mx ex] [sy|sy| |sy my ey] Vx Vy Fx Fy Hne; try discriminate Fx; try discriminate Fy; cbn [SFsub].
  - unfold SFeqb in Hne. cbn in Hne. discriminate Hne.
  - exact I.
  - exact I.
  - rewrite valid_sign in Vx, Vy.
    destruct (canonical_exp _ _ Vx) as [_ Ex]. destruct (canonical_exp _ _ Vy) as [_ Ey].
    apply binary_normalize_nonzero; [|lia].
    pose proof (Pos2Z.is_pos (fst (shl_align mx ex (Z.min ex ey)))) as Px.
    pose proof (Pos2Z.is_pos (fst (shl_align my ey (Z.min ex ey)))) as Py.
    destruct sx, sy; cbn [cond_Zopp]; try lia.
    + assert (Hd : ex <> ey \/ mx <> my).
      { destruct (Z.eq_dec ex ey) as [->|]; [|left; assumption]. destruct (Pos.eq_dec mx my) as [->|]; [|right; assumption].
        exfalso. unfold SFeqb in Hne. cbn in Hne. rewrite Z.compare_refl, Pos.compare_cont_refl in Hne. discriminate. }
      pose proof (aligned_differ mx ex my ey Vx Vy Hd). lia.
    + assert (Hd : ex <> ey \/ mx <> my).
      { destruct (Z.eq_dec ex ey) as [->|]; [|left; assumption]. destruct (Pos.eq_dec mx my) as [->|]; [|right; assumption].
        exfalso. unfold SFeqb in Hne. cbn in Hne. rewrite Z.compare_refl, Pos.compare_cont_refl in Hne. discriminate. }
      pose proof (aligned_differ mx ex my ey Vx Vy Hd). lia.
Qed.

(* ---------- on primitive floats: x - y for two different finite numbers is a non-zero number ---------- *)
Local Open Scope float_scope.
Theorem float_sub_nonzero : forall x y : float,
  sf_fin0 (Prim2SF x) = true -> sf_fin0 (Prim2SF y) = true -> (x =? y) = false ->
  fin_or_inf (Prim2SF (x - y)).
Proof.
  intros x y Fx Fy Hne. rewrite sub_spec. unfold SF64sub.
  apply SFsub_fin_or_inf; try assumption; try apply Prim2SF_valid.
  rewrite FloatAxioms.eqb_spec in Hne. exact Hne.
Qed.

(* the guard of "0 only for equal numbers" with its first clause on the inputs: two different finite floats
   (instead of: their computed difference is a finite non-zero float); what stays on computed values is the
   absence of overflow (of the difference, of the divisor) and of underflow (of the quotient) *)
Definition sf_is_inf (s : spec_float) : bool := match s with S754_infinity _ => true | _ => false end.
Definition zero_guard_in (x y mx : float) : bool :=
  let u := Prim2SF (x - y) in
  let d := Prim2SF ((x + y) / mx) in
  sf_fin0 (Prim2SF x) && sf_fin0 (Prim2SF y) && negb (x =? y) &&
  negb (sf_is_inf u) && sf_is_finite d && (emin + 2 <=? sf_mag u - sf_mag d)%Z.

Lemma zero_guard_in_sound x y mx : zero_guard_in x y mx = true -> zero_guard x y mx = true.
Proof.
  unfold zero_guard_in, zero_guard. intros G.
  repeat (apply andb_prop in G; destruct G as [G ?]).
  match goal with H : negb (x =? y) = true |- _ => apply negb_true_iff in H; pose proof (float_sub_nonzero x y G ltac:(assumption) H) as Hu end.
  match goal with H : negb (sf_is_inf _) = true |- _ => apply negb_true_iff in H; rename H into Hi end.
  destruct (Prim2SF (x - y)) as [s|s| |s m e]; cbn in Hu, Hi; try destruct Hu; try discriminate Hi.
  cbn [sf_is_finite andb]. apply andb_true_intro. split; [|assumption]. assumption.
Qed.

Theorem numbers_zero_guarded_inputs : forall a b mx x y v,
  pynum_eq a b = false ->
  to_float a = Some x -> to_float b = Some y ->
  zero_guard_in x y mx = true ->
  numbers_distance a b mx = DVal v -> (v =? 0) = false.
Proof.
  intros a b mx x y v Hne Hx Hy G Hv.
  apply (numbers_zero_guarded a b mx x y v Hne Hx Hy (zero_guard_in_sound x y mx G) Hv).
Qed.

Example zero_guard_in_satisfiable :
  zero_guard_in 2 0.5 1 = true /\ zero_guard_in 0x1.199999999999ap+0 0x1.3333333333333p+0 0x1.3333333333333p-2 = true /\
  zero_guard_in 9007199254740992 9007199254740992 1 = false.     (* float(2**53) = float(2**53 + 1): K14b is the clause x =? y *)
Proof. repeat split; vm_compute; reflexivity. Qed.

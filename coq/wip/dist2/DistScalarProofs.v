(** C19 - the numpy variant of the number distance (range; K22 refuted), and the findings of the
    date / time dispatch and of the root short cut as [_refuted] witnesses inside the model. *)
From Coq Require Import List ZArith NArith Bool Lia.
From Coq Require Import PrimFloat SpecFloat FloatOps FloatAxioms.
Import ListNotations.
From DD Require Import Base.PyStr Base.Value Diff.Tree Diff.DiffModel Dist.DistModel Dist.DistProofs Dist.DistDiffModel Dist.DistDiffProofs.
Local Open Scope float_scope.

(* ---------- order facts through the specification ---------- *)
Lemma is_nan_spec f : is_nan f = true <-> Prim2SF f = S754_nan.
Proof.
  unfold is_nan. rewrite FloatAxioms.eqb_spec. unfold SFeqb. split.
  - intros H. destruct (Prim2SF f) as [s|s| |s m e] eqn:E; try reflexivity;
      (rewrite SFcompare_refl in H; [cbn in H; discriminate H | discriminate]).
  - intros ->. reflexivity.
Qed.
Lemma is_nan_false f : is_nan f = false <-> Prim2SF f <> S754_nan.
Proof.
  rewrite <- is_nan_spec. destruct (is_nan f); split; intros H; try congruence; try reflexivity; exfalso; apply H; reflexivity.
Qed.

Lemma SFcompare_antisym x y c : SFcompare x y = Some c -> SFcompare y x = Some (CompOpp c).
Proof.
  destruct x as [sx|sx| |sx mx ex], y as [sy|sy| |sy my ey]; cbn; try discriminate;
    try (intros [= <-]; try destruct sx; try destruct sy; reflexivity).
  intros [= <-]. f_equal. destruct sx, sy; try reflexivity.
  - rewrite (Z.compare_antisym ex ey). destruct (Z.compare ex ey); cbn; try reflexivity.
    rewrite (Pos.compare_cont_antisym mx my Eq). reflexivity.
  - rewrite (Z.compare_antisym ex ey). destruct (Z.compare ex ey); cbn; try reflexivity.
    rewrite (Pos.compare_cont_antisym mx my Eq). reflexivity.
Qed.

Lemma SFcompare_some x y : x <> S754_nan -> y <> S754_nan -> exists c, SFcompare x y = Some c.
Proof. destruct x, y; cbn; intros Hx Hy; try congruence; eexists; reflexivity. Qed.

Lemma ltb_false_leb a b : Prim2SF a <> S754_nan -> Prim2SF b <> S754_nan -> (a <? b) = false -> (b <=? a) = true.
Proof.
  intros Ha Hb. rewrite ltb_spec, leb_spec. unfold SFltb, SFleb.
  destruct (SFcompare_some _ _ Ha Hb) as [c Hc]. rewrite Hc, (SFcompare_antisym _ _ _ Hc).
  destruct c; cbn; congruence.
Qed.

Lemma zero_not_nan : Prim2SF 0 <> S754_nan.
Proof. rewrite Prim2SF_zero. discriminate. Qed.

(* ---------- _get_numpy_array_distance, element-wise: nan or in [0, max_] ---------- *)
Theorem np_clip_range : forall x mx, (0 <=? mx) = true ->
  is_nan (np_clip x 0 mx) = true \/ in_range mx (np_clip x 0 mx).
Proof.
  intros x mx Hmx. unfold np_clip.
  assert (Hm : Prim2SF mx <> S754_nan) by (eapply leb_not_nan_r; exact Hmx).
  assert (N0 : is_nan 0 = false) by (apply is_nan_false, zero_not_nan).
  assert (Nm : is_nan mx = false) by (apply is_nan_false; exact Hm).
  destruct (is_nan x) eqn:Nx; [left; rewrite Nx; exact Nx|]. rewrite N0.
  assert (Hx : Prim2SF x <> S754_nan) by (apply is_nan_false; exact Nx).
  set (m1 := if x <? 0 then 0 else x).
  assert (H1 : Prim2SF m1 <> S754_nan /\ (0 <=? m1) = true).
  { unfold m1. destruct (x <? 0) eqn:L.
    - split; [apply zero_not_nan | apply leb_refl, zero_not_nan].
    - split; [exact Hx | apply ltb_false_leb; [exact Hx | apply zero_not_nan | exact L]]. }
  destruct H1 as [Hn1 H01]. assert (N1 : is_nan m1 = false) by (apply is_nan_false; exact Hn1).
  rewrite N1, Nm. right. destruct (mx <? m1) eqn:L.
  - split; [exact Hmx | apply leb_refl; exact Hm].
  - split; [exact H01 | apply ltb_false_leb; assumption].
Qed.

Theorem numbers_np_range : forall x y mx, (0 <=? mx) = true ->
  is_nan (numbers_distance_np x y mx) = true \/ in_range mx (numbers_distance_np x y mx).
Proof. intros x y mx H. unfold numbers_distance_np. apply np_clip_range. exact H. Qed.

(* K22: 0 for different numbers - result[a == b] = 0 compares the numerator with the divisor *)
Theorem numbers_np_zero_refuted :
  exists x y mx, (x =? y) = false /\ (0 <? mx) = true /\ numbers_distance_np x y mx = 0 /\
                 numbers_distance (PFloat x) (PFloat y) mx = DVal mx.
Proof. exists 5, 0, 1. repeat split; vm_compute; reflexivity. Qed.

(* ... and nan is really produced (overflow of num1 + num2 and of num1 - num2) *)
Theorem numbers_np_nan_refuted :
  exists x y mx, (0 <? mx) = true /\ is_nan x = false /\ is_nan y = false /\ is_nan (numbers_distance_np x y mx) = true.
Proof. exists 0x1.fffffffffffffp+1022, (-0x1.fffffffffffffp+1023), 0.25. repeat split; vm_compute; reflexivity. Qed.

(* ---------- the findings of the date / time dispatch and of the root call, inside the model ---------- *)
Local Close Scope float_scope.
Local Open Scope Z_scope.

(* K20: a datetime is a date - datetime(2020,1,1,5,0) vs date(2020,1,1) are compared by ordinal: the int 0 *)
Theorem scalars_zero_refuted_date_vs_datetime :
  exists s1 s2 mx, (0 <? mx)%float = true /\
    (match s1, s2 with SDateTime _ _, SDate _ => True | _, _ => False end) /\
    numeric_types_distance s1 s2 mx = Some DInt0.
Proof. exists (SDateTime 737425 (TsNaive 1577854800 0)), (SDate 737425), 1%float. repeat split. Qed.

Definition nf (_ : path) : bool := false.
Definition no_hash (_ : atom) : pystr := [].
Definition no_udiff (_ _ : pystr) : pystr := [].
Definition all_incl (_ _ : value) : bool := true.
Definition Iz (z : Z) : value := VAtom (AInt z).

(* K23: 1 vs 1.0 at the root - the diff reports a type change, the numeric short cut answers 0 *)
Theorem deep_distance_positive_refuted_root_numbers :
  fst (diff no_hash no_udiff (fun _ _ _ => []) nf nf ex_cfg (Iz 1) (VAtom (AHalf 2)) [] []) <> [] /\
  deep_distance_of_diff no_hash no_udiff (fun _ _ _ => []) nf nf ex_cfg all_incl 0x1.3333333333333p-2%float (Iz 1) (VAtom (AHalf 2)) = RDist DInt0.
Proof. split; [vm_compute; discriminate | vm_compute; reflexivity]. Qed.

(* K24: [1,2,3,5,6] vs [1,2,4,3,5,6,7] with difflib's opcodes (two insertions): both added items are reported,
   the delta view leaves them to '_iterable_opcodes', which the operation count skips: the int 0 *)
Definition k24_ops (_ : path) (_ _ : list value) : list opcode :=
  [mkOp OEqual 0 2 0 2; mkOp OInsert 2 2 2 3; mkOp OEqual 2 5 3 6; mkOp OInsert 5 5 6 7].
Definition k24_t1 := VList [Iz 1; Iz 2; Iz 3; Iz 5; Iz 6].
Definition k24_t2 := VList [Iz 1; Iz 2; Iz 4; Iz 3; Iz 5; Iz 6; Iz 7].
Theorem deep_distance_positive_refuted_opcodes :
  ops_tiling k24_ops /\
  List.length (fst (diff no_hash no_udiff k24_ops nf nf ex_cfg k24_t1 k24_t2 [] [])) = 2%nat /\
  deep_distance_of_diff no_hash no_udiff k24_ops nf nf ex_cfg all_incl 0x1.3333333333333p-2%float k24_t1 k24_t2 = RInt0.
Proof. repeat split; vm_compute; reflexivity. Qed.

(* K14b for datetimes: timestamp() is a double; two aware datetimes one microsecond apart in the year 2255
   (2^53 us after the epoch) convert to the same float: the int 0 for different instants *)
Theorem scalars_zero_refuted_datetime_collapse :
  exists o us1 us2 mx, us1 <> us2 /\ (0 <? mx)%float = true /\
    numeric_types_distance (SDateTime o (TsAware us1)) (SDateTime o (TsAware us2)) mx = Some DInt0.
Proof. exists 823412, 9007199254740993, 9007199254740994, 1%float. split; [lia|]. split; vm_compute; reflexivity. Qed.

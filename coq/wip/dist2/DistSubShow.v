(** Correspondence-side rendering of the input-level zero guard (no theorem depends on this file). *)
From Coq Require Import List ZArith Bool String.
From Coq Require Import PrimFloat.
From DD Require Import Base.Sx Dist.DistModel Dist.DistSubProofs.
Local Open Scope string_scope.

(* the guard of C19_numbers_zero_partial_inputs on concrete numbers (None when a conversion overflows) *)
Definition sx_zero_guard_in (a b : pynum) (mx : float) : sx :=
  match to_float a, to_float b with
  | Some x, Some y => sx_bool (zero_guard_in x y mx)
  | _, _ => SA "None"
  end.

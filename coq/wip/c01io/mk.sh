#!/bin/bash
# compile wip files in order under the logical name DD.Delta
cd /verif/coq/wip/c01io
for f in "$@"; do
  timeout 1200 coqc -Q /verif/coq/theories DD -Q . DD.Delta $f 2>&1 | grep -v conda | head -${LINES_MAX:-40}
done

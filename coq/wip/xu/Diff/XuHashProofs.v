(** Witnesses with the CONCRETE item hash of Diff/XuHash.v (DeepHash's serialisation of set members): the
    tzinfo of a datetime.time member is lost (finding C02-TIME-TZ-IN-SET) and a naive datetime member is hashed as
    the UTC datetime with its wall clock (finding C02-NAIVE-AWARE for set members) - for EVERY hasher and EVERY
    str() / seconds oracle: the collisions are structural. *)
From Coq Require Import List ZArith NArith Bool Arith Lia.
Import ListNotations.
From DD Require Import Base.PyStr Diff.XuValue Diff.XuFacts Diff.XuTree Diff.XuModel Diff.XuDiffFacts
  Diff.XuLemmas Diff.XuEmpty Diff.XuHash.

Section Collisions.
Variable H : pystr -> pystr.
Variable xstr : atom -> pystr.
Variable secs : Z -> pystr.
Notation h := (xhash_atom H xstr secs).

(* two times with the same time of day have one hash, whatever their tzinfo *)
Lemma time_hash_ignores_tz us o1 o2 : h (ATime us o1) = h (ATime us o2).
Proof. reflexivity. Qed.

(* a naive datetime has the hash of the UTC-aware datetime with the same wall clock *)
Lemma naive_hash_is_utc us : h (ADt us None) = h (ADt us (Some 0%Z)).
Proof. unfold xhash_atom, exotic_text. cbn [to_base dt_norm]. rewrite Z.mul_0_l, Z.sub_0_r. reflexivity. Qed.

(* ... and an aware datetime the hash of the same instant in any other zone *)
Lemma aware_hash_is_instant u1 o1 u2 o2 :
  (u1 - o1 * usmin = u2 - o2 * usmin)%Z -> h (ADt u1 (Some o1)) = h (ADt u2 (Some o2)).
Proof. intros E. unfold xhash_atom, exotic_text. cbn [to_base dt_norm]. rewrite E. reflexivity. Qed.

Variable udiff : pystr -> pystr -> pystr.
Variable ops : path -> list value -> list value -> list opcode.
Variable excl : path -> bool.
Variable c : cfg.

(* {time(1,2,3,tzinfo=utc)} vs {time(1,2,3,tzinfo=+02:00)}, and {time(1,2,3)} vs {time(1,2,3,tzinfo=utc)}:
   nothing reported, not == *)
Definition t_utc : atom := ATime 3723000000 (Some 0%Z).
Definition t_p2 : atom := ATime 3723000000 (Some 120%Z).
Definition t_naive : atom := ATime 3723000000 None.

Lemma set_same_hash (a b : atom) (p : path) : h a = h b -> diff_set h noskip [a] [b] p p = [].
Proof.
  intros E. unfold diff_set. cbn [first_per_hash existsb map flat_map app]. rewrite E, !pystr_eqb_refl. reflexivity.
Qed.

Lemma run_set_same_hash (frozen : bool) (a b : atom) :
  h a = h b ->
  fst (run_diff h udiff ops noskip excl c (if frozen then VFrozen [a] else VSet [a]) (if frozen then VFrozen [b] else VSet [b])) = [].
Proof.
  intros E. unfold run_diff. destruct frozen; cbn [diff type_of ty_eqb negb]; rewrite (set_same_hash a b [] E); reflexivity.
Qed.

Theorem empty_sound_refuted_time_tz :
  (forall frozen : bool, fst (run_diff h udiff ops noskip excl c (if frozen then VFrozen [t_utc] else VSet [t_utc]) (if frozen then VFrozen [t_p2] else VSet [t_p2])) = []) /\
  (forall frozen : bool, fst (run_diff h udiff ops noskip excl c (if frozen then VFrozen [t_naive] else VSet [t_naive]) (if frozen then VFrozen [t_utc] else VSet [t_utc])) = []) /\
  py_eqv (VSet [t_utc]) (VSet [t_p2]) = false /\ py_eqv (VSet [t_naive]) (VSet [t_utc]) = false /\
  wf (VSet [t_utc]) = true /\ wf (VSet [t_p2]) = true /\ wf (VSet [t_naive]) = true.
Proof.
  split; [intros f; apply (run_set_same_hash f); apply time_hash_ignores_tz|].
  split; [intros f; apply (run_set_same_hash f); apply time_hash_ignores_tz|].
  repeat split; vm_compute; reflexivity.
Qed.

(* {datetime(2024,5,17,22,15,34)} vs {the same with tzinfo=utc}: nothing reported, not == *)
Theorem empty_sound_refuted_naive_aware_in_set :
  (forall frozen : bool, fst (run_diff h udiff ops noskip excl c (if frozen then VFrozen [na_naive] else VSet [na_naive]) (if frozen then VFrozen [na_aware] else VSet [na_aware])) = []) /\
  py_eqv (VSet [na_naive]) (VSet [na_aware]) = false.
Proof.
  split; [intros f; apply (run_set_same_hash f); apply naive_hash_is_utc|]. vm_compute. reflexivity.
Qed.
End Collisions.

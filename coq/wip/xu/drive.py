"""development driver for harness/xucommon.py (XU_WIP=1: model files from coq/wip/xu/Diff)"""
import os, sys, time, resource
sys.path.insert(0, "/verif")
from harness import core
REPO = os.environ.get("DEEPDIFF_REPO", "/repo")
sys.path.insert(0, REPO)
os.environ["PYTHONPATH"] = REPO
if os.environ.get("XU_WIP"):
    _sh = core.sh
    def sh(cmd, timeout=600, cwd=None, env=None):
        if isinstance(cmd, list) and cmd[0] == "coqc":
            cmd = cmd[:1] + ["-Q", "/verif/coq/wip/xu/Diff", "DD.Diff"] + cmd[1:]
        return _sh(cmd, timeout=timeout, cwd=cwd, env=env)
    core.sh = sh
    core.Ctx.ensure_built = lambda self, header: None
from harness import xucommon as X
import deepdiff
print("deepdiff from", deepdiff.__file__)
tier = os.environ.get("VERIF_TIER", "quick")
ctx = core.Ctx("C02", tier, int(os.environ.get("VERIF_SEED", "20260929")))
n = int(os.environ.get("XU_N", "40"))
t0 = time.time(); c0 = time.process_time()
pairs = X.gen_pairs(ctx.rng, n)
which = os.environ.get("XU_STREAM", "c02,c03")
if "c02" in which: X.stream_c02(ctx, pairs)
if "c03" in which: X.stream_c03(ctx, pairs)
ru = resource.getrusage(resource.RUSAGE_CHILDREN)
print("pairs", len(pairs), "cases", ctx.corr_cases, "mismatches", ctx.corr_mismatch, "wall %.1fs" % (time.time() - t0),
      "cpu self %.1fs children %.1fs" % (time.process_time() - c0, ru.ru_utime + ru.ru_stime))
for k in sorted(ctx.counts): print("  ", k, ctx.counts[k])
for b in ctx.breaks[:int(os.environ.get("XU_SHOW", "6"))]:
    print("BREAK", b["kind"])
    for k, v in b["detail"].items(): print("    ", k, ":", str(v)[:1800])
import shutil; shutil.rmtree(ctx.scratch, ignore_errors=True)
sys.exit(1 if ctx.breaks else 0)

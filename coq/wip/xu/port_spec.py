src=open('/verif/coq/theories/Diff/DiffSpecProofs.v').read()
_i1=src.index("(* ------------------------------------------------------------------ *)\n(** * Part 1: no path is both added")
_i2=src.index("(* ------------------------------------------------------------------ *)\n(** * Part 2: the text view")
_i3=src.index("(* the model of the real item hash (memo-free DeepHash of a scalar")
head=src[:_i1]; p2=src[_i2:_i3]; part1=open('/verif/coq/wip/xu/part1.v.txt').read()
TAIL=open('/verif/coq/wip/xu/xu_spec_tail.v.txt').read()
def R(s,a,b,cnt=1):
    assert s.count(a)==cnt or (cnt is None and s.count(a)>=1), (s.count(a), a[:70])
    return s.replace(a,b)
head=R(head,'''From DD Require Import Base.PyStr Base.Value Base.ValueFacts Path.PathModel
  Diff.Tree Diff.DiffModel Diff.TextView Diff.DiffFacts Diff.DiffFaithful Diff.DiffEmpty Diff.Spec.''','''From DD Require Import Base.PyStr Path.PathModel Diff.XuValue Diff.XuFacts
  Diff.XuTree Diff.XuModel Diff.XuTextView Diff.XuDiffFacts Diff.XuLemmas Diff.XuEmpty Diff.XuSpec.''')
head=R(head,"(** C03: in positional mode","(** Port of Diff/DiffSpecProofs.v to the extended universe Diff/XuValue.v.  New: part 1 is proved with a small\n    local [resolve] (dict key / sequence index lookup) instead of the C04 theorem; the leaf guard [dt_utc] (every\n    datetime LEAF is already aware-UTC, i.e. what datetime_normalize returns) under which the reported values are\n    the input's values.\n\n    C03: in positional mode")
head=R(head,'''Lemma text_view_app v a b : text_view v (a ++ b) = text_view v a ++ text_view v b.
Proof. unfold text_view. apply flat_map_app. Qed.''','''Lemma text_view_app xrepr xstr v a b : text_view xrepr xstr v (a ++ b) = text_view xrepr xstr v a ++ text_view xrepr xstr v b.
Proof. unfold text_view. apply flat_map_app. Qed.''')
head=R(head,'''Section SpecFacts.
Variable udiff : pystr -> pystr -> pystr.
Variable ip : bool.
Notation spec := (spec udiff ip).
''','''Section SpecFacts.
Variable xrepr xstr : atom -> pystr.
Variable udiff : pystr -> pystr -> pystr.
Variable ip : bool.
Notation spec := (spec xrepr xstr udiff ip).
Notation render := (render xrepr).
Notation set_item_text := (set_item_text xrepr xstr).
''')
head=R(head,"Proof. intros T. destruct t1; cbn [Spec.spec]; rewrite T; reflexivity. Qed.","Proof. intros T. destruct t1; cbn [XuSpec.spec]; rewrite T; reflexivity. Qed.")
head=R(head,"Proof. intros T. cbn [Spec.spec type_of]. rewrite T. reflexivity. Qed.","Proof. intros T. cbn [XuSpec.spec type_of]. rewrite T. reflexivity. Qed.")
p2=R(p2,'''Section Positional.
Variable hatom : atom -> pystr.
Variable udiff : pystr -> pystr -> pystr.''','''(* the leaf guard of C03: a datetime leaf is already aware-UTC (datetime_normalize is the identity on it) *)
Definition dt_utc (a : atom) : bool :=
  match a with
  | ADt _ o => optz_eqb o (Some 0%Z)
  | _ => true
  end.
Lemma dt_utc_norm a : dt_utc a = true -> dt_norm a = a.
Proof.
  destruct a as [| | | | | |us o| | | |]; try reflexivity. cbn [dt_utc]. intros H. apply optz_eqb_eq in H. subst o.
  cbn [dt_norm]. rewrite Z.mul_0_l, Z.sub_0_r. reflexivity.
Qed.

Section Positional.
Variable xrepr xstr : atom -> pystr.
Variable hatom : atom -> pystr.
Variable udiff : pystr -> pystr -> pystr.''')
p2=R(p2,'''Notation guard := (inputs_ok any_atom ok).
Notation diff := (diff hatom udiff ops noskip excl c).
Notation spec := (spec udiff ip).
Notation tv := (text_view 2).
''','''Notation guard := (inputs_ok any_atom ok dt_utc).
Notation diff := (diff hatom udiff ops noskip excl c).
Notation spec := (spec xrepr xstr udiff ip).
Notation tv := (text_view xrepr xstr 2).
Notation render := (render xrepr).
Notation set_item_text := (set_item_text xrepr xstr).
Notation spec_sets := (spec_sets xrepr xstr).
''')
p2=R(p2,'''  destruct k as [| | | |s|s]; try reflexivity.
  destruct s as [|c1 [|c2 r]]; cbn; try reflexivity.''','''  destruct k as [| | | |s|s| | | | |]; try reflexivity.
  destruct s as [|c1 [|c2 r]]; cbn; try reflexivity.''')
p2=R(p2,'''Lemma new_path_same e : ep1 e = ep2 e -> new_path_of e = None.''','''Lemma new_path_same xrepr e : ep1 e = ep2 e -> new_path_of xrepr e = None.''')
p2=R(p2,'''Lemma tv_diff_atom a b p :
  ty_eqb (atom_ty a) (atom_ty b) = true ->
  tv (diff_atom udiff noskip a b p p) = spec (VAtom a) (VAtom b) p.
Proof.
  intros T. rewrite spec_atom by exact T. unfold diff_atom. rewrite T. cbn [negb].
  destruct a as [|x|x|x|s|s], b as [|y|y|y|t|t]; try discriminate T;
    try (destruct (py_eq _ _); [reflexivity|apply tv_report_value]).''','''Lemma tv_diff_atom a b p :
  dt_utc a = true -> dt_utc b = true ->
  ty_eqb (atom_ty a) (atom_ty b) = true ->
  tv (diff_atom udiff noskip a b p p) = spec (VAtom a) (VAtom b) p.
Proof.
  intros Ua Ub T. rewrite spec_atom by exact T. unfold diff_atom. rewrite T. cbn [negb].
  destruct a as [|x|x|x|s|s|u1 o1|x|u1 o1|x|m1 e1], b as [|y|y|y|t|t|u2 o2|y|u2 o2|y|m2 e2]; try discriminate T;
    try (destruct (py_eq _ _); [reflexivity|apply tv_report_value]).''')
p2=R(p2,'''              (existsb (N.eqb 10) s || existsb (N.eqb 10) t)); rewrite tv_report_value; reflexivity.
Qed.''','''              (existsb (N.eqb 10) s || existsb (N.eqb 10) t)); rewrite tv_report_value; reflexivity.
  - rewrite (dt_utc_norm _ Ua), (dt_utc_norm _ Ub).
    destruct (py_eq (ADt u1 o1) (ADt u2 o2)); [reflexivity|apply tv_report_value].
Qed.''')
p2=R(p2,"tv (fst (go_list noskip diff p p xs ys i)) = spec_zip udiff ip p xs ys i.","tv (fst (go_list noskip diff p p xs ys i)) = spec_zip xrepr xstr udiff ip p xs ys i.")
p2=R(p2,"tv (fst (go_common c diff kvs2 (keys_of c kvs2) p p l)) = spec_common udiff ip kvs2 p l.","tv (fst (go_common c diff kvs2 (keys_of c kvs2) p p l)) = spec_common xrepr xstr udiff ip kvs2 p l.")
p2=R(p2,'''  - rewrite diff_atom_eq by reflexivity. cbn [type_of] in T. rewrite T. cbn [negb fst]. apply tv_diff_atom. exact T.''','''  - rewrite diff_atom_eq by reflexivity. cbn [type_of] in T. rewrite T. cbn [negb fst]. apply tv_diff_atom; assumption.''')
p2=R(p2,'''  text_view 2 (fst (run_diff hatom udiff ops noskip excl c t1 t2)) = spec_diff udiff ip t1 t2.
Proof.
  intros W1 W2 G1 G2. rewrite fst_run_diff.
  rewrite positional_mutual_id by (try assumption; try reflexivity; cbn; lia).''','''  text_view xrepr xstr 2 (fst (run_diff hatom udiff ops noskip excl c t1 t2)) = spec_diff xrepr xstr udiff ip t1 t2.
Proof.
  intros W1 W2 G1 G2. rewrite fst_run_diff.
  rewrite positional_mutual_id by (try assumption; reflexivity).''')
p2=R(p2,'''Theorem positional_run_is_spec hatom udiff ops excl d ip t1 t2 :
  (forall a b, hatom a = hatom b -> a = b) ->
  wf t1 = true -> wf t2 = true ->
  text_view 2 (fst (run_diff hatom udiff ops noskip excl (mkCfg true 0 d ip) t1 t2)) = spec_diff udiff ip t1 t2.
Proof.
  intros Hinj W1 W2.
  apply (positional_run_is_spec_guarded hatom udiff ops excl d ip any_atom); try assumption.
  - intros a b _ _. apply Hinj.
  - apply inputs_ok_true; reflexivity.
  - apply inputs_ok_true; reflexivity.
Qed.''','''Theorem positional_run_is_spec xrepr xstr hatom udiff ops excl d ip t1 t2 :
  (forall a b, hatom a = hatom b -> a = b) ->
  wf t1 = true -> wf t2 = true ->
  inputs_ok any_atom any_atom dt_utc t1 = true -> inputs_ok any_atom any_atom dt_utc t2 = true ->
  text_view xrepr xstr 2 (fst (run_diff hatom udiff ops noskip excl (mkCfg true 0 d ip) t1 t2)) = spec_diff xrepr xstr udiff ip t1 t2.
Proof.
  intros Hinj W1 W2 G1 G2.
  apply (positional_run_is_spec_guarded xrepr xstr hatom udiff ops excl d ip any_atom); try assumption.
  intros a b _ _. apply Hinj.
Qed.''')
open("/verif/coq/wip/xu/Diff/XuSpecProofs.v","w").write((head+part1+p2).replace("tail_items TIter","tail_items xrepr TIter").replace("Local Opaque render set_item_text pystr_eqb.","Local Opaque XuTextView.render XuTextView.set_item_text pystr_eqb.")+TAIL)

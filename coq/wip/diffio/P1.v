From Coq Require Import List ZArith NArith Bool Arith Lia Permutation.
Import ListNotations.
From DD Require Import Base.PyStr Base.Value Base.ValueFacts Diff.Tree Diff.DiffModel Hash.HashModel Hash.Equiv
  Hash.HashProofsBase Hash.HashProofsC06 DiffIO.DiffIOModel.

Definition no_skip (_ : path) : bool := false.

(* ---- small list facts ---- *)
Lemma mem_h_In h l : mem_h h l = true <-> In h l.
Proof.
  unfold mem_h. rewrite existsb_exists. split.
  - intros [x [Hi He]]. apply HashProofsBase.pystr_eqb_eq in He. subst. exact Hi.
  - intros Hi. exists h. split; auto. apply HashProofsBase.pystr_eqb_refl.
Qed.
Lemma mem_h_false h l : mem_h h l = false <-> ~ In h l.
Proof.
  rewrite <- mem_h_In. destruct (mem_h h l); split; intro X; try discriminate; try reflexivity.
  exfalso; apply X; reflexivity.
Qed.

Lemma indexes_length h l i : length (indexes_of h l i) = count h l.
Proof.
  revert i; induction l as [|x r IH]; intros i; cbn [indexes_of]; [reflexivity|].
  unfold count in *. cbn [filter]. destruct (pystr_eqb h x); cbn [app length]; rewrite IH; reflexivity.
Qed.

Lemma indexes_nth h l i k : In k (indexes_of h l i) -> i <= k /\ nth_error l (k - i) = Some h.
Proof.
  revert i; induction l as [|x r IH]; intros i; cbn [indexes_of]; [intros []|].
  intros Hin. apply in_app_or in Hin as [Hin|Hin].
  - destruct (pystr_eqb h x) eqn:E; [|destruct Hin]. destruct Hin as [<-|[]].
    apply HashProofsBase.pystr_eqb_eq in E. subst. rewrite Nat.sub_diag. auto.
  - apply IH in Hin as [Hle Hn]. split; [lia|].
    replace (k - i) with (S (k - S i)) by lia. exact Hn.
Qed.

Lemma indexes_nonempty h l i : In h l -> indexes_of h l i <> [].
Proof.
  intros Hin He. apply (f_equal (@length nat)) in He. rewrite indexes_length in He. cbn in He.
  pose proof (count_pos h l Hin). lia.
Qed.

Lemma first_of_index h l : In h l -> nth_error l (first_of (indexes_of h l 0)) = Some h.
Proof.
  intros Hin. pose proof (indexes_nonempty h l 0 Hin) as Hne.
  destruct (indexes_of h l 0) as [|k ks] eqn:E; [congruence|]. cbn [first_of hd].
  assert (Hk : In k (indexes_of h l 0)) by (rewrite E; left; reflexivity).
  apply indexes_nth in Hk as [_ Hk]. rewrite Nat.sub_0_r in Hk. exact Hk.
Qed.

Lemma nth_error_map_inv {A B} (f : A -> B) l i b : nth_error (map f l) i = Some b -> exists a, nth_error l i = Some a /\ f a = b.
Proof.
  revert i; induction l as [|x r IH]; intros [|i]; cbn; try discriminate.
  - intros E; inversion E. eauto.
  - apply IH.
Qed.

Lemma filter_nil {A} (f : A -> bool) l : (forall x, In x l -> f x = false) -> filter f l = [].
Proof.
  induction l as [|x r IH]; intros Hf; cbn; [reflexivity|].
  rewrite (Hf x (or_introl eq_refl)). apply IH. intros; apply Hf; right; auto.
Qed.
Lemma filter_nil_inv {A} (f : A -> bool) l x : filter f l = [] -> In x l -> f x = false.
Proof.
  induction l as [|y r IH]; cbn; [intros _ []|].
  destruct (f y) eqn:E; [discriminate|]. intros Hn [<-|Hi]; auto.
Qed.
Lemma flat_map_nil {A B} (f : A -> list B) l : (forall x, In x l -> f x = []) -> flat_map f l = [].
Proof.
  induction l as [|x r IH]; intros Hf; cbn; [reflexivity|].
  rewrite (Hf x (or_introl eq_refl)). apply IH. intros; apply Hf; right; auto.
Qed.
Lemma flat_map_nil_inv {A B} (f : A -> list B) l x : flat_map f l = [] -> In x l -> f x = [].
Proof.
  induction l as [|y r IH]; cbn; [intros _ []|].
  intros Hn. apply app_eq_nil in Hn as [H1 H2]. intros [<-|Hi]; auto.
Qed.
Lemma concat_res_nil {A} (f : A -> res) l : (forall x, In x l -> f x = ([], [])) -> concat_res (map f l) = ([], []).
Proof.
  unfold concat_res. induction l as [|x r IH]; intros Hf; cbn [map fold_right]; [reflexivity|].
  rewrite (Hf x (or_introl eq_refl)). rewrite IH; [reflexivity|]. intros; apply Hf; right; auto.
Qed.

Lemma filter_map_fst {B} (f : atom -> bool) (l : list (atom * B)) :
  filter f (map fst l) = map fst (filter (fun kv => f (fst kv)) l).
Proof. induction l as [|[k v] r IH]; cbn; [reflexivity|]. destruct (f k); cbn; rewrite IH; reflexivity. Qed.

(* ---- py_eq-keyed lists without duplicates ---- *)
Lemma nodup_find k l : nodup_atoms l = true -> In k l -> find (py_eq k) l = Some k.
Proof.
  induction l as [|x r IH]; cbn [nodup_atoms find]; [intros _ []|].
  intros Hn Hin. apply andb_true_iff in Hn as [Hx Hr].
  destruct Hin as [->|Hin]; [rewrite py_eq_refl; reflexivity|].
  destruct (py_eq k x) eqn:E; [|auto].
  exfalso. apply negb_true_iff in Hx. assert (mem_atom x r = true); [|congruence].
  apply mem_atom_In. exists k. split; auto. rewrite py_eq_sym. exact E.
Qed.
Lemma nodup_assoc {B} k (v : B) l : nodup_atoms (map fst l) = true -> In (k, v) l -> assoc k l = Some v.
Proof.
  induction l as [|[x w] r IH]; cbn [nodup_atoms map fst assoc]; [intros _ []|].
  intros Hn Hin. apply andb_true_iff in Hn as [Hx Hr].
  destruct Hin as [E|Hin]; [inversion E; subst; rewrite py_eq_refl; reflexivity|].
  destruct (py_eq x k) eqn:E; [|auto].
  exfalso. apply negb_true_iff in Hx. assert (mem_atom x (map fst r) = true); [|congruence].
  apply mem_atom_In. exists k. split; auto. apply in_map_iff. exists (k, v). auto.
Qed.
Lemma nodup_filter f l : nodup_atoms l = true -> nodup_atoms (filter f l) = true.
Proof.
  induction l as [|x r IH]; cbn [nodup_atoms filter]; [auto|].
  intros Hn. apply andb_true_iff in Hn as [Hx Hr]. destruct (f x); cbn [nodup_atoms]; auto.
  rewrite IH by auto. rewrite andb_true_r. apply negb_true_iff. apply negb_true_iff in Hx.
  destruct (mem_atom x (filter f r)) eqn:E; [|reflexivity].
  apply mem_atom_In in E as [b [Hb Hp]]. apply filter_In in Hb as [Hb _].
  assert (mem_atom x r = true) by (apply mem_atom_In; eauto). congruence.
Qed.
Lemma nodup_NoDup l : nodup_atoms l = true -> NoDup l.
Proof.
  induction l as [|x r IH]; cbn [nodup_atoms]; intros Hn; constructor.
  - apply andb_true_iff in Hn as [Hx _]. apply negb_true_iff in Hx. intro Hin.
    assert (mem_atom x r = true) by (apply mem_atom_In; exists x; split; auto; apply py_eq_refl). congruence.
  - apply andb_true_iff in Hn as [_ Hr]. auto.
Qed.

Section Proofs.
Variable H : pystr -> pystr.
Variable udiff : pystr -> pystr -> pystr.
Variable excl : path -> bool.
Variable c : cfg.
Variable rep : bool.
Variable pairs : path -> list (nat * nat).
Hypothesis thr_le_one : thr_num c <= thr_den c.

Notation o := (io_opts c rep).
Notation dio := (diff_io H udiff no_skip excl c rep pairs).
Notation hvv := (hv H c rep).

Lemma o_order : ignore_iterable_order o = true.
Proof. reflexivity. Qed.
Lemma o_rep : ignore_repetition o = negb rep.
Proof. reflexivity. Qed.

Lemma eqv_hv a b : eqv o a b -> hvv a = hvv b.
Proof. intros He. unfold hv. apply eqv_hash; auto. Qed.

(* ---- equations ---- *)
Lemma rpt_one k p1 p2 a b d : rpt no_skip k p1 p2 a b d = [mkEntry k p1 p2 a b d].
Proof. reflexivity. Qed.

Lemma recs_map xs :
  (fix go (l : list value) : list rec_fn :=
     match l with [] => [] | x :: r => dio x :: go r end) xs = map dio xs.
Proof. induction xs as [|x r IH]; cbn [map]; [reflexivity|]. rewrite IH. reflexivity. Qed.

Lemma dio_list xs ys p1 p2 :
  dio (VList xs) (VList ys) p1 p2 = iter_deephash H no_skip c rep pairs (map dio xs) xs ys p1 p2.
Proof. cbn [diff_io no_skip type_of ty_eqb negb]. rewrite recs_map. reflexivity. Qed.
Lemma dio_tuple xs ys p1 p2 :
  dio (VTuple xs) (VTuple ys) p1 p2 = iter_deephash H no_skip c rep pairs (map dio xs) xs ys p1 p2.
Proof. cbn [diff_io no_skip type_of ty_eqb negb]. rewrite recs_map. reflexivity. Qed.

Lemma nth_rec_map xs i x : nth_error xs i = Some x -> nth_rec (map dio xs) i = dio x.
Proof.
  unfold nth_rec. revert i; induction xs as [|y r IH]; intros [|i]; cbn; try discriminate.
  - intros E; inversion E; reflexivity.
  - apply IH.
Qed.

(* ---- keys ---- *)
Lemma keep_key_hidden k : keep_key c k = negb (hidden o k).
Proof. unfold keep_key, hidden. cbn [HashModel.ignore_private io_opts]. destruct k; reflexivity. Qed.
Lemma keys_vis (kvs : list (atom * value)) : keys_of c kvs = map fst (vis o kvs).
Proof.
  unfold keys_of, vis. rewrite filter_map_fst.
  rewrite (filter_ext (fun kv : atom * value => keep_key c (fst kv)) (fun kv => negb (hidden o (fst kv)))); [reflexivity|].
  intros [k v]. apply keep_key_hidden.
Qed.

(* ================================================================== *)
(** * nothing added, nothing removed, same multiplicities => empty *)

Lemma added_nil xs ys :
  (forall h, In h (h2 H c rep ys) -> In h (h1 H c rep xs)) -> hashes_added H c rep xs ys = [].
Proof.
  intros Hs. unfold hashes_added. apply filter_nil. intros h Hin.
  apply negb_false_iff, mem_h_In. unfold t1_hashes, t2_hashes in *.
  apply dedup_In. apply Hs. apply dedup_In. exact Hin.
Qed.
Lemma removed_nil xs ys :
  (forall h, In h (h1 H c rep xs) -> In h (h2 H c rep ys)) -> hashes_removed H c rep xs ys = [].
Proof.
  intros Hs. unfold hashes_removed. apply filter_nil. intros h Hin.
  apply negb_false_iff, mem_h_In. unfold t1_hashes, t2_hashes in *.
  apply dedup_In. apply Hs. apply dedup_In. exact Hin.
Qed.

Lemma iter_empty recs xs ys p1 p2 :
  hashes_added H c rep xs ys = [] -> hashes_removed H c rep xs ys = [] ->
  (rep = true -> forall h, count h (h1 H c rep xs) = count h (h2 H c rep ys)) ->
  iter_deephash H no_skip c rep pairs recs xs ys p1 p2 = ([], []).
Proof.
  intros Ha Hr Hc. unfold iter_deephash. rewrite Ha, Hr. cbn [added_loop map concat_res fold_right app2 fst snd app].
  destruct rep; [|reflexivity].
  rewrite concat_res_nil; [reflexivity|].
  intros h _. unfold repetition_one. rewrite !indexes_length, (Hc eq_refl h), Nat.eqb_refl. reflexivity.
Qed.

Lemma seq_rel_iter recs xs ys p1 p2 :
  seq_rel o (eqv o) xs ys -> iter_deephash H no_skip c rep pairs recs xs ys p1 p2 = ([], []).
Proof.
  intros Hr. destruct Hr as [xs ys Hir Hio Hx Hy|xs ys ys' Hir Hio Hp HF|xs ys Hio HF].
  - rewrite o_rep in Hir. apply negb_true_iff in Hir.
    apply iter_empty.
    + apply added_nil. unfold h1, h2. intros h Hin. apply in_map_iff in Hin as [y [<- Hin]].
      destruct (Hy y Hin) as [x [Hxi He]]. apply in_map_iff. exists x. split; auto. apply eqv_hv; auto.
    + apply removed_nil. unfold h1, h2. intros h Hin. apply in_map_iff in Hin as [x [<- Hin]].
      destruct (Hx x Hin) as [y [Hyi He]]. apply in_map_iff. exists y. split; auto. symmetry. apply eqv_hv; auto.
    + intros E; congruence.
  - assert (Hm : map hvv xs = map hvv ys').
    { apply (Forall2_map_eq _ _ hvv (eqv o) xs ys' HF). intros; apply eqv_hv; auto. }
    assert (Hperm : Permutation (h1 H c rep xs) (h2 H c rep ys)).
    { unfold h1, h2. rewrite Hm. apply Permutation_map, Permutation_sym, Hp. }
    apply iter_empty.
    + apply added_nil. intros h Hin. eapply Permutation_in; [apply Permutation_sym, Hperm|exact Hin].
    + apply removed_nil. intros h Hin. eapply Permutation_in; [apply Hperm|exact Hin].
    + intros _ h. apply count_perm, Hperm.
  - rewrite o_order in Hio. discriminate.
Qed.

(* ================================================================== *)
(** * scalars, sets, dicts *)

Lemma diff_atom_refl a p1 p2 : diff_atom udiff no_skip a a p1 p2 = [].
Proof.
  unfold diff_atom. cbn [no_skip].
  destruct a; cbn [atom_ty ty_eqb negb]; try (rewrite py_eq_refl; reflexivity).
  - unfold diff_str. rewrite ValueFacts.pystr_eqb_refl. reflexivity.
  - unfold diff_str. rewrite ValueFacts.pystr_eqb_refl. reflexivity.
Qed.

Lemma first_per_hash_incl (hatom : atom -> pystr) l seen x : In x (first_per_hash hatom l seen) -> In x l.
Proof.
  revert seen; induction l as [|a r IH]; intros seen; cbn [first_per_hash]; [auto|].
  destruct (existsb (pystr_eqb (hatom a)) seen).
  - intros Hi; right; eapply IH; eauto.
  - intros [<-|Hi]; [left; reflexivity|right; eapply IH; eauto].
Qed.

Lemma diff_set_same (hatom : atom -> pystr) xs ys p1 p2 :
  (forall x, In x xs <-> In x ys) -> diff_set hatom no_skip xs ys p1 p2 = [].
Proof.
  intros Hs. unfold diff_set.
  match goal with |- ?a ++ ?b = [] => assert (Ha : a = []); [|assert (Hb : b = []); [|rewrite Ha, Hb; reflexivity]] end;
  apply flat_map_nil; intros a Hin;
    apply first_per_hash_incl in Hin.
  - assert (Hx : existsb (pystr_eqb (hatom a)) (map hatom xs) = true).
    { apply existsb_exists. exists (hatom a). split; [|apply ValueFacts.pystr_eqb_refl].
      apply in_map. apply Hs. exact Hin. }
    rewrite Hx. reflexivity.
  - assert (Hx : existsb (pystr_eqb (hatom a)) (map hatom ys) = true).
    { apply existsb_exists. exists (hatom a). split; [|apply ValueFacts.pystr_eqb_refl].
      apply in_map. apply Hs. exact Hin. }
    rewrite Hx. reflexivity.
Qed.

Definition io_common (kvs2 : list (atom * value)) (k2 : list atom) (p1 p2 : path) :=
  fix go (l : list (atom * value)) : res :=
    match l with
    | [] => ([], [])
    | (k, v1) :: r =>
        let rest := go r in
        if keep_key c k then
          match find (py_eq k) k2 with
          | Some k' =>
              match assoc k' kvs2 with
              | Some v2 => app2 (dio v1 v2 (snoc p1 (PKey k')) (snoc p2 (PKey k'))) rest
              | None => rest
              end
          | None => rest
          end
        else rest
    end.

Definition io_dict (kvs1 kvs2 : list (atom * value)) (p1 p2 : path) : res :=
  let k1 := keys_of c kvs1 in
  let k2 := keys_of c kvs2 in
  if dict_shortcut excl c k1 k2 p1 then (rpt no_skip KValue p1 p2 (Some (VDict kvs1)) (Some (VDict kvs2)) None, [])
  else
    let added := flat_map (fun k => if mem_atom k k1 then []
                   else rpt no_skip KDictAdd (snoc p1 (PKey k)) (snoc p2 (PKey k)) None (assoc k kvs2) None) k2 in
    let removed := flat_map (fun k => if mem_atom k k2 then []
                   else rpt no_skip KDictRem (snoc p1 (PKey k)) (snoc p2 (PKey k)) (assoc k kvs1) None None) k1 in
    let common := io_common kvs2 k2 p1 p2 kvs1 in
    (added ++ removed ++ fst common, snd common).

Lemma dio_dict kvs1 kvs2 p1 p2 : dio (VDict kvs1) (VDict kvs2) p1 p2 = io_dict kvs1 kvs2 p1 p2.
Proof. reflexivity. Qed.

Lemma shortcut_same_keys k1 k2 p1 :
  (forall k, In k k2 -> mem_atom k k1 = true) -> (forall k, In k k1 -> mem_atom k k2 = true) ->
  dict_shortcut excl c k1 k2 p1 = false.
Proof.
  intros H21 H12. unfold dict_shortcut. destruct (Nat.eqb (thr_num c) 0); [reflexivity|].
  rewrite (filter_nil (fun k => negb (mem_atom k k2)) k1) by (intros k Hk; rewrite (H12 k Hk); reflexivity).
  rewrite app_nil_r.
  assert (Hi : filter (fun k => mem_atom k k1) k2 = k2).
  { clear H12. induction k2 as [|k r IH]; cbn; [reflexivity|].
    rewrite (H21 k (or_introl eq_refl)). f_equal. apply IH. intros; apply H21; right; auto. }
  rewrite Hi.
  assert (Hl : length (filter (fun k => negb (excl (snoc p1 (PKey k)))) k2) <= length k2).
  { clear. induction k2 as [|k r IH]; cbn; [lia|]. destruct (negb _); cbn; lia. }
  apply andb_false_iff. right. apply Nat.ltb_ge. nia.
Qed.

Lemma common_nil kvs2 k2 p1 p2 l :
  (forall k v1, In (k, v1) l -> keep_key c k = true ->
     exists v2, find (py_eq k) k2 = Some k /\ assoc k kvs2 = Some v2 /\
                forall q1 q2, dio v1 v2 q1 q2 = ([], [])) ->
  io_common kvs2 k2 p1 p2 l = ([], []).
Proof.
  induction l as [|[k v1] r IH]; intros Hl; cbn [io_common]; [reflexivity|].
  fold (io_common kvs2 k2 p1 p2 r). rewrite IH by (intros; eapply Hl; eauto; right; auto).
  destruct (keep_key c k) eqn:Ek; [|reflexivity].
  destruct (Hl k v1 (or_introl eq_refl) Ek) as [v2 [Hf [Ha Hd]]].
  rewrite Hf, Ha, Hd. reflexivity.
Qed.

Lemma vis_In k (v : value) kvs : In (k, v) (vis o kvs) <-> In (k, v) kvs /\ keep_key c k = true.
Proof. unfold vis. rewrite filter_In. cbn [fst]. rewrite keep_key_hidden. tauto. Qed.

Theorem io_complete : forall t1 t2 p1 p2,
  wf t2 = true -> eqv o t1 t2 -> dio t1 t2 p1 p2 = ([], []).
Proof.
  intros t1. induction t1 as [a|xs IH|xs IH|kvs IH|xs|xs] using HashProofsC06.value_ind';
    intros t2 p1 p2 Hwf He; inversion He; subst.
  - cbn [diff_io no_skip type_of atom_ty]. 
    assert (Ht : ty_eqb (atom_ty a) (atom_ty a) = true) by (destruct a; reflexivity).
    rewrite Ht. cbn [negb]. rewrite diff_atom_refl. reflexivity.
  - rewrite dio_list. apply seq_rel_iter. assumption.
  - rewrite dio_tuple. apply seq_rel_iter. assumption.
  - rename kvs' into kvs2.
    match goal with Hi : items_rel _ _ _ |- _ => inversion Hi as [l1 l2 l2' Hp HF E1 E2]; subst l1 l2 end.
    cbn [wf] in Hwf. apply andb_true_iff in Hwf as [Hnd Hwfv].
    assert (F1 : forall k v1, In (k, v1) (vis o kvs) -> exists v2, In (k, v2) (vis o kvs2) /\ eqv o v1 v2).
    { intros k v1 Hin. destruct (Forall2_in_l _ _ _ _ _ _ HF Hin) as [[k' v2] [Hin2 [Hk Hv]]].
      cbn [fst snd] in *. subst k'. exists v2. split; auto.
      eapply Permutation_in; [apply Permutation_sym, Hp|exact Hin2]. }
    assert (F2 : forall k v2, In (k, v2) (vis o kvs2) -> exists v1, In (k, v1) (vis o kvs)).
    { intros k v2 Hin. apply (Permutation_in _ Hp) in Hin.
      destruct (Forall2_in_r _ _ _ _ _ _ HF Hin) as [[k' v1] [Hin1 [Hk Hv]]].
      cbn [fst snd] in *. subst k'. exists v1. auto. }
    assert (K21 : forall k, In k (keys_of c kvs2) -> mem_atom k (keys_of c kvs) = true).
    { intros k Hk. rewrite keys_vis in *. apply in_map_iff in Hk as [[k' v2] [<- Hin]]. cbn [fst].
      destruct (F2 _ _ Hin) as [v1 Hin1]. apply mem_atom_In. exists k'. split; [|apply py_eq_refl].
      apply in_map_iff. exists (k', v1). auto. }
    assert (K12 : forall k, In k (keys_of c kvs) -> mem_atom k (keys_of c kvs2) = true).
    { intros k Hk. rewrite keys_vis in *. apply in_map_iff in Hk as [[k' v1] [<- Hin]]. cbn [fst].
      destruct (F1 _ _ Hin) as [v2 [Hin2 _]]. apply mem_atom_In. exists k'. split; [|apply py_eq_refl].
      apply in_map_iff. exists (k', v2). auto. }
    rewrite dio_dict. unfold io_dict. rewrite (shortcut_same_keys _ _ _ K21 K12).
    rewrite flat_map_nil by (intros k Hk; rewrite (K21 k Hk); reflexivity).
    rewrite flat_map_nil by (intros k Hk; rewrite (K12 k Hk); reflexivity).
    rewrite common_nil; [reflexivity|].
    intros k v1 Hin Hkeep.
    assert (Hv : In (k, v1) (vis o kvs)) by (apply vis_In; auto).
    destruct (F1 _ _ Hv) as [v2 [Hin2 Heq]]. exists v2.
    apply vis_In in Hin2 as [Hin2 _].
    split; [|split].
    + apply nodup_find.
      * unfold keys_of. apply nodup_filter. exact Hnd.
      * unfold keys_of. apply filter_In. split; auto. apply in_map_iff. exists (k, v2). auto.
    + apply nodup_assoc; auto.
    + intros q1 q2. rewrite Forall_forall in IH. apply (IH (k, v1) Hin); auto.
      rewrite forallb_forall in Hwfv. apply (Hwfv (k, v2) Hin2).
  - cbn [diff_io no_skip type_of ty_eqb negb]. rewrite diff_set_same; [reflexivity|].
    intro x; split; apply Permutation_in; auto using Permutation_sym.
  - cbn [diff_io no_skip type_of ty_eqb negb]. rewrite diff_set_same; [reflexivity|].
    intro x; split; apply Permutation_in; auto using Permutation_sym.
Qed.

(* ================================================================== *)
(** * empty => equivalent *)

Definition NA (l : list atom) : Prop := forall a b, In a l -> In b l -> py_eq a b = true -> a = b.
Lemma NA_incl l l' : incl l l' -> NA l' -> NA l.
Proof. intros Hi Hn a b Ha Hb. apply Hn; auto. Qed.

Lemma tag_safe_forall v : tag_safe v = true <-> forall a, In a (atoms_of v) -> tag_safe_atom a = true.
Proof. unfold tag_safe. apply forallb_forall. Qed.
Lemma tag_safe_incl v w : incl (atoms_of v) (atoms_of w) -> tag_safe w = true -> tag_safe v = true.
Proof. rewrite !tag_safe_forall. intros Hi Hw a Ha. auto. Qed.

Lemma atoms_item_list x xs : In x xs -> incl (atoms_of x) (atoms_of (VList xs)).
Proof. intros Hin a Ha. cbn [atoms_of]. apply in_flat_map. eauto. Qed.
Lemma atoms_item_tuple x xs : In x xs -> incl (atoms_of x) (atoms_of (VTuple xs)).
Proof. intros Hin a Ha. cbn [atoms_of]. apply in_flat_map. eauto. Qed.
Lemma atoms_dict_val k v kvs : In (k, v) kvs -> incl (atoms_of v) (atoms_of (VDict kvs)).
Proof. intros Hin a Ha. cbn [atoms_of]. apply in_flat_map. exists (k, v). split; auto. right; auto. Qed.
Lemma atoms_dict_key k v kvs : In (k, v) kvs -> In k (atoms_of (VDict kvs)).
Proof. intros Hin. cbn [atoms_of]. apply in_flat_map. exists (k, v). split; auto. left; auto. Qed.

Lemma ty_eqb_eq a b : ty_eqb a b = true -> a = b.
Proof. destruct a, b; cbn; congruence. Qed.

Lemma fst_app2 {A B} (a b : list A * list B) : fst (app2 a b) = fst a ++ fst b.
Proof. reflexivity. Qed.
Lemma fst_concat_res l : fst (concat_res l) = [] -> forall r, In r l -> fst r = [].
Proof.
  unfold concat_res. induction l as [|x r IH]; cbn [fold_right]; [intros _ ? []|].
  rewrite fst_app2. intros Hn. apply app_eq_nil in Hn as [Hx Hr]. intros y [<-|Hy]; auto.
Qed.

Lemma diff_atom_nil a b p1 p2 : diff_atom udiff no_skip a b p1 p2 = [] -> a = b.
Proof.
  unfold diff_atom. cbn [no_skip].
  destruct (ty_eqb (atom_ty a) (atom_ty b)) eqn:Et; cbn [negb]; [|rewrite rpt_one; discriminate].
  apply ty_eqb_eq in Et.
  destruct a, b; try discriminate Et; unfold report; cbn [no_skip].
  - reflexivity.
  - destruct (py_eq (ABool b0) (ABool b)) eqn:E; [|discriminate]. intros _. apply py_eq_same_ty; auto.
  - destruct (py_eq (AInt z) (AInt z0)) eqn:E; [|discriminate]. intros _. apply py_eq_same_ty; auto.
  - destruct (py_eq (AHalf twice) (AHalf twice0)) eqn:E; [|discriminate]. intros _. apply py_eq_same_ty; auto.
  - unfold diff_str. destruct (pystr_eqb s s0) eqn:E.
    + intros _. apply ValueFacts.pystr_eqb_eq in E. congruence.
    + destruct (_ && _); discriminate.
  - unfold diff_str. destruct (pystr_eqb s s0) eqn:E.
    + intros _. apply ValueFacts.pystr_eqb_eq in E. congruence.
    + destruct (_ && _); discriminate.
Qed.
End Proofs.

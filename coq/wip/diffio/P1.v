From Coq Require Import List ZArith NArith Bool Arith Lia Permutation.
From Coq Require String.
Import ListNotations.
From DD Require Import Base.PyStr Base.Value Base.ValueFacts Diff.Tree Diff.DiffModel Hash.HashModel Hash.Equiv
  Hash.HashProofsBase Hash.HashProofsC06 DiffIO.DiffIOModel.

Definition no_skip (_ : path) : bool := false.

(* ---- small list facts ---- *)
Lemma mem_h_In h l : mem_h h l = true <-> In h l.
Proof.
  unfold mem_h. rewrite existsb_exists. split.
  - intros [x [Hi He]]. apply HashProofsBase.pystr_eqb_eq in He. subst. exact Hi.
  - intros Hi. exists h. split; auto. apply HashProofsBase.pystr_eqb_refl.
Qed.
Lemma mem_h_false h l : mem_h h l = false <-> ~ In h l.
Proof.
  rewrite <- mem_h_In. destruct (mem_h h l); split; intro X; try discriminate; try reflexivity.
  exfalso; apply X; reflexivity.
Qed.

Lemma indexes_length h l i : length (indexes_of h l i) = count h l.
Proof.
  revert i; induction l as [|x r IH]; intros i; cbn [indexes_of]; [reflexivity|].
  unfold count in *. cbn [filter]. destruct (pystr_eqb h x); cbn [app length]; rewrite IH; reflexivity.
Qed.

Lemma indexes_nth h l i k : In k (indexes_of h l i) -> i <= k /\ nth_error l (k - i) = Some h.
Proof.
  revert i; induction l as [|x r IH]; intros i; cbn [indexes_of]; [intros []|].
  intros Hin. apply in_app_or in Hin as [Hin|Hin].
  - destruct (pystr_eqb h x) eqn:E; [|destruct Hin]. destruct Hin as [<-|[]].
    apply HashProofsBase.pystr_eqb_eq in E. subst. rewrite Nat.sub_diag. auto.
  - apply IH in Hin as [Hle Hn]. split; [lia|].
    replace (k - i) with (S (k - S i)) by lia. exact Hn.
Qed.

Lemma indexes_nonempty h l i : In h l -> indexes_of h l i <> [].
Proof.
  intros Hin He. apply (f_equal (@length nat)) in He. rewrite indexes_length in He. cbn in He.
  pose proof (count_pos h l Hin). lia.
Qed.

Lemma first_of_index h l : In h l -> nth_error l (first_of (indexes_of h l 0)) = Some h.
Proof.
  intros Hin. pose proof (indexes_nonempty h l 0 Hin) as Hne.
  destruct (indexes_of h l 0) as [|k ks] eqn:E; [congruence|]. cbn [first_of hd].
  assert (Hk : In k (indexes_of h l 0)) by (rewrite E; left; reflexivity).
  apply indexes_nth in Hk as [_ Hk]. rewrite Nat.sub_0_r in Hk. exact Hk.
Qed.

Lemma nth_error_map_inv {A B} (f : A -> B) l i b : nth_error (map f l) i = Some b -> exists a, nth_error l i = Some a /\ f a = b.
Proof.
  revert i; induction l as [|x r IH]; intros [|i]; cbn; try discriminate.
  - intros E; inversion E. eauto.
  - apply IH.
Qed.

Lemma filter_nil {A} (f : A -> bool) l : (forall x, In x l -> f x = false) -> filter f l = [].
Proof.
  induction l as [|x r IH]; intros Hf; cbn; [reflexivity|].
  rewrite (Hf x (or_introl eq_refl)). apply IH. intros; apply Hf; right; auto.
Qed.
Lemma filter_nil_inv {A} (f : A -> bool) l x : filter f l = [] -> In x l -> f x = false.
Proof.
  induction l as [|y r IH]; cbn; [intros _ []|].
  destruct (f y) eqn:E; [discriminate|]. intros Hn [<-|Hi]; auto.
Qed.
Lemma flat_map_nil {A B} (f : A -> list B) l : (forall x, In x l -> f x = []) -> flat_map f l = [].
Proof.
  induction l as [|x r IH]; intros Hf; cbn; [reflexivity|].
  rewrite (Hf x (or_introl eq_refl)). apply IH. intros; apply Hf; right; auto.
Qed.
Lemma flat_map_nil_inv {A B} (f : A -> list B) l x : flat_map f l = [] -> In x l -> f x = [].
Proof.
  induction l as [|y r IH]; cbn; [intros _ []|].
  intros Hn. apply app_eq_nil in Hn as [H1 H2]. intros [<-|Hi]; auto.
Qed.
Lemma concat_res_nil {A} (f : A -> res) l : (forall x, In x l -> f x = ([], [])) -> concat_res (map f l) = ([], []).
Proof.
  unfold concat_res. induction l as [|x r IH]; intros Hf; cbn [map fold_right]; [reflexivity|].
  rewrite (Hf x (or_introl eq_refl)). rewrite IH; [reflexivity|]. intros; apply Hf; right; auto.
Qed.

Lemma filter_map_fst {B} (f : atom -> bool) (l : list (atom * B)) :
  filter f (map fst l) = map fst (filter (fun kv => f (fst kv)) l).
Proof. induction l as [|[k v] r IH]; cbn; [reflexivity|]. destruct (f k); cbn; rewrite IH; reflexivity. Qed.

(* ---- py_eq-keyed lists without duplicates ---- *)
Lemma nodup_find k l : nodup_atoms l = true -> In k l -> find (py_eq k) l = Some k.
Proof.
  induction l as [|x r IH]; cbn [nodup_atoms find]; [intros _ []|].
  intros Hn Hin. apply andb_true_iff in Hn as [Hx Hr].
  destruct Hin as [->|Hin]; [rewrite py_eq_refl; reflexivity|].
  destruct (py_eq k x) eqn:E; [|auto].
  exfalso. apply negb_true_iff in Hx. assert (mem_atom x r = true); [|congruence].
  apply mem_atom_In. exists k. split; auto. rewrite py_eq_sym. exact E.
Qed.
Lemma nodup_assoc {B} k (v : B) l : nodup_atoms (map fst l) = true -> In (k, v) l -> assoc k l = Some v.
Proof.
  induction l as [|[x w] r IH]; cbn [nodup_atoms map fst assoc]; [intros _ []|].
  intros Hn Hin. apply andb_true_iff in Hn as [Hx Hr].
  destruct Hin as [E|Hin]; [inversion E; subst; rewrite py_eq_refl; reflexivity|].
  destruct (py_eq x k) eqn:E; [|auto].
  exfalso. apply negb_true_iff in Hx. assert (mem_atom x (map fst r) = true); [|congruence].
  apply mem_atom_In. exists k. split; auto. apply in_map_iff. exists (k, v). auto.
Qed.
Lemma nodup_filter f l : nodup_atoms l = true -> nodup_atoms (filter f l) = true.
Proof.
  induction l as [|x r IH]; cbn [nodup_atoms filter]; [auto|].
  intros Hn. apply andb_true_iff in Hn as [Hx Hr]. destruct (f x); cbn [nodup_atoms]; auto.
  rewrite IH by auto. rewrite andb_true_r. apply negb_true_iff. apply negb_true_iff in Hx.
  destruct (mem_atom x (filter f r)) eqn:E; [|reflexivity].
  apply mem_atom_In in E as [b [Hb Hp]]. apply filter_In in Hb as [Hb _].
  assert (mem_atom x r = true) by (apply mem_atom_In; eauto). congruence.
Qed.
Lemma nodup_NoDup l : nodup_atoms l = true -> NoDup l.
Proof.
  induction l as [|x r IH]; cbn [nodup_atoms]; intros Hn; constructor.
  - apply andb_true_iff in Hn as [Hx _]. apply negb_true_iff in Hx. intro Hin.
    assert (mem_atom x r = true) by (apply mem_atom_In; exists x; split; auto; apply py_eq_refl). congruence.
  - apply andb_true_iff in Hn as [_ Hr]. auto.
Qed.

Section Proofs.
Variable H : pystr -> pystr.
Variable udiff : pystr -> pystr -> pystr.
Variable excl : path -> bool.
Variable c : cfg.
Variable rep : bool.
Variable pairs : path -> list (nat * nat).
Hypothesis thr_le_one : thr_num c <= thr_den c.

Notation o := (io_opts c rep).
Notation dio := (diff_io H udiff no_skip excl c rep pairs).
Notation hvv := (hv H c rep).

Lemma o_order : ignore_iterable_order o = true.
Proof. reflexivity. Qed.
Lemma o_rep : ignore_repetition o = negb rep.
Proof. reflexivity. Qed.

Lemma eqv_hv a b : eqv o a b -> hvv a = hvv b.
Proof. intros He. unfold hv. apply eqv_hash; auto. Qed.

(* ---- equations ---- *)
Lemma rpt_one k p1 p2 a b d : rpt no_skip k p1 p2 a b d = [mkEntry k p1 p2 a b d].
Proof. reflexivity. Qed.

Lemma recs_map xs :
  (fix go (l : list value) : list rec_fn :=
     match l with [] => [] | x :: r => dio x :: go r end) xs = map dio xs.
Proof. induction xs as [|x r IH]; cbn [map]; [reflexivity|]. rewrite IH. reflexivity. Qed.

Lemma dio_list xs ys p1 p2 :
  dio (VList xs) (VList ys) p1 p2 = iter_deephash H no_skip c rep pairs (map dio xs) xs ys p1 p2.
Proof. cbn [diff_io no_skip type_of ty_eqb negb]. rewrite recs_map. reflexivity. Qed.
Lemma dio_tuple xs ys p1 p2 :
  dio (VTuple xs) (VTuple ys) p1 p2 = iter_deephash H no_skip c rep pairs (map dio xs) xs ys p1 p2.
Proof. cbn [diff_io no_skip type_of ty_eqb negb]. rewrite recs_map. reflexivity. Qed.

Lemma nth_rec_map xs i x : nth_error xs i = Some x -> nth_rec (map dio xs) i = dio x.
Proof.
  unfold nth_rec. revert i; induction xs as [|y r IH]; intros [|i]; cbn; try discriminate.
  - intros E; inversion E; reflexivity.
  - apply IH.
Qed.

(* ---- keys ---- *)
Lemma keep_key_hidden k : keep_key c k = negb (hidden o k).
Proof. unfold keep_key, hidden. cbn [HashModel.ignore_private io_opts]. destruct k; reflexivity. Qed.
Lemma keys_vis (kvs : list (atom * value)) : keys_of c kvs = map fst (vis o kvs).
Proof.
  unfold keys_of, vis. rewrite filter_map_fst.
  rewrite (filter_ext (fun kv : atom * value => keep_key c (fst kv)) (fun kv => negb (hidden o (fst kv)))); [reflexivity|].
  intros [k v]. apply keep_key_hidden.
Qed.

(* ================================================================== *)
(** * nothing added, nothing removed, same multiplicities => empty *)

Lemma added_nil xs ys :
  (forall h, In h (h2 H c rep ys) -> In h (h1 H c rep xs)) -> hashes_added H c rep xs ys = [].
Proof.
  intros Hs. unfold hashes_added. apply filter_nil. intros h Hin.
  apply negb_false_iff, mem_h_In. unfold t1_hashes, t2_hashes in *.
  apply dedup_In. apply Hs. apply dedup_In. exact Hin.
Qed.
Lemma removed_nil xs ys :
  (forall h, In h (h1 H c rep xs) -> In h (h2 H c rep ys)) -> hashes_removed H c rep xs ys = [].
Proof.
  intros Hs. unfold hashes_removed. apply filter_nil. intros h Hin.
  apply negb_false_iff, mem_h_In. unfold t1_hashes, t2_hashes in *.
  apply dedup_In. apply Hs. apply dedup_In. exact Hin.
Qed.

Lemma if_true {A} (b : bool) (x y : A) : b = true -> (if b then x else y) = x.
Proof. intros ->; reflexivity. Qed.
Lemma if_false {A} (b : bool) (x y : A) : b = false -> (if b then x else y) = y.
Proof. intros ->; reflexivity. Qed.
Lemma rep_cases : rep = true \/ rep = false.
Proof. destruct rep; auto. Qed.

Lemma iter_empty recs xs ys p1 p2 :
  hashes_added H c rep xs ys = [] -> hashes_removed H c rep xs ys = [] ->
  (rep = true -> forall h, count h (h1 H c rep xs) = count h (h2 H c rep ys)) ->
  iter_deephash H no_skip c rep pairs recs xs ys p1 p2 = ([], []).
Proof.
  intros Ha Hr Hc. unfold iter_deephash. destruct rep_cases as [E|E].
  - rewrite (if_true _ _ _ E). unfold iter_rep. rewrite Ha, Hr.
    cbn [added_loop map concat_res fold_right app2 fst snd app].
    rewrite concat_res_nil; [reflexivity|].
    intros h _. unfold repetition_one. rewrite !indexes_length, (Hc E h), Nat.eqb_refl. reflexivity.
  - rewrite (if_false _ _ _ E). unfold iter_norep. rewrite Ha, Hr. reflexivity.
Qed.

Lemma seq_rel_iter recs xs ys p1 p2 :
  seq_rel o (eqv o) xs ys -> iter_deephash H no_skip c rep pairs recs xs ys p1 p2 = ([], []).
Proof.
  intros Hr. destruct Hr as [xs ys Hir Hio Hx Hy|xs ys ys' Hir Hio Hp HF|xs ys Hio HF].
  - rewrite o_rep in Hir. apply negb_true_iff in Hir.
    apply iter_empty.
    + apply added_nil. unfold h1, h2. intros h Hin. apply in_map_iff in Hin as [y [<- Hin]].
      destruct (Hy y Hin) as [x [Hxi He]]. apply in_map_iff. exists x. split; auto. apply eqv_hv; auto.
    + apply removed_nil. unfold h1, h2. intros h Hin. apply in_map_iff in Hin as [x [<- Hin]].
      destruct (Hx x Hin) as [y [Hyi He]]. apply in_map_iff. exists y. split; auto. symmetry. apply eqv_hv; auto.
    + intros E; congruence.
  - assert (Hm : map hvv xs = map hvv ys').
    { apply (Forall2_map_eq _ _ hvv (eqv o) xs ys' HF). intros; apply eqv_hv; auto. }
    assert (Hperm : Permutation (h1 H c rep xs) (h2 H c rep ys)).
    { unfold h1, h2. rewrite Hm. apply Permutation_map, Permutation_sym, Hp. }
    apply iter_empty.
    + apply added_nil. intros h Hin. eapply Permutation_in; [apply Permutation_sym, Hperm|exact Hin].
    + apply removed_nil. intros h Hin. eapply Permutation_in; [apply Hperm|exact Hin].
    + intros _ h. apply count_perm, Hperm.
  - rewrite o_order in Hio. discriminate.
Qed.

(* ================================================================== *)
(** * scalars, sets, dicts *)

Lemma diff_atom_refl a p1 p2 : diff_atom udiff no_skip a a p1 p2 = [].
Proof.
  unfold diff_atom. cbn [no_skip].
  destruct a; cbn [atom_ty ty_eqb negb]; try (rewrite py_eq_refl; reflexivity).
  - unfold diff_str. rewrite ValueFacts.pystr_eqb_refl. reflexivity.
  - unfold diff_str. rewrite ValueFacts.pystr_eqb_refl. reflexivity.
Qed.

Lemma first_per_hash_incl (hatom : atom -> pystr) l seen x : In x (first_per_hash hatom l seen) -> In x l.
Proof.
  revert seen; induction l as [|a r IH]; intros seen; cbn [first_per_hash]; [auto|].
  destruct (existsb (pystr_eqb (hatom a)) seen).
  - intros Hi; right; eapply IH; eauto.
  - intros [<-|Hi]; [left; reflexivity|right; eapply IH; eauto].
Qed.

Lemma diff_set_same (hatom : atom -> pystr) xs ys p1 p2 :
  (forall x, In x xs <-> In x ys) -> diff_set hatom no_skip xs ys p1 p2 = [].
Proof.
  intros Hs. unfold diff_set.
  match goal with |- ?a ++ ?b = [] => assert (Ha : a = []); [|assert (Hb : b = []); [|rewrite Ha, Hb; reflexivity]] end;
  apply flat_map_nil; intros a Hin;
    apply first_per_hash_incl in Hin.
  - assert (Hx : existsb (pystr_eqb (hatom a)) (map hatom xs) = true).
    { apply existsb_exists. exists (hatom a). split; [|apply ValueFacts.pystr_eqb_refl].
      apply in_map. apply Hs. exact Hin. }
    rewrite Hx. reflexivity.
  - assert (Hx : existsb (pystr_eqb (hatom a)) (map hatom ys) = true).
    { apply existsb_exists. exists (hatom a). split; [|apply ValueFacts.pystr_eqb_refl].
      apply in_map. apply Hs. exact Hin. }
    rewrite Hx. reflexivity.
Qed.

Definition io_common (kvs2 : list (atom * value)) (k2 : list atom) (p1 p2 : path) :=
  fix go (l : list (atom * value)) : res :=
    match l with
    | [] => ([], [])
    | (k, v1) :: r =>
        let rest := go r in
        if keep_key c k then
          match find (py_eq k) k2 with
          | Some k' =>
              match assoc k' kvs2 with
              | Some v2 => app2 (dio v1 v2 (snoc p1 (PKey k')) (snoc p2 (PKey k'))) rest
              | None => rest
              end
          | None => rest
          end
        else rest
    end.

Definition io_dict (kvs1 kvs2 : list (atom * value)) (p1 p2 : path) : res :=
  let k1 := keys_of c kvs1 in
  let k2 := keys_of c kvs2 in
  if dict_shortcut excl c k1 k2 p1 then (rpt no_skip KValue p1 p2 (Some (VDict kvs1)) (Some (VDict kvs2)) None, [])
  else
    let added := flat_map (fun k => if mem_atom k k1 then []
                   else rpt no_skip KDictAdd (snoc p1 (PKey k)) (snoc p2 (PKey k)) None (assoc k kvs2) None) k2 in
    let removed := flat_map (fun k => if mem_atom k k2 then []
                   else rpt no_skip KDictRem (snoc p1 (PKey k)) (snoc p2 (PKey k)) (assoc k kvs1) None None) k1 in
    let common := io_common kvs2 k2 p1 p2 kvs1 in
    (added ++ removed ++ fst common, snd common).

Lemma dio_dict kvs1 kvs2 p1 p2 : dio (VDict kvs1) (VDict kvs2) p1 p2 = io_dict kvs1 kvs2 p1 p2.
Proof. reflexivity. Qed.

Lemma shortcut_same_keys k1 k2 p1 :
  (forall k, In k k2 -> mem_atom k k1 = true) -> (forall k, In k k1 -> mem_atom k k2 = true) ->
  dict_shortcut excl c k1 k2 p1 = false.
Proof.
  intros H21 H12. unfold dict_shortcut. destruct (Nat.eqb (thr_num c) 0); [reflexivity|].
  rewrite (filter_nil (fun k => negb (mem_atom k k2)) k1) by (intros k Hk; rewrite (H12 k Hk); reflexivity).
  rewrite app_nil_r.
  assert (Hi : filter (fun k => mem_atom k k1) k2 = k2).
  { clear H12. induction k2 as [|k r IH]; cbn; [reflexivity|].
    rewrite (H21 k (or_introl eq_refl)). f_equal. apply IH. intros; apply H21; right; auto. }
  rewrite Hi.
  assert (Hl : length (filter (fun k => negb (excl (snoc p1 (PKey k)))) k2) <= length k2).
  { clear. induction k2 as [|k r IH]; cbn; [lia|]. destruct (negb _); cbn; lia. }
  apply andb_false_iff. right. apply Nat.ltb_ge. nia.
Qed.

Lemma common_nil kvs2 k2 p1 p2 l :
  (forall k v1, In (k, v1) l -> keep_key c k = true ->
     exists v2, find (py_eq k) k2 = Some k /\ assoc k kvs2 = Some v2 /\
                forall q1 q2, dio v1 v2 q1 q2 = ([], [])) ->
  io_common kvs2 k2 p1 p2 l = ([], []).
Proof.
  induction l as [|[k v1] r IH]; intros Hl; cbn [io_common]; [reflexivity|].
  fold (io_common kvs2 k2 p1 p2 r). rewrite IH by (intros; eapply Hl; eauto; right; auto).
  destruct (keep_key c k) eqn:Ek; [|reflexivity].
  destruct (Hl k v1 (or_introl eq_refl) Ek) as [v2 [Hf [Ha Hd]]].
  rewrite Hf, Ha, Hd. reflexivity.
Qed.

Lemma vis_In k (v : value) kvs : In (k, v) (vis o kvs) <-> In (k, v) kvs /\ keep_key c k = true.
Proof. unfold vis. rewrite filter_In. cbn [fst]. rewrite keep_key_hidden. tauto. Qed.

Theorem io_complete : forall t1 t2 p1 p2,
  wf t2 = true -> eqv o t1 t2 -> dio t1 t2 p1 p2 = ([], []).
Proof.
  intros t1. induction t1 as [a|xs IH|xs IH|kvs IH|xs|xs] using HashProofsC06.value_ind';
    intros t2 p1 p2 Hwf He; inversion He; subst.
  - cbn [diff_io no_skip type_of atom_ty]. 
    assert (Ht : ty_eqb (atom_ty a) (atom_ty a) = true) by (destruct a; reflexivity).
    rewrite Ht. cbn [negb]. rewrite diff_atom_refl. reflexivity.
  - rewrite dio_list. apply seq_rel_iter. assumption.
  - rewrite dio_tuple. apply seq_rel_iter. assumption.
  - rename kvs' into kvs2.
    match goal with Hi : items_rel _ _ _ |- _ => inversion Hi as [l1 l2 l2' Hp HF E1 E2]; subst l1 l2 end.
    cbn [wf] in Hwf. apply andb_true_iff in Hwf as [Hnd Hwfv].
    assert (F1 : forall k v1, In (k, v1) (vis o kvs) -> exists v2, In (k, v2) (vis o kvs2) /\ eqv o v1 v2).
    { intros k v1 Hin. destruct (Forall2_in_l _ _ _ _ _ _ HF Hin) as [[k' v2] [Hin2 [Hk Hv]]].
      cbn [fst snd] in *. subst k'. exists v2. split; auto.
      eapply Permutation_in; [apply Permutation_sym, Hp|exact Hin2]. }
    assert (F2 : forall k v2, In (k, v2) (vis o kvs2) -> exists v1, In (k, v1) (vis o kvs)).
    { intros k v2 Hin. apply (Permutation_in _ Hp) in Hin.
      destruct (Forall2_in_r _ _ _ _ _ _ HF Hin) as [[k' v1] [Hin1 [Hk Hv]]].
      cbn [fst snd] in *. subst k'. exists v1. auto. }
    assert (K21 : forall k, In k (keys_of c kvs2) -> mem_atom k (keys_of c kvs) = true).
    { intros k Hk. rewrite keys_vis in *. apply in_map_iff in Hk as [[k' v2] [<- Hin]]. cbn [fst].
      destruct (F2 _ _ Hin) as [v1 Hin1]. apply mem_atom_In. exists k'. split; [|apply py_eq_refl].
      apply in_map_iff. exists (k', v1). auto. }
    assert (K12 : forall k, In k (keys_of c kvs) -> mem_atom k (keys_of c kvs2) = true).
    { intros k Hk. rewrite keys_vis in *. apply in_map_iff in Hk as [[k' v1] [<- Hin]]. cbn [fst].
      destruct (F1 _ _ Hin) as [v2 [Hin2 _]]. apply mem_atom_In. exists k'. split; [|apply py_eq_refl].
      apply in_map_iff. exists (k', v2). auto. }
    rewrite dio_dict. unfold io_dict. rewrite (shortcut_same_keys _ _ _ K21 K12).
    rewrite flat_map_nil by (intros k Hk; rewrite (K21 k Hk); reflexivity).
    rewrite flat_map_nil by (intros k Hk; rewrite (K12 k Hk); reflexivity).
    rewrite common_nil; [reflexivity|].
    intros k v1 Hin Hkeep.
    assert (Hv : In (k, v1) (vis o kvs)) by (apply vis_In; auto).
    destruct (F1 _ _ Hv) as [v2 [Hin2 Heq]]. exists v2.
    apply vis_In in Hin2 as [Hin2 _].
    split; [|split].
    + apply nodup_find.
      * unfold keys_of. apply nodup_filter. exact Hnd.
      * unfold keys_of. apply filter_In. split; auto. apply in_map_iff. exists (k, v2). auto.
    + apply nodup_assoc; auto.
    + intros q1 q2. rewrite Forall_forall in IH. apply (IH (k, v1) Hin); auto.
      rewrite forallb_forall in Hwfv. apply (Hwfv (k, v2) Hin2).
  - cbn [diff_io no_skip type_of ty_eqb negb]. rewrite diff_set_same; [reflexivity|].
    intro x; split; apply Permutation_in; auto using Permutation_sym.
  - cbn [diff_io no_skip type_of ty_eqb negb]. rewrite diff_set_same; [reflexivity|].
    intro x; split; apply Permutation_in; auto using Permutation_sym.
Qed.

(* ================================================================== *)
(** * empty => equivalent *)

Definition NA (l : list atom) : Prop := forall a b, In a l -> In b l -> py_eq a b = true -> a = b.
Lemma NA_incl l l' : incl l l' -> NA l' -> NA l.
Proof. intros Hi Hn a b Ha Hb. apply Hn; auto. Qed.

Lemma tag_safe_forall v : tag_safe v = true <-> forall a, In a (atoms_of v) -> tag_safe_atom a = true.
Proof. unfold tag_safe. apply forallb_forall. Qed.
Lemma tag_safe_incl v w : incl (atoms_of v) (atoms_of w) -> tag_safe w = true -> tag_safe v = true.
Proof. rewrite !tag_safe_forall. intros Hi Hw a Ha. auto. Qed.

Lemma atoms_item_list x xs : In x xs -> incl (atoms_of x) (atoms_of (VList xs)).
Proof. intros Hin a Ha. cbn [atoms_of]. apply in_flat_map. eauto. Qed.
Lemma atoms_item_tuple x xs : In x xs -> incl (atoms_of x) (atoms_of (VTuple xs)).
Proof. intros Hin a Ha. cbn [atoms_of]. apply in_flat_map. eauto. Qed.
Lemma atoms_dict_val k v kvs : In (k, v) kvs -> incl (atoms_of v) (atoms_of (VDict kvs)).
Proof. intros Hin a Ha. cbn [atoms_of]. apply in_flat_map. exists (k, v). split; auto. right; auto. Qed.
Lemma atoms_dict_key k v kvs : In (k, v) kvs -> In k (atoms_of (VDict kvs)).
Proof. intros Hin. cbn [atoms_of]. apply in_flat_map. exists (k, v). split; auto. left; auto. Qed.

Lemma ty_eqb_eq a b : ty_eqb a b = true -> a = b.
Proof. destruct a, b; cbn; congruence. Qed.

Lemma fst_app2 {A B} (a b : list A * list B) : fst (app2 a b) = fst a ++ fst b.
Proof. reflexivity. Qed.
Lemma fst_concat_res l : fst (concat_res l) = [] -> forall r, In r l -> fst r = [].
Proof.
  unfold concat_res. induction l as [|x r IH]; cbn [fold_right]; [intros _ ? []|].
  rewrite fst_app2. intros Hn. apply app_eq_nil in Hn as [Hx Hr]. intros y [<-|Hy]; auto.
Qed.

Lemma diff_atom_nil a b p1 p2 : diff_atom udiff no_skip a b p1 p2 = [] -> a = b.
Proof.
  unfold diff_atom. cbn [no_skip].
  destruct (ty_eqb (atom_ty a) (atom_ty b)) eqn:Et; cbn [negb]; [|rewrite rpt_one; discriminate].
  apply ty_eqb_eq in Et.
  destruct a, b; try discriminate Et; unfold report; cbn [no_skip].
  - reflexivity.
  - destruct (py_eq (ABool b0) (ABool b)) eqn:E; [|discriminate]. intros _. apply py_eq_same_ty; auto.
  - destruct (py_eq (AInt z) (AInt z0)) eqn:E; [|discriminate]. intros _. apply py_eq_same_ty; auto.
  - destruct (py_eq (AHalf twice) (AHalf twice0)) eqn:E; [|discriminate]. intros _. apply py_eq_same_ty; auto.
  - unfold diff_str. destruct (pystr_eqb s s0) eqn:E.
    + intros _. apply ValueFacts.pystr_eqb_eq in E. congruence.
    + destruct (_ && _); discriminate.
  - unfold diff_str. destruct (pystr_eqb s s0) eqn:E.
    + intros _. apply ValueFacts.pystr_eqb_eq in E. congruence.
    + destruct (_ && _); discriminate.
Qed.

(* C07 for the hasher at hand: equal hashes only for equivalent content *)
Hypothesis Hyp_C07 : forall a b, wf a = true -> wf b = true -> tag_safe a = true -> tag_safe b = true ->
  hvv a = hvv b -> eqv o a b.

Section LevelSound.
Variables (xs ys : list value) (p1 p2 : path).
(* the induction hypothesis for the items of t1: an empty diff forces equal hashes *)
Hypothesis IHx : forall x y q1 q2, In x xs -> In y ys -> fst (dio x y q1 q2) = [] -> hvv x = hvv y.

Notation hh1 := (h1 H c rep xs).
Notation hh2 := (h2 H c rep ys).
Notation recs := (map dio xs).

Lemma h1_item i r : nth_error hh1 i = Some r -> exists x, nth_error xs i = Some x /\ In x xs /\ hvv x = r.
Proof.
  intros Hn. apply nth_error_map_inv in Hn as [x [Hx Hr]]. exists x. split; auto. split; auto.
  eapply nth_error_In; eauto.
Qed.
Lemma h2_item j a : nth_error hh2 j = Some a -> exists y, nth_error ys j = Some y /\ In y ys /\ hvv y = a.
Proof.
  intros Hn. apply nth_error_map_inv in Hn as [y [Hy Hr]]. exists y. split; auto. split; auto.
  eapply nth_error_In; eauto.
Qed.

Lemma partner_in a rem r : partner H c rep pairs xs ys p1 a rem = Some r -> In r hh1.
Proof.
  unfold partner. destruct (find _ _) as [ji|]; [|discriminate].
  destruct (nth_error hh1 (snd ji)) as [r'|] eqn:E; [|discriminate].
  destruct (mem_h r' rem); [|discriminate]. intros X; inversion X; subst.
  eapply nth_error_In; eauto.
Qed.

Lemma added_one_nonempty a rem :
  In a hh2 -> ~ In a hh1 -> fst (fst (added_one H no_skip c rep pairs recs xs ys p1 p2 a rem)) <> [].
Proof.
  intros Ha2 Ha1. unfold added_one.
  destruct (partner H c rep pairs xs ys p1 a rem) as [r|] eqn:P; cbn [fst]; [|rewrite rpt_one; discriminate].
  apply partner_in in P.
  destruct (h1_item _ _ (first_of_index r hh1 P)) as [x [Hx [Hxi Hxr]]].
  destruct (h2_item _ _ (first_of_index a hh2 Ha2)) as [y [Hy [Hyi Hya]]].
  unfold item2. fold hh2. rewrite Hy. rewrite (nth_rec_map _ _ _ Hx).
  intro Hn. apply IHx in Hn; auto. apply Ha1. rewrite <- Hya, <- Hn, Hxr. exact P.
Qed.

Lemma added_one_rep_nonempty a rem :
  In a hh2 -> ~ In a hh1 -> fst (fst (added_one_rep H no_skip c rep pairs recs xs ys p1 p2 a rem)) <> [].
Proof.
  intros Ha2 Ha1. unfold added_one_rep.
  pose proof (indexes_nonempty a hh2 0 Ha2) as Hjs.
  destruct (partner H c rep pairs xs ys p1 a rem) as [r|] eqn:P; cbn [fst].
  - apply partner_in in P.
    destruct (h1_item _ _ (first_of_index r hh1 P)) as [x [Hx [Hxi Hxr]]].
    destruct (h2_item _ _ (first_of_index a hh2 Ha2)) as [y [Hy [Hyi Hya]]].
    unfold item2. fold hh2. rewrite Hy. rewrite (nth_rec_map _ _ _ Hx).
    pose proof (indexes_nonempty r hh1 0 P) as His.
    destruct (indexes_of r hh1 0) as [|i0 is_]; [congruence|].
    cbn [fold_right]. rewrite fst_app2. intro Hn. apply app_eq_nil in Hn as [Hn _].
    apply IHx in Hn; auto. apply Ha1. rewrite <- Hya, <- Hn, Hxr. exact P.
  - destruct (indexes_of a hh2 0) as [|j0 js]; [congruence|].
    cbn [flat_map]. rewrite rpt_one. discriminate.
Qed.

Lemma added_loop_nil one adds rem :
  (forall a rem', In a adds -> fst (fst (one a rem')) <> []) ->
  fst (fst (added_loop one adds rem)) = [] -> adds = [].
Proof.
  destruct adds as [|a adds']; [reflexivity|]. intros Hone. cbn [added_loop].
  destruct (one a rem) as [r1 rem1] eqn:E1. destruct (added_loop one adds' rem1) as [r2 rem2].
  cbn [fst]. rewrite fst_app2. intro Hn. apply app_eq_nil in Hn as [Hn _].
  exfalso. apply (Hone a rem (or_introl eq_refl)). rewrite E1. exact Hn.
Qed.

Lemma added_spec a : In a (hashes_added H c rep xs ys) -> In a hh2 /\ ~ In a hh1.
Proof.
  unfold hashes_added. rewrite filter_In. intros [Hi Hm]. unfold t2_hashes, t1_hashes in *.
  apply (proj1 (dedup_In _ _)) in Hi. split; auto. apply negb_true_iff, mem_h_false in Hm.
  intro X. apply Hm. apply (proj2 (dedup_In _ _)). exact X.
Qed.
Lemma removed_spec r : In r (hashes_removed H c rep xs ys) -> In r hh1 /\ ~ In r hh2.
Proof.
  unfold hashes_removed. rewrite filter_In. intros [Hi Hm]. unfold t2_hashes, t1_hashes in *.
  apply (proj1 (dedup_In _ _)) in Hi. split; auto. apply negb_true_iff, mem_h_false in Hm.
  intro X. apply Hm. apply (proj2 (dedup_In _ _)). exact X.
Qed.

Lemma count_notin h l : ~ In h l -> count h l = 0.
Proof.
  intros Hn. unfold count. rewrite filter_nil; [reflexivity|].
  intros x Hx. destruct (pystr_eqb h x) eqn:E; [|reflexivity].
  apply HashProofsBase.pystr_eqb_eq in E. subst. contradiction.
Qed.

Lemma all_in_2_1 : hashes_added H c rep xs ys = [] -> forall x, In x hh2 -> In x hh1.
Proof.
  intros Hadd x Hx. apply (proj2 (dedup_In _ _)) in Hx. unfold hashes_added in Hadd.
  pose proof (filter_nil_inv _ _ x Hadd Hx) as Hf. apply negb_false_iff, mem_h_In in Hf.
  apply (proj1 (dedup_In _ _)) in Hf. exact Hf.
Qed.
Lemma all_in_1_2 : hashes_removed H c rep xs ys = [] -> forall x, In x hh1 -> In x hh2.
Proof.
  intros Hrem x Hx. apply (proj2 (dedup_In _ _)) in Hx. unfold hashes_removed in Hrem.
  pose proof (filter_nil_inv _ _ x Hrem Hx) as Hf. apply negb_false_iff, mem_h_In in Hf.
  apply (proj1 (dedup_In _ _)) in Hf. exact Hf.
Qed.

Lemma iter_rep_sound :
  fst (iter_rep H no_skip c rep pairs recs xs ys p1 p2) = [] ->
  hashes_added H c rep xs ys = [] /\ hashes_removed H c rep xs ys = [] /\
  (forall h, count h hh1 = count h hh2).
Proof.
  unfold iter_rep.
  destruct (added_loop _ (hashes_added H c rep xs ys) (hashes_removed H c rep xs ys)) as [ra remaining] eqn:EL.
  rewrite !fst_app2. intro Hn. apply app_eq_nil in Hn as [Ha Hn]. apply app_eq_nil in Hn as [Hr Hi].
  assert (Hadd : hashes_added H c rep xs ys = []).
  { eapply added_loop_nil; [|rewrite EL; exact Ha].
    intros a rem' Hin. apply added_spec in Hin as [X Y]. apply added_one_rep_nonempty; auto. }
  rewrite Hadd in EL. cbn [added_loop] in EL. inversion EL; subst ra remaining. clear EL.
  assert (Hrem : hashes_removed H c rep xs ys = []).
  { destruct (hashes_removed H c rep xs ys) as [|r rs] eqn:E; [reflexivity|]. exfalso.
    assert (Hin : In r (hashes_removed H c rep xs ys)) by (rewrite E; left; reflexivity).
    apply removed_spec in Hin as [X _].
    pose proof (fst_concat_res _ Hr (removed_one_rep H no_skip c rep xs p1 p2 r) (or_introl eq_refl)) as Hz.
    unfold removed_one_rep in Hz. cbn [fst] in Hz.
    pose proof (indexes_nonempty r hh1 0 X) as His.
    destruct (indexes_of r hh1 0); [congruence|]. cbn [flat_map] in Hz. rewrite rpt_one in Hz. discriminate. }
  split; [exact Hadd|]. split; [exact Hrem|].
  intros h.
  destruct (in_dec pystr_eq_dec h hh2) as [Hin|Hnin].
  - assert (Hc : In h (filter (fun h0 => mem_h h0 (t1_hashes H c rep xs)) (t2_hashes H c rep ys))).
    { apply filter_In. split; [apply (proj2 (dedup_In _ _)); exact Hin|]. apply mem_h_In.
      apply (proj2 (dedup_In _ _)). apply all_in_2_1; auto. }
    pose proof (fst_concat_res _ Hi (repetition_one H no_skip c rep xs ys p1 p2 h) (in_map _ _ _ Hc)) as Hz.
    unfold repetition_one in Hz. rewrite !indexes_length in Hz.
    destruct (Nat.eqb (count h hh1) (count h hh2)) eqn:E.
    + apply Nat.eqb_eq in E. exact E.
    + cbn [no_skip fst] in Hz. discriminate.
  - rewrite (count_notin h hh2 Hnin). apply count_notin. intro X. apply Hnin. apply all_in_1_2; auto.
Qed.

Lemma iter_norep_sound :
  fst (iter_norep H no_skip c rep pairs recs xs ys p1 p2) = [] ->
  hashes_added H c rep xs ys = [] /\ hashes_removed H c rep xs ys = [].
Proof.
  unfold iter_norep.
  destruct (added_loop _ (hashes_added H c rep xs ys) (hashes_removed H c rep xs ys)) as [ra remaining] eqn:EL.
  rewrite !fst_app2. intro Hn. apply app_eq_nil in Hn as [Ha Hr].
  assert (Hadd : hashes_added H c rep xs ys = []).
  { eapply added_loop_nil; [|rewrite EL; exact Ha].
    intros a rem' Hin. apply added_spec in Hin as [X Y]. apply added_one_nonempty; auto. }
  rewrite Hadd in EL. cbn [added_loop] in EL. inversion EL; subst ra remaining. clear EL.
  split; [exact Hadd|].
  destruct (hashes_removed H c rep xs ys) as [|r rs] eqn:E; [reflexivity|]. exfalso.
  pose proof (fst_concat_res _ Hr (removed_one H no_skip c rep xs p1 p2 r) (or_introl eq_refl)) as Hz.
  unfold removed_one in Hz. cbn [fst] in Hz. rewrite rpt_one in Hz. discriminate.
Qed.

(* the arranged item hashes coincide, hence the two sequences hash equally *)
Lemma iter_sound_arrange :
  fst (iter_deephash H no_skip c rep pairs recs xs ys p1 p2) = [] ->
  arrange o hh1 = arrange o hh2.
Proof.
  unfold iter_deephash. destruct rep_cases as [E|E].
  - rewrite (if_true _ _ _ E). intro Hn. apply iter_rep_sound in Hn as [_ [_ Hc]].
    apply arrange_perm; [reflexivity|]. apply count_eq_perm. exact Hc.
  - rewrite (if_false _ _ _ E). intro Hn. apply iter_norep_sound in Hn as [Ha Hr].
    apply arrange_same_set; [reflexivity|rewrite o_rep, E; reflexivity|].
    intro x. split; [apply all_in_1_2|apply all_in_2_1]; auto.
Qed.
End LevelSound.

(* ---- sets ---- *)
Lemma first_per_hash_cover (hatom : atom -> pystr) l seen y :
  In y l -> existsb (pystr_eqb (hatom y)) seen = true \/
            exists y', In y' (first_per_hash hatom l seen) /\ hatom y' = hatom y.
Proof.
  revert seen; induction l as [|a r IH]; intros seen; [intros []|]. cbn [first_per_hash].
  intros [->|Hin].
  - destruct (existsb (pystr_eqb (hatom y)) seen) eqn:E; [left; reflexivity|].
    right. exists y. split; [left; reflexivity|reflexivity].
  - destruct (existsb (pystr_eqb (hatom a)) seen) eqn:E.
    + destruct (IH seen Hin) as [Hs|[y' [Hy' He]]]; [left; exact Hs|right; exists y'; auto].
    + destruct (IH (hatom a :: seen) Hin) as [Hs|[y' [Hy' He]]].
      * cbn [existsb] in Hs. apply orb_true_iff in Hs as [Hs|Hs]; [|left; exact Hs].
        apply ValueFacts.pystr_eqb_eq in Hs. right. exists a. split; [left; reflexivity|congruence].
      * right. exists y'. split; [right; exact Hy'|exact He].
Qed.

Lemma atom_hash_inj a b :
  tag_safe_atom a = true -> tag_safe_atom b = true -> hatom_io H c rep a = hatom_io H c rep b -> a = b.
Proof.
  intros Ta Tb He.
  assert (Hv : eqv o (VAtom a) (VAtom b)).
  { apply Hyp_C07; try reflexivity; unfold tag_safe; cbn [atoms_of forallb]; try (rewrite Ta || rewrite Tb); auto. }
  inversion Hv; reflexivity.
Qed.

Lemma diff_set_nil xs ys p1 p2 :
  (forall a, In a xs -> tag_safe_atom a = true) -> (forall a, In a ys -> tag_safe_atom a = true) ->
  diff_set (hatom_io H c rep) no_skip xs ys p1 p2 = [] -> forall a, In a xs <-> In a ys.
Proof.
  intros Tx Ty Hn. unfold diff_set in Hn. apply app_eq_nil in Hn as [Hadd Hrem].
  assert (G : forall l l' (f : atom -> list entry), (forall y, f y <> []) ->
            (forall a, In a l -> tag_safe_atom a = true) -> (forall a, In a l' -> tag_safe_atom a = true) ->
            flat_map (fun y => if existsb (pystr_eqb (hatom_io H c rep y)) (map (hatom_io H c rep) l') then []
                               else f y) (first_per_hash (hatom_io H c rep) l []) = [] ->
            forall a, In a l -> In a l').
  { intros l l' f Hf Tl Tl' Hfm a Ha.
    destruct (first_per_hash_cover (hatom_io H c rep) l [] a Ha) as [Hs|[y' [Hy' He]]]; [discriminate|].
    pose proof (flat_map_nil_inv _ _ y' Hfm Hy') as Hz. cbn beta in Hz.
    destruct (existsb (pystr_eqb (hatom_io H c rep y')) (map (hatom_io H c rep) l')) eqn:E;
      [|exfalso; eapply Hf; eauto].
    apply existsb_exists in E as [h [Hh Hq]]. apply ValueFacts.pystr_eqb_eq in Hq. subst h.
    apply in_map_iff in Hh as [b [Hb Hbl]].
    assert (b = a); [|subst; auto].
    apply first_per_hash_incl in Hy'.
    apply atom_hash_inj; auto. congruence. }
  intro a. split.
  - apply (G xs ys (fun x => report_set no_skip KSetRem x p1 p2)); auto.
    intros y. unfold report_set. cbn [no_skip]. discriminate.
  - apply (G ys xs (fun y => report_set no_skip KSetAdd y p1 p2)); auto.
    intros y. unfold report_set. cbn [no_skip]. discriminate.
Qed.

(* ---- dicts ---- *)
Lemma common_nil_inv kvs2 k2 p1 p2 l k v1 v2 :
  fst (io_common kvs2 k2 p1 p2 l) = [] -> In (k, v1) l -> keep_key c k = true ->
  find (py_eq k) k2 = Some k -> assoc k kvs2 = Some v2 ->
  fst (dio v1 v2 (snoc p1 (PKey k)) (snoc p2 (PKey k))) = [].
Proof.
  induction l as [|[k' w] r IH]; [intros _ []|]. cbn [io_common]. fold (io_common kvs2 k2 p1 p2 r).
  intros Hn Hin Hk Hf Ha. destruct Hin as [E|Hin].
  - inversion E; subst k' w. rewrite Hk, Hf, Ha in Hn. rewrite fst_app2 in Hn.
    apply app_eq_nil in Hn as [Hn _]. exact Hn.
  - apply IH; auto. destruct (keep_key c k'); [|exact Hn].
    destruct (find (py_eq k') k2) as [k''|]; [|exact Hn].
    destruct (assoc k'' kvs2); [|exact Hn].
    rewrite fst_app2 in Hn. apply app_eq_nil in Hn as [_ Hn]. exact Hn.
Qed.

Lemma Forall2_map_r {A B} (R : A -> B -> Prop) (f : A -> B) l : (forall x, In x l -> R x (f x)) -> Forall2 R l (map f l).
Proof.
  induction l as [|x r IH]; intros Hr; cbn [map]; constructor.
  - apply Hr; left; reflexivity.
  - apply IH. intros; apply Hr; right; auto.
Qed.

Lemma NoDup_fst {A B} (l : list (A * B)) : NoDup (map fst l) -> NoDup l.
Proof.
  induction l as [|[k v] r IH]; cbn [map fst]; intros Hn; constructor; inversion Hn; subst; auto.
  intro Hin. apply H2. apply in_map_iff. exists (k, v). auto.
Qed.

Lemma keys_nodup kvs : nodup_atoms (map fst kvs) = true -> NoDup (keys_of c kvs).
Proof. intros Hn. apply nodup_NoDup. unfold keys_of. apply nodup_filter. exact Hn. Qed.

Lemma io_dict_sound kvs1 kvs2 p1 p2 :
  wf (VDict kvs1) = true -> wf (VDict kvs2) = true ->
  NA (atoms_of (VDict kvs1) ++ atoms_of (VDict kvs2)) ->
  (forall k v1 v2 q1 q2, In (k, v1) kvs1 -> In (k, v2) kvs2 -> fst (dio v1 v2 q1 q2) = [] -> eqv o v1 v2) ->
  fst (io_dict kvs1 kvs2 p1 p2) = [] -> eqv o (VDict kvs1) (VDict kvs2).
Proof.
  intros W1 W2 Hna IHv. unfold io_dict.
  destruct (dict_shortcut excl c (keys_of c kvs1) (keys_of c kvs2) p1); [cbn [fst]; rewrite rpt_one; discriminate|].
  cbn [fst]. intro Hn. apply app_eq_nil in Hn as [Hadd Hn]. apply app_eq_nil in Hn as [Hrem Hcom].
  cbn [wf] in W1, W2. apply andb_true_iff in W1 as [N1 _]. apply andb_true_iff in W2 as [N2 _].
  (* keys: mutual inclusion *)
  assert (Kin : forall k kvs kvs', In k (keys_of c kvs) -> mem_atom k (keys_of c kvs') = true ->
                incl (atoms_of (VDict kvs) ++ atoms_of (VDict kvs')) (atoms_of (VDict kvs1) ++ atoms_of (VDict kvs2)) ->
                In k (keys_of c kvs')).
  { intros k kvs kvs' Hk Hm Hincl. apply mem_atom_In in Hm as [k' [Hk' He]].
    assert (k = k'); [|subst; auto].
    apply Hna; auto; apply Hincl; apply in_or_app.
    - left. unfold keys_of in Hk. apply filter_In in Hk as [Hk _]. apply in_map_iff in Hk as [[kk vv] [<- Hi]].
      eapply atoms_dict_key; eauto.
    - right. unfold keys_of in Hk'. apply filter_In in Hk' as [Hk' _]. apply in_map_iff in Hk' as [[kk vv] [<- Hi]].
      eapply atoms_dict_key; eauto. }
  assert (K21 : forall k, In k (keys_of c kvs2) -> In k (keys_of c kvs1)).
  { intros k Hk. apply (Kin k kvs2 kvs1); auto.
    - pose proof (flat_map_nil_inv _ _ k Hadd Hk) as Hz. cbn beta in Hz.
      destruct (mem_atom k (keys_of c kvs1)); [reflexivity|rewrite rpt_one in Hz; discriminate].
    - intros a Ha. apply in_app_or in Ha. apply in_or_app. tauto. }
  assert (K12 : forall k, In k (keys_of c kvs1) -> In k (keys_of c kvs2)).
  { intros k Hk. apply (Kin k kvs1 kvs2); auto.
    - pose proof (flat_map_nil_inv _ _ k Hrem Hk) as Hz. cbn beta in Hz.
      destruct (mem_atom k (keys_of c kvs2)); [reflexivity|rewrite rpt_one in Hz; discriminate].
    - intros a Ha. exact Ha. }
  (* the partner of every visible item of kvs1 *)
  assert (P : forall k v1, In (k, v1) (vis o kvs1) ->
              exists v2, In (k, v2) (vis o kvs2) /\ assoc k kvs2 = Some v2 /\ eqv o v1 v2).
  { intros k v1 Hv. apply vis_In in Hv as [Hin Hkeep].
    assert (Hk1 : In k (keys_of c kvs1)).
    { unfold keys_of. apply filter_In. split; auto. apply in_map_iff. exists (k, v1). auto. }
    pose proof (K12 k Hk1) as Hk2.
    assert (Hf : find (py_eq k) (keys_of c kvs2) = Some k).
    { apply nodup_find; auto. unfold keys_of. apply nodup_filter. exact N2. }
    rewrite keys_vis in Hk2. apply in_map_iff in Hk2 as [[k' v2] [Ek Hv2]]. cbn [fst] in Ek. subst k'.
    exists v2. split; auto.
    apply vis_In in Hv2 as [Hin2 _].
    assert (Ha : assoc k kvs2 = Some v2) by (apply nodup_assoc; auto).
    split; auto.
    eapply IHv; eauto. eapply common_nil_inv; eauto. }
  apply eqv_dict.
  set (f := fun kv : atom * value => (fst kv, match assoc (fst kv) kvs2 with Some v => v | None => snd kv end)).
  apply items_perm with (l2' := map f (vis o kvs1)).
  - apply NoDup_Permutation.
    + apply NoDup_fst. rewrite <- keys_vis. apply keys_nodup; auto.
    + apply NoDup_fst. rewrite map_map. cbn [f fst]. rewrite <- keys_vis. apply keys_nodup; auto.
    + intros [k v]. split.
      * intros Hin. assert (Hk2 : In k (keys_of c kvs2)) by (rewrite keys_vis; apply in_map_iff; exists (k, v); auto).
        apply K21 in Hk2. rewrite keys_vis in Hk2. apply in_map_iff in Hk2 as [[k' v1] [Ek Hv1]]. cbn [fst] in Ek. subst k'.
        apply in_map_iff. exists (k, v1). split; auto. unfold f. cbn [fst snd].
        apply vis_In in Hin as [Hin _]. rewrite (nodup_assoc k v kvs2 N2 Hin). reflexivity.
      * intros Hin. apply in_map_iff in Hin as [[k' v1] [Ef Hv1]]. unfold f in Ef. cbn [fst snd] in Ef.
        destruct (P k' v1 Hv1) as [v2 [Hv2 [Ha _]]]. rewrite Ha in Ef. inversion Ef; subst. exact Hv2.
  - apply Forall2_map_r. intros [k v1] Hv1. unfold f. cbn [fst snd]. split; [reflexivity|].
    destruct (P k v1 Hv1) as [v2 [Hv2 [Ha He]]]. rewrite Ha. exact He.
Qed.

(* ---- the whole value ---- *)
Lemma wf_item_list x xs : wf (VList xs) = true -> In x xs -> wf x = true.
Proof. cbn [wf]. rewrite forallb_forall. auto. Qed.
Lemma wf_item_tuple x xs : wf (VTuple xs) = true -> In x xs -> wf x = true.
Proof. cbn [wf]. rewrite forallb_forall. auto. Qed.

Lemma NA_sub l1 l2 m1 m2 : incl l1 m1 -> incl l2 m2 -> NA (m1 ++ m2) -> NA (l1 ++ l2).
Proof.
  intros I1 I2. apply NA_incl. intros a Ha. apply in_app_or in Ha. apply in_or_app. destruct Ha; [left|right]; auto.
Qed.

Lemma seq_sound (tagname : pystr) (mk : list value -> value) xs ys p1 p2 :
  (forall l, hvv (mk l) = H (retag o (seq_result tagname (arrange o (map hvv l))))) ->
  (forall x l, In x l -> incl (atoms_of x) (atoms_of (mk l))) ->
  (forall x l, wf (mk l) = true -> In x l -> wf x = true) ->
  Forall (fun x => forall t2 q1 q2, wf x = true -> wf t2 = true -> tag_safe x = true -> tag_safe t2 = true ->
                   NA (atoms_of x ++ atoms_of t2) -> fst (dio x t2 q1 q2) = [] -> eqv o x t2) xs ->
  wf (mk xs) = true -> wf (mk ys) = true -> tag_safe (mk xs) = true -> tag_safe (mk ys) = true ->
  NA (atoms_of (mk xs) ++ atoms_of (mk ys)) ->
  fst (iter_deephash H no_skip c rep pairs (map dio xs) xs ys p1 p2) = [] -> eqv o (mk xs) (mk ys).
Proof.
  intros Hh Hat Hw IH W1 W2 T1 T2 Hna Hn.
  apply Hyp_C07; auto. rewrite !Hh. do 3 f_equal.
  apply (iter_sound_arrange xs ys p1 p2); auto.
  intros x y q1 q2 Hx Hy Hd. apply eqv_hv.
  rewrite Forall_forall in IH. apply (IH x Hx y q1 q2); auto.
  - apply (Hw x xs W1 Hx).
  - apply (Hw y ys W2 Hy).
  - apply (tag_safe_incl x (mk xs)); [apply Hat; exact Hx|exact T1].
  - apply (tag_safe_incl y (mk ys)); [apply Hat; exact Hy|exact T2].
  - apply (NA_sub _ _ (atoms_of (mk xs)) (atoms_of (mk ys))); [apply Hat; exact Hx|apply Hat; exact Hy|exact Hna].
Qed.

Lemma dio_type t1 t2 p1 p2 : fst (dio t1 t2 p1 p2) = [] -> type_of t1 = type_of t2.
Proof.
  intro Hn. apply ty_eqb_eq. destruct (ty_eqb (type_of t1) (type_of t2)) eqn:E; [reflexivity|exfalso].
  destruct t1; cbn [diff_io no_skip] in Hn; rewrite E in Hn; cbn [negb fst] in Hn; rewrite rpt_one in Hn; discriminate.
Qed.

Theorem io_sound : forall t1 t2 p1 p2,
  wf t1 = true -> wf t2 = true -> tag_safe t1 = true -> tag_safe t2 = true ->
  NA (atoms_of t1 ++ atoms_of t2) ->
  fst (dio t1 t2 p1 p2) = [] -> eqv o t1 t2.
Proof.
  intros t1. induction t1 as [a|xs IH|xs IH|kvs IH|xs|xs] using HashProofsC06.value_ind';
    intros t2 p1 p2 W1 W2 T1 T2 Hna Hn; pose proof (dio_type _ _ _ _ Hn) as Hty;
    destruct t2; try (cbn in Hty; destruct a; discriminate); try discriminate Hty.
  - cbn [diff_io no_skip type_of] in Hn.
    destruct (ty_eqb (atom_ty a) (atom_ty a0)); cbn [negb fst] in Hn; [|rewrite rpt_one in Hn; discriminate].
    apply diff_atom_nil in Hn. subst. constructor.
  - rewrite dio_list in Hn.
    eapply (seq_sound _ VList xs xs0 p1 p2); eauto.
    + intros l. reflexivity.
    + intros x l. apply atoms_item_list.
    + intros x l. apply wf_item_list.
  - rewrite dio_tuple in Hn.
    eapply (seq_sound _ VTuple xs xs0 p1 p2); eauto.
    + intros l. reflexivity.
    + intros x l. apply atoms_item_tuple.
    + intros x l. apply wf_item_tuple.
  - rewrite dio_dict in Hn. eapply io_dict_sound; eauto.
    intros k v1 v2 q1 q2 Hi1 Hi2 Hd. rewrite Forall_forall in IH.
    apply (IH (k, v1) Hi1 v2 q1 q2); auto.
    + cbn [wf] in W1. apply andb_true_iff in W1 as [_ W1]. rewrite forallb_forall in W1. apply (W1 (k, v1) Hi1).
    + cbn [wf] in W2. apply andb_true_iff in W2 as [_ W2]. rewrite forallb_forall in W2. apply (W2 (k, v2) Hi2).
    + eapply tag_safe_incl; [eapply atoms_dict_val; eauto|auto].
    + eapply tag_safe_incl; [eapply atoms_dict_val; eauto|auto].
    + eapply NA_sub; [eapply atoms_dict_val; eauto|eapply atoms_dict_val; eauto|exact Hna].
  - cbn [diff_io no_skip type_of ty_eqb negb fst] in Hn.
    apply eqv_set. apply NoDup_Permutation.
    + apply nodup_NoDup. exact W1.
    + apply nodup_NoDup. exact W2.
    + eapply diff_set_nil; eauto.
      * intros a Ha. rewrite tag_safe_forall in T1. apply T1. exact Ha.
      * intros a Ha. rewrite tag_safe_forall in T2. apply T2. exact Ha.
  - cbn [diff_io no_skip type_of ty_eqb negb fst] in Hn.
    apply eqv_frozen. apply NoDup_Permutation.
    + apply nodup_NoDup. exact W1.
    + apply nodup_NoDup. exact W2.
    + eapply diff_set_nil; eauto.
      * intros a Ha. rewrite tag_safe_forall in T1. apply T1. exact Ha.
      * intros a Ha. rewrite tag_safe_forall in T2. apply T2. exact Ha.
Qed.

(* ---- the threshold shortcut fires only on dicts that already differ ---- *)
Lemma Forall2_fst_eq (R : value -> value -> Prop) (l l' : list (atom * value)) :
  Forall2 (fun p q => fst p = fst q /\ R (snd p) (snd q)) l l' -> map fst l = map fst l'.
Proof. induction 1 as [|p q l l' [Hk _] HF IHF]; cbn [map]; [reflexivity|]. rewrite IHF, Hk. reflexivity. Qed.

Lemma eqv_dict_keys kvs1 kvs2 : eqv o (VDict kvs1) (VDict kvs2) ->
  (forall k, In k (keys_of c kvs2) -> mem_atom k (keys_of c kvs1) = true) /\
  (forall k, In k (keys_of c kvs1) -> mem_atom k (keys_of c kvs2) = true).
Proof.
  intros He. inversion He as [| | |kvs kvs' Hi| |]; subst.
  inversion Hi as [l1 l2 l2' Hp HF E1 E2]; subst l1 l2.
  assert (Hk : Permutation (keys_of c kvs2) (keys_of c kvs1)).
  { rewrite !keys_vis. eapply perm_trans; [apply Permutation_map, Hp|].
    rewrite (Forall2_fst_eq _ _ _ HF). apply Permutation_refl. }
  split; intros k Hin; apply mem_atom_In; exists k; (split; [|apply py_eq_refl]).
  - eapply Permutation_in; [exact Hk|exact Hin].
  - eapply Permutation_in; [apply Permutation_sym, Hk|exact Hin].
Qed.

Theorem shortcut_only_on_different kvs1 kvs2 p1 :
  dict_shortcut excl c (keys_of c kvs1) (keys_of c kvs2) p1 = true -> ~ eqv o (VDict kvs1) (VDict kvs2).
Proof.
  intros Hs He. apply eqv_dict_keys in He as [K21 K12].
  rewrite (shortcut_same_keys _ _ _ K21 K12) in Hs. discriminate.
Qed.

(* ---- the result handed to the user ---- *)
Lemma mutual_nil es : mutual es = [] <-> es = [].
Proof.
  split; [|intros ->; reflexivity]. intro Hm.
  destruct es as [|e es']; [reflexivity|exfalso].
  unfold mutual in Hm. set (es := e :: es') in *.
  assert (Hall : forall x, In x es -> ekind x = KIterAdd).
  { intros x Hx. pose proof (flat_map_nil_inv _ _ x Hm Hx) as Hz. cbn beta in Hz.
    destruct (ekind x); try discriminate Hz; try reflexivity.
    destruct (last_with_path (ep1 x) (filter (is_kind KIterAdd) es)); [|discriminate Hz].
    destruct (last_with_path (ep1 x) (filter (is_kind KIterRem) es)); discriminate Hz. }
  assert (Hr : filter (is_kind KIterRem) es = []).
  { apply filter_nil. intros x Hx. unfold is_kind. rewrite (Hall x Hx). reflexivity. }
  pose proof (flat_map_nil_inv _ _ e Hm (or_introl eq_refl)) as Hz. cbn beta in Hz.
  rewrite (Hall e (or_introl eq_refl)) in Hz. rewrite Hr in Hz. cbn in Hz. discriminate Hz.
Qed.

Lemma run_nil t1 t2 :
  fst (run_diff_io H udiff no_skip excl c rep pairs t1 t2) = [] <-> fst (dio t1 t2 [] []) = [].
Proof.
  unfold run_diff_io. destruct (dio t1 t2 [] []) as [es rs]. cbn [fst].
  destruct rep_cases as [E|E].
  - rewrite (if_true _ _ _ E). tauto.
  - rewrite (if_false _ _ _ E). apply mutual_nil.
Qed.
End Proofs.

(* ================================================================== *)
(** * Final forms *)
From DD Require Import Hash.HashProofsC07.

(* no two atoms of the two inputs that are == in Python but not identical *)
Definition alias_free2 (t1 t2 : value) : bool := no_alias (atoms_of t1 ++ atoms_of t2).

Lemma no_alias_NA l : no_alias l = true -> NA l.
Proof.
  unfold no_alias, NA. rewrite forallb_forall. intros Hn a b Ha Hb He.
  specialize (Hn a Ha). rewrite forallb_forall in Hn. specialize (Hn b Hb). rewrite He in Hn. cbn in Hn.
  apply atom_eqb_eq. exact Hn.
Qed.

Lemma plain_io c rep : plain (io_opts c rep) = true.
Proof. reflexivity. Qed.

Theorem verdict :
  forall (H : pystr -> pystr),
  (forall s, s <> [] -> sepfree (H s)) -> (forall s t, H s = H t -> s = t) ->
  forall udiff excl c rep pairs t1 t2,
  thr_num c <= thr_den c ->
  wf t1 = true -> wf t2 = true -> tag_safe t1 = true -> tag_safe t2 = true -> alias_free2 t1 t2 = true ->
  (fst (run_diff_io H udiff no_skip excl c rep pairs t1 t2) = [] <-> eqv (io_opts c rep) t1 t2).
Proof.
  intros H H_tok H_inj udiff excl c rep pairs t1 t2 Hthr W1 W2 T1 T2 Ha.
  rewrite run_nil. split.
  - apply io_sound; auto.
    + intros a b Wa Wb Ta Tb He. apply (hash_inj H H_tok H_inj (io_opts c rep) (plain_io c rep)); auto; reflexivity.
    + apply no_alias_NA. exact Ha.
  - intros He. rewrite io_complete; auto.
Qed.

(* without the guards on the inputs: equivalent inputs always give the empty result *)
Theorem equal_gives_empty :
  forall (H : pystr -> pystr) udiff excl c rep pairs t1 t2,
  thr_num c <= thr_den c -> wf t2 = true ->
  eqv (io_opts c rep) t1 t2 -> run_diff_io H udiff no_skip excl c rep pairs t1 t2 = ([], []).
Proof.
  intros H udiff excl c rep pairs t1 t2 Hthr W2 He. unfold run_diff_io.
  rewrite io_complete; auto. destruct rep; reflexivity.
Qed.

(* the verdict is a function of (rep, t1, t2): any two pairings - i.e. any two settings of
   cutoff_distance_for_pairs, cutoff_intersection_for_pairs, max_passes, cache_size - agree on it *)
Theorem knob_independence :
  forall (H : pystr -> pystr),
  (forall s, s <> [] -> sepfree (H s)) -> (forall s t, H s = H t -> s = t) ->
  forall udiff udiff' excl excl' c c' rep pairs pairs' t1 t2,
  thr_num c <= thr_den c -> thr_num c' <= thr_den c' ->
  DiffModel.ignore_private c = DiffModel.ignore_private c' ->
  wf t1 = true -> wf t2 = true -> tag_safe t1 = true -> tag_safe t2 = true -> alias_free2 t1 t2 = true ->
  (fst (run_diff_io H udiff no_skip excl c rep pairs t1 t2) = [] <->
   fst (run_diff_io H udiff' no_skip excl' c' rep pairs' t1 t2) = []).
Proof.
  intros H H_tok H_inj udiff udiff' excl excl' c c' rep pairs pairs' t1 t2 Hthr Hthr' Hip W1 W2 T1 T2 Ha.
  rewrite (verdict H H_tok H_inj udiff excl c rep pairs t1 t2); auto.
  rewrite (verdict H H_tok H_inj udiff' excl' c' rep pairs' t1 t2); auto.
  unfold io_opts. rewrite Hip. tauto.
Qed.

(* "a pairing can never turn different into equal": items that hash differently never diff to
   nothing, whatever the pairing oracle answers anywhere below them *)
Theorem different_hash_nonempty :
  forall (H : pystr -> pystr),
  (forall s, s <> [] -> sepfree (H s)) -> (forall s t, H s = H t -> s = t) ->
  forall udiff excl c rep pairs t1 t2 p1 p2,
  wf t1 = true -> wf t2 = true -> tag_safe t1 = true -> tag_safe t2 = true -> alias_free2 t1 t2 = true ->
  hash_pure H (io_opts c rep) t1 <> hash_pure H (io_opts c rep) t2 ->
  fst (diff_io H udiff no_skip excl c rep pairs t1 t2 p1 p2) <> [].
Proof.
  intros H H_tok H_inj udiff excl c rep pairs t1 t2 p1 p2 W1 W2 T1 T2 Ha Hne Hn. apply Hne.
  apply eqv_hash; [reflexivity|].
  eapply io_sound; eauto.
  - intros a b Wa Wb Ta Tb He. apply (hash_inj H H_tok H_inj (io_opts c rep) (plain_io c rep)); auto; reflexivity.
  - apply no_alias_NA. exact Ha.
Qed.

(* ---- the guards cannot be dropped ---- *)
From Coq Require Import String.
Definition cfg_default : cfg := mkCfg false 33 100 true.

(* K1: a str spelling the serialisation of another value (tag_safe fails) *)
Theorem tag_refuted :
  forall (H : pystr -> pystr) udiff excl rep pairs,
  let t1 := VList [VAtom ANone] in
  let t2 := VList [VAtom (AStr (s2p "NONE"%string))] in
  wf t1 = true /\ wf t2 = true /\ alias_free2 t1 t2 = true /\
  run_diff_io H udiff no_skip excl cfg_default rep pairs t1 t2 = ([], []) /\
  ~ eqv (io_opts cfg_default rep) t1 t2.
Proof.
  intros H udiff excl rep pairs t1 t2. split; [reflexivity|]. split; [reflexivity|]. split; [reflexivity|]. split.
  - unfold run_diff_io, t1, t2. rewrite dio_list.
    assert (Eh : h1 H cfg_default rep [VAtom ANone] = h2 H cfg_default rep [VAtom (AStr (s2p "NONE"%string))]) by reflexivity.
    rewrite iter_empty.
    + destruct rep; reflexivity.
    + apply added_nil. rewrite Eh. auto.
    + apply removed_nil. rewrite Eh. auto.
    + intros _ h. rewrite Eh. reflexivity.
  - intro He. inversion He as [|xs ys Hs| | | |]; subst.
    assert (Hx : exists y, In y [VAtom (AStr (s2p "NONE"%string))] /\ eqv (io_opts cfg_default rep) (VAtom ANone) y).
    { inversion Hs as [xs ys Hir Hio Hx Hy|xs ys ys' Hir Hio Hp HF|xs ys Hio HF]; subst.
      - apply Hx. left; reflexivity.
      - inversion HF as [|x y l l' Hxy HF']; subst. exists y. split; auto.
        eapply Permutation_in; [apply Permutation_sym; eassumption|left; reflexivity].
      - discriminate. }
    destruct Hx as [y [[<-|[]] Hy]]. inversion Hy.
Qed.

(* K2 (the part the model has): dict keys are matched by ==, 1 and 1.0 are one key *)
Theorem alias_refuted :
  forall (H : pystr -> pystr) udiff rep pairs,
  let t1 := VDict [(AInt 1, VAtom (AStr (s2p "a"%string)))] in
  let t2 := VDict [(AHalf 2, VAtom (AStr (s2p "a"%string)))] in
  wf t1 = true /\ wf t2 = true /\ tag_safe t1 = true /\ tag_safe t2 = true /\
  run_diff_io H udiff no_skip no_skip cfg_default rep pairs t1 t2 = ([], []) /\
  ~ eqv (io_opts cfg_default rep) t1 t2.
Proof.
  intros H udiff rep pairs t1 t2. repeat (split; [reflexivity|]). split.
  - destruct rep; reflexivity.
  - intro He. inversion He as [| | |kvs kvs' Hi| |]; subst.
    inversion Hi as [l1 l2 l2' Hp HF E1 E2]; subst.
    cbn in Hp. apply Permutation_length_1_inv in Hp. subst l2'.
    cbn in HF. inversion HF as [|x y l l' [Hk _] HF']; subst. cbn in Hk. discriminate.
Qed.

(* threshold_to_diff_deeper above 1 reports equal dicts as changed *)
Theorem threshold_above_one_refuted :
  forall (H : pystr -> pystr) udiff rep pairs,
  let t := VDict [(AStr (s2p "a"%string), VAtom (AInt 1)); (AStr (s2p "b"%string), VAtom (AInt 2))] in
  let c := mkCfg false 2 1 true in
  eqv (io_opts c rep) t t /\ fst (run_diff_io H udiff no_skip no_skip c rep pairs t t) <> [].
Proof.
  intros H udiff rep pairs t c. split; [apply eqv_refl|]. destruct rep; cbn; discriminate.
Qed.

(* the guards are satisfiable by a non-trivial pair, equal as nested sets but not as lists *)
Definition ex_t1 : value :=
  VList [VDict [(AStr (s2p "k"%string), VList [VAtom (AInt 1); VAtom (AInt 2); VAtom (AInt 2)]); (AInt 7, VSet [ANone; AStr (s2p "x y"%string)])];
         VTuple [VAtom (AHalf 3); VAtom (ABool false)]; VAtom (ABytes (s2p "a"%string))].
Definition ex_t2 : value :=
  VList [VAtom (ABytes (s2p "a"%string)); VTuple [VAtom (ABool false); VAtom (AHalf 3)];
         VDict [(AInt 7, VSet [AStr (s2p "x y"%string); ANone]); (AStr (s2p "k"%string), VList [VAtom (AInt 2); VAtom (AInt 1)])];
         VTuple [VAtom (AHalf 3); VAtom (ABool false); VAtom (ABool false)]].
Example guards_satisfiable :
  wf ex_t1 = true /\ wf ex_t2 = true /\ tag_safe ex_t1 = true /\ tag_safe ex_t2 = true /\ alias_free2 ex_t1 ex_t2 = true /\
  fst (run_diff_io hexhash (fun _ _ => []) no_skip no_skip cfg_default false (fun _ => []) ex_t1 ex_t2) = [] /\
  fst (run_diff_io hexhash (fun _ _ => []) no_skip no_skip cfg_default true (fun _ => []) ex_t1 ex_t2) <> [].
Proof. repeat (split; [vm_compute; reflexivity|]). vm_compute. discriminate. Qed.

From Coq Require Import List ZArith NArith Bool Arith Lia Permutation.
Import ListNotations.
From DD Require Import Base.PyStr Base.Value Base.ValueFacts Diff.Tree Diff.DiffModel Hash.HashModel Hash.Equiv
  Hash.HashProofsBase Hash.HashProofsC06 DiffIO.DiffIOModel.

Definition no_skip (_ : path) : bool := false.

(* ---- small list facts ---- *)
Lemma mem_h_In h l : mem_h h l = true <-> In h l.
Proof.
  unfold mem_h. rewrite existsb_exists. split.
  - intros [x [Hi He]]. apply HashProofsBase.pystr_eqb_eq in He. subst. exact Hi.
  - intros Hi. exists h. split; auto. apply HashProofsBase.pystr_eqb_refl.
Qed.
Lemma mem_h_false h l : mem_h h l = false <-> ~ In h l.
Proof.
  rewrite <- mem_h_In. destruct (mem_h h l); split; intro X; try discriminate; try reflexivity.
  exfalso; apply X; reflexivity.
Qed.

Lemma indexes_length h l i : length (indexes_of h l i) = count h l.
Proof.
  revert i; induction l as [|x r IH]; intros i; cbn [indexes_of]; [reflexivity|].
  unfold count in *. cbn [filter]. destruct (pystr_eqb h x); cbn [app length]; rewrite IH; reflexivity.
Qed.

Lemma indexes_nth h l i k : In k (indexes_of h l i) -> i <= k /\ nth_error l (k - i) = Some h.
Proof.
  revert i; induction l as [|x r IH]; intros i; cbn [indexes_of]; [intros []|].
  intros Hin. apply in_app_or in Hin as [Hin|Hin].
  - destruct (pystr_eqb h x) eqn:E; [|destruct Hin]. destruct Hin as [<-|[]].
    apply HashProofsBase.pystr_eqb_eq in E. subst. rewrite Nat.sub_diag. auto.
  - apply IH in Hin as [Hle Hn]. split; [lia|].
    replace (k - i) with (S (k - S i)) by lia. exact Hn.
Qed.

Lemma indexes_nonempty h l i : In h l -> indexes_of h l i <> [].
Proof.
  intros Hin He. apply (f_equal (@length nat)) in He. rewrite indexes_length in He. cbn in He.
  pose proof (count_pos h l Hin). lia.
Qed.

Lemma first_of_index h l : In h l -> nth_error l (first_of (indexes_of h l 0)) = Some h.
Proof.
  intros Hin. pose proof (indexes_nonempty h l 0 Hin) as Hne.
  destruct (indexes_of h l 0) as [|k ks] eqn:E; [congruence|]. cbn [first_of hd].
  assert (Hk : In k (indexes_of h l 0)) by (rewrite E; left; reflexivity).
  apply indexes_nth in Hk as [_ Hk]. rewrite Nat.sub_0_r in Hk. exact Hk.
Qed.

Lemma nth_error_map_inv {A B} (f : A -> B) l i b : nth_error (map f l) i = Some b -> exists a, nth_error l i = Some a /\ f a = b.
Proof.
  revert i; induction l as [|x r IH]; intros [|i]; cbn; try discriminate.
  - intros E; inversion E. eauto.
  - apply IH.
Qed.

Lemma filter_nil {A} (f : A -> bool) l : (forall x, In x l -> f x = false) -> filter f l = [].
Proof.
  induction l as [|x r IH]; intros Hf; cbn; [reflexivity|].
  rewrite (Hf x (or_introl eq_refl)). apply IH. intros; apply Hf; right; auto.
Qed.
Lemma filter_nil_inv {A} (f : A -> bool) l x : filter f l = [] -> In x l -> f x = false.
Proof.
  induction l as [|y r IH]; cbn; [intros _ []|].
  destruct (f y) eqn:E; [discriminate|]. intros Hn [<-|Hi]; auto.
Qed.
Lemma flat_map_nil {A B} (f : A -> list B) l : (forall x, In x l -> f x = []) -> flat_map f l = [].
Proof.
  induction l as [|x r IH]; intros Hf; cbn; [reflexivity|].
  rewrite (Hf x (or_introl eq_refl)). apply IH. intros; apply Hf; right; auto.
Qed.
Lemma flat_map_nil_inv {A B} (f : A -> list B) l x : flat_map f l = [] -> In x l -> f x = [].
Proof.
  induction l as [|y r IH]; cbn; [intros _ []|].
  intros Hn. apply app_eq_nil in Hn as [H1 H2]. intros [<-|Hi]; auto.
Qed.
Lemma concat_res_nil {A} (f : A -> res) l : (forall x, In x l -> f x = ([], [])) -> concat_res (map f l) = ([], []).
Proof.
  unfold concat_res. induction l as [|x r IH]; intros Hf; cbn [map fold_right]; [reflexivity|].
  rewrite (Hf x (or_introl eq_refl)). rewrite IH; [reflexivity|]. intros; apply Hf; right; auto.
Qed.

Lemma filter_map_fst {B} (f : atom -> bool) (l : list (atom * B)) :
  filter f (map fst l) = map fst (filter (fun kv => f (fst kv)) l).
Proof. induction l as [|[k v] r IH]; cbn; [reflexivity|]. destruct (f k); cbn; rewrite IH; reflexivity. Qed.

(* ---- py_eq-keyed lists without duplicates ---- *)
Lemma nodup_find k l : nodup_atoms l = true -> In k l -> find (py_eq k) l = Some k.
Proof.
  induction l as [|x r IH]; cbn [nodup_atoms find]; [intros _ []|].
  intros Hn Hin. apply andb_true_iff in Hn as [Hx Hr].
  destruct Hin as [->|Hin]; [rewrite py_eq_refl; reflexivity|].
  destruct (py_eq k x) eqn:E; [|auto].
  exfalso. apply negb_true_iff in Hx. assert (mem_atom x r = true); [|congruence].
  apply mem_atom_In. exists k. split; auto. rewrite py_eq_sym. exact E.
Qed.
Lemma nodup_assoc {B} k (v : B) l : nodup_atoms (map fst l) = true -> In (k, v) l -> assoc k l = Some v.
Proof.
  induction l as [|[x w] r IH]; cbn [nodup_atoms map fst assoc]; [intros _ []|].
  intros Hn Hin. apply andb_true_iff in Hn as [Hx Hr].
  destruct Hin as [E|Hin]; [inversion E; subst; rewrite py_eq_refl; reflexivity|].
  destruct (py_eq x k) eqn:E; [|auto].
  exfalso. apply negb_true_iff in Hx. assert (mem_atom x (map fst r) = true); [|congruence].
  apply mem_atom_In. exists k. split; auto. apply in_map_iff. exists (k, v). auto.
Qed.
Lemma nodup_filter f l : nodup_atoms l = true -> nodup_atoms (filter f l) = true.
Proof.
  induction l as [|x r IH]; cbn [nodup_atoms filter]; [auto|].
  intros Hn. apply andb_true_iff in Hn as [Hx Hr]. destruct (f x); cbn [nodup_atoms]; auto.
  rewrite IH by auto. rewrite andb_true_r. apply negb_true_iff. apply negb_true_iff in Hx.
  destruct (mem_atom x (filter f r)) eqn:E; [|reflexivity].
  apply mem_atom_In in E as [b [Hb Hp]]. apply filter_In in Hb as [Hb _].
  assert (mem_atom x r = true) by (apply mem_atom_In; eauto). congruence.
Qed.
Lemma nodup_NoDup l : nodup_atoms l = true -> NoDup l.
Proof.
  induction l as [|x r IH]; cbn [nodup_atoms]; intros Hn; constructor.
  - apply andb_true_iff in Hn as [Hx _]. apply negb_true_iff in Hx. intro Hin.
    assert (mem_atom x r = true) by (apply mem_atom_In; exists x; split; auto; apply py_eq_refl). congruence.
  - apply andb_true_iff in Hn as [_ Hr]. auto.
Qed.

Section Proofs.
Variable H : pystr -> pystr.
Variable udiff : pystr -> pystr -> pystr.
Variable excl : path -> bool.
Variable c : cfg.
Variable rep : bool.
Variable pairs : path -> list (nat * nat).
Hypothesis thr_le_one : thr_num c <= thr_den c.

Notation o := (io_opts c rep).
Notation dio := (diff_io H udiff no_skip excl c rep pairs).
Notation hvv := (hv H c rep).

Lemma o_order : ignore_iterable_order o = true.
Proof. reflexivity. Qed.
Lemma o_rep : ignore_repetition o = negb rep.
Proof. reflexivity. Qed.

Lemma eqv_hv a b : eqv o a b -> hvv a = hvv b.
Proof. intros He. unfold hv. apply eqv_hash; auto. Qed.

(* ---- equations ---- *)
Lemma rpt_one k p1 p2 a b d : rpt no_skip k p1 p2 a b d = [mkEntry k p1 p2 a b d].
Proof. reflexivity. Qed.

Lemma recs_map xs :
  (fix go (l : list value) : list rec_fn :=
     match l with [] => [] | x :: r => dio x :: go r end) xs = map dio xs.
Proof. induction xs as [|x r IH]; cbn [map]; [reflexivity|]. rewrite IH. reflexivity. Qed.

Lemma dio_list xs ys p1 p2 :
  dio (VList xs) (VList ys) p1 p2 = iter_deephash H no_skip c rep pairs (map dio xs) xs ys p1 p2.
Proof. cbn [diff_io no_skip type_of ty_eqb negb]. rewrite recs_map. reflexivity. Qed.
Lemma dio_tuple xs ys p1 p2 :
  dio (VTuple xs) (VTuple ys) p1 p2 = iter_deephash H no_skip c rep pairs (map dio xs) xs ys p1 p2.
Proof. cbn [diff_io no_skip type_of ty_eqb negb]. rewrite recs_map. reflexivity. Qed.

Lemma nth_rec_map xs i x : nth_error xs i = Some x -> nth_rec (map dio xs) i = dio x.
Proof.
  unfold nth_rec. revert i; induction xs as [|y r IH]; intros [|i]; cbn; try discriminate.
  - intros E; inversion E; reflexivity.
  - apply IH.
Qed.

(* ---- keys ---- *)
Lemma keep_key_hidden k : keep_key c k = negb (hidden o k).
Proof. unfold keep_key, hidden. cbn [HashModel.ignore_private io_opts]. destruct k; reflexivity. Qed.
Lemma keys_vis (kvs : list (atom * value)) : keys_of c kvs = map fst (vis o kvs).
Proof.
  unfold keys_of, vis. rewrite filter_map_fst.
  rewrite (filter_ext (fun kv : atom * value => keep_key c (fst kv)) (fun kv => negb (hidden o (fst kv)))); [reflexivity|].
  intros [k v]. apply keep_key_hidden.
Qed.

(* ================================================================== *)
(** * nothing added, nothing removed, same multiplicities => empty *)

Lemma added_nil xs ys :
  (forall h, In h (h2 H c rep ys) -> In h (h1 H c rep xs)) -> hashes_added H c rep xs ys = [].
Proof.
  intros Hs. unfold hashes_added. apply filter_nil. intros h Hin.
  apply negb_false_iff, mem_h_In. unfold t1_hashes, t2_hashes in *.
  apply dedup_In. apply Hs. apply dedup_In. exact Hin.
Qed.
Lemma removed_nil xs ys :
  (forall h, In h (h1 H c rep xs) -> In h (h2 H c rep ys)) -> hashes_removed H c rep xs ys = [].
Proof.
  intros Hs. unfold hashes_removed. apply filter_nil. intros h Hin.
  apply negb_false_iff, mem_h_In. unfold t1_hashes, t2_hashes in *.
  apply dedup_In. apply Hs. apply dedup_In. exact Hin.
Qed.

Lemma iter_empty recs xs ys p1 p2 :
  hashes_added H c rep xs ys = [] -> hashes_removed H c rep xs ys = [] ->
  (rep = true -> forall h, count h (h1 H c rep xs) = count h (h2 H c rep ys)) ->
  iter_deephash H no_skip c rep pairs recs xs ys p1 p2 = ([], []).
Proof.
  intros Ha Hr Hc. unfold iter_deephash. rewrite Ha, Hr. cbn [added_loop map concat_res fold_right app2 fst snd app].
  destruct rep; [|reflexivity].
  rewrite concat_res_nil; [reflexivity|].
  intros h _. unfold repetition_one. rewrite !indexes_length, (Hc eq_refl h), Nat.eqb_refl. reflexivity.
Qed.

Lemma seq_rel_iter recs xs ys p1 p2 :
  seq_rel o (eqv o) xs ys -> iter_deephash H no_skip c rep pairs recs xs ys p1 p2 = ([], []).
Proof.
  intros Hr. destruct Hr as [xs ys Hir Hio Hx Hy|xs ys ys' Hir Hio Hp HF|xs ys Hio HF].
  - rewrite o_rep in Hir. apply negb_true_iff in Hir.
    apply iter_empty.
    + apply added_nil. unfold h1, h2. intros h Hin. apply in_map_iff in Hin as [y [<- Hin]].
      destruct (Hy y Hin) as [x [Hxi He]]. apply in_map_iff. exists x. split; auto. apply eqv_hv; auto.
    + apply removed_nil. unfold h1, h2. intros h Hin. apply in_map_iff in Hin as [x [<- Hin]].
      destruct (Hx x Hin) as [y [Hyi He]]. apply in_map_iff. exists y. split; auto. symmetry. apply eqv_hv; auto.
    + intros E; congruence.
  - assert (Hm : map hvv xs = map hvv ys').
    { apply (Forall2_map_eq _ _ hvv (eqv o) xs ys' HF). intros; apply eqv_hv; auto. }
    assert (Hperm : Permutation (h1 H c rep xs) (h2 H c rep ys)).
    { unfold h1, h2. rewrite Hm. apply Permutation_map, Permutation_sym, Hp. }
    apply iter_empty.
    + apply added_nil. intros h Hin. eapply Permutation_in; [apply Permutation_sym, Hperm|exact Hin].
    + apply removed_nil. intros h Hin. eapply Permutation_in; [apply Hperm|exact Hin].
    + intros _ h. apply count_perm, Hperm.
  - rewrite o_order in Hio. discriminate.
Qed.
End Proofs.

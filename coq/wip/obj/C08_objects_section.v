
(* ------------------------------------------------------------------ *)
(** EXTENSION beyond the property's stated domain: values holding INSTANCES OF CLASSES
    (Obj/ObjValue.v [ovalue]; [odelta] / [oapply] / [osub] (Obj/ObjModel.v) = payload construction,
    Delta.__add__ and Delta.__rsub__ above on the encoding OObj cls attrs |-> { TAG cls : { attr : value },
    TAG2 cls : cls }, decoded; tied to Delta on real class instances by harness/objcommon.py stream_c08).
    [oveqb]: same class, atoms identical, up to dict / ATTRIBUTE / set order.  The guards are those of
    C08_sub_inverts_default asked of the encodings ([korder] on the encodings also asks two instances of one
    class to list their common attributes in the same order) and 0 < threshold_to_diff_deeper. *)
From DD Require Obj.ObjValue Obj.ObjModel Obj.ObjFacts Obj.ObjRoundtrip Obj.ObjReverse Obj.ObjExamples.

Theorem C08_objects_one_way_refuses_sub :
  forall hatom udiff ops c conv always ro ao (t1 t2 base : Obj.ObjValue.ovalue),
    Obj.ObjModel.osub conv ro ao (Obj.ObjModel.odelta hatom udiff ops c conv false always t1 t2) base = None.
Proof. exact Obj.ObjReverse.osub_refused. Qed.
Print Assumptions C08_objects_one_way_refuses_sub.

Theorem C08_objects_sub_inverts :
  forall hatom udiff ops c conv always,
    thr_num c <= thr_den c ->
    (forall a b, hatom a = hatom b -> a = b) ->
    (forall ty0 v v', conv ty0 v = Some v' -> type_of v' = ty0) ->
  forall ro ao, ro_ok ro -> ao_ok ao ->
    (forall p xs ys, forallb is_atom xs = true -> forallb is_atom ys = true -> valid_ops xs ys (ops p xs ys)) ->
    zip c = true \/ ops_sorted2 ops ->
  forall t1 t2 : Obj.ObjValue.ovalue,
    0 < thr_num c -> Obj.ObjValue.owf t1 = true -> Obj.ObjValue.owf t2 = true ->
    guards c conv true always (Obj.ObjValue.enc t2) (Obj.ObjValue.enc t1) ->
    korder (Obj.ObjValue.enc t1) (Obj.ObjValue.enc t2) -> keys_nonneg (Obj.ObjValue.enc t1) = true ->
    let d := Obj.ObjModel.odelta hatom udiff ops c conv true always t1 t2 in
    (forall cc, In cc (d_val (reverse d)) -> ntp (Obj.ObjValue.enc t2) (vc_path cc)) ->
    exists t1', Obj.ObjModel.osub conv ro ao d t2 = Some (t1', 0) /\ Obj.ObjRoundtrip.oveqb t1' t1 = true.
Proof. intros. eapply Obj.ObjReverse.osub_inverts; eassumption. Qed.
Print Assumptions C08_objects_sub_inverts.

Theorem C08_objects_add_and_sub :
  forall hatom udiff ops c conv always,
    thr_num c <= thr_den c ->
    (forall a b, hatom a = hatom b -> a = b) ->
    (forall ty0 v v', conv ty0 v = Some v' -> type_of v' = ty0) ->
  forall ro ao, ro_ok ro -> ao_ok ao ->
    (forall p xs ys, forallb is_atom xs = true -> forallb is_atom ys = true -> valid_ops xs ys (ops p xs ys)) ->
    zip c = true \/ ops_sorted2 ops ->
  forall t1 t2 : Obj.ObjValue.ovalue,
    0 < thr_num c -> Obj.ObjValue.owf t1 = true -> Obj.ObjValue.owf t2 = true ->
    guards c conv true always (Obj.ObjValue.enc t1) (Obj.ObjValue.enc t2) ->
    guards c conv true always (Obj.ObjValue.enc t2) (Obj.ObjValue.enc t1) ->
    korder (Obj.ObjValue.enc t1) (Obj.ObjValue.enc t2) -> keys_nonneg (Obj.ObjValue.enc t1) = true ->
    let d := Obj.ObjModel.odelta hatom udiff ops c conv true always t1 t2 in
    (forall cc, In cc (d_val (reverse d)) -> ntp (Obj.ObjValue.enc t2) (vc_path cc)) ->
    (exists t2', Obj.ObjModel.oapply conv ro ao d t1 = (t2', 0) /\ Obj.ObjRoundtrip.oveqb t2' t2 = true) /\
    (exists t1', Obj.ObjModel.osub conv ro ao d t2 = Some (t1', 0) /\ Obj.ObjRoundtrip.oveqb t1' t1 = true).
Proof. intros. eapply Obj.ObjReverse.oadd_and_osub; eassumption. Qed.
Print Assumptions C08_objects_add_and_sub.

(* the data guards hold (as booleans) of a pair with instances at dict values, in a list and as attribute values,
   9 entries of 7 kinds; the model goes forth and back *)
Example C08_objects_guards_satisfiable :
  (zip Obj.ObjExamples.ox_cfg = true /\ 0 < thr_num Obj.ObjExamples.ox_cfg /\
   guardsb Obj.ObjExamples.ox_cfg true false (Obj.ObjValue.enc Obj.ObjExamples.ox_t1) (Obj.ObjValue.enc Obj.ObjExamples.ox_t2) = true /\
   guardsb Obj.ObjExamples.ox_cfg true false (Obj.ObjValue.enc Obj.ObjExamples.ox_t2) (Obj.ObjValue.enc Obj.ObjExamples.ox_t1) = true /\
   korderb (Obj.ObjValue.enc Obj.ObjExamples.ox_t1) (Obj.ObjValue.enc Obj.ObjExamples.ox_t2) = true /\
   keys_nonneg (Obj.ObjValue.enc Obj.ObjExamples.ox_t1) = true /\
   ntp_valsb (Obj.ObjValue.enc Obj.ObjExamples.ox_t2) Obj.ObjReverse.oxb_delta = true) /\
  (exists t1', Obj.ObjModel.osub Delta.DeltaExamples.conv_none (@rev _) (fun l => l) Obj.ObjReverse.oxb_delta Obj.ObjExamples.ox_t2 = Some (t1', 0)
               /\ Obj.ObjRoundtrip.oveqb t1' Obj.ObjExamples.ox_t1 = true) /\
  (exists t2', Obj.ObjModel.oapply Delta.DeltaExamples.conv_none (@rev _) (fun l => l) Obj.ObjReverse.oxb_delta Obj.ObjExamples.ox_t1 = (t2', 0)
               /\ Obj.ObjRoundtrip.oveqb t2' Obj.ObjExamples.ox_t2 = true).
Proof. exact (conj Obj.ObjReverse.oxb_guards Obj.ObjReverse.oxb_result). Qed.
Print Assumptions C08_objects_guards_satisfiable.

(* a mismatched base is reported: the bidirectional delta of an object diff applied to a base whose ENCODING differs
   from t1's at the (encoded) location of a values_changed / type_changes entry logs an error.  The harness corrupts
   scalar attribute values / items, whose encoded location is the attribute / item itself. *)
Theorem C08_objects_detects_corruption_of_diff :
  forall hatom udiff ops c conv ro ao always (t1 t2 base : Obj.ObjValue.ovalue),
    (forall p xs ys, forallb is_atom xs = true -> forallb is_atom ys = true -> valid_ops xs ys (ops p xs ys)) ->
    0 < thr_num c -> thr_num c <= thr_den c ->
    Obj.ObjValue.owf t1 = true -> Obj.ObjValue.owf t2 = true -> keys_nonneg (Obj.ObjValue.enc t2) = true ->
    forall e, In e (fst (run_diff hatom udiff ops Obj.ObjModel.nopaths Obj.ObjModel.nopaths c (Obj.ObjValue.enc t1) (Obj.ObjValue.enc t2))) ->
      ekind e = KValue \/ ekind e = KType ->
      differs_at (Obj.ObjValue.enc t1) (Obj.ObjValue.enc base) (ep1 e) ->
      0 < snd (Obj.ObjModel.oapply conv ro ao (Obj.ObjModel.odelta hatom udiff ops c conv true always t1 t2) base).
Proof.
  intros hatom udiff ops c conv ro ao always t1 t2 base Hops Hpos Hthr W1 W2 N2 e He K D.
  rewrite (Obj.ObjRoundtrip.odelta_eq hatom udiff ops c conv true always t1 t2 Hpos W1 W2).
  unfold Obj.ObjModel.oapply. cbn [snd].
  exact (C08_detects_corruption_of_diff_all_valid hatom udiff ops Obj.ObjModel.nopaths Obj.ObjModel.nopaths c conv ro ao always ops
           (Obj.ObjValue.enc t1) (Obj.ObjValue.enc t2) Hops Hthr (Obj.ObjFacts.enc_wf t1 W1) (Obj.ObjFacts.enc_wf t2 W2) N2 e (Obj.ObjValue.enc base) He K D).
Qed.
Print Assumptions C08_objects_detects_corruption_of_diff.


(* ------------------------------------------------------------------ *)
(** EXTENSION beyond the property's stated domain: values holding INSTANCES OF CLASSES
    (objects with attributes, Obj/ObjValue.v [ovalue]).  [odelta] / [oapply] (Obj/ObjModel.v) are
    the payload construction and Delta.__add__ above on the encoding
      OObj cls attrs |-> { TAG cls : { attr : value }, TAG2 cls : cls }
    (attribute_added / attribute_removed travel as additions / removals below the attribute dict;
    setattr / delattr are functional updates of it), decoded; tied to Delta on real class instances
    by the extension stream of harness/objcommon.py.
    [oveqb a b] (Obj/ObjRoundtrip.v): typed structural equality - same class, atoms identical -
    up to dict insertion order, ATTRIBUTE order and set iteration order.
    The guards are those of C01_roundtrip_partial, asked of the encodings: [guards ... (enc t1) (enc t2)]
    is decided by Delta.DeltaChain.guardsb on the encodings; it excludes instances below tuples
    (F4/F6) and private attribute names (ignore_private_variables), as for dicts.  Extra guard
    0 < threshold_to_diff_deeper (the default is 0.33): there the payload is the payload of the encoded
    run (C04_objects_positive_threshold_is_encoded_run); at 0 the model builds it from the entries with the
    type changes of class-changing pairs put back (Obj.ObjModel.tagfix) - compared with the implementation
    by the correspondence, not covered by this theorem.
    What the model does not have, and the implementation does (Obj/NOTES.md): `del obj.__dict__[name]`
    on a __slots__ instance (observation OBJ1) and the `!=` on instances of a class without __eq__
    when a list item is removed (observation OBJ2). *)
From DD Require Obj.ObjValue Obj.ObjModel Obj.ObjRoundtrip Obj.ObjExamples.

Theorem C01_objects_roundtrip_partial :
  forall hatom udiff ops c conv bidir always,
    (forall a b, hatom a = hatom b -> a = b) ->
    (forall ty0 v v', conv ty0 v = Some v' -> type_of v' = ty0) ->
  forall ro ao (t1 t2 : Obj.ObjValue.ovalue),
    0 < thr_num c -> Obj.ObjValue.owf t1 = true -> Obj.ObjValue.owf t2 = true ->
    guards c conv bidir always (Obj.ObjValue.enc t1) (Obj.ObjValue.enc t2) ->
    opsv ops (Obj.ObjValue.enc t1) (Obj.ObjValue.enc t2) [] ->
    let d := Obj.ObjModel.odelta hatom udiff ops c conv bidir always t1 t2 in
    orders_ok_at ro ao d ->
    exists t2', Obj.ObjModel.oapply conv ro ao d t1 = (t2', 0) /\ Obj.ObjRoundtrip.oveqb t2' t2 = true.
Proof. intros. eapply Obj.ObjRoundtrip.oroundtrip_at; eassumption. Qed.
Print Assumptions C01_objects_roundtrip_partial.

Theorem C01_objects_roundtrip_oracles_partial :
  forall hatom udiff ops c conv bidir always,
    (forall a b, hatom a = hatom b -> a = b) ->
    (forall ty0 v v', conv ty0 v = Some v' -> type_of v' = ty0) ->
  forall ro ao (t1 t2 : Obj.ObjValue.ovalue),
    (forall p xs ys, forallb is_atom xs = true -> forallb is_atom ys = true -> valid_ops xs ys (ops p xs ys)) ->
    ro_ok ro -> ao_ok ao -> 0 < thr_num c -> Obj.ObjValue.owf t1 = true -> Obj.ObjValue.owf t2 = true ->
    guards c conv bidir always (Obj.ObjValue.enc t1) (Obj.ObjValue.enc t2) ->
    exists t2', Obj.ObjModel.oapply conv ro ao (Obj.ObjModel.odelta hatom udiff ops c conv bidir always t1 t2) t1 = (t2', 0)
                /\ Obj.ObjRoundtrip.oveqb t2' t2 = true.
Proof. intros. eapply Obj.ObjRoundtrip.oroundtrip; eassumption. Qed.
Print Assumptions C01_objects_roundtrip_oracles_partial.

(* a result of Delta known up to order decodes to the object value up to order: the decoding
   does not depend on the order in which a rebuilt dict holds the two items of an instance *)
Theorem C01_objects_decode_up_to_order :
  forall (t : Obj.ObjValue.ovalue) (v : value),
    Obj.ObjValue.owf t = true -> veqb v (Obj.ObjValue.enc t) = true ->
    Obj.ObjRoundtrip.oveqb (Obj.ObjValue.dec v) t = true.
Proof. exact Obj.ObjRoundtrip.dec_veqb. Qed.
Print Assumptions C01_objects_decode_up_to_order.

(* the guards are satisfiable by a pair with instances as dict values, list items and attribute
   values: values_changed x2 (one two attribute levels deep), a class change, attribute_added x2,
   attribute_removed, an instance removed from a list, set items added / removed below an attribute *)
Example C01_objects_guards_satisfiable :
  0 < thr_num Obj.ObjExamples.ox_cfg /\
  (Obj.ObjValue.owf Obj.ObjExamples.ox_t1 = true /\ Obj.ObjValue.owf Obj.ObjExamples.ox_t2 = true) /\
  guards Obj.ObjExamples.ox_cfg conv_none false false (Obj.ObjValue.enc Obj.ObjExamples.ox_t1) (Obj.ObjValue.enc Obj.ObjExamples.ox_t2) /\
  opsv no_ops (Obj.ObjValue.enc Obj.ObjExamples.ox_t1) (Obj.ObjValue.enc Obj.ObjExamples.ox_t2) [] /\
  orders_ok_at (@rev _) (fun l => l) Obj.ObjExamples.ox_delta /\
  (length (fst Obj.ObjExamples.ox_run) = 9 /\ Obj.ObjValue.opy_eqv Obj.ObjExamples.ox_t1 Obj.ObjExamples.ox_t2 = false) /\
  exists t2', Obj.ObjModel.oapply conv_none (@rev _) (fun l => l) Obj.ObjExamples.ox_delta Obj.ObjExamples.ox_t1 = (t2', 0)
              /\ Obj.ObjRoundtrip.oveqb t2' Obj.ObjExamples.ox_t2 = true.
Proof.
  refine (conj (Nat.lt_0_1) (conj Obj.ObjExamples.ox_wf (conj Obj.ObjExamples.ox_guards (conj Obj.ObjExamples.ox_opsv
           (conj Obj.ObjExamples.ox_orders (conj _ Obj.ObjExamples.ox_roundtrip)))))).
  destruct Obj.ObjExamples.ox_nontrivial as (_ & _ & _ & _ & _ & _ & _ & A & B). exact (conj A B).
Qed.
Print Assumptions C01_objects_guards_satisfiable.

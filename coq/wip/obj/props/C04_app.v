
(* ------------------------------------------------------------------ *)
(** EXTENSION beyond the property's stated domain: values holding INSTANCES OF CLASSES
    (objects with attributes, Obj/ObjValue.v [ovalue]; [orun] = the run above on the encoding
    OObj cls attrs |-> { TAG cls : { attr : value }, TAG2 cls : cls }, decoded: a level below an
    attribute dict is an attribute level, dictionary_item_added/removed there is
    attribute_added/removed, a changed pair whose classes differ is type_changes; tied to
    DeepDiff on real class instances by the extension stream of harness/objcommon.py).

    [ofaithful t1 t2 e] (Obj/ObjFaithful.v): the path of e, followed through dict keys,
    sequence indexes AND getattr steps ([oresolve]), leads in t1 to the reported old value /
    removed item / removed attribute and in t2 to the reported new value / added item / added
    attribute; type_changes has values of different type or class and values_changed values
    of the same; an added key or attribute does not resolve in t1, a removed one not in t2;
    attribute_added / attribute_removed paths end in an attribute element and
    dictionary_item_added / removed paths do not; a moved item has equal values.
    The statement holds for every configuration, threshold_to_diff_deeper = 0 included (there the
    encoded run takes a pair of instances of different classes apart, and Obj.ObjModel.tagfix puts
    the one type_changes of the pair back, as _diff does before it looks at any threshold). *)
From DD Require Obj.ObjValue Obj.ObjModel Obj.ObjFaithful Obj.ObjExamples Delta.DeltaExamples.

Theorem C04_objects_entries_resolve :
  forall hatom udiff ops c (t1 t2 : Obj.ObjValue.ovalue),
    thr_num c <= thr_den c ->
    Obj.ObjValue.owf t1 = true -> Obj.ObjValue.owf t2 = true ->
    forall e, In e (fst (Obj.ObjModel.orun hatom udiff ops c t1 t2)) -> Obj.ObjFaithful.ofaithful t1 t2 e.
Proof. intros. eapply Obj.ObjFaithful.orun_faithful; eassumption. Qed.
Print Assumptions C04_objects_entries_resolve.

(* with a positive threshold (the default is 0.33) the entries are exactly the decoded entries of the
   encoded run: it never takes a pair of different classes apart *)
Theorem C04_objects_positive_threshold_is_encoded_run :
  forall hatom udiff ops c (t1 t2 : Obj.ObjValue.ovalue),
    0 < thr_num c -> Obj.ObjValue.owf t1 = true -> Obj.ObjValue.owf t2 = true ->
    fst (Obj.ObjModel.orun hatom udiff ops c t1 t2) =
    map Obj.ObjModel.dec_entry (fst (run_diff hatom udiff ops Obj.ObjModel.nopaths Obj.ObjModel.nopaths c
                                       (Obj.ObjValue.enc t1) (Obj.ObjValue.enc t2))).
Proof.
  intros. unfold Obj.ObjModel.orun. cbn [fst]. rewrite Obj.ObjFaithful.tagfix_id_run by assumption. reflexivity.
Qed.
Print Assumptions C04_objects_positive_threshold_is_encoded_run.

(* threshold 0, [PA(x=1), PA(), {'a':1}, PA(x=1)] against [PB(x=1), {'a':1}, PB(y=2), PA(y=1)]: the encoded
   run has 12 entries, 10 of them the keys of the three pairs of different type; the result has the three
   type_changes, one attribute_added and one attribute_removed - all faithful *)
Example C04_objects_threshold_zero :
  (length (filter (fun e => Obj.ObjExamples.okind_eqb (Obj.ObjModel.oekind e) (Obj.ObjModel.OK KType)) (fst Obj.ObjExamples.thr0_run)) = 3 /\
   length (filter (fun e => Obj.ObjExamples.okind_eqb (Obj.ObjModel.oekind e) Obj.ObjModel.OKAttrAdd) (fst Obj.ObjExamples.thr0_run)) = 1 /\
   length (filter (fun e => Obj.ObjExamples.okind_eqb (Obj.ObjModel.oekind e) Obj.ObjModel.OKAttrRem) (fst Obj.ObjExamples.thr0_run)) = 1 /\
   length (fst Obj.ObjExamples.thr0_run) = 5 /\
   length (fst (run_diff Delta.DeltaExamples.hatom_ex (fun _ _ => []) Delta.DeltaExamples.no_ops Obj.ObjModel.nopaths Obj.ObjModel.nopaths
                  Obj.ObjExamples.thr0_cfg (Obj.ObjValue.enc Obj.ObjExamples.thr0_t1) (Obj.ObjValue.enc Obj.ObjExamples.thr0_t2))) = 12) /\
  (forall e, In e (fst Obj.ObjExamples.thr0_run) -> Obj.ObjFaithful.ofaithful Obj.ObjExamples.thr0_t1 Obj.ObjExamples.thr0_t2 e).
Proof. exact (conj Obj.ObjExamples.thr0_kinds Obj.ObjExamples.thr0_faithful). Qed.
Print Assumptions C04_objects_threshold_zero.

(* non-vacuity: a pair of nested values with instances at dict values, in a list and as attribute
   values, whose run has 9 entries: values_changed x2 (one two attribute levels deep),
   type_changes (class changed), attribute_added x2, attribute_removed, iterable_item_removed (an
   instance), set_item_added / removed below an attribute - all faithful by the theorem *)
Example C04_objects_hypotheses_satisfiable :
  (Obj.ObjValue.owf Obj.ObjExamples.ox_t1 = true /\ Obj.ObjValue.owf Obj.ObjExamples.ox_t2 = true) /\
  (Obj.ObjExamples.count_kind (Obj.ObjModel.OK KValue) = 2 /\ Obj.ObjExamples.count_kind (Obj.ObjModel.OK KType) = 1 /\
   Obj.ObjExamples.count_kind Obj.ObjModel.OKAttrAdd = 2 /\ Obj.ObjExamples.count_kind Obj.ObjModel.OKAttrRem = 1 /\
   Obj.ObjExamples.count_kind (Obj.ObjModel.OK KIterRem) = 1 /\ Obj.ObjExamples.count_kind (Obj.ObjModel.OK KSetAdd) = 1 /\
   Obj.ObjExamples.count_kind (Obj.ObjModel.OK KSetRem) = 1 /\ length (fst Obj.ObjExamples.ox_run) = 9 /\
   Obj.ObjValue.opy_eqv Obj.ObjExamples.ox_t1 Obj.ObjExamples.ox_t2 = false) /\
  (forall e, In e (fst Obj.ObjExamples.ox_run) -> Obj.ObjFaithful.ofaithful Obj.ObjExamples.ox_t1 Obj.ObjExamples.ox_t2 e).
Proof. exact (conj Obj.ObjExamples.ox_wf (conj Obj.ObjExamples.ox_nontrivial Obj.ObjExamples.ox_faithful)). Qed.
Print Assumptions C04_objects_hypotheses_satisfiable.

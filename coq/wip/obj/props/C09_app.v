
(* ------------------------------------------------------------------ *)
(** EXTENSION beyond the property's stated domain: paths through INSTANCES OF CLASSES.
    [opath] (Obj/ObjValue.v): dict key / sequence index / attribute name; [orender] (Obj/ObjText.v) is
    the text DiffLevel.path() prints (AttributeRelationship: ".name"), [oelement] the element with its
    action (GET for keys and indexes, GETATTR for attribute names) and [oextract] deepdiff.extract
    with getattr steps; tied to the code by the extension stream of harness/objcommon.py.
    Guard [opath_ok] (Obj/ObjPathText.v): C09's guard on the keys, and attribute names that are ASCII
    identifiers (an ASCII letter or underscore, then ASCII letters, digits, underscores) other than None / True / False and not starting with two
    underscores. *)
From DD Require Obj.ObjValue Obj.ObjText Obj.ObjPathText.

(* _path_to_elements gives back every element with its action *)
Theorem C09_objects_elements_partial :
  forall p : Obj.ObjValue.opath, Obj.ObjPathText.opath_ok p = true ->
    elements (Obj.ObjText.orender p) = Some (map Obj.ObjText.oelement p).
Proof. exact Obj.ObjPathText.oelements_render. Qed.

(* in ANY object: extracting by the reported text = following keys, indexes and attribute names *)
Theorem C09_objects_extract_partial :
  forall (root : Obj.ObjValue.ovalue) (p : Obj.ObjValue.opath), Obj.ObjPathText.opath_ok p = true ->
    Obj.ObjText.oextract root (Obj.ObjText.orender p) = Obj.ObjValue.oresolve root p.
Proof. exact Obj.ObjPathText.oextract_render. Qed.

(* stringify_path(parse_path(text, include_actions=True)) is the text *)
Theorem C09_objects_stringify_inverts_elements_partial :
  forall p : Obj.ObjValue.opath, Obj.ObjPathText.opath_ok p = true ->
    option_map stringify_els (elements (Obj.ObjText.orender p)) = Some (Obj.ObjText.orender p).
Proof. exact Obj.ObjPathText.ostringify_inverts_elements. Qed.

(* outside the guard: an attribute whose name starts with two underscores (reported under
   ignore_private_variables=False) is dropped by the parser, and extract returns the PARENT object
   (observation OBJ3); an attribute whose name is a Python literal (possible through setattr /
   __dict__) is evaluated, and getattr raises (observation OBJ4) *)
Theorem C09_objects_extract_refuted_private_attribute :
  elements (Obj.ObjText.orender Obj.ObjPathText.priv_attr) = Some [] /\
  Obj.ObjValue.oresolve Obj.ObjPathText.priv_obj Obj.ObjPathText.priv_attr = Some (Obj.ObjValue.OAtom (AInt 1)) /\
  Obj.ObjText.oextract Obj.ObjPathText.priv_obj (Obj.ObjText.orender Obj.ObjPathText.priv_attr) = Some Obj.ObjPathText.priv_obj.
Proof. exact Obj.ObjPathText.private_attr_refuted. Qed.

Theorem C09_objects_extract_refuted_literal_attribute :
  elements (Obj.ObjText.orender Obj.ObjPathText.lit_attr) = Some [(AInt 1, GETATTR)] /\
  Obj.ObjValue.oresolve Obj.ObjPathText.lit_obj Obj.ObjPathText.lit_attr = Some (Obj.ObjValue.OAtom (AInt 5)) /\
  Obj.ObjText.oextract Obj.ObjPathText.lit_obj (Obj.ObjText.orender Obj.ObjPathText.lit_attr) = None.
Proof. exact Obj.ObjPathText.literal_attr_refuted. Qed.

(* the guard is satisfiable: a quoted key, then .x._y1[3].Name[-2][None].z *)
Example C09_objects_guard_satisfiable :
  Obj.ObjPathText.opath_ok Obj.ObjPathText.mixed_path = true /\ List.length Obj.ObjPathText.mixed_path = 8%nat.
Proof. split; reflexivity. Qed.

Print Assumptions C09_objects_elements_partial.
Print Assumptions C09_objects_extract_partial.
Print Assumptions C09_objects_stringify_inverts_elements_partial.
Print Assumptions C09_objects_extract_refuted_private_attribute.
Print Assumptions C09_objects_extract_refuted_literal_attribute.

"""development driver: run one Obj extension stream alone (theories tree: $DEV_THEORIES, default coq/theories; it must be built)
   usage: dev.py c02|c04|c01|c09 [n] [thr,thr,...]"""
import os, sys, json
sys.path.insert(0, "/verif"); sys.path.insert(0, os.environ.get("DEEPDIFF_REPO", "/repo"))
os.environ["SEPERMAN_DEEPDIFF_VERIF"] = "1"
from harness import core
core.THEORIES = os.environ.get("DEV_THEORIES", "/verif/coq/theories")
core.Ctx.ensure_built = lambda self, header: None
from harness import objcommon as O
which = sys.argv[1]
n = int(sys.argv[2]) if len(sys.argv) > 2 else None
if len(sys.argv) > 3:
    O.THRS = tuple(float(x) if "." in x else int(x) for x in sys.argv[3].split(","))
ctx = core.Ctx("C02", "quick", int(os.environ.get("VERIF_SEED", "20260929")))
with ctx.extension("Obj"):
    getattr(O, "stream_" + which)(ctx, n)
x = ctx.extensions["Obj"]
print(json.dumps({k: v for k, v in x.items() if k not in ("failures", "breaks")}))
for f in x["failures"]:
    print("FAIL", json.dumps(f, default=repr)[:1500])
for b in x["breaks"]:
    print("BREAK", json.dumps(b, default=repr)[:2500])
print({k: v for k, v in ctx.counts.items() if "OBJ" in k or "thr" in k or "hyp" in k or "reverse" in k or "c08" in k or "c10" in k or "c09:hyp" in k or "shared" in k})
print("elapsed %.1fs" % ctx.elapsed())
import shutil
shutil.rmtree(ctx.scratch, ignore_errors=True)

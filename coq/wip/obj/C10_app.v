
(* ------------------------------------------------------------------ *)
(** EXTENSION beyond the property's stated domain: results holding INSTANCES OF CLASSES
    (Obj/ObjValue.v [ovalue]; [orun] Obj/ObjModel.v; the text view [otext_view] Obj/ObjText.v with
    attribute_added / attribute_removed; pretty() [opretty] Obj/ObjViews.v with the "Attribute ... added." /
    "... removed." statements, class names as type names and the repr  Cls(attr=value, ...)  of the harness
    classes / namedtuples / dataclasses; tied to DeepDiff on real class instances by harness/objcommon.py
    stream_c10: pretty() statements, to_dict(view_override='text') of the tree view, the text view).
    to_json() of a result that holds an instance raises TypeError unless default_mapping is given: outside. *)
From DD Require Obj.ObjValue Obj.ObjModel Obj.ObjText Obj.ObjViews Obj.ObjViewsProofs Obj.ObjExamples.

(* the text view has one entry per level that the verbose level shows, under the same category (attribute_added and
   attribute_removed included) and the same path text (with .attr elements), in the same order *)
Theorem C10_objects_text_same_pairs :
  forall verbose (es : list Obj.ObjModel.oentry),
    map Obj.ObjViews.otkey (Obj.ObjText.otext_view verbose es) =
    map Obj.ObjViews.oekey (filter (Obj.ObjViews.ovisible verbose) es).
Proof. exact Obj.ObjViewsProofs.otext_same_pairs. Qed.
Print Assumptions C10_objects_text_same_pairs.

(* an attribute_added / attribute_removed level (as a dictionary item level) is always shown; its text entry carries
   the level's t2 / t1 object exactly from verbose_level 2 *)
Theorem C10_objects_text_attribute_values :
  forall verbose (e : Obj.ObjModel.oentry),
    (Obj.ObjModel.oekind e = Obj.ObjModel.OKAttrAdd \/ Obj.ObjModel.oekind e = Obj.ObjModel.OK KDictAdd ->
       Obj.ObjText.otext_of verbose e =
       [Obj.ObjText.OTItem (Obj.ObjModel.oekind e) (Obj.ObjText.orender (Obj.ObjModel.oep1 e))
                           (if Nat.leb 2 verbose then Obj.ObjModel.oet2 e else None)]) /\
    (Obj.ObjModel.oekind e = Obj.ObjModel.OKAttrRem \/ Obj.ObjModel.oekind e = Obj.ObjModel.OK KDictRem ->
       Obj.ObjText.otext_of verbose e =
       [Obj.ObjText.OTItem (Obj.ObjModel.oekind e) (Obj.ObjText.orender (Obj.ObjModel.oep1 e))
                           (if Nat.leb 2 verbose then Obj.ObjModel.oet1 e else None)]).
Proof. exact Obj.ObjViewsProofs.otext_item_values. Qed.
Print Assumptions C10_objects_text_attribute_values.

(* pretty(): one statement per level of the tree; unless the level is an iterable_item_moved it is non-empty and names
   the path text under which the text view files the level *)
Theorem C10_objects_pretty_one_per_change :
  forall verbose (es : list Obj.ObjModel.oentry),
    List.length (Obj.ObjViews.opretty verbose es) = List.length es /\
    Forall2 (fun e s => s = Obj.ObjViews.opretty_of verbose e /\
                        (Obj.ObjModel.oekind e <> Obj.ObjModel.OK KIterMoved -> s <> []) /\
                        (Obj.ObjModel.oekind e <> Obj.ObjModel.OK KIterMoved ->
                         contains_sub (Obj.ObjText.orender (Obj.ObjModel.oep1 e)) s = true))
            es (Obj.ObjViews.opretty verbose es).
Proof. intros. split; [apply Obj.ObjViewsProofs.opretty_length|apply Obj.ObjViewsProofs.opretty_per_change]. Qed.
Print Assumptions C10_objects_pretty_one_per_change.

(* the views of one run: the pair of Obj.ObjExamples (9 levels of 7 kinds) *)
Example C10_objects_views_of_one_run :
  map Obj.ObjViews.otkey (Obj.ObjText.otext_view 2 (fst Obj.ObjExamples.ox_run)) = map Obj.ObjViews.oekey (fst Obj.ObjExamples.ox_run) /\
  List.length (Obj.ObjText.otext_view 2 (fst Obj.ObjExamples.ox_run)) = 9 /\
  List.length (Obj.ObjText.otext_view 0 (fst Obj.ObjExamples.ox_run)) = 7 /\
  In (s2p "Attribute root['o'].w (""new"") added.") (Obj.ObjViews.opretty 2 (fst Obj.ObjExamples.ox_run)) /\
  In (s2p "Attribute root['o'].z removed.") (Obj.ObjViews.opretty 1 (fst Obj.ObjExamples.ox_run)) /\
  In (s2p "Type of root['q'] changed from PA to PB and value changed from PA(a=1) to PB(a=1).") (Obj.ObjViews.opretty 1 (fst Obj.ObjExamples.ox_run)) /\
  In (s2p "Item root['l'][1] (PB()) removed from iterable.") (Obj.ObjViews.opretty 2 (fst Obj.ObjExamples.ox_run)) /\
  In (Obj.ObjText.OTItem Obj.ObjModel.OKAttrAdd (s2p "root['l'][0].k") (Some (Obj.ObjValue.OAtom (AInt 5)))) (Obj.ObjText.otext_view 2 (fst Obj.ObjExamples.ox_run)) /\
  In (Obj.ObjText.OTItem Obj.ObjModel.OKAttrAdd (s2p "root['l'][0].k") None) (Obj.ObjText.otext_view 1 (fst Obj.ObjExamples.ox_run)).
Proof. exact Obj.ObjViewsProofs.ox_views. Qed.
Print Assumptions C10_objects_views_of_one_run.

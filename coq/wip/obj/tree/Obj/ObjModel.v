(** Block Obj - the ordered DeepDiff and Delta on values with objects, defined
    THROUGH the encoding [enc] into the existing models:

      orun   = decode (Diff.DiffModel.run_diff on the encodings)
      oapply = decode (Delta.DeltaModel.apply on the encoding)

    What the decoding does (and the code does at the same places):
      - a level below  p ++ [TAG cls; 'x']  is the attribute level  p.x
        (AttributeRelationship), and dictionary_item_added/removed there is
        attribute_added/removed (_diff_dict with print_as_attribute=True);
      - values_changed reported for the attribute dict (threshold_to_diff_deeper
        shortcut of _diff_dict on override_t1/override_t2) is values_changed of the
        two objects;
      - two objects of different class, or an object and a dict, share no key (of at
        least two): with threshold_to_diff_deeper > 0 the encoded run reports ONE
        values_changed for the pair; its two values have different types (class /
        dict), and this is the type_changes that _diff reports before it ever reaches
        _diff_obj.  With threshold_to_diff_deeper = 0 the encoded run splits such a
        pair into additions and removals of its keys; [tagfix] puts the one report of
        the pair back in their place (the dispatcher compares the classes before any
        threshold is looked at).
    Definitions only. *)
From Coq Require Import List ZArith NArith Bool Arith.
Import ListNotations.
From DD Require Import Base.PyStr Base.Value Path.PathModel Diff.Tree Diff.DiffModel Delta.DeltaModel
  Obj.ObjValue.

Inductive okind := OK (k : rkind) | OKAttrAdd | OKAttrRem.

Record oentry := mkOE {
  oekind : okind;
  oep1 : opath;                 (* level.path()                 *)
  oep2 : opath;                 (* level.path(use_t2=True)      *)
  oet1 : option ovalue;         (* None = notpresent            *)
  oet2 : option ovalue;
  oediff : option pystr
}.

(* encoded key sequence -> path with attribute elements; the second component is
   Some cls when the sequence ends right after a class tag, i.e. it denotes the
   attribute dict of an object of class cls (= the object itself) *)
Fixpoint dps (after : option pystr) (p : path) : opath * option pystr :=
  match p with
  | [] => ([], after)
  | k :: r =>
      match after with
      | Some _ => let '(q, s) := dps None r in (OAttr (str_of_key (key_atom k)) :: q, s)
      | None =>
          match k with
          | PKey a =>
              match tag_cls a, tag2_cls a with
              | Some cls, _ => dps (Some cls) r
              | None, Some _ => let '(q, s) := dps None r in (OClass :: q, s)
              | None, None => let '(q, s) := dps None r in (OKey a :: q, s)
              end
          | PIdx i => let '(q, s) := dps None r in (OIdx i :: q, s)
          end
      end
  end.
Definition dec_path (p : path) : opath := fst (dps None p).

Definition wrap (st : option pystr) (v : value) : ovalue :=
  match st, v with
  | Some cls, VDict attrs => OObj cls (dec_attrs attrs)
  | _, _ => dec v
  end.

Definition is_attr_path (q : opath) : bool :=
  match last q (OIdx 0) with OAttr _ => true | _ => false end.

Definition same_otype (a b : option ovalue) : bool :=
  match a, b with Some x, Some y => otype_eqb x y | _, _ => true end.

Definition dec_entry (e : entry) : oentry :=
  let '(q1, s1) := dps None (ep1 e) in
  let '(q2, s2) := dps None (ep2 e) in
  let a := option_map (wrap s1) (et1 e) in
  let b := option_map (wrap s2) (et2 e) in
  let k' := match ekind e with
            | KValue => if same_otype a b then OK KValue else OK KType
            | KDictAdd => if is_attr_path q1 then OKAttrAdd else OK KDictAdd
            | KDictRem => if is_attr_path q1 then OKAttrRem else OK KDictRem
            | k => OK k
            end in
  mkOE k' q1 q2 a b (ediff e).

(* ---- pairs of different class that the encoded run took apart (threshold 0) ---- *)
(* the class of an encoded instance; None for every other value *)
Definition obj_class (v : value) : option pystr :=
  match v with
  | VDict [(k, VDict _); (_, VAtom (AStr _))] => tag_cls k
  | _ => None
  end.
Definition optstr_eqb (a b : option pystr) : bool :=
  match a, b with
  | Some x, Some y => pystr_eqb x y
  | None, None => true
  | _, _ => false
  end.
(* e is an added / removed key of a pair (an instance and a dict, or two instances of different
   classes) that _diff reports as ONE type change *)
Definition class_split (t1 t2 : value) (e : entry) : bool :=
  match ekind e with
  | KDictAdd | KDictRem =>
      let P := removelast (ep1 e) in
      match snd (dps None P), resolve t1 P, resolve t2 P with
      | None, Some d1, Some d2 => negb (optstr_eqb (obj_class d1) (obj_class d2))
      | _, _, _ => false
      end
  | _ => false
  end.
Definition dedup_paths (l : list path) : list path :=
  fold_right (fun p acc => if existsb (path_eqb p) acc then acc else p :: acc) [] l.
Definition tagfix (t1 t2 : value) (es : list entry) : list entry :=
  filter (fun e => negb (class_split t1 t2 e)) es ++
  map (fun P => mkEntry KValue P P (resolve t1 P) (resolve t2 P) None)
      (dedup_paths (map (fun e => removelast (ep1 e)) (filter (class_split t1 t2) es))).

Section ODiff.
Variable hatom : atom -> pystr.
Variable udiff : pystr -> pystr -> pystr.
Variable ops : path -> list value -> list value -> list opcode.
Variable c : cfg.

Definition nopaths (_ : path) : bool := false.

(* DeepDiff(t1, t2, view='tree') and the paths of the recorded opcodes *)
Definition orun (t1 t2 : ovalue) : list oentry * list opath :=
  let r := run_diff hatom udiff ops nopaths nopaths c (enc t1) (enc t2) in
  (map dec_entry (tagfix (enc t1) (enc t2) (fst r)), map dec_path (snd r)).
End ODiff.

(* ---- Delta ---- *)
Section ODelta.
Variable hatom : atom -> pystr.
Variable udiff : pystr -> pystr -> pystr.
Variable ops : path -> list value -> list value -> list opcode.
Variable c : cfg.
Variable conv : ty -> value -> option value.
Variable rem_order : list (path * value) -> list (path * value).
Variable add_order : list (path * option value) -> list (path * option value).

(* Delta(DeepDiff(t1, t2), bidirectional, always_include_values): attribute_added /
   attribute_removed travel as additions / removals below the attribute dict *)
Definition odelta (bidir always : bool) (t1 t2 : ovalue) : delta :=
  let r := run_diff hatom udiff ops nopaths nopaths c (enc t1) (enc t2) in
  to_delta conv bidir always ops (enc t1) (enc t2) (tagfix (enc t1) (enc t2) (fst r)) (snd r).

(* base + delta: setattr / delattr are functional updates of the attribute dict *)
Definition oapply (d : delta) (base : ovalue) : ovalue * nat :=
  let r := apply conv rem_order add_order d (enc base) in (dec (fst r), snd r).

(* base - delta (Delta.__rsub__): the reversed payload applied; None = the delta is not bidirectional *)
Definition osub (d : delta) (base : ovalue) : option (ovalue * nat) :=
  option_map (fun r => (dec (fst r), snd r)) (sub conv rem_order add_order d (enc base)).
End ODelta.

From DD Require Import Obj.ObjPathText Obj.ObjRoundtrip Obj.ObjFaithful Obj.ObjExamples Obj.ObjProofs.
Check orun_faithful.
Print Assumptions orun_faithful.
Print Assumptions oroundtrip_at.
Print Assumptions orun_empty_sound.
Print Assumptions thr0_faithful.

(** Block Obj - Python objects with attributes inside the value universe.

    [ovalue] = the constructors of [value] (Base/Value.v) + [OObj cls attrs]: an
    instance of a user class, its attributes in __dict__ insertion order (for a
    __slots__ class: the slots that are set, in slot order).  Classes are
    compared by name.

    [enc : ovalue -> value] is the encoding through which the existing models
    are re-used: an object becomes the two-item dict
        { TAG cls : { attr : value ... }, TAG' cls : cls }
    where TAG cls is the str  chr(0) ++ cls  and TAG' cls the str  chr(1) ++ cls.
    This mirrors the code: DeepDiff._diff_obj hands the attribute dict to _diff_dict
    (override_t1/override_t2); the outer dict only carries the class: two objects of
    the same class share both keys (and only the attribute dicts can differ), while
    two objects of different class, or an object and a dict, share none of >= 2 keys,
    which is what threshold_to_diff_deeper > 0 reports as ONE change of the pair.
    [dec] is its (total) inverse; it recognises the two items of an instance in either
    order (a dict rebuilt by Delta is only known up to the order of its items).  Definitions only. *)
From Coq Require Import List ZArith NArith Bool Arith String.
Import ListNotations.
From DD Require Import Base.Sx Base.PyStr Base.Value Path.PathModel.

Inductive ovalue :=
| OAtom (a : atom)
| OList (xs : list ovalue)
| OTuple (xs : list ovalue)
| ODict (kvs : list (atom * ovalue))
| OSet (xs : list atom)
| OFrozen (xs : list atom)
| OObj (cls : pystr) (attrs : list (pystr * ovalue)).

(* ---- the class tag ---- *)
Definition otag (cls : pystr) : atom := AStr (0%N :: cls).
Definition otag2 (cls : pystr) : atom := AStr (1%N :: cls).
Definition tag_cls (a : atom) : option pystr :=
  match a with
  | AStr (c :: cls) => if N.eqb c 0 then Some cls else None
  | _ => None
  end.
Definition tag2_cls (a : atom) : option pystr :=
  match a with
  | AStr (c :: cls) => if N.eqb c 1 then Some cls else None
  | _ => None
  end.
Definition is_tag (a : atom) : bool :=
  match a with AStr (c :: _) => N.eqb c 0 || N.eqb c 1 | _ => false end.
Definition str_of_key (a : atom) : pystr := match a with AStr s => s | _ => [] end.

(* ---- encoding ---- *)
Fixpoint enc (v : ovalue) : value :=
  match v with
  | OAtom a => VAtom a
  | OList xs => VList (map enc xs)
  | OTuple xs => VTuple (map enc xs)
  | ODict kvs => VDict (map (fun kv => (fst kv, enc (snd kv))) kvs)
  | OSet xs => VSet xs
  | OFrozen xs => VFrozen xs
  | OObj cls attrs => VDict [(otag cls, VDict (map (fun av => (AStr (fst av), enc (snd av))) attrs));
                             (otag2 cls, VAtom (AStr cls))]
  end.
Definition enc_items (kvs : list (atom * ovalue)) : list (atom * value) :=
  map (fun kv => (fst kv, enc (snd kv))) kvs.
Definition enc_attrs (attrs : list (pystr * ovalue)) : list (atom * value) :=
  map (fun av => (AStr (fst av), enc (snd av))) attrs.

Fixpoint dec (v : value) : ovalue :=
  match v with
  | VAtom a => OAtom a
  | VList xs => OList (map dec xs)
  | VTuple xs => OTuple (map dec xs)
  | VDict kvs =>
      let plain := ODict (map (fun kv => (fst kv, dec (snd kv))) kvs) in
      match kvs with
      | [(k, VDict attrs); (_, VAtom (AStr _))] =>
          match tag_cls k with
          | Some cls => OObj cls (map (fun kv => (str_of_key (fst kv), dec (snd kv))) attrs)
          | None => plain
          end
      | [(_, VAtom (AStr _)); (k, VDict attrs)] =>      (* the same two items in the other order *)
          match tag_cls k with
          | Some cls => OObj cls (map (fun kv => (str_of_key (fst kv), dec (snd kv))) attrs)
          | None => plain
          end
      | _ => plain
      end
  | VSet xs => OSet xs
  | VFrozen xs => OFrozen xs
  end.
Definition dec_items (kvs : list (atom * value)) : list (atom * ovalue) :=
  map (fun kv => (fst kv, dec (snd kv))) kvs.
Definition dec_attrs (kvs : list (atom * value)) : list (pystr * ovalue) :=
  map (fun kv => (str_of_key (fst kv), dec (snd kv))) kvs.

(* ---- types: the builtin type, or the class ---- *)
Definition otype_eqb (a b : ovalue) : bool :=
  match a, b with
  | OObj c1 _, OObj c2 _ => pystr_eqb c1 c2
  | OObj _ _, _ | _, OObj _ _ => false
  | _, _ => ty_eqb (type_of (enc a)) (type_of (enc b))
  end.

(* ---- attribute lookup ---- *)
Fixpoint assoc_attr {B} (s : pystr) (l : list (pystr * B)) : option B :=
  match l with
  | [] => None
  | (s', v) :: r => if pystr_eqb s' s then Some v else assoc_attr s r
  end.
Fixpoint nodup_strs (l : list pystr) : bool :=
  match l with
  | [] => true
  | s :: r => negb (existsb (pystr_eqb s) r) && nodup_strs r
  end.

(* representation invariant: dicts and sets as in [wf]; attribute names pairwise
   distinct; no key of a user dict is a class tag (a str starting with chr(0) or chr(1)) *)
Fixpoint owf (v : ovalue) : bool :=
  match v with
  | OAtom _ => true
  | OList xs | OTuple xs => forallb owf xs
  | ODict kvs => nodup_atoms (map fst kvs) && forallb (fun k => negb (is_tag k)) (map fst kvs)
                 && forallb (fun kv => owf (snd kv)) kvs
  | OSet xs | OFrozen xs => nodup_atoms xs
  | OObj _ attrs => nodup_strs (map fst attrs) && forallb (fun av => owf (snd av)) attrs
  end.

(* ---- equality "by class and attribute values": Python == with objects compared
   by class name and, attribute by attribute, their values (order of attributes
   and of dict items irrelevant) ---- *)
Fixpoint opy_eqv (a b : ovalue) {struct a} : bool :=
  match a, b with
  | OAtom x, OAtom y => py_eq x y
  | OList xs, OList ys | OTuple xs, OTuple ys =>
      (fix go (xs ys : list ovalue) {struct xs} : bool :=
         match xs, ys with
         | [], [] => true
         | x :: xs', y :: ys' => opy_eqv x y && go xs' ys'
         | _, _ => false
         end) xs ys
  | ODict xs, ODict ys =>
      Nat.eqb (List.length xs) (List.length ys) &&
      (fix go (xs : list (atom * ovalue)) : bool :=
         match xs with
         | [] => true
         | (k, v) :: xs' => match assoc k ys with
                            | Some v' => opy_eqv v v'
                            | None => false
                            end && go xs'
         end) xs
  | OSet xs, OSet ys | OSet xs, OFrozen ys | OFrozen xs, OSet ys | OFrozen xs, OFrozen ys =>
      Nat.eqb (List.length xs) (List.length ys) && forallb (fun x => mem_atom x ys) xs
  | OObj c1 xs, OObj c2 ys =>
      pystr_eqb c1 c2 && Nat.eqb (List.length xs) (List.length ys) &&
      (fix go (xs : list (pystr * ovalue)) : bool :=
         match xs with
         | [] => true
         | (s, v) :: xs' => match assoc_attr s ys with
                            | Some v' => opy_eqv v v'
                            | None => false
                            end && go xs'
         end) xs
  | _, _ => false
  end.

(* ---- paths: dict key / sequence index / attribute name ---- *)
(* [OClass] is the class slot of an instance (type(obj), by name).  It is never part
   of a reported path (the correspondence check sees every path); it exists so that
   every key sequence of the encoding has a decoding. *)
Inductive okey := OKey (a : atom) | OIdx (i : nat) | OAttr (s : pystr) | OClass.
Definition opath := list okey.

(* obj[elem] *)
Definition oget_item (v : ovalue) (a : atom) : option ovalue :=
  match v with
  | ODict kvs => assoc a kvs
  | OList xs | OTuple xs =>
      match int_of_atom a with Some z => seq_index xs z | None => None end
  | OAtom (AStr s) =>
      match int_of_atom a with
      | Some z => option_map (fun c => OAtom (AStr [c])) (seq_index s z)
      | None => None
      end
  | OAtom (ABytes s) =>
      match int_of_atom a with
      | Some z => option_map (fun c => OAtom (AInt (Z.of_N c))) (seq_index s z)
      | None => None
      end
  | _ => None
  end.
(* one step of _get_nested_obj: obj[elem] for GET, getattr(obj, elem) for GETATTR *)
Definition oget (v : ovalue) (k : okey) : option ovalue :=
  match k with
  | OKey a => oget_item v a
  | OIdx i => oget_item v (AInt (Z.of_nat i))
  | OAttr s => match v with OObj _ attrs => assoc_attr s attrs | _ => None end
  | OClass => match v with OObj cls _ => Some (OAtom (AStr cls)) | _ => None end
  end.
Fixpoint oresolve (v : ovalue) (p : opath) : option ovalue :=
  match p with
  | [] => Some v
  | k :: r => match oget v k with Some v' => oresolve v' r | None => None end
  end.

(* ---- correspondence rendering (mirrors harness.objcommon.canon_o) ---- *)
Local Open Scope string_scope.
Fixpoint sx_ovalue (v : ovalue) : sx :=
  match v with
  | OAtom a => sx_atom a
  | OList xs => SL [SA "L"; SL (map sx_ovalue xs)]
  | OTuple xs => SL [SA "T"; SL (map sx_ovalue xs)]
  | ODict kvs => SL [SA "D"; SL (map (fun kv => SL [sx_atom (fst kv); sx_ovalue (snd kv)]) kvs)]
  | OSet xs => SL [SA "S"; SL (sx_sort (map sx_atom xs))]
  | OFrozen xs => SL [SA "F"; SL (sx_sort (map sx_atom xs))]
  | OObj cls attrs => SL [SA "O"; sx_str cls; SL (map (fun av => SL [sx_str (fst av); sx_ovalue (snd av)]) attrs)]
  end.
Definition sx_okey (k : okey) : sx :=
  match k with
  | OKey a => SL [SA "k"; sx_atom a]
  | OIdx i => SL [SA "x"; sx_nat i]
  | OAttr s => SL [SA "a"; sx_str s]
  | OClass => SA "class"
  end.
Definition sx_opath (p : opath) : sx := SL (map sx_okey p).

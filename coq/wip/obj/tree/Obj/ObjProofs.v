(** Block Obj - the theorems about [orun] / [oapply], obtained from the theorems
    about the encoded run (Diff/DiffEmpty.v, Diff/DiffFaithful.v, Delta/DeltaRoundtrip.v)
    and the facts about the encoding (Obj/ObjFacts.v). *)
From Coq Require Import List ZArith NArith Bool Arith Lia.
Import ListNotations.
From DD Require Import Base.PyStr Base.Value Base.ValueFacts Path.PathModel Diff.Tree Diff.DiffModel
  Diff.DiffFacts Diff.DiffEmpty Diff.DiffFaithful Obj.ObjValue Obj.ObjModel Obj.ObjFacts.

(* ------------------------------------------------------------------ *)
(** * [tagfix] and the empty result *)
Lemma dedup_paths_cons p l :
  dedup_paths (p :: l) = if existsb (path_eqb p) (dedup_paths l) then dedup_paths l else p :: dedup_paths l.
Proof. reflexivity. Qed.
Lemma dedup_paths_In p l : In p (dedup_paths l) -> In p l.
Proof.
  induction l as [|q l IH]; [intros []|]. rewrite dedup_paths_cons.
  destruct (existsb (path_eqb q) (dedup_paths l)); [intros H; right; apply IH; exact H|].
  intros [<-|H]; [left; reflexivity|right; apply IH; exact H].
Qed.
Lemma dedup_paths_nonempty l : l <> [] -> dedup_paths l <> [].
Proof.
  destruct l as [|p l]; [congruence|]. intros _. rewrite dedup_paths_cons.
  destruct (existsb (path_eqb p) (dedup_paths l)) eqn:E; [|intros H; discriminate H].
  intros H. rewrite H in E. discriminate.
Qed.
Lemma tagfix_nil t1 t2 : tagfix t1 t2 [] = [].
Proof. reflexivity. Qed.
Lemma tagfix_nil_inv t1 t2 es : tagfix t1 t2 es = [] -> es = [].
Proof.
  unfold tagfix. intros H. apply app_eq_nil in H as [H1 H2]. apply map_eq_nil in H2.
  destruct es as [|e es]; [reflexivity|exfalso]. cbn [filter] in H1, H2.
  destruct (class_split t1 t2 e); cbn [negb] in H1; [|discriminate H1].
  cbn [map] in H2. revert H2. apply dedup_paths_nonempty. discriminate.
Qed.

(* ------------------------------------------------------------------ *)
(** * C02: empty diff <=> equal *)

Theorem orun_copy_empty hatom udiff ops c t :
  thr_num c <= thr_den c -> tiling ops -> owf t = true ->
  fst (orun hatom udiff ops c t t) = [].
Proof.
  intros Hthr Ht W. unfold orun. cbn [fst].
  pose proof (run_copy_empty hatom udiff ops nopaths c Hthr Ht (enc t) (enc_wf t W)) as E.
  change (fst (run_diff hatom udiff ops nopaths nopaths c (enc t) (enc t)) = []) in E.
  rewrite E. reflexivity.
Qed.

Theorem orun_empty_sound hatom udiff ops c ok t1 t2 :
  (forall a b, ok a = true -> ok b = true -> hatom a = hatom b -> a = b) -> valid_ops ops ->
  owf t1 = true -> owf t2 = true ->
  oinputs_ok (keep_key c) ok t1 = true -> oinputs_ok (keep_key c) ok t2 = true ->
  fst (orun hatom udiff ops c t1 t2) = [] -> opy_eqv t1 t2 = true.
Proof.
  intros Hinj Hv W1 W2 K1 K2 H. unfold orun in H. cbn [fst] in H. apply map_eq_nil in H. apply tagfix_nil_inv in H.
  apply enc_py_eqv; try assumption.
  change (fst (run_diff hatom udiff ops noskip nopaths c (enc t1) (enc t2)) = []) in H.
  eapply (run_empty_sound hatom udiff ops nopaths c ok); try eassumption.
  - apply enc_wf; assumption.
  - apply enc_wf; assumption.
  - apply enc_inputs_ok; [intros a Ha; apply keep_key_tag; exact Ha|assumption].
  - apply enc_inputs_ok; [intros a Ha; apply keep_key_tag; exact Ha|assumption].
Qed.

(** Block Obj - path text with attribute elements (AttributeRelationship:
    param_repr_format ".{}", quote_str None) and the text view of a result with
    objects (TextResult: attribute_added / attribute_removed).  Definitions only. *)
From Coq Require Import List ZArith NArith Bool Arith.
Import ListNotations.
From DD Require Import Base.PyStr Base.Value Path.PathModel Diff.Tree Diff.TextView
  Obj.ObjValue Obj.ObjModel.

(* the str "__class__" *)
Definition class_attr : pystr := [95; 95; 99; 108; 97; 115; 115; 95; 95]%N.

Definition orender_key (k : okey) : pystr :=
  match k with
  | OKey a => render_key (PKey a)
  | OIdx i => render_key (PIdx i)
  | OAttr s => cDOT :: stringify_element s None
  | OClass => cDOT :: class_attr
  end.
(* DiffLevel.path() *)
Definition orender (p : opath) : pystr := root_str ++ flat_map orender_key p.

(* the elements deepdiff.path._path_to_elements gives back for that text *)
Definition oelement (k : okey) : element :=
  match k with
  | OKey a => (a, GET)
  | OIdx i => (AInt (Z.of_nat i), GET)
  | OAttr s => (AStr s, GETATTR)
  | OClass => (AStr class_attr, GETATTR)
  end.

(* _get_nested_obj on elements, with getattr for GETATTR *)
Fixpoint oresolve_els (v : ovalue) (els : list element) : option ovalue :=
  match els with
  | [] => Some v
  | (a, GET) :: r => match oget_item v a with Some v' => oresolve_els v' r | None => None end
  | (a, GETATTR) :: r =>
      match v, a with
      | OObj _ attrs, AStr s => match assoc_attr s attrs with Some v' => oresolve_els v' r | None => None end
      | _, _ => None
      end
  end.
(* deepdiff.extract(obj, path) *)
Definition oextract (v : ovalue) (p : pystr) : option ovalue :=
  match elements p with
  | Some els => oresolve_els v els
  | None => None
  end.

Inductive oty := OTy (t : ty) | OCls (cls : pystr).
Definition otype_of (v : ovalue) : oty :=
  match v with OObj cls _ => OCls cls | _ => OTy (type_of (enc v)) end.

Inductive otentry :=
| OTType (p : pystr) (old_ty new_ty : oty) (new_path : option pystr) (vals : option (ovalue * ovalue))
| OTValue (p : pystr) (old new : ovalue) (new_path : option pystr) (d : option pystr)
| OTItem (k : okind) (p : pystr) (v : option ovalue)    (* dictionary_item_* / attribute_*: the value only at verbose_level 2 *)
| OTIterAdd (p : pystr) (v : ovalue)
| OTIterRem (p : pystr) (v : ovalue)
| OTMoved (p new_path : pystr) (v : ovalue)
| OTSetAdd (s : pystr)
| OTSetRem (s : pystr).

Definition onew_path_of (e : oentry) : option pystr :=
  if pystr_eqb (orender (oep1 e)) (orender (oep2 e)) then None else Some (orender (oep2 e)).
Definition oopt_val (o : option ovalue) : ovalue := match o with Some v => v | None => OAtom ANone end.
Definition oopt_atom (o : option ovalue) : atom := match o with Some (OAtom a) => a | _ => ANone end.
Definition oset_item_text (p : opath) (a : atom) : pystr := orender p ++ [cLB] ++ str_item a ++ [cRB].

Definition otext_of (verbose : nat) (e : oentry) : list otentry :=
  let p := orender (oep1 e) in
  match oekind e with
  | OK KType =>
      [OTType p (otype_of (oopt_val (oet1 e))) (otype_of (oopt_val (oet2 e)))
              (if Nat.ltb 1 verbose then onew_path_of e else None)
              (if Nat.ltb 0 verbose then Some (oopt_val (oet1 e), oopt_val (oet2 e)) else None)]
  | OK KValue =>
      if Nat.ltb 0 verbose
      then [OTValue p (oopt_val (oet1 e)) (oopt_val (oet2 e))
                    (if Nat.ltb 1 verbose then onew_path_of e else None) (oediff e)]
      else []
  | OK KDictAdd | OKAttrAdd => [OTItem (oekind e) p (if Nat.leb 2 verbose then oet2 e else None)]
  | OK KDictRem | OKAttrRem => [OTItem (oekind e) p (if Nat.leb 2 verbose then oet1 e else None)]
  | OK KIterAdd => [OTIterAdd p (oopt_val (oet2 e))]
  | OK KIterRem => [OTIterRem p (oopt_val (oet1 e))]
  | OK KIterMoved => if Nat.ltb 1 verbose then [OTMoved p (orender (oep2 e)) (oopt_val (oet2 e))] else []
  | OK KSetAdd => [OTSetAdd (oset_item_text (oep1 e) (oopt_atom (oet2 e)))]
  | OK KSetRem => [OTSetRem (oset_item_text (oep1 e) (oopt_atom (oet1 e)))]
  | OK KRepetition => []
  end.
Definition otext_view (verbose : nat) (es : list oentry) : list otentry := flat_map (otext_of verbose) es.

(* ---- the TEXT of the reported paths (C04's text view, for values with instances) --------------------------
   [okeys_ok] (Obj/ObjTextPaths.v): every dict key of the value satisfies C09's guard on keys and every attribute
   name is a plain identifier (Obj.ObjPathText.attr_ok).  Then every path the run reports - for every entry kind,
   every configuration - satisfies Obj.ObjPathText.opath_ok (no class slot, only such keys and names), so the text
   DeepDiff prints for it is parsed back to the same elements, and deepdiff.extract on that text follows exactly the
   keys / indexes / attribute names of the path: with C04_objects_entries_resolve, the reported text extracts the
   reported values.  (Before round 3 wave 2 this was only observed by the obj_c09 stream.) *)
From DD Require Obj.ObjTextPaths Obj.ObjPathText Obj.ObjText.

Theorem C04_objects_reported_paths_ok_partial :
  forall hatom udiff ops c (t1 t2 : Obj.ObjValue.ovalue),
    Obj.ObjValue.owf t1 = true -> Obj.ObjTextPaths.okeys_ok t1 = true ->
    Obj.ObjValue.owf t2 = true -> Obj.ObjTextPaths.okeys_ok t2 = true ->
    forall e, In e (fst (Obj.ObjModel.orun hatom udiff ops c t1 t2)) ->
      Obj.ObjPathText.opath_ok (Obj.ObjModel.oep1 e) = true /\ Obj.ObjPathText.opath_ok (Obj.ObjModel.oep2 e) = true.
Proof. intros. eapply Obj.ObjTextPaths.orun_paths_ok; try eassumption; split; assumption. Qed.
Print Assumptions C04_objects_reported_paths_ok_partial.

Theorem C04_objects_text_paths_extract_partial :
  forall hatom udiff ops c (t1 t2 : Obj.ObjValue.ovalue),
    thr_num c <= thr_den c ->
    Obj.ObjValue.owf t1 = true -> Obj.ObjTextPaths.okeys_ok t1 = true ->
    Obj.ObjValue.owf t2 = true -> Obj.ObjTextPaths.okeys_ok t2 = true ->
    forall e, In e (fst (Obj.ObjModel.orun hatom udiff ops c t1 t2)) ->
      Obj.ObjFaithful.ofaithful t1 t2 e /\
      Obj.ObjText.oextract t1 (Obj.ObjText.orender (Obj.ObjModel.oep1 e)) = Obj.ObjValue.oresolve t1 (Obj.ObjModel.oep1 e) /\
      Obj.ObjText.oextract t2 (Obj.ObjText.orender (Obj.ObjModel.oep2 e)) = Obj.ObjValue.oresolve t2 (Obj.ObjModel.oep2 e) /\
      (forall root, Obj.ObjText.oextract root (Obj.ObjText.orender (Obj.ObjModel.oep1 e)) = Obj.ObjValue.oresolve root (Obj.ObjModel.oep1 e)).
Proof. intros. eapply Obj.ObjTextPaths.orun_text_faithful; try eassumption; split; assumption. Qed.
Print Assumptions C04_objects_text_paths_extract_partial.

(* without the guard: PA(__x=1) against PA(__x=2) with ignore_private_variables=False reports root.__x, whose text
   extracts the instance itself instead of 1 (observation OBJ3) *)
Theorem C04_objects_text_paths_extract_refuted_private_attribute :
  Obj.ObjValue.owf Obj.ObjTextPaths.tp_t1 = true /\ Obj.ObjValue.owf Obj.ObjTextPaths.tp_t2 = true /\
  Obj.ObjTextPaths.okeys_ok Obj.ObjTextPaths.tp_t1 = false /\
  exists e, In e (fst (Obj.ObjModel.orun (fun _ => []) (fun _ _ => []) (fun _ _ _ => []) (mkCfg false 1 3 false)
                         Obj.ObjTextPaths.tp_t1 Obj.ObjTextPaths.tp_t2)) /\
    Obj.ObjValue.oresolve Obj.ObjTextPaths.tp_t1 (Obj.ObjModel.oep1 e) = Some (Obj.ObjValue.OAtom (AInt 1)) /\
    Obj.ObjText.oextract Obj.ObjTextPaths.tp_t1 (Obj.ObjText.orender (Obj.ObjModel.oep1 e)) = Some Obj.ObjTextPaths.tp_t1.
Proof. exact Obj.ObjTextPaths.text_paths_refuted. Qed.
Print Assumptions C04_objects_text_paths_extract_refuted_private_attribute.

(* the guard holds of the pair of C04_objects_hypotheses_satisfiable (9 entries of 7 kinds) *)
Example C04_objects_text_paths_guard_satisfiable :
  Obj.ObjTextPaths.okeys_ok Obj.ObjExamples.ox_t1 = true /\ Obj.ObjTextPaths.okeys_ok Obj.ObjExamples.ox_t2 = true /\
  length (fst Obj.ObjExamples.ox_run) = 9.
Proof. vm_compute. repeat split; reflexivity. Qed.
Print Assumptions C04_objects_text_paths_guard_satisfiable.

"""dev runner for c11: prints correspondence breaks and new failures (not part of any check)"""
import sys, os, json, shutil
sys.path.insert(0, "/verif"); sys.path.insert(0, os.environ.get("DEEPDIFF_REPO", "/repo"))
os.environ.setdefault("PYTHONHASHSEED", "0")
from harness import core
from harness.props import c11
seed = int(sys.argv[1]) if len(sys.argv) > 1 else 20260929
tier = sys.argv[2] if len(sys.argv) > 2 else "quick"
ctx = core.Ctx("C11", tier, seed)
ctx.mod = c11
c11.run(ctx)
print("corr", ctx.corr_cases, "mismatch", ctx.corr_mismatch, "evals", ctx.evaluations, "failures", len(ctx.failures), "known", {k: v["n"] for k, v in ctx.known_seen.items()})
seen = set()
for b in ctx.breaks[:int(os.environ.get("NB", "8"))]:
    d = b["detail"]
    print("BREAK", json.dumps({k: d[k] for k in d if k != "model_expr"}, default=str)[:1800])
    if "model_expr" in d and os.environ.get("EXPR"):
        print("   EXPR", d["model_expr"][:1500])
for f in ctx.failures[:int(os.environ.get("NF", "10"))]:
    c = f["case"]
    print("FAIL", f["what"][:150], "|", c.get("t1", "")[:200], "|", c.get("t2", "")[:200], "|", c.get("with_options"), c.get("altered"), c.get("features"))
for k, v in sorted(ctx.counts.items()):
    if k.startswith(("xcorr", "corr_cases")):
        print(k, v)
print("wall", round(ctx.elapsed(), 1))
shutil.rmtree(ctx.scratch, ignore_errors=True)

(** (round-3 extended universe) C11: option COMPOSITION - "an ignore / tolerance option only removes differences",
    also relative to other options.  [ole F G]: the option set G has every option of F (and the parameters they
    share agree); then every entry of the result under G sits at the path of an entry of the result under F:
    result(A and B) embeds entry-wise into result(A) and into result(B).

    Where this FAILS in the faithful model it is excluded by an explicit side condition, each with a [_refuted]
    witness (YProofsCompWitness.v):
      math_epsilon added to significant_digits / ignore_numeric_type_changes        C11-EPS-OVER-SIG  ([le_eps])
      significant_digits added to ignore_numeric_type_changes (12 digits replaced)  rounding is not monotone in
                                                                                     the number of digits ([le_sig])
      truncate_datetime added, datetimes of different UTC offsets                   C11-TRUNC-BEFORE-TZ ([pair_ok])
      math_epsilon added, ints / floats beyond 53 significant bits                  ([pair_ok]: [is_double]; float(x)
                                                                                     loses digits there.  Decimals are
                                                                                     allowed: YProofsDec.v shows that
                                                                                     float(Decimal) depends on the value
                                                                                     only and is exact on doubles)
    default_timezone and number_format_notation are parameters, not ignore options: equal on both sides. *)
From Coq Require Import List ZArith NArith Bool Arith Lia.
Import ListNotations.
From DD Require Import Base.PyStr Options.OptModel Options.OptDtModel Options.YValue Options.YModel
  Options.YProofsBase Options.YProofsSafe Options.YProofsCompNum Options.YProofsDec.

(* ---------------------------------------------------------------------- *)
(* the order on option sets                                                 *)
(* ---------------------------------------------------------------------- *)
Record ole (F G : opts) : Prop := mkOle {
  le_case : o_case F = true -> o_case G = true;
  le_strty : o_strty F = true -> o_strty G = true;
  le_numty : o_numty F = true -> o_numty G = true;
  le_nan : o_nan F = true -> o_nan G = true;
  le_enum : o_enum F = true -> o_enum G = true;
  le_excl : forall t, excluded F t = true -> excluded G t = true;
  (* the precision in force: none in F, or the same one *)
  le_sig : eff_sig F = None \/ eff_sig F = eff_sig G;
  (* math_epsilon: the same, or added to a set without any precision *)
  le_eps : o_eps F = o_eps G \/ (o_eps F = None /\ eff_sig F = None);
  le_trunc : o_trunc F = o_trunc G \/ o_trunc F = None;
  le_tz : o_tz F = o_tz G;
  le_note : o_note F = false /\ o_note G = false
}.

Lemma ole_refl : forall F, o_note F = false -> ole F F.
Proof. intros F H. constructor; auto. Qed.

(* the side condition on a pair of leaves *)
Definition is_dec (a : atom) : bool := match a with ADec _ _ => true | _ => false end.
Definition trunc_pair (G : opts) (a b : atom) : Prop :=
  match a, b with
  | ADt _ o1, ADt _ o2 => o1 = o2                 (* the same UTC offset (or both naive): truncation commutes with the zone *)
  | ATime _, ATime _ => True
  | ADt _ _, _ | _, ADt _ _ | ATime _, _ | _, ATime _ =>
      o_numty G = false /\ o_enum G = false        (* a datetime / time never meets an operand of another type *)
  | _, _ => True
  end.
Definition pair_ok (F G : opts) (a b : atom) : Prop :=
  (o_eps F = o_eps G \/ (is_double a = true /\ is_double b = true)) /\
  (o_trunc F = o_trunc G \/ trunc_pair G a b).
(* the two atoms passed the type test of _diff under G *)
Definition reach (G : opts) (a b : atom) : Prop :=
  ty_eqb (atom_ty a) (atom_ty b) = true \/ same_group G (atom_ty a) (atom_ty b) = true \/ o_enum G = true.

(* every entry of es2 sits at the path of an entry of es1 *)
Definition covers (es1 es2 : list entry) : Prop :=
  forall e, In e es2 -> exists e', In e' es1 /\ ep1 e' = ep1 e.

Lemma covers_nil : forall es, covers es [].
Proof. intros es e H. destruct H. Qed.
Lemma covers_app : forall a b a' b', covers a a' -> covers b b' -> covers (a ++ b) (a' ++ b').
Proof.
  intros a b a' b' H1 H2 e He. apply in_app_iff in He. destruct He as [He|He].
  - destruct (H1 e He) as [e' [K1 K2]]. exists e'. split; [apply in_app_iff; left; exact K1|exact K2].
  - destruct (H2 e He) as [e' [K1 K2]]. exists e'. split; [apply in_app_iff; right; exact K1|exact K2].
Qed.

Section Leaf.
Variable udiff : pystr -> pystr -> pystr.
Variable F G : opts.
Hypothesis HFG : ole F G.

Lemma excl_le2 : forall ta tb, excluded F ta || excluded F tb = true -> excluded G ta || excluded G tb = true.
Proof.
  intros ta tb H. apply orb_true_iff in H. apply orb_true_iff.
  destruct H as [H|H]; [left|right]; apply (le_excl F G HFG); exact H.
Qed.

(* a report that exclude_types drops under F is dropped under G, for values of the same types *)
Lemma rep_atoms_mono : forall k k' p1 p2 q1 q2 a b a' b',
  atom_ty a' = atom_ty a -> atom_ty b' = atom_ty b ->
  rep_atoms F k p1 p2 a b = [] -> rep_atoms G k' q1 q2 a' b' = [].
Proof.
  intros k k' p1 p2 q1 q2 a b a' b' Ha Hb H. unfold rep_atoms, reportF in *. cbn [excl_opt type_of] in *.
  destruct (excluded F (atom_ty a) || excluded F (atom_ty b)) eqn:E; [|discriminate].
  rewrite Ha, Hb. rewrite (excl_le2 _ _ E). reflexivity.
Qed.
Lemma rep_atoms_nonempty : forall k p1 p2 a b, excluded F (atom_ty a) || excluded F (atom_ty b) = false ->
  rep_atoms F k p1 p2 a b <> [].
Proof. intros k p1 p2 a b H. unfold rep_atoms, reportF. cbn [excl_opt type_of]. rewrite H. discriminate. Qed.

(* ---- strings ---- *)
Lemma lower_char_ascii : forall ch, N.ltb (lower_char ch) 128 = N.ltb ch 128.
Proof.
  intros ch. unfold lower_char.
  destruct (N.leb 65 ch && N.leb ch 90)%bool eqn:E; [|reflexivity].
  apply andb_true_iff in E. destruct E as [E1 E2]. apply N.leb_le in E1. apply N.leb_le in E2.
  assert (N.ltb (ch + 32) 128 = true) as K1 by (apply N.ltb_lt; lia).
  assert (N.ltb ch 128 = true) as K2 by (apply N.ltb_lt; lia).
  rewrite K1, K2. reflexivity.
Qed.
Lemma is_ascii_lower : forall s, is_ascii (lower s) = is_ascii s.
Proof.
  induction s as [|ch s IH]; [reflexivity|].
  unfold is_ascii, lower in *. cbn [map forallb]. rewrite lower_char_ascii, IH. reflexivity.
Qed.
Lemma is_ascii_lowif : forall H s, is_ascii (lowif H s) = is_ascii s.
Proof. intros H s. unfold lowif. destruct (o_case H); [apply is_ascii_lower|reflexivity]. Qed.

Lemma lowif_mono : forall s t, pystr_eqb (lowif F s) (lowif F t) = true -> pystr_eqb (lowif G s) (lowif G t) = true.
Proof.
  intros s t H. unfold lowif in *. destruct (o_case F) eqn:Ec.
  - rewrite (le_case F G HFG Ec). exact H.
  - apply pystr_eqb_eq in H. subst. apply pystr_eqb_refl.
Qed.

Lemma with_content_ty : forall a s, atom_ty (with_content a s) = atom_ty a.
Proof. destruct a; reflexivity. Qed.

Lemma diff_strF_mono : forall a b p1 p2 q1 q2,
  diff_strF udiff F a b p1 p2 = [] -> diff_strF udiff G a b q1 q2 = [].
Proof.
  intros a b p1 p2 q1 q2 H. unfold diff_strF in *.
  rewrite !is_ascii_lowif in *.
  destruct (pystr_eqb (lowif F (str_content a)) (lowif F (str_content b))
            && (ty_eqb (atom_ty a) (atom_ty b) ||
                (if is_bytes a then is_ascii (str_content a) else true) && (if is_bytes b then is_ascii (str_content b) else true))) eqn:E.
  - apply andb_true_iff in E. destruct E as [E1 E2]. rewrite (lowif_mono _ _ E1), E2. reflexivity.
  - destruct (pystr_eqb (lowif G (str_content a)) (lowif G (str_content b)) && _); [reflexivity|].
    unfold reportF in *. cbn [excl_opt type_of] in *. rewrite !with_content_ty in *.
    destruct (excluded F (atom_ty a) || excluded F (atom_ty b)) eqn:Ex; [|discriminate].
    rewrite (excl_le2 _ _ Ex). reflexivity.
Qed.

Lemma strD_mono : forall a b p1 p2 q1 q2 eG,
  strD udiff F a b p1 p2 = Ok [] -> strD udiff G a b q1 q2 = Ok eG -> eG = [].
Proof.
  intros a b p1 p2 q1 q2 eG HF' HG'. unfold strD in *.
  destruct (str_like (atom_ty b)).
  - injection HF' as HF'. injection HG' as HG'. subst eG. eapply diff_strF_mono; eassumption.
  - destruct (o_case F); [discriminate|]. destruct (o_case G); [discriminate|].
    destruct ((if is_bytes a then is_ascii (str_content a) else true) && has_nl (str_content a)); [discriminate|].
    injection HF' as HF'. injection HG' as HG'. subst eG. (refine (rep_atoms_mono _ _ _ _ _ _ _ _ _ _ _ _ HF'); reflexivity).
Qed.

(* ---- numbers ---- *)
Lemma nstr_note : forall d a, nstr F d a = nstr G d a.
Proof.
  intros d a. destruct (le_note F G HFG) as [N1 N2].
  destruct a; cbn [nstr num_of]; unfold fmt_num; rewrite ?N1, ?N2; reflexivity.
Qed.
Lemma ntxt_note : forall d a, ntxt F d a = ntxt G d a.
Proof. intros. unfold ntxt. rewrite nstr_note. reflexivity. Qed.

Definition num_kind (a : atom) : bool := match a with AInt _ | AFloat _ _ | ADec _ _ | ANan _ => true | _ => false end.

Lemma py_eq_num_partner : forall a b, num_kind a = true -> is_nan a = false -> py_eq a b = true -> is_num a = true /\ is_num b = true.
Proof.
  intros a b Hk Hn H. unfold py_eq in H.
  destruct a; cbn [num_kind is_nan] in *; try discriminate; (split; [reflexivity|]);
    destruct b; cbn [qv num_of] in H; try discriminate; reflexivity.
Qed.

Lemma num_tag_mono : forall a b, num_tag F a = num_tag F b -> ty_name a = ty_name b -> num_tag G a = num_tag G b.
Proof. intros a b _ H. unfold num_tag. destruct (o_numty G); [reflexivity|exact H]. Qed.

Lemma app_colon_inv : forall (t x y : pystr), pystr_eqb (t ++ colon ++ x)%list (t ++ colon ++ y)%list = true -> x = y.
Proof.
  intros t x y H. apply pystr_eqb_eq in H. apply app_inv_head in H. apply app_inv_head in H. exact H.
Qed.

Lemma numD_mono : forall rtc a b p1 p2 q1 q2 eG,
  num_kind a = true ->
  (rtc = true -> ty_name a = ty_name b) ->
  (o_eps F = o_eps G \/ (is_double a = true /\ is_double b = true)) ->
  numD F rtc a b p1 p2 = Ok [] -> numD G rtc a b q1 q2 = Ok eG -> eG = [].
Proof.
  intros rtc a b p1 p2 q1 q2 eG Hk Hty Hdec HF' HG'. unfold numD in *.
  assert (forall k' r1 r2, rep_atoms F KValue p1 p2 a b = [] -> rep_atoms G k' r1 r2 a b = []) as Rep
    by (intros; eapply rep_atoms_mono; [reflexivity|reflexivity|eassumption]).
  destruct (o_eps F) as [e|] eqn:EeF.
  - (* the same math_epsilon on both sides *)
    destruct (le_eps F G HFG) as [K|[K _]]; [|congruence]. rewrite <- K, EeF in HG'.
    destruct (fl_of a) as [[x|]|]; destruct (fl_of b) as [[y|]|]; try discriminate;
      injection HF' as HF'; injection HG' as HG'; subst eG;
      try (apply Rep; exact HF').
    destruct (is_close x y e); [reflexivity|apply Rep; exact HF'].
  - destruct (o_eps G) as [e|] eqn:EeG.
    + (* math_epsilon added: F has no precision and compares with != *)
      destruct (le_eps F G HFG) as [K|[_ K]]; [congruence|]. rewrite K in HF'.
      destruct Hdec as [K'|[Da Db]]; [congruence|].
      injection HF' as HF'.
      destruct (py_ne a b) eqn:Ene.
      * destruct (fl_of a) as [[x|]|]; destruct (fl_of b) as [[y|]|]; try discriminate;
          injection HG' as HG'; subst eG; try (apply Rep; exact HF').
        destruct (is_close x y e); [reflexivity|apply Rep; exact HF'].
      * unfold py_ne in Ene. apply orb_false_iff in Ene. destruct Ene as [Ene Epe]. apply orb_false_iff in Ene. destruct Ene as [Na Nb].
        apply negb_false_iff in Epe.
        destruct (py_eq_num_partner a b Hk Na Epe) as [Ia Ib].
        assert (exists x, fl_of a = Some (Some x)) as [x Fa] by (destruct a; cbn [is_num] in Ia; try discriminate; eexists; reflexivity).
        assert (exists y, fl_of b = Some (Some y)) as [y Fb] by (destruct b; cbn [is_num] in Ib; try discriminate; eexists; reflexivity).
        rewrite Fa, Fb in HG'.
        rewrite (is_close_py_eq_dec a b x y e Ia Ib Da Db Fa Fb Epe) in HG'. injection HG' as HG'. subst eG. reflexivity.
    + destruct (eff_sig F) as [d|] eqn:EsF.
      * (* the same precision on both sides *)
        destruct (le_sig F G HFG) as [K|K]; [congruence|]. rewrite <- K, EsF in HG'.
        rewrite <- !ntxt_note in HG'.
        destruct (ntxt F d a) as [ta|]; [|discriminate]. destruct (ntxt F d b) as [tb|]; [|discriminate]. cbn [bind] in *.
        destruct ta as [x|], tb as [y|]; injection HF' as HF'; injection HG' as HG'; subst eG; try (apply Rep; exact HF').
        match type of HF' with (if ?cc then _ else _) = _ => destruct cc eqn:E1 end.
        -- assert (x = y /\ (rtc = true -> num_tag G a = num_tag G b)) as [Exy Etag].
           { destruct rtc.
             - assert (ty_name a = ty_name b) as Tn by (apply Hty; reflexivity).
               assert (num_tag F a = num_tag F b) as Tf by (unfold num_tag; destruct (o_numty F); [reflexivity|exact Tn]).
               rewrite Tf in E1. split; [eapply app_colon_inv; exact E1|]. intros _. apply num_tag_mono; assumption.
             - split; [|discriminate]. apply pystr_eqb_eq in E1. cbn [app] in E1. injection E1 as E1. exact E1. }
           subst y. destruct rtc; [rewrite (Etag eq_refl)|]; rewrite pystr_eqb_refl; reflexivity.
        -- match goal with |- (if ?cc then _ else _) = _ => destruct cc end; [reflexivity|apply Rep; exact HF'].
      * injection HF' as HF'.
        destruct (eff_sig G) as [d|] eqn:EsG.
        -- (* a precision added to the plain comparison *)
           destruct (py_ne a b) eqn:Ene.
           ++ destruct (ntxt G d a) as [ta|]; [|discriminate]. destruct (ntxt G d b) as [tb|]; [|discriminate]. cbn [bind] in *.
              destruct ta, tb; injection HG' as HG'; subst eG; try (apply Rep; exact HF').
              match goal with |- (if ?cc then _ else _) = _ => destruct cc end; [reflexivity|apply Rep; exact HF'].
           ++ unfold py_ne in Ene. apply orb_false_iff in Ene. destruct Ene as [Ene Epe]. apply orb_false_iff in Ene. destruct Ene as [Na Nb].
              apply negb_false_iff in Epe.
              destruct (py_eq_num_partner a b Hk Na Epe) as [Ia Ib].
              destruct (le_note F G HFG) as [_ N2].
              pose proof (nstr_py_eq G d a b N2 Ia Ib Epe) as Hn.
              unfold ntxt in HG'. rewrite <- Hn in HG'.
              destruct (nstr G d a) as [[s|er]|] eqn:Ea; cbn [bind] in HG'; try discriminate.
              ** assert (rtc = true -> num_tag G a = num_tag G b) as Tg.
                 { intros Hr. unfold num_tag. destruct (o_numty G); [reflexivity|]. apply Hty. exact Hr. }
                 destruct rtc; [rewrite (Tg eq_refl) in HG'|]; rewrite pystr_eqb_refl in HG'; injection HG' as HG'; subst eG; reflexivity.
              ** exfalso. destruct a; cbn in Ia; try discriminate; cbn [nstr num_of] in Ea; discriminate.
        -- injection HG' as HG'. subst eG. destruct (py_ne a b); [apply Rep; exact HF'|reflexivity].
Qed.


(* ---- datetimes ---- *)
Lemma norm_any_ty_fixed : forall H a, (forall us, a <> ATime us) -> forall a', norm_any H a = Ok a' -> atom_ty a' = atom_ty a.
Proof.
  intros H a Hnt a' E. destruct a; cbn [norm_any] in E; try (exfalso; eapply Hnt; reflexivity);
    injection E as E; subst a'; reflexivity.
Qed.

Lemma dt_changed_mono : forall u1 o1 u2 o2,
  (o_trunc F = o_trunc G \/ o1 = o2) ->
  dt_changed (o_trunc F) (o_tz F) (mkDt u1 o1) (mkDt u2 o2) = false ->
  dt_changed (o_trunc G) (o_tz G) (mkDt u1 o1) (mkDt u2 o2) = false.
Proof.
  intros u1 o1 u2 o2 Ht H. rewrite <- (le_tz F G HFG).
  destruct Ht as [Ht|Ht]; [rewrite <- Ht; exact H|]. subst o2.
  destruct (le_trunc F G HFG) as [K|K]; [rewrite <- K; exact H|]. rewrite K in H.
  unfold dt_changed, dt_instant in *. cbn [dt_us dt_off dt_trunc] in *.
  apply negb_false_iff in H. apply Z.eqb_eq in H. apply negb_false_iff. apply Z.eqb_eq.
  assert (u1 = u2) as E by lia. subst u2. reflexivity.
Qed.

Lemma py_ne_time_secs : forall us, py_ne (time_secs us) (time_secs us) = false.
Proof.
  intros us. unfold py_ne. rewrite py_eq_refl. unfold time_secs. destruct ((us mod 1000000 =? 0)%Z); reflexivity.
Qed.

Lemma reach_mixed_absurd : forall a b, o_numty G = false -> o_enum G = false -> reach G a b ->
  ty_eqb (atom_ty a) (atom_ty b) = false -> str_like (atom_ty a) = false -> False.
Proof.
  intros a b Hn He [R|[R|R]] Ht Hs; try congruence.
  unfold same_group in R. rewrite Hn, Hs in R. rewrite !andb_false_r in R. cbn in R. discriminate.
Qed.

Lemma dtD_mono : forall u1 o1 b p1 p2 q1 q2 eG,
  reach G (ADt u1 o1) b ->
  (o_trunc F = o_trunc G \/ trunc_pair G (ADt u1 o1) b) ->
  dtD F (ADt u1 o1) b p1 p2 = Ok [] -> dtD G (ADt u1 o1) b q1 q2 = Ok eG -> eG = [].
Proof.
  intros u1 o1 b p1 p2 q1 q2 eG Hr Ht HF' HG'.
  destruct b as [| bb | zb | mb eb | sb | sb | u2 o2 | ib | mb eb | yb mob db | ub | ub | clb nb ob vb]; cbn [dtD] in *.
  7:{ (* two datetimes *)
      injection HF' as HF'. injection HG' as HG'. subst eG.
      destruct (dt_changed (o_trunc F) (o_tz F) (mkDt u1 o1) (mkDt u2 o2)) eqn:E.
      - destruct (dt_changed (o_trunc G) _ _ _); [|reflexivity]. refine (rep_atoms_mono _ _ _ _ _ _ _ _ _ _ _ _ HF'); reflexivity.
      - rewrite (dt_changed_mono u1 o1 u2 o2); [reflexivity| |exact E].
        destruct Ht as [Ht|Ht]; [left; exact Ht|right; exact Ht]. }
  (* a datetime against something else (use_enum_value / the numeric group): the pair is always reported *)
  all: cbn [norm_any bind trunc_pair] in *.
  (* since 1c8f0f8 only a time is changed by datetime_normalize: every other operand is reported as it is *)
  all: try (injection HF' as HF'; injection HG' as HG'; subst eG; refine (rep_atoms_mono _ _ _ _ _ _ _ _ _ _ _ _ HF'); reflexivity).
  destruct Ht as [Ht|[Hn He]]; [|exfalso; eapply (reach_mixed_absurd _ _ Hn He Hr); reflexivity].
  rewrite <- Ht in HG'. injection HF' as HF'. injection HG' as HG'. subst eG. refine (rep_atoms_mono _ _ _ _ _ _ _ _ _ _ _ _ HF'); reflexivity.
Qed.

(* ---- date / time / timedelta ---- *)
Definition time_kind (a : atom) : bool := match a with ADate _ _ _ | ATime _ | ATd _ => true | _ => false end.

Lemma timeD_mono : forall a b p1 p2 q1 q2 eG,
  time_kind a = true -> excluded F (atom_ty a) = false -> reach G a b ->
  (o_trunc F = o_trunc G \/ trunc_pair G a b) ->
  timeD F a b p1 p2 = Ok [] -> timeD G a b q1 q2 = Ok eG -> eG = [].
Proof.
  intros a b p1 p2 q1 q2 eG Hk Hex Hr Ht HF' HG'. unfold timeD in *.
  destruct (o_trunc F) as [u|] eqn:EtF.
  - (* the same truncation on both sides: the same normalised operands *)
    destruct (le_trunc F G HFG) as [K|K]; [|congruence]. rewrite <- K in HG'. rewrite EtF in HG'.
    assert (norm_any F a = norm_any G a) as Na
      by (destruct a; cbn [norm_any]; rewrite <- ?K, ?EtF; try reflexivity; unfold dt_norm; rewrite <- K, (le_tz F G HFG); reflexivity).
    assert (norm_any F b = norm_any G b) as Nb
      by (destruct b; cbn [norm_any]; rewrite <- ?K, ?EtF; try reflexivity; unfold dt_norm; rewrite <- K, (le_tz F G HFG); reflexivity).
    rewrite <- Na, <- Nb in HG'.
    destruct (norm_any F a) as [a'|]; [|discriminate]. destruct (norm_any F b) as [b'|]; [|discriminate]. cbn [bind] in *.
    injection HF' as HF'. injection HG' as HG'. subst eG.
    destruct (py_ne a' b'); [|reflexivity]. refine (rep_atoms_mono _ _ _ _ _ _ _ _ _ _ _ _ HF'); reflexivity.
  - injection HF' as HF'.
    destruct (o_trunc G) as [u|] eqn:EtG.
    + (* truncation added *)
      destruct Ht as [Ht|Ht]; [congruence|].
      destruct a as [| ba | za | ma ea | sa | sa | u1 o1 | ia | ma ea | ya moa da | ua | ua | cla na oa va]; cbn [time_kind] in Hk; try discriminate.
      * (* a date / timedelta is left alone by datetime_normalize (1c8f0f8): the same comparison as without truncation *)
        assert (norm_any G b = Ok b) as Nb.
        { destruct b; try reflexivity; cbn [trunc_pair] in Ht; destruct Ht as [Hn He]; exfalso;
            eapply (reach_mixed_absurd _ _ Hn He Hr); reflexivity. }
        cbn [norm_any] in HG'. change (norm_any G b) with (norm_any G b) in HG'. rewrite Nb in HG'. cbn [bind] in HG'.
        injection HG' as HG'. subst eG.
        destruct (py_ne _ b); [refine (rep_atoms_mono _ _ _ _ _ _ _ _ _ _ _ _ HF'); reflexivity|reflexivity].
      * destruct b as [| bb | zb | mb eb | sb | sb | u2 o2 | ib | mb eb | yb mob db | ub | ub | clb nb ob vb]; cbn [trunc_pair] in Ht;
          try (destruct Ht as [Hn He]; exfalso; eapply (reach_mixed_absurd _ _ Hn He Hr); reflexivity).
        cbn [norm_any bind] in HG'. injection HG' as HG'. subst eG.
        destruct (py_ne (ATime ua) (ATime ub)) eqn:Ene.
        -- exfalso. eapply (rep_atoms_nonempty KValue p1 p2 (ATime ua) (ATime ub)); [|exact HF']. cbn [atom_ty] in *. rewrite Hex. reflexivity.
        -- unfold py_ne in Ene. cbn [is_nan orb] in Ene. apply negb_false_iff in Ene. unfold py_eq in Ene. cbn [qv num_of] in Ene.
           apply Z.eqb_eq in Ene. subst ub. rewrite py_ne_time_secs. reflexivity.
      * (* a date / timedelta is left alone by datetime_normalize (1c8f0f8): the same comparison as without truncation *)
        assert (norm_any G b = Ok b) as Nb.
        { destruct b; try reflexivity; cbn [trunc_pair] in Ht; destruct Ht as [Hn He]; exfalso;
            eapply (reach_mixed_absurd _ _ Hn He Hr); reflexivity. }
        cbn [norm_any] in HG'. change (norm_any G b) with (norm_any G b) in HG'. rewrite Nb in HG'. cbn [bind] in HG'.
        injection HG' as HG'. subst eG.
        destruct (py_ne _ b); [refine (rep_atoms_mono _ _ _ _ _ _ _ _ _ _ _ _ HF'); reflexivity|reflexivity].
    + injection HG' as HG'. subst eG. destruct (py_ne a b); [|reflexivity]. refine (rep_atoms_mono _ _ _ _ _ _ _ _ _ _ _ _ HF'); reflexivity.
Qed.

(* ---- the comparer picked by the type of t1 ---- *)
Lemma ty_name_same_ty : forall a b, ty_eqb (atom_ty a) (atom_ty b) = true -> ty_name a = ty_name b.
Proof.
  intros a b H. destruct a, b; cbn in H; try discriminate; try reflexivity.
  cbn [ty_name]. apply pystr_eqb_eq in H. exact H.
Qed.

Lemma dispatch_mono : forall rtc a b p1 p2 q1 q2 eG,
  (rtc = true -> ty_eqb (atom_ty a) (atom_ty b) = true) ->
  excluded F (atom_ty a) = false \/ time_kind a = false ->
  reach G a b ->
  pair_ok F G a b ->
  dispatch udiff F rtc a b p1 p2 = Ok [] -> dispatch udiff G rtc a b q1 q2 = Ok eG -> eG = [].
Proof.
  intros rtc a b p1 p2 q1 q2 eG Hrtc Hex Hreach [Hdec Htr] HF' HG'.
  destruct a as [| ba | za | ma ea | sa | sa | u1 o1 | ia | ma ea | ya moa da | ua | ua | cla na oa va]; cbn [dispatch] in *.
  - injection HG' as HG'. subst eG. reflexivity.
  - injection HF' as HF'. injection HG' as HG'. subst eG. destruct (py_ne (ABool ba) b); [|reflexivity].
    refine (rep_atoms_mono _ _ _ _ _ _ _ _ _ _ _ _ HF'); reflexivity.
  - eapply numD_mono; try eassumption; [reflexivity|]. intros Hr. apply ty_name_same_ty. apply Hrtc. exact Hr.
  - eapply numD_mono; try eassumption; [reflexivity|]. intros Hr. apply ty_name_same_ty. apply Hrtc. exact Hr.
  - eapply strD_mono; eassumption.
  - eapply strD_mono; eassumption.
  - eapply dtD_mono; eassumption.
  - eapply numD_mono; try eassumption; [reflexivity|]. intros Hr. apply ty_name_same_ty. apply Hrtc. exact Hr.
  - eapply numD_mono; try eassumption; [reflexivity|]. intros Hr. apply ty_name_same_ty. apply Hrtc. exact Hr.
  - destruct Hex as [Hex|Hex]; [|discriminate]. eapply timeD_mono; try eassumption. reflexivity.
  - destruct Hex as [Hex|Hex]; [|discriminate]. eapply timeD_mono; try eassumption. reflexivity.
  - destruct Hex as [Hex|Hex]; [|discriminate]. eapply timeD_mono; try eassumption. reflexivity.
  - injection HG' as HG'. subst eG. reflexivity.
Qed.

(* ---- _diff on two atoms ---- *)
Lemma same_group_mono : forall ta tb, same_group F ta tb = true -> same_group G ta tb = true.
Proof.
  intros ta tb H. unfold same_group in *. apply orb_true_iff in H. apply orb_true_iff. destruct H as [H|H]; [left|right];
    apply andb_true_iff in H; destruct H as [H H2]; apply andb_true_iff in H; destruct H as [H0 H1]; rewrite H1, H2.
  - rewrite (le_strty F G HFG H0). reflexivity.
  - rewrite (le_numty F G HFG H0). reflexivity.
Qed.

Lemma same_group_not_enum : forall H ta tb, same_group H ta tb = true ->
  (forall cl, ta <> TEnum cl) /\ (forall cl, tb <> TEnum cl).
Proof.
  intros H ta tb Hg. unfold same_group in Hg.
  split; intros cl E; subst; cbn [str_like num_like] in Hg; rewrite ?andb_false_r in Hg; cbn in Hg; discriminate.
Qed.

Lemma unwrap_noenum : forall H a, is_enum a = false -> unwrap H a = a.
Proof. intros H a E. destruct a; try reflexivity. discriminate. Qed.

Lemma trunc_pair_unwrap : forall H1 H2 a b, trunc_pair G a b -> trunc_pair G (unwrap H1 a) (unwrap H2 b).
Proof.
  intros H1 H2 a b H.
  destruct a as [| ba | za | ma ea | sa | sa | u1 o1 | ia | ma ea | ya moa da | ua | ua | cla na oa va];
  destruct b as [| bb | zb | mb eb | sb | sb | u2 o2 | ib | mb eb | yb mob db | ub | ub | clb nb ob vb];
    cbn [trunc_pair unwrap] in *; try exact H; try exact I;
    try (destruct (o_enum H1)); try (destruct (o_enum H2)); cbn [trunc_pair]; try exact I; try exact H;
    try (destruct va; cbn [atom_of_e trunc_pair]; first [exact I|exact H]);
    try (destruct vb; cbn [atom_of_e trunc_pair]; first [exact I|exact H]);
    try (destruct va; destruct vb; exact I).
Qed.


Lemma pair_ok_unwrap : forall H1 H2 a b, pair_ok F G a b -> pair_ok F G (unwrap H1 a) (unwrap H2 b).
Proof.
  intros H1 H2 a b [Hd Ht]. split.
  - destruct Hd as [Hd|[Da Db]]; [left; exact Hd|right; split; apply is_double_unwrap; assumption].
  - destruct Ht as [Ht|Ht]; [left; exact Ht|right; apply trunc_pair_unwrap; exact Ht].
Qed.

Theorem leaf_core_mono : forall a b p1 p2 q1 q2 eG,
  pair_ok F G a b ->
  leaf_core udiff F a b p1 p2 = Ok [] -> leaf_core udiff G a b q1 q2 = Ok eG -> eG = [].
Proof.
  intros a b p1 p2 q1 q2 eG Hp HF' HG'. unfold leaf_core in *.
  destruct (same_obj a b); [injection HG' as HG'; subst; reflexivity|].
  destruct (excluded F (atom_ty a) || excluded F (atom_ty b)) eqn:ExF.
  { rewrite (excl_le2 _ _ ExF) in HG'. injection HG' as HG'. subst; reflexivity. }
  destruct (excluded G (atom_ty a) || excluded G (atom_ty b)); [injection HG' as HG'; subst; reflexivity|].
  apply orb_false_iff in ExF. destruct ExF as [ExA ExB].
  destruct (ty_eqb (atom_ty a) (atom_ty b)) eqn:Et.
  - (* one type *)
    destruct (o_nan F && is_nan a && str_is_nan b) eqn:En.
    + apply andb_true_iff in En. destruct En as [En E2]. apply andb_true_iff in En. destruct En as [E0 E1].
      rewrite (le_nan F G HFG E0), E1, E2 in HG'. injection HG' as HG'. subst; reflexivity.
    + destruct (o_nan G && is_nan a && str_is_nan b); [injection HG' as HG'; subst; reflexivity|].
      eapply (dispatch_mono true a b); try eassumption; [intros _; exact Et|left; exact ExA|left; exact Et].
  - (* two types *)
    destruct (negb (same_group F (atom_ty a) (atom_ty b)) && negb (o_enum F && (is_enum a || is_enum b))) eqn:EgF.
    { exfalso. injection HF' as HF'. eapply (rep_atoms_nonempty KType p1 p2 a b); [|exact HF']. rewrite ExA, ExB. reflexivity. }
    assert (negb (same_group G (atom_ty a) (atom_ty b)) && negb (o_enum G && (is_enum a || is_enum b)) = false) as EgG.
    { apply andb_false_iff in EgF. apply andb_false_iff. destruct EgF as [K|K]; apply negb_false_iff in K; [left|right]; apply negb_false_iff.
      - apply same_group_mono. exact K.
      - apply andb_true_iff in K. destruct K as [K1 K2]. rewrite (le_enum F G HFG K1), K2. reflexivity. }
    rewrite EgG in HG'.
    assert (unwrap F a = unwrap G a /\ unwrap F b = unwrap G b) as [Ua Ub].
    { destruct (o_enum F) eqn:Ee.
      - pose proof (le_enum F G HFG Ee) as Ee'. split; [destruct a|destruct b]; cbn [unwrap]; rewrite ?Ee, ?Ee'; reflexivity.
      - rewrite andb_false_l in EgF. cbn [negb] in EgF. rewrite andb_true_r in EgF. apply negb_false_iff in EgF.
        destruct (same_group_not_enum F _ _ EgF) as [Na Nb].
        assert (is_enum a = false) as Ia by (destruct a; try reflexivity; exfalso; eapply Na; reflexivity).
        assert (is_enum b = false) as Ib by (destruct b; try reflexivity; exfalso; eapply Nb; reflexivity).
        rewrite !unwrap_noenum by assumption. split; reflexivity. }
    rewrite <- Ua, <- Ub in HG'.
    set (a' := unwrap F a) in *. set (b' := unwrap F b) in *.
    destruct (is_none a' || is_none b').
    { injection HF' as HF'. injection HG' as HG'. subst eG.
      destruct (is_none a' && is_none b'); [reflexivity|]. refine (rep_atoms_mono _ _ _ _ _ _ _ _ _ _ _ _ HF'); reflexivity. }
    destruct (o_nan F && is_nan a' && str_is_nan b') eqn:En.
    + apply andb_true_iff in En. destruct En as [En E2]. apply andb_true_iff in En. destruct En as [E0 E1].
      rewrite (le_nan F G HFG E0), E1, E2 in HG'. injection HG' as HG'. subst; reflexivity.
    + destruct (o_nan G && is_nan a' && str_is_nan b'); [injection HG' as HG'; subst; reflexivity|].
      assert (reach G a' b') as Hreach.
      { apply andb_false_iff in EgG. destruct EgG as [K|K]; apply negb_false_iff in K.
        - destruct (same_group_not_enum G _ _ K) as [Na Nb].
          assert (is_enum a = false) as Ia by (destruct a; try reflexivity; exfalso; eapply Na; reflexivity).
          assert (is_enum b = false) as Ib by (destruct b; try reflexivity; exfalso; eapply Nb; reflexivity).
          subst a' b'. rewrite !unwrap_noenum by assumption. right. left. exact K.
        - apply andb_true_iff in K. right. right. tauto. }
      eapply (dispatch_mono false a' b'); try eassumption; [discriminate| |apply pair_ok_unwrap; exact Hp].
      subst a'. destruct a; cbn [unwrap]; try (left; exact ExA).
      destruct (o_enum F); [right; destruct v; reflexivity|right; reflexivity].
Qed.

Theorem leafR_mono : forall a b p1 p2 q1 q2 eG,
  pair_ok F G a b ->
  leafR udiff F a b p1 p2 = Ok [] -> leafR udiff G a b q1 q2 = Ok eG -> eG = [].
Proof.
  intros a b p1 p2 q1 q2 eG Hp HF' HG'. unfold leafR in *.
  destruct a as [| ba | za | ma ea | sa | sa | u1 o1 | ia | ma ea | ya moa da | ua | ua | cl n o v]; try (eapply leaf_core_mono; eassumption).
  destruct b as [| bb | zb | mb eb | sb | sb | u2 o2 | ib | mb eb | yb mob db | ub | ub | cl' n' o' v']; try (eapply leaf_core_mono; eassumption).
  destruct (pystr_eqb cl cl'); [|eapply leaf_core_mono; eassumption].
  destruct (pystr_eqb n n'); [injection HG' as HG'; subst; reflexivity|].
  destruct (excluded F (atom_ty (AEnum cl n o v))) eqn:Ex.
  { rewrite (le_excl F G HFG _ Ex) in HG'. injection HG' as HG'. subst; reflexivity. }
  destruct (excluded G (atom_ty (AEnum cl n o v))); [injection HG' as HG'; subst; reflexivity|].
  destruct (leaf_core udiff F (AStr n) (AStr n') _ _) as [r1|] eqn:E1; [|discriminate].
  destruct (leaf_core udiff F (atom_of_e v) (atom_of_e v') _ _) as [r2|] eqn:E2; [|discriminate].
  cbn [bind] in HF'. injection HF' as HF'. apply app_eq_nil in HF'. destruct HF' as [R1 R2]. subst r1 r2.
  destruct (leaf_core udiff G (AStr n) (AStr n') _ _) as [s1|] eqn:E3; [|discriminate].
  destruct (leaf_core udiff G (atom_of_e v) (atom_of_e v') _ _) as [s2|] eqn:E4; [|discriminate].
  cbn [bind] in HG'. injection HG' as HG'. subst eG.
  assert (pair_ok F G (AStr n) (AStr n')) as P1 by (split; right; [split; reflexivity|exact I]).
  assert (pair_ok F G (atom_of_e v) (atom_of_e v')) as P2.
  { split; [|right; destruct v, v'; exact I]. destruct Hp as [[Hp|[Da Db]] _]; [left; exact Hp|right].
    split; eapply is_double_atom_of_e; eassumption. }
  rewrite (leaf_core_mono _ _ _ _ _ _ _ P1 E1 E3), (leaf_core_mono _ _ _ _ _ _ _ P2 E2 E4). reflexivity.
Qed.

End Leaf.

(* ---------------------------------------------------------------------- *)
(* where the entries of a leaf comparison sit                               *)
(* ---------------------------------------------------------------------- *)
Definition at_path (p : path) (es : list entry) : Prop := forall e, In e es -> ep1 e = p.

Section Paths.
Variable udiff : pystr -> pystr -> pystr.
Variable H : opts.

Lemma at_path_nil : forall p, at_path p [].
Proof. intros p e K. destruct K. Qed.
Lemma reportF_path : forall k p1 p2 a b d, at_path p1 (reportF H k p1 p2 a b d).
Proof. intros k p1 p2 a b d e K. unfold reportF in K. destruct (excl_opt H a || excl_opt H b); [destruct K|]. destruct K as [K|[]]. subst e. reflexivity. Qed.
Lemma rep_atoms_path : forall k p1 p2 a b, at_path p1 (rep_atoms H k p1 p2 a b).
Proof. intros. apply reportF_path. Qed.
Lemma at_path_if : forall p (c : bool) es1 es2, at_path p es1 -> at_path p es2 -> at_path p (if c then es1 else es2).
Proof. intros p c es1 es2 H1 H2. destruct c; assumption. Qed.

Lemma diff_strF_path : forall a b p1 p2, at_path p1 (diff_strF udiff H a b p1 p2).
Proof. intros. unfold diff_strF. apply at_path_if; [apply at_path_nil|apply reportF_path]. Qed.

Ltac okp := match goal with
  | K : Ok _ = Ok _ |- _ => injection K as K; subst
  | K : Err _ = Ok _ |- _ => discriminate K
  end.

Lemma numD_path : forall rtc a b p1 p2 es, numD H rtc a b p1 p2 = Ok es -> at_path p1 es.
Proof.
  intros rtc a b p1 p2 es E. unfold numD in E. destruct (o_eps H).
  - destruct (fl_of a) as [[x|]|]; destruct (fl_of b) as [[y|]|]; okp; try apply rep_atoms_path.
    apply at_path_if; [apply at_path_nil|apply rep_atoms_path].
  - destruct (eff_sig H).
    + destruct (ntxt H n a) as [ta|]; [|discriminate]. destruct (ntxt H n b) as [tb|]; [|discriminate]. cbn [bind] in E.
      destruct ta, tb; okp; try apply rep_atoms_path. apply at_path_if; [apply at_path_nil|apply rep_atoms_path].
    + okp. apply at_path_if; [apply rep_atoms_path|apply at_path_nil].
Qed.
Lemma strD_path : forall a b p1 p2 es, strD udiff H a b p1 p2 = Ok es -> at_path p1 es.
Proof.
  intros a b p1 p2 es E. unfold strD in E. destruct (str_like (atom_ty b)); [okp; apply diff_strF_path|].
  destruct (o_case H); [discriminate|]. destruct (_ && _); [discriminate|]. okp. apply rep_atoms_path.
Qed.
Lemma timeD_path : forall a b p1 p2 es, timeD H a b p1 p2 = Ok es -> at_path p1 es.
Proof.
  intros a b p1 p2 es E. unfold timeD in E. destruct (o_trunc H).
  - destruct (norm_any H a) as [a'|]; [|discriminate]. cbn [bind] in E. destruct (norm_any H b) as [b'|]; [|discriminate]. cbn [bind] in E.
    okp. apply at_path_if; [apply rep_atoms_path|apply at_path_nil].
  - okp. apply at_path_if; [apply rep_atoms_path|apply at_path_nil].
Qed.
Lemma dtD_path : forall a b p1 p2 es, dtD H a b p1 p2 = Ok es -> at_path p1 es.
Proof.
  intros a b p1 p2 es E. unfold dtD in E.
  assert (forall r, bind (norm_any H a) (fun a' => bind (norm_any H b) (fun b' => Ok (rep_atoms H KValue p1 p2 a' b'))) = Ok r ->
          at_path p1 r) as K.
  { intros r Er. destruct (norm_any H a) as [a'|]; [|discriminate]. cbn [bind] in Er.
    destruct (norm_any H b) as [b'|]; [|discriminate]. cbn [bind] in Er. okp. apply rep_atoms_path. }
  destruct a; try (apply K; exact E). destruct b; try (apply K; exact E).
  okp. apply at_path_if; [apply rep_atoms_path|apply at_path_nil].
Qed.

Lemma dispatch_path : forall rtc a b p1 p2 es, dispatch udiff H rtc a b p1 p2 = Ok es -> at_path p1 es.
Proof.
  intros rtc a b p1 p2 es E.
  destruct a; cbn [dispatch] in E;
    try (eapply numD_path; exact E); try (eapply strD_path; exact E); try (eapply timeD_path; exact E); try (eapply dtD_path; exact E).
  - okp. apply at_path_nil.
  - okp. apply at_path_if; [apply rep_atoms_path|apply at_path_nil].
  - okp. apply at_path_nil.
Qed.

Lemma leaf_core_path : forall a b p1 p2 es, leaf_core udiff H a b p1 p2 = Ok es -> at_path p1 es.
Proof.
  intros a b p1 p2 es E. unfold leaf_core in E.
  destruct (same_obj a b); [okp; apply at_path_nil|].
  destruct (excluded H _ || excluded H _); [okp; apply at_path_nil|].
  destruct (ty_eqb _ _).
  - destruct (o_nan H && _ && _); [okp; apply at_path_nil|]. eapply dispatch_path; exact E.
  - destruct (negb _ && negb _); [okp; apply rep_atoms_path|].
    destruct (is_none _ || is_none _); [okp; apply at_path_if; [apply at_path_nil|apply rep_atoms_path]|].
    destruct (o_nan H && _ && _); [okp; apply at_path_nil|]. eapply dispatch_path; exact E.
Qed.

End Paths.

(* ---------------------------------------------------------------------- *)
(* composition at a leaf, entry-wise                                        *)
(* ---------------------------------------------------------------------- *)
Section LeafCovers.
Variable udiff : pystr -> pystr -> pystr.
Variable F G : opts.
Hypothesis HFG : ole F G.

Lemma leaf_core_covers : forall a b p1 p2 q2 eF eG, pair_ok F G a b ->
  leaf_core udiff F a b p1 p2 = Ok eF -> leaf_core udiff G a b p1 q2 = Ok eG -> covers eF eG.
Proof.
  intros a b p1 p2 q2 eF eG Hp EF EG e He.
  destruct eF as [|e' r].
  - rewrite (leaf_core_mono udiff F G HFG a b p1 p2 p1 q2 eG Hp EF EG) in He. destruct He.
  - exists e'. split; [left; reflexivity|].
    rewrite (leaf_core_path udiff F a b p1 p2 _ EF e' (or_introl eq_refl)).
    symmetry. exact (leaf_core_path udiff G a b p1 q2 _ EG e He).
Qed.

Theorem leafR_covers : forall a b p1 p2 q2 eF eG, pair_ok F G a b ->
  leafR udiff F a b p1 p2 = Ok eF -> leafR udiff G a b p1 q2 = Ok eG -> covers eF eG.
Proof.
  intros a b p1 p2 q2 eF eG Hp EF EG. unfold leafR in *.
  destruct a as [| ba | za | ma ea | sa | sa | u1 o1 | ia | ma ea | ya moa da | ua | ua | cl n o v]; try (eapply leaf_core_covers; eassumption).
  destruct b as [| bb | zb | mb eb | sb | sb | u2 o2 | ib | mb eb | yb mob db | ub | ub | cl' n' o' v']; try (eapply leaf_core_covers; eassumption).
  destruct (pystr_eqb cl cl'); [|eapply leaf_core_covers; eassumption].
  destruct (pystr_eqb n n'); [injection EG as EG; subst; apply covers_nil|].
  destruct (excluded F (atom_ty (AEnum cl n o v))) eqn:Ex.
  { rewrite (le_excl F G HFG _ Ex) in EG. injection EG as EG. subst; apply covers_nil. }
  destruct (excluded G (atom_ty (AEnum cl n o v))); [injection EG as EG; subst; apply covers_nil|].
  destruct (leaf_core udiff F (AStr n) (AStr n') _ _) as [r1|] eqn:E1; [|discriminate].
  destruct (leaf_core udiff F (atom_of_e v) (atom_of_e v') _ _) as [r2|] eqn:E2; [|discriminate].
  cbn [bind] in EF. injection EF as EF. subst eF.
  destruct (leaf_core udiff G (AStr n) (AStr n') _ _) as [s1|] eqn:E3; [|discriminate].
  destruct (leaf_core udiff G (atom_of_e v) (atom_of_e v') _ _) as [s2|] eqn:E4; [|discriminate].
  cbn [bind] in EG. injection EG as EG. subst eG.
  assert (pair_ok F G (AStr n) (AStr n')) as P1 by (split; right; [split; reflexivity|exact I]).
  assert (pair_ok F G (atom_of_e v) (atom_of_e v')) as P2.
  { split; [|right; destruct v, v'; exact I]. destruct Hp as [[Hp|[Da Db]] _]; [left; exact Hp|right].
    split; eapply is_double_atom_of_e; eassumption. }
  apply covers_app; [exact (leaf_core_covers _ _ _ _ _ _ _ P1 E1 E3)|exact (leaf_core_covers _ _ _ _ _ _ _ P2 E2 E4)].
Qed.

End LeafCovers.

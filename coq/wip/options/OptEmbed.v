(** The old C11 model (OptModel.v, over Base/Value.v) and the extended one
    (XModel.v, over XValue.v) agree: [emb] maps the shared universe into the
    extended one (half-integer floats to dyadic rationals in lowest terms, all
    other atoms identical), [embF] the option records (truncate_datetime off,
    default_timezone UTC), and the extended model on embedded inputs computes
    the embedding of what the old model computes. *)
From Coq Require Import List ZArith NArith Bool Arith Lia.
Import ListNotations.
From DD Require Import Base.PyStr Base.Value Diff.Tree Diff.DiffModel Options.OptModel Options.OptProofsBase.
From DD Require Options.OptDtModel Options.XValue Options.XModel.

Module X := XValue.
Module M := XModel.

(* ---- the embedding ---- *)
Definition embA (a : atom) : X.atom :=
  match a with
  | ANone => X.ANone
  | ABool b => X.ABool b
  | AInt z => X.AInt z
  | AHalf t => if Z.even t then X.AFloat (t / 2) 0 else X.AFloat t 1
  | AStr s => X.AStr s
  | ABytes s => X.ABytes s
  end.
Fixpoint emb (v : value) : X.value :=
  match v with
  | VAtom a => X.VAtom (embA a)
  | VList xs => X.VList (map emb xs)
  | VTuple xs => X.VTuple (map emb xs)
  | VDict kvs => X.VDict (map (fun kv => (embA (fst kv), emb (snd kv))) kvs)
  | VSet xs => X.VSet (map embA xs)
  | VFrozen xs => X.VFrozen (map embA xs)
  end.
Definition embT (t : ty) : X.ty :=
  match t with
  | TNone => X.TNone | TBool => X.TBool | TInt => X.TInt | TFloat => X.TFloat | TStr => X.TStr | TBytes => X.TBytes
  | TList => X.TList | TTuple => X.TTuple | TDict => X.TDict | TSet => X.TSet | TFrozen => X.TFrozen
  end.
Definition embK (k : pkey) : X.pkey := match k with PKey a => X.PKey (embA a) | PIdx i => X.PIdx i end.
Definition embP (p : path) : X.path := map embK p.
Definition embR (k : rkind) : X.rkind :=
  match k with
  | KType => X.KType | KValue => X.KValue | KDictAdd => X.KDictAdd | KDictRem => X.KDictRem
  | KIterAdd => X.KIterAdd | KIterRem => X.KIterRem | KIterMoved => X.KIterMoved
  | KSetAdd => X.KSetAdd | KSetRem => X.KSetRem | KRepetition => X.KRepetition
  end.
Definition embE (e : entry) : X.entry :=
  X.mkEntry (embR (Tree.ekind e)) (embP (ep1 e)) (embP (ep2 e)) (option_map emb (et1 e)) (option_map emb (et2 e)) (ediff e).
Definition embO (o : opcode) : X.opcode :=
  X.mkOp (match otag o with OEqual => X.OEqual | OReplace => X.OReplace | ODelete => X.ODelete | OInsert => X.OInsert end)
         (oi1 o) (oi2 o) (oj1 o) (oj2 o).
Definition embC (c : cfg) : X.cfg := X.mkCfg (zip c) (thr_num c) (thr_den c) (ignore_private c).
Definition embF (F : opts) : M.opts :=
  M.mkOpts (o_case F) (o_strty F) (o_numty F) (o_sig F) (o_eps F) (map embT (o_excl F)) None 0%Z.
Definition embRes (r : res (list entry * list path)) : M.res (list X.entry * list X.path) :=
  match r with
  | Ok x => M.Ok (map embE (fst x), map embP (snd x))
  | Err _ => M.Err M.EType
  end.

(* ---- types and equalities ---- *)
Lemma embT_eqb : forall a b, X.ty_eqb (embT a) (embT b) = ty_eqb a b.
Proof. intros a b. destruct a, b; reflexivity. Qed.
Lemma embA_ty : forall a, X.atom_ty (embA a) = embT (atom_ty a).
Proof. intros [| | |t| |]; cbn; try reflexivity. destruct (Z.even t); reflexivity. Qed.
Lemma emb_type_of : forall v, X.type_of (emb v) = embT (type_of v).
Proof. intros [a| | | | |]; cbn; try reflexivity. apply embA_ty. Qed.

Lemma half_even : forall t, Z.even t = true -> (2 * (t / 2) = t)%Z.
Proof. intros t H. apply Zeven_bool_iff in H. destruct (Zeven_ex t H) as [k Hk]. subst. rewrite (Z.mul_comm 2 k), Z.div_mul by lia. lia. Qed.

(* the number of a numeric atom: the old model keeps twice the value, the extended one the lowest terms of it *)
Definition canon2 (v : Z) : Z * N := if Z.even v then ((v / 2)%Z, 0%N) else (v, 1%N).

Lemma canon2_same : forall v w, X.dy_same (canon2 v) (canon2 w) = Z.eqb v w.
Proof.
  intros v w. unfold canon2, X.dy_same.
  destruct (Z.even v) eqn:Ev, (Z.even w) eqn:Ew; cbn [fst snd N.eqb andb]; rewrite ?andb_true_r, ?andb_false_r.
  - pose proof (half_even v Ev). pose proof (half_even w Ew).
    destruct (Z.eqb_spec (v / 2) (w / 2)), (Z.eqb_spec v w); try reflexivity; try lia; try (subst; contradiction).
  - destruct (Z.eqb_spec v w); [subst; congruence|reflexivity].
  - destruct (Z.eqb_spec v w); [subst; congruence|reflexivity].
  - reflexivity.
Qed.

Lemma embA_num : forall a, X.num_of (embA a) = option_map canon2 (num2 a).
Proof.
  intros [|b|z|t|s|s]; cbn [embA X.num_of num2 option_map]; try reflexivity.
  - destruct b; reflexivity.
  - unfold canon2. rewrite Z.even_mul. cbn [Z.even orb]. rewrite (Z.mul_comm 2 z), Z.div_mul by lia. reflexivity.
  - unfold canon2. destruct (Z.even t); reflexivity.
Qed.

(* Python equality is preserved (the embedding of floats is in lowest terms) *)
Lemma embA_py_eq : forall a b, X.py_eq (embA a) (embA b) = py_eq a b.
Proof.
  intros a b. unfold X.py_eq, py_eq. rewrite !embA_num.
  destruct (num2 a) as [v|] eqn:Ea, (num2 b) as [w|] eqn:Eb; cbn [option_map]; try reflexivity.
  - apply canon2_same.
  - destruct a as [| | | |s|s], b as [| | | |t|t]; cbn in Ea, Eb; try discriminate; reflexivity.
Qed.

Lemma embA_atom_eqb : forall a b, X.atom_eqb (embA a) (embA b) = atom_eqb a b.
Proof.
  intros a b. destruct a as [|x|x|x|x|x], b as [|y|y|y|y|y]; cbn [embA]; try reflexivity;
    try (destruct (Z.even x); reflexivity); try (destruct (Z.even y); reflexivity).
  pose proof (canon2_same x y) as K. unfold canon2, X.dy_same in K. cbn [atom_eqb].
  destruct (Z.even x), (Z.even y); cbn [X.atom_eqb fst snd] in *; exact K.
Qed.

(** (round-3 extended universe) C11: option COMPOSITION lifted from leaves (YProofsComp.v) to whole values, in the
    POSITIONAL list mode (zip c = true): if the option set G has every option of F ([ole F G]) then every entry of
    the result under G sits at the path of an entry of the result under F ([covers]) - for ALL values, by induction.

    Guards (all explicit):
      [pair_ok F G a b]   on the leaves (YProofsComp: math_epsilon added / beyond 53 bits, truncate_datetime added / zones)
      set members         equal hash texts under F stay equal under G, with the same DeepHash skip decision (fails
                          for the K1 tag collisions: C11-TAG-SET)
      [stable F G c v]    every compared dict has kept keys that are pairwise different and that key cleaning leaves
                          ALONE under both option sets: then both runs see the same key lists, take the same
                          threshold_to_diff_deeper decision and recurse into the same children with the same path
                          element
      both runs return Ok (the statement is about results). *)
From Coq Require Import List ZArith NArith Bool Arith Lia.
Import ListNotations.
From DD Require Import Base.PyStr Options.OptModel Options.OptDtModel Options.YValue Options.YModel
  Options.YProofsBase Options.YProofsAtoms Options.YProofsKeys Options.YProofsSafe
  Options.YProofsMono Options.YProofsCompNum Options.YProofsComp.

(* ---------------------------------------------------------------------- *)
(* generalities                                                             *)
(* ---------------------------------------------------------------------- *)
Lemma bind_ok : forall {A B} (x : res A) (f : A -> res B) r, bind x f = Ok r -> exists a, x = Ok a /\ f a = Ok r.
Proof. intros A B [a|e] f r H; cbn in H; [eauto|discriminate]. Qed.

Lemma covers_at : forall p eF eG, at_path p eF -> at_path p eG -> (eF = [] -> eG = []) -> covers eF eG.
Proof.
  intros p eF eG HF HG Hn e He. destruct eF as [|e' r].
  - rewrite (Hn eq_refl) in He. destruct He.
  - exists e'. split; [left; reflexivity|]. rewrite (HF e' (or_introl eq_refl)). symmetry. apply HG. exact He.
Qed.

Lemma at_path_app : forall p a b, at_path p a -> at_path p b -> at_path p (a ++ b).
Proof. intros p a b Ha Hb e He. apply in_app_iff in He. destruct He; auto. Qed.

(* ---------------------------------------------------------------------- *)
(* mutual_add_removes_to_become_value_changes keeps the set of paths        *)
(* ---------------------------------------------------------------------- *)
Lemma pkey_eqb_eq : forall a b, pkey_eqb a b = true -> a = b.
Proof.
  intros [a|i|s] [b|j|t] H; cbn in H; try discriminate.
  - apply atom_eqb_eq in H. subst. reflexivity.
  - apply Nat.eqb_eq in H. subst. reflexivity.
  - apply pystr_eqb_eq in H. subst. reflexivity.
Qed.
Lemma path_eqb_eq : forall p q, path_eqb p q = true -> p = q.
Proof.
  induction p as [|a p IH]; intros [|b q] H; cbn in H; try discriminate; [reflexivity|].
  apply andb_true_iff in H. destruct H as [H1 H2]. apply pkey_eqb_eq in H1. apply IH in H2. subst. reflexivity.
Qed.

Lemma last_with_path_In : forall p l r, last_with_path p l = Some r -> In r l /\ ep1 r = p.
Proof.
  intros p l r. unfold last_with_path.
  assert (forall acc, fold_left (fun acc e => if path_eqb (ep1 e) p then Some e else acc) l acc = Some r ->
                      (In r l /\ ep1 r = p) \/ acc = Some r) as K.
  { induction l as [|e l IH]; intros acc H; cbn [fold_left] in H; [right; exact H|].
    destruct (IH _ H) as [[K1 K2]|K]; [left; split; [right; exact K1|exact K2]|].
    destruct (path_eqb (ep1 e) p) eqn:E; [|right; exact K].
    injection K as K. subst e. left. split; [left; reflexivity|apply path_eqb_eq; exact E]. }
  intros H. destruct (K None H) as [K1|K1]; [exact K1|discriminate].
Qed.

(* every entry of the rewritten tree sits at the path of an entry of the tree ... *)
Lemma mutual_paths_sub : forall es e, In e (mutual es) -> exists e', In e' es /\ ep1 e' = ep1 e.
Proof.
  intros es e H. unfold mutual in H. apply in_flat_map in H. destruct H as [e0 [H0 H]].
  exists e0. split; [exact H0|].
  destruct (ekind e0);
    try (destruct H as [H|[]]; subst; reflexivity).
  - destruct (last_with_path (ep1 e0) (filter (is_kind KIterRem) es)); [destruct H|destruct H as [H|[]]; subst; reflexivity].
  - destruct (last_with_path (ep1 e0) (filter (is_kind KIterAdd) es));
      [destruct (last_with_path (ep1 e0) (filter (is_kind KIterRem) es))|]; destruct H as [H|[]]; subst; reflexivity.
Qed.

(* ... and conversely (an added item that disappears does so because a removed item at its path becomes the change) *)
Lemma mutual_paths_sup : forall es e', In e' es -> exists e, In e (mutual es) /\ ep1 e = ep1 e'.
Proof.
  intros es e' H.
  assert (forall e0, In e0 es -> ekind e0 <> KIterAdd -> exists e, In e (mutual es) /\ ep1 e = ep1 e0) as Keep.
  { intros e0 H0 Hk. unfold mutual.
    assert (exists e, In e (match ekind e0 with
                            | KIterRem =>
                                match last_with_path (ep1 e0) (filter (is_kind KIterAdd) es) with
                                | Some a =>
                                    match last_with_path (ep1 e0) (filter (is_kind KIterRem) es) with
                                    | Some r => [mkEntry KValue (ep1 e0) (ep2 e0) (et1 e0) (et2 a) (ediff e0)]
                                    | None => [e0]
                                    end
                                | None => [e0]
                                end
                            | KIterAdd =>
                                match last_with_path (ep1 e0) (filter (is_kind KIterRem) es) with
                                | Some _ => []
                                | None => [e0]
                                end
                            | _ => [e0]
                            end) /\ ep1 e = ep1 e0) as [e [K1 K2]].
    { destruct (ekind e0); try (exists e0; split; [left; reflexivity|reflexivity]); [contradiction|].
      destruct (last_with_path (ep1 e0) (filter (is_kind KIterAdd) es));
        [destruct (last_with_path (ep1 e0) (filter (is_kind KIterRem) es))|];
        eexists; (split; [left; reflexivity|reflexivity]). }
    exists e. split; [|exact K2]. apply in_flat_map. exists e0. split; [exact H0|exact K1]. }
  destruct (ekind e') eqn:Ek; try (apply Keep; [exact H|congruence]).
  (* an added item *)
  destruct (last_with_path (ep1 e') (filter (is_kind KIterRem) es)) as [r|] eqn:El.
  - apply last_with_path_In in El. destruct El as [Hr Hp]. apply filter_In in Hr. destruct Hr as [Hr Hk].
    unfold is_kind in Hk. destruct (Keep r Hr) as [e [K1 K2]].
    + intros E. rewrite E in Hk. discriminate.
    + exists e. split; [exact K1|]. rewrite K2. exact Hp.
  - exists e'. split; [|reflexivity]. unfold mutual. apply in_flat_map. exists e'. split; [exact H|].
    rewrite Ek, El. left. reflexivity.
Qed.

Theorem covers_mutual : forall a b, covers a b -> covers (mutual a) (mutual b).
Proof.
  intros a b H e He. destruct (mutual_paths_sub b e He) as [e0 [H0 P0]].
  destruct (H e0 H0) as [e1 [H1 P1]]. destruct (mutual_paths_sup a e1 H1) as [e2 [H2 P2]].
  exists e2. split; [exact H2|]. congruence.
Qed.

(* ---------------------------------------------------------------------- *)
(* first_per_hash keeps the first member of every hash class                *)
(* ---------------------------------------------------------------------- *)
Lemma pystr_eqb_neq : forall s t, s <> t -> pystr_eqb s t = false.
Proof. intros s t H. destruct (pystr_eqb s t) eqn:E; [|reflexivity]. apply pystr_eqb_eq in E. contradiction. Qed.

Lemma fph_split : forall (h : atom -> pystr) l seen y, In y (first_per_hash h l seen) ->
  existsb (pystr_eqb (h y)) seen = false /\
  exists l1 l2, l = (l1 ++ y :: l2)%list /\ (forall z, In z l1 -> h z <> h y).
Proof.
  induction l as [|a r IH]; intros seen y H; cbn [first_per_hash] in H; [destruct H|].
  destruct (existsb (pystr_eqb (h a)) seen) eqn:Ea.
  - destruct (IH seen y H) as [K [l1 [l2 [E Hz]]]]. split; [exact K|].
    exists (a :: l1), l2. split; [rewrite E; reflexivity|].
    intros z [Hz'|Hz']; [subst z; intros E'; rewrite E' in Ea; congruence|apply Hz; exact Hz'].
  - destruct H as [H|H].
    + subst y. split; [exact Ea|]. exists [], r. split; [reflexivity|]. intros z [].
    + destruct (IH (h a :: seen) y H) as [K [l1 [l2 [E Hz]]]]. cbn [existsb] in K. apply orb_false_iff in K. destruct K as [K1 K2].
      split; [exact K2|]. exists (a :: l1), l2. split; [rewrite E; reflexivity|].
      intros z [Hz'|Hz']; [subst z; intros E'; rewrite E', pystr_eqb_refl in K1; discriminate|apply Hz; exact Hz'].
Qed.

Lemma fph_intro : forall (h : atom -> pystr) l1 l2 seen y,
  (forall z, In z l1 -> h z <> h y) -> existsb (pystr_eqb (h y)) seen = false ->
  In y (first_per_hash h (l1 ++ y :: l2) seen).
Proof.
  induction l1 as [|a l1 IH]; intros l2 seen y Hz Hs; cbn [app first_per_hash].
  - rewrite Hs. left. reflexivity.
  - assert (h a <> h y) as Hne by (apply Hz; left; reflexivity).
    assert (forall z, In z l1 -> h z <> h y) as Hz' by (intros z K; apply Hz; right; exact K).
    destruct (existsb (pystr_eqb (h a)) seen); [apply IH; assumption|].
    right. apply IH; [exact Hz'|]. cbn [existsb]. rewrite Hs, orb_false_r. apply pystr_eqb_neq. congruence.
Qed.

Lemma filter_split : forall {A} (f : A -> bool) l l1 y l2, filter f l = (l1 ++ y :: l2)%list ->
  exists a1 a2, l = (a1 ++ y :: a2)%list /\ filter f a1 = l1 /\ f y = true.
Proof.
  intros A f. induction l as [|a r IH]; intros l1 y l2 H; cbn [filter] in H; [destruct l1; discriminate|].
  destruct (f a) eqn:Ea.
  - destruct l1 as [|b l1]; cbn [app] in H; injection H as H1 H2.
    + subst a. exists [], r. repeat split; [exact Ea].
    + subst b. destruct (IH _ _ _ H2) as [a1 [a2 [E [F1 F2]]]].
      exists (a :: a1), a2. split; [rewrite E; reflexivity|]. split; [cbn [filter]; rewrite Ea, F1; reflexivity|exact F2].
  - destruct (IH _ _ _ H) as [a1 [a2 [E [F1 F2]]]].
    exists (a :: a1), a2. split; [rewrite E; reflexivity|]. split; [cbn [filter]; rewrite Ea; exact F1|exact F2].
Qed.

(* ---------------------------------------------------------------------- *)
(* reports, sequences, sets, keys under two option sets                     *)
(* ---------------------------------------------------------------------- *)
Section Struct.
Variable udiff : pystr -> pystr -> pystr.
Variable ops : path -> list value -> list value -> list opcode.
Variable c : cfg.
Variable F G : opts.
Hypothesis HFG : ole F G.

Lemma excl_opt_le : forall o, excl_opt F o = true -> excl_opt G o = true.
Proof. intros [v|] H; [|discriminate]. cbn [excl_opt] in *. apply (le_excl F G HFG). exact H. Qed.

Lemma reportF_mono : forall k k' p1 p2 q1 q2 a b d d', reportF F k p1 p2 a b d = [] -> reportF G k' q1 q2 a b d' = [].
Proof.
  intros k k' p1 p2 q1 q2 a b d d' H. unfold reportF in *.
  destruct (excl_opt F a || excl_opt F b) eqn:E; [|discriminate].
  apply orb_true_iff in E. destruct E as [E|E]; rewrite (excl_opt_le _ E); rewrite ?orb_true_r; reflexivity.
Qed.

Lemma reportF_covers : forall k k' p1 p2 q2 a b d d',
  covers (reportF F k p1 p2 a b d) (reportF G k' p1 q2 a b d').
Proof. intros. apply (covers_at p1); [apply reportF_path|apply reportF_path|apply reportF_mono]. Qed.

Lemma added_covers : forall ys j p1 p2 q2, covers (added_fromF F ys j p1 p2) (added_fromF G ys j p1 q2).
Proof. induction ys as [|y ys IH]; intros; cbn [added_fromF]; [apply covers_nil|]. apply covers_app; [apply reportF_covers|apply IH]. Qed.
Lemma removed_covers : forall xs i p1 p2 q2, covers (removed_fromF F xs i p1 p2) (removed_fromF G xs i p1 q2).
Proof. induction xs as [|x xs IH]; intros; cbn [removed_fromF]; [apply covers_nil|]. apply covers_app; [apply reportF_covers|apply IH]. Qed.

(* ---- a container against an Enum member under use_enum_value ---- *)
Lemma mixedF_path : forall H t1 t2 p1 p2 r, mixedF H t1 t2 p1 p2 = Ok r -> at_path p1 (fst r).
Proof.
  intros H t1 t2 p1 p2 r E.
  assert (forall k a b d, at_path p1 (fst (reportF H k p1 p2 a b d, @nil path))) as R by (intros; apply reportF_path).
  destruct t1 as [a|xs|xs|kvs|xs|xs], t2 as [b|ys|ys|kvs2|ys|ys]; cbn [mixedF] in E;
    try (injection E as E; subst r; apply at_path_nil);
    try (destruct (is_none (unwrap H b)); [injection E as E; subst r; apply R|discriminate]).
  all: destruct (unwrap H a); try (injection E as E; subst r; apply R);
    try (destruct (o_case H); [discriminate|]; destruct (_ && _); [discriminate|]; injection E as E; subst r; apply R);
    try (destruct (o_eps H); [discriminate|]; injection E as E; subst r; apply R).
Qed.

Lemma unwrap_le : forall a, o_enum F = true -> unwrap F a = unwrap G a.
Proof. intros a H. destruct a; try reflexivity. cbn [unwrap]. rewrite H, (le_enum F G HFG H). reflexivity. Qed.

Lemma mixedF_mono : forall t1 t2 p1 p2 q2 rF rG, o_enum F = true ->
  mixedF F t1 t2 p1 p2 = Ok rF -> mixedF G t1 t2 p1 q2 = Ok rG -> fst rF = [] -> fst rG = [].
Proof.
  intros t1 t2 p1 p2 q2 rF rG He EF EG Hn.
  destruct t1 as [a|xs|xs|kvs|xs|xs], t2 as [b|ys|ys|kvs2|ys|ys]; cbn [mixedF] in EF, EG;
    try (injection EG as EG; subst rG; reflexivity);
    try (rewrite <- (unwrap_le b He) in EG; destruct (is_none (unwrap F b)); [|discriminate];
         injection EF as EF; injection EG as EG; subst rF rG; cbn [fst] in *; eapply reportF_mono; exact Hn).
  all: rewrite <- (unwrap_le a He) in EG; destruct (unwrap F a);
    try (injection EF as EF; injection EG as EG; subst rF rG; cbn [fst] in *; eapply reportF_mono; exact Hn);
    try (destruct (o_case F); [discriminate|]; destruct (o_case G); [discriminate|]; destruct (_ && _); [discriminate|];
         injection EF as EF; injection EG as EG; subst rF rG; cbn [fst] in *; eapply reportF_mono; exact Hn);
    try (destruct (o_eps F); [discriminate|]; destruct (o_eps G); [discriminate|];
         injection EF as EF; injection EG as EG; subst rF rG; cbn [fst] in *; eapply reportF_mono; exact Hn).
Qed.

(* two values of different types that are not both atoms: the head of _diff *)
Lemma diffF_mismatch : forall H t1 t2 p1 p2,
  is_atom t1 && is_atom t2 = false -> ty_eqb (type_of t1) (type_of t2) = false ->
  diffF udiff ops c H t1 t2 p1 p2 =
  if excluded H (type_of t1) || excluded H (type_of t2) then Ok ([], [])
  else if negb (o_enum H && (is_enum_v t1 || is_enum_v t2)) then Ok (reportF H KType p1 p2 (Some t1) (Some t2) None, [])
  else mixedF H t1 t2 p1 p2.
Proof.
  intros H t1 t2 p1 p2 Hna Hty.
  destruct t1 as [a|xs|xs|kvs|xs|xs], t2 as [b|ys|ys|kvs2|ys|ys]; try discriminate Hna; try discriminate Hty;
    cbn [diffF]; rewrite Hty; reflexivity.
Qed.

Lemma mismatch_covers : forall t1 t2 p1 p2 q2 rF rG,
  is_atom t1 && is_atom t2 = false -> ty_eqb (type_of t1) (type_of t2) = false ->
  diffF udiff ops c F t1 t2 p1 p2 = Ok rF -> diffF udiff ops c G t1 t2 p1 q2 = Ok rG -> covers (fst rF) (fst rG).
Proof.
  intros t1 t2 p1 p2 q2 rF rG Hna Hty EF EG.
  rewrite (diffF_mismatch F t1 t2 p1 p2 Hna Hty) in EF. rewrite (diffF_mismatch G t1 t2 p1 q2 Hna Hty) in EG.
  destruct (excluded F (type_of t1) || excluded F (type_of t2)) eqn:ExF.
  { rewrite (excl_le2 F G HFG _ _ ExF) in EG. injection EG as EG. subst rG. apply covers_nil. }
  destruct (excluded G (type_of t1) || excluded G (type_of t2)) eqn:ExG; [injection EG as EG; subst rG; apply covers_nil|].
  assert (at_path p1 (fst rG)) as PG.
  { destruct (negb (o_enum G && (is_enum_v t1 || is_enum_v t2))); [injection EG as EG; subst rG; apply reportF_path|].
    eapply mixedF_path; exact EG. }
  destruct (o_enum F && (is_enum_v t1 || is_enum_v t2)) eqn:EeF; cbn [negb] in EF.
  - (* both runs compare the container with the value of the member *)
    apply andb_true_iff in EeF. destruct EeF as [Ee Ev]. rewrite (le_enum F G HFG Ee), Ev in EG. cbn [andb negb] in EG.
    apply (covers_at p1); [eapply mixedF_path; exact EF|exact PG|]. eapply mixedF_mono; eassumption.
  - (* F reports the type change *)
    injection EF as EF. subst rF. cbn [fst]. apply (covers_at p1); [apply reportF_path|exact PG|].
    intros K. exfalso. unfold reportF in K. cbn [excl_opt] in K. rewrite ExF in K. discriminate.
Qed.

(* ---- sets ---- *)
Variable SU : atom -> Prop.
(* equal hash texts under F stay equal under G, and DeepHash skips both members or neither (C11-TAG-SET otherwise) *)
Hypothesis sets_stable : forall x y, SU x -> SU y -> hatomF F x = hatomF F y ->
  hatomF G x = hatomF G y /\ excl_hash G x = excl_hash G y.

(* a member that G hashes and reports is hashed under F *)
Lemma excl_hash_back : forall y, excl_hash G y = false -> excluded G (atom_ty y) = false -> excl_hash F y = false.
Proof.
  intros y H1 H2.
  assert (forall t, excluded G t = false -> excluded F t = false) as Back.
  { intros t K. destruct (excluded F t) eqn:E; [|reflexivity]. apply (le_excl F G HFG) in E. congruence. }
  destruct y; cbn [excl_hash] in *; try reflexivity; try (apply Back; assumption).
  destruct (o_enum F) eqn:Ee; [|apply Back; exact H2].
  rewrite (le_enum F G HFG Ee) in H1. apply Back. exact H1.
Qed.

Lemma set_side_mono : forall (k : rkind) xs ys p1 p2 q1 q2, Forall SU xs -> Forall SU ys ->
  flat_map (fun y => if existsb (pystr_eqb (hatomF F y)) (map (hatomF F) (filter (fun a => negb (excl_hash F a)) xs)) then []
                     else report_setF F k y p1 p2)
           (first_per_hash (hatomF F) (filter (fun a => negb (excl_hash F a)) ys) []) = [] ->
  flat_map (fun y => if existsb (pystr_eqb (hatomF G y)) (map (hatomF G) (filter (fun a => negb (excl_hash G a)) xs)) then []
                     else report_setF G k y q1 q2)
           (first_per_hash (hatomF G) (filter (fun a => negb (excl_hash G a)) ys) []) = [].
Proof.
  intros k xs ys p1 p2 q1 q2 Sx Sy HF'. rewrite Forall_forall in Sx, Sy.
  apply flat_map_nil. intros y Hy.
  destruct (existsb (pystr_eqb (hatomF G y)) _) eqn:EG; [reflexivity|].
  unfold report_setF. destruct (excluded G (atom_ty y)) eqn:ExG; [reflexivity|]. exfalso.
  destruct (fph_split _ _ _ _ Hy) as [_ [l1 [l2 [El Hl1]]]].
  destruct (filter_split _ _ _ _ _ El) as [a1 [a2 [Eys [Fa1 Gy]]]]. apply negb_true_iff in Gy.
  assert (In y ys) as Iy by (rewrite Eys; apply in_app_iff; right; left; reflexivity).
  pose proof (excl_hash_back y Gy ExG) as Fy.
  (* y is the first member of its F-hash class among the members hashed under F *)
  assert (In y (first_per_hash (hatomF F) (filter (fun a => negb (excl_hash F a)) ys) [])) as HyF.
  { rewrite Eys, filter_app. cbn [filter]. rewrite Fy. cbn [negb].
    apply fph_intro; [|reflexivity].
    intros z Hz Ez. apply filter_In in Hz. destruct Hz as [Hz _].
    assert (In z ys) as Iz by (rewrite Eys; apply in_app_iff; left; exact Hz).
    destruct (sets_stable z y (Sy z Iz) (Sy y Iy) Ez) as [K1 K2].
    apply (Hl1 z); [|exact K1]. rewrite <- Fa1. apply filter_In. split; [exact Hz|]. rewrite K2, Gy. reflexivity. }
  pose proof (flat_map_nil_inv _ _ HF' y HyF) as Hb. cbn beta in Hb.
  destruct (existsb (pystr_eqb (hatomF F y)) (map (hatomF F) (filter (fun a => negb (excl_hash F a)) xs))) eqn:EF.
  - apply existsb_exists in EF. destruct EF as [hx [Hin He]]. apply in_map_iff in Hin. destruct Hin as [x [Ex Hx]].
    subst hx. apply pystr_eqb_eq in He. apply filter_In in Hx. destruct Hx as [Hx _].
    destruct (sets_stable x y (Sx x Hx) (Sy y Iy) (eq_sym He)) as [K1 K2].
    assert (existsb (pystr_eqb (hatomF G y)) (map (hatomF G) (filter (fun a => negb (excl_hash G a)) xs)) = true) as K.
    { apply existsb_exists. exists (hatomF G x). split; [|rewrite K1; apply pystr_eqb_refl].
      apply in_map. apply filter_In. split; [exact Hx|]. rewrite K2, Gy. reflexivity. }
    congruence.
  - unfold report_setF in Hb. destruct (excluded F (atom_ty y)) eqn:ExF; [|discriminate].
    apply (le_excl F G HFG) in ExF. congruence.
Qed.

Lemma diff_setF_mono : forall xs ys p1 p2 q1 q2, Forall SU xs -> Forall SU ys ->
  diff_setF F xs ys p1 p2 = [] -> diff_setF G xs ys q1 q2 = [].
Proof.
  intros xs ys p1 p2 q1 q2 Sx Sy H. unfold diff_setF in *. apply app_eq_nil in H. destruct H as [H1 H2].
  rewrite (set_side_mono KSetAdd xs ys p1 p2 q1 q2 Sx Sy H1), (set_side_mono KSetRem ys xs p1 p2 q1 q2 Sy Sx H2). reflexivity.
Qed.

Lemma diff_setF_path : forall H xs ys p1 p2, at_path p1 (diff_setF H xs ys p1 p2).
Proof.
  intros H xs ys p1 p2. unfold diff_setF.
  assert (forall k (l : list atom) hs, at_path p1 (flat_map (fun y => if existsb (pystr_eqb (hatomF H y)) hs then [] else report_setF H k y p1 p2) l)) as K.
  { intros k l hs e He. apply in_flat_map in He. destruct He as [y [_ He]].
    destruct (existsb _ hs); [destruct He|]. unfold report_setF in He. destruct (excluded H (atom_ty y)); [destruct He|].
    destruct He as [He|[]]. subst e. reflexivity. }
  apply at_path_app; apply K.
Qed.

Lemma diff_setF_covers : forall xs ys p1 p2 q2, Forall SU xs -> Forall SU ys ->
  covers (diff_setF F xs ys p1 p2) (diff_setF G xs ys p1 q2).
Proof. intros. apply (covers_at p1); [apply diff_setF_path|apply diff_setF_path|apply diff_setF_mono; assumption]. Qed.

(* ---- dict keys that key cleaning leaves alone ---- *)
Definition key_alone (H : opts) (k : atom) : bool :=
  negb (cleaning H) || match clean_key H k with Ok ck => atom_eqb ck k | Err _ => false end.

Lemma key_alone_ckey : forall H k, key_alone H k = true -> ckey H k = k.
Proof.
  intros H k E. unfold key_alone in E. unfold ckey. destruct (cleaning H); [|reflexivity]. cbn [negb orb] in E.
  destruct (clean_key H k); [apply atom_eqb_eq; exact E|discriminate].
Qed.
Lemma key_alone_ok : forall H k, key_alone H k = true -> key_ok H k = true.
Proof.
  intros H k E. unfold key_alone in E. unfold key_ok. destruct (cleaning H); [|reflexivity]. cbn [negb orb] in *.
  destruct (key_cleanable H k) eqn:Ek; [reflexivity|]. destruct (clean_key_err H k Ek) as [e Ee]. rewrite Ee in E. discriminate.
Qed.

(* the accessors of the dict comparison on a key list left alone: as without key cleaning *)
Lemma kmap_alone : forall H ks, nodup_atoms ks = true -> forallb (key_alone H) ks = true ->
  exists km, kmap H ks = Ok km /\ ckeys H ks km = ks /\
             (forall k, In k ks -> orig_key H km k = k) /\ (forall k, In k ks -> repr_ckey H km k = Some k).
Proof.
  intros H ks Hn Ha. rewrite forallb_forall in Ha.
  assert (map (ckey H) ks = ks) as Em.
  { rewrite (map_ext_in (ckey H) (fun k => k)); [apply map_id|]. intros k Hk. apply key_alone_ckey. apply Ha. exact Hk. }
  assert (keys_good H ks = true) as Hg.
  { unfold keys_good. rewrite Hn, Em, Hn, andb_true_r. cbn [andb]. apply forallb_forall. intros k Hk. apply key_alone_ok. apply Ha. exact Hk. }
  destruct (kmap_spec H ks Hg) as [km [E1 [E2 [E3 E4]]]]. exists km. rewrite Em in E2.
  split; [exact E1|]. split; [exact E2|]. split; intros k Hk.
  - rewrite <- (key_alone_ckey H k (Ha k Hk)) at 1. apply E3. exact Hk.
  - rewrite (E4 k Hk), (key_alone_ckey H k (Ha k Hk)). reflexivity.
Qed.

Lemma key_reports_covers : forall kind cks other kmF kmG kvs p1 p2 q2,
  (forall k, In k cks -> orig_key F kmF k = k) -> (forall k, In k cks -> orig_key G kmG k = k) ->
  covers (key_reports F kind cks other kmF kvs p1 p2) (key_reports G kind cks other kmG kvs p1 q2).
Proof.
  induction cks as [|ck r IH]; intros other kmF kmG kvs p1 p2 q2 HF' HG'; cbn [key_reports]; [apply covers_nil|].
  assert (covers (key_reports F kind r other kmF kvs p1 p2) (key_reports G kind r other kmG kvs p1 q2)) as Kr
    by (apply IH; intros k Hk; [apply HF'|apply HG']; right; exact Hk).
  destruct (mem_atom ck other); [exact Kr|].
  rewrite (HF' ck (or_introl eq_refl)), (HG' ck (or_introl eq_refl)).
  apply covers_app; [|exact Kr]. destruct kind; apply reportF_covers.
Qed.

(* ---------------------------------------------------------------------- *)
(* the guard on dicts and the theorem                                       *)
(* ---------------------------------------------------------------------- *)
Fixpoint stable (v : value) : bool :=
  match v with
  | VAtom _ | VSet _ | VFrozen _ => true
  | VList xs | VTuple xs => forallb stable xs
  | VDict kvs =>
      nodup_atoms (keys_of c kvs)
      && forallb (fun k => key_alone F k && key_alone G k) (keys_of c kvs)
      && forallb (fun kv => negb (keep_key c (fst kv)) || stable (snd kv)) kvs
  end.

Lemma stable_dict : forall kvs, stable (VDict kvs) = true ->
  nodup_atoms (keys_of c kvs) = true /\ forallb (key_alone F) (keys_of c kvs) = true /\ forallb (key_alone G) (keys_of c kvs) = true /\
  (forall k v, In (k, v) kvs -> keep_key c k = true -> stable v = true).
Proof.
  intros kvs H. cbn [stable] in H. apply andb_true_iff in H. destruct H as [H H3]. apply andb_true_iff in H. destruct H as [H1 H2].
  rewrite forallb_forall in H2, H3. repeat split; try exact H1.
  - apply forallb_forall. intros k Hk. specialize (H2 k Hk). apply andb_true_iff in H2. tauto.
  - apply forallb_forall. intros k Hk. specialize (H2 k Hk). apply andb_true_iff in H2. tauto.
  - intros k v Hin Hk. specialize (H3 _ Hin). cbn [fst snd] in H3. rewrite Hk in H3. exact H3.
Qed.

Variable KU LU : atom -> Prop.
Hypothesis zip_on : zip c = true.
Hypothesis leaves_ok : forall a b, LU a -> LU b -> pair_ok F G a b.
Notation ain := (atoms_in KU SU LU).

Theorem comp_diff : forall t1 t2 p1 p2 q2 rF rG,
  stable t1 = true -> stable t2 = true -> ain t1 -> ain t2 ->
  diffF udiff ops c F t1 t2 p1 p2 = Ok rF -> diffF udiff ops c G t1 t2 p1 q2 = Ok rG ->
  covers (fst rF) (fst rG).
Proof.
  induction t1 as [a|xs IH|xs IH|kvs IH|xs|xs] using value_ind'; intros t2 p1 p2 q2 rF rG S1 S2 U1 U2 EF EG.
  - (* atom *)
    destruct t2 as [b|ys|ys|kvs2|ys|ys];
      try (eapply mismatch_covers; [| |exact EF|exact EG]; [reflexivity|destruct a; reflexivity]).
    cbn [diffF] in EF, EG. cbn [atoms_in] in U1, U2.
    destruct (bind_ok _ _ _ EF) as [eF [LF KF]]. destruct (bind_ok _ _ _ EG) as [eG [LG KG]].
    injection KF as KF. injection KG as KG. subst rF rG. cbn [fst].
    exact (leafR_covers udiff F G HFG a b p1 p2 q2 eF eG (leaves_ok a b U1 U2) LF LG).
  - (* list *)
    destruct (ty_eqb (type_of (VList xs)) (type_of t2)) eqn:Ety; [|eapply mismatch_covers; [| |exact EF|exact EG]; [reflexivity|exact Ety]].
    destruct t2 as [b|ys|ys|kvs2|ys|ys]; try discriminate Ety; [destruct b; discriminate Ety|].
    cbn [diffF] in EF, EG. cbn [type_of ty_eqb negb andb] in EF, EG. rewrite zip_on in EF, EG. cbn [negb andb] in EF, EG.
    destruct (excluded F TList || excluded F TList) eqn:ExF.
    { rewrite (excl_le2 F G HFG _ _ ExF) in EG. injection EG as EG. subst rG. apply covers_nil. }
    destruct (excluded G TList || excluded G TList); [injection EG as EG; subst rG; apply covers_nil|].
    cbn [stable] in S1, S2. cbn [atoms_in] in U1, U2. apply atoms_in_list in U1. apply atoms_in_list in U2.
    clear ExF Ety. revert EF EG. generalize 0 as i. revert ys S2 U2 rF rG.
    induction xs as [|x xs IHxs]; intros ys S2 U2 rF rG i EF EG.
    + injection EF as EF. injection EG as EG. subst rF rG. cbn [fst]. apply added_covers.
    + destruct ys as [|y ys]; [injection EF as EF; injection EG as EG; subst rF rG; cbn [fst]; apply (removed_covers (x :: xs))|].
      destruct (bind_ok _ _ _ EF) as [r1F [E1F KF]]. destruct (bind_ok _ _ _ KF) as [r2F [E2F KF']]. injection KF' as KF'. subst rF.
      destruct (bind_ok _ _ _ EG) as [r1G [E1G KG]]. destruct (bind_ok _ _ _ KG) as [r2G [E2G KG']]. injection KG' as KG'. subst rG.
      inversion IH as [|? ? IHx IHr]; subst.
      cbn [forallb] in S1, S2. apply andb_true_iff in S1. destruct S1 as [S1a S1b]. apply andb_true_iff in S2. destruct S2 as [S2a S2b].
      inversion U1 as [|? ? U1a U1b]; inversion U2 as [|? ? U2a U2b]; subst.
      unfold app2. cbn [fst]. apply covers_app.
      * exact (IHx y _ _ _ _ _ S1a S2a U1a U2a E1F E1G).
      * exact (IHxs IHr S1b U1b ys S2b U2b _ _ (S i) E2F E2G).
  - (* tuple *)
    destruct (ty_eqb (type_of (VTuple xs)) (type_of t2)) eqn:Ety; [|eapply mismatch_covers; [| |exact EF|exact EG]; [reflexivity|exact Ety]].
    destruct t2 as [b|ys|ys|kvs2|ys|ys]; try discriminate Ety; [destruct b; discriminate Ety|].
    cbn [diffF] in EF, EG. cbn [type_of ty_eqb negb andb] in EF, EG. rewrite zip_on in EF, EG. cbn [negb andb] in EF, EG.
    destruct (excluded F TTuple || excluded F TTuple) eqn:ExF.
    { rewrite (excl_le2 F G HFG _ _ ExF) in EG. injection EG as EG. subst rG. apply covers_nil. }
    destruct (excluded G TTuple || excluded G TTuple); [injection EG as EG; subst rG; apply covers_nil|].
    cbn [stable] in S1, S2. cbn [atoms_in] in U1, U2. apply atoms_in_list in U1. apply atoms_in_list in U2.
    clear ExF Ety. revert EF EG. generalize 0 as i. revert ys S2 U2 rF rG.
    induction xs as [|x xs IHxs]; intros ys S2 U2 rF rG i EF EG.
    + injection EF as EF. injection EG as EG. subst rF rG. cbn [fst]. apply added_covers.
    + destruct ys as [|y ys]; [injection EF as EF; injection EG as EG; subst rF rG; cbn [fst]; apply (removed_covers (x :: xs))|].
      destruct (bind_ok _ _ _ EF) as [r1F [E1F KF]]. destruct (bind_ok _ _ _ KF) as [r2F [E2F KF']]. injection KF' as KF'. subst rF.
      destruct (bind_ok _ _ _ EG) as [r1G [E1G KG]]. destruct (bind_ok _ _ _ KG) as [r2G [E2G KG']]. injection KG' as KG'. subst rG.
      inversion IH as [|? ? IHx IHr]; subst.
      cbn [forallb] in S1, S2. apply andb_true_iff in S1. destruct S1 as [S1a S1b]. apply andb_true_iff in S2. destruct S2 as [S2a S2b].
      inversion U1 as [|? ? U1a U1b]; inversion U2 as [|? ? U2a U2b]; subst.
      unfold app2. cbn [fst]. apply covers_app.
      * exact (IHx y _ _ _ _ _ S1a S2a U1a U2a E1F E1G).
      * exact (IHxs IHr S1b U1b ys S2b U2b _ _ (S i) E2F E2G).
  - (* dict *)
    destruct (ty_eqb (type_of (VDict kvs)) (type_of t2)) eqn:Ety; [|eapply mismatch_covers; [| |exact EF|exact EG]; [reflexivity|exact Ety]].
    destruct t2 as [b|ys|ys|kvs2|ys|ys]; try discriminate Ety; [destruct b; discriminate Ety|].
    cbn [diffF] in EF, EG. cbn [type_of ty_eqb negb andb] in EF, EG.
    destruct (excluded F TDict || excluded F TDict) eqn:ExF.
    { rewrite (excl_le2 F G HFG _ _ ExF) in EG. injection EG as EG. subst rG. apply covers_nil. }
    destruct (excluded G TDict || excluded G TDict); [injection EG as EG; subst rG; apply covers_nil|].
    destruct (stable_dict kvs S1) as [N1 [A1F [A1G V1]]]. destruct (stable_dict kvs2 S2) as [N2 [A2F [A2G V2]]].
    set (ks1 := keys_of c kvs) in *. set (ks2 := keys_of c kvs2) in *.
    destruct (kmap_alone F ks1 N1 A1F) as [km1F [M1F [C1F [O1F R1F]]]]. destruct (kmap_alone F ks2 N2 A2F) as [km2F [M2F [C2F [O2F R2F]]]].
    destruct (kmap_alone G ks1 N1 A1G) as [km1G [M1G [C1G [O1G R1G]]]]. destruct (kmap_alone G ks2 N2 A2G) as [km2G [M2G [C2G [O2G R2G]]]].
    rewrite M1F, M2F in EF. rewrite M1G, M2G in EG. cbn [bind] in EF, EG. rewrite C1F, C2F in EF. rewrite C1G, C2G in EG.
    destruct (shortcutF c ks1 ks2).
    { injection EF as EF. injection EG as EG. subst rF rG. cbn [fst]. apply reportF_covers. }
    destruct (bind_ok _ _ _ EF) as [cF [GF KF]]. injection KF as KF. subst rF.
    destruct (bind_ok _ _ _ EG) as [cG [GG KG]]. injection KG as KG. subst rG. cbn [fst].
    apply covers_app; [apply key_reports_covers; assumption|]. apply covers_app; [apply key_reports_covers; assumption|].
    (* the common keys *)
    clear EF EG ExF Ety S1. revert cF cG GF GG.
    match type of IH with Forall ?P _ =>
    match goal with |- forall cF cG, ?gF kvs = Ok cF -> ?gG kvs = Ok cG -> _ =>
      assert (forall l, (forall k v, In (k, v) l -> In (k, v) kvs) -> Forall P l ->
              forall cF cG, gF l = Ok cF -> gG l = Ok cG -> covers (fst cF) (fst cG)) as Hgo end end.
    { clear IH. induction l as [|[k v1] r IHr]; intros Hsub IH cF cG GF GG.
      + injection GF as GF. injection GG as GG. subst cF cG. apply covers_nil.
      + destruct (bind_ok _ _ _ GF) as [xF [HF' KF]]. destruct (bind_ok _ _ _ KF) as [restF [RF KF']]. injection KF' as KF'. subst cF.
        destruct (bind_ok _ _ _ GG) as [xG [HG' KG]]. destruct (bind_ok _ _ _ KG) as [restG [RG KG']]. injection KG' as KG'. subst cG.
        inversion IH as [|? ? Hx Hxs]; subst. cbn [snd] in Hx.
        unfold app2. cbn [fst]. apply covers_app; [|exact (IHr (fun k' v' K => Hsub k' v' (or_intror K)) Hxs restF restG RF RG)].
        destruct (keep_key c k) eqn:Hkeep; [|injection HG' as HG'; subst xG; apply covers_nil].
        pose proof (Hsub k v1 (or_introl eq_refl)) as Hin.
        assert (In k ks1) as Hk by (apply keys_of_In_intro; [change k with (fst (k, v1)); apply in_map; exact Hin|exact Hkeep]).
        rewrite (R1F k Hk) in HF'. rewrite (R1G k Hk) in HG'.
        destruct (find (py_eq k) ks2) as [ck'|] eqn:Ef; [|injection HG' as HG'; subst xG; apply covers_nil].
        apply find_some in Ef. destruct Ef as [Hk' _].
        rewrite (O2F ck' Hk') in HF'. rewrite (O2G ck' Hk') in HG'.
        destruct (assoc ck' kvs2) as [v2|] eqn:Ea; [|injection HG' as HG'; subst xG; apply covers_nil].
        apply assoc_In in Ea. destruct Ea as [k2 [Hin2 Hpe]].
        assert (keep_key c k2 = true) as Hkeep2.
        { rewrite (keep_key_eqv c k2 ck' Hpe). apply keys_of_In in Hk'. tauto. }
        exact (Hx v2 _ _ _ _ _ (V1 k v1 Hin Hkeep) (V2 k2 v2 Hin2 Hkeep2)
                 (proj2 (atoms_in_dict KU SU LU kvs k v1 U1 Hin)) (proj2 (atoms_in_dict KU SU LU kvs2 k2 v2 U2 Hin2)) HF' HG'). }
    intros cF cG GF GG. exact (Hgo kvs (fun _ _ K => K) IH cF cG GF GG).
  - (* set *)
    destruct (ty_eqb (type_of (VSet xs)) (type_of t2)) eqn:Ety; [|eapply mismatch_covers; [| |exact EF|exact EG]; [reflexivity|exact Ety]].
    destruct t2 as [b|ys|ys|kvs2|ys|ys]; try discriminate Ety; [destruct b; discriminate Ety|].
    cbn [diffF] in EF, EG. cbn [type_of ty_eqb negb andb] in EF, EG.
    destruct (excluded F TSet || excluded F TSet) eqn:ExF.
    { rewrite (excl_le2 F G HFG _ _ ExF) in EG. injection EG as EG. subst rG. apply covers_nil. }
    destruct (excluded G TSet || excluded G TSet); [injection EG as EG; subst rG; apply covers_nil|].
    destruct (set_err F xs ys); [discriminate|]. destruct (set_err G xs ys); [discriminate|].
    injection EF as EF. injection EG as EG. subst rF rG. cbn [fst]. cbn [atoms_in] in U1, U2. apply diff_setF_covers; assumption.
  - (* frozenset *)
    destruct (ty_eqb (type_of (VFrozen xs)) (type_of t2)) eqn:Ety; [|eapply mismatch_covers; [| |exact EF|exact EG]; [reflexivity|exact Ety]].
    destruct t2 as [b|ys|ys|kvs2|ys|ys]; try discriminate Ety; [destruct b; discriminate Ety|].
    cbn [diffF] in EF, EG. cbn [type_of ty_eqb negb andb] in EF, EG.
    destruct (excluded F TFrozen || excluded F TFrozen) eqn:ExF.
    { rewrite (excl_le2 F G HFG _ _ ExF) in EG. injection EG as EG. subst rG. apply covers_nil. }
    destruct (excluded G TFrozen || excluded G TFrozen); [injection EG as EG; subst rG; apply covers_nil|].
    destruct (set_err F xs ys); [discriminate|]. destruct (set_err G xs ys); [discriminate|].
    injection EF as EF. injection EG as EG. subst rF rG. cbn [fst]. cbn [atoms_in] in U1, U2. apply diff_setF_covers; assumption.
Qed.

(* the whole run *)
Theorem comp_run : forall t1 t2 rF rG,
  stable t1 = true -> stable t2 = true -> ain t1 -> ain t2 ->
  run_optF udiff ops c F t1 t2 = Ok rF -> run_optF udiff ops c G t1 t2 = Ok rG ->
  covers (fst rF) (fst rG).
Proof.
  intros t1 t2 rF rG S1 S2 U1 U2 EF EG. unfold run_optF in *.
  destruct (bind_ok _ _ _ EF) as [dF [DF KF]]. injection KF as KF. subst rF.
  destruct (bind_ok _ _ _ EG) as [dG [DG KG]]. injection KG as KG. subst rG. cbn [fst].
  apply covers_mutual. exact (comp_diff t1 t2 [] [] [] dF dG S1 S2 U1 U2 DF DG).
Qed.

End Struct.

(* ---------------------------------------------------------------------- *)
(* user-facing form: result(A and B) embeds into result(A) and into result(B) *)
(* ---------------------------------------------------------------------- *)
Section And.
Variable udiff : pystr -> pystr -> pystr.
Variable ops : path -> list value -> list value -> list opcode.
Variable c : cfg.
Variable A B AB : opts.
Variable KU SU LU : atom -> Prop.
Hypothesis zip_on : zip c = true.

Theorem comp_and_left :
  ole A AB ->
  (forall x y, SU x -> SU y -> hatomF A x = hatomF A y -> hatomF AB x = hatomF AB y /\ excl_hash AB x = excl_hash AB y) ->
  (forall a b, LU a -> LU b -> pair_ok A AB a b) ->
  forall t1 t2 rA rAB,
  stable c A AB t1 = true -> stable c A AB t2 = true -> atoms_in KU SU LU t1 -> atoms_in KU SU LU t2 ->
  run_optF udiff ops c A t1 t2 = Ok rA -> run_optF udiff ops c AB t1 t2 = Ok rAB ->
  covers (fst rA) (fst rAB).
Proof. intros HA HS HL t1 t2 rA rAB. exact (comp_run udiff ops c A AB HA SU HS KU LU zip_on HL t1 t2 rA rAB). Qed.

Theorem comp_and_right :
  ole B AB ->
  (forall x y, SU x -> SU y -> hatomF B x = hatomF B y -> hatomF AB x = hatomF AB y /\ excl_hash AB x = excl_hash AB y) ->
  (forall a b, LU a -> LU b -> pair_ok B AB a b) ->
  forall t1 t2 rB rAB,
  stable c B AB t1 = true -> stable c B AB t2 = true -> atoms_in KU SU LU t1 -> atoms_in KU SU LU t2 ->
  run_optF udiff ops c B t1 t2 = Ok rB -> run_optF udiff ops c AB t1 t2 = Ok rAB ->
  covers (fst rB) (fst rAB).
Proof. intros HB HS HL t1 t2 rB rAB. exact (comp_run udiff ops c B AB HB SU HS KU LU zip_on HL t1 t2 rB rAB). Qed.

Theorem comp_and :
  ole A AB -> ole B AB ->
  (forall H, H = A \/ H = B -> forall x y, SU x -> SU y -> hatomF H x = hatomF H y -> hatomF AB x = hatomF AB y /\ excl_hash AB x = excl_hash AB y) ->
  (forall H, H = A \/ H = B -> forall a b, LU a -> LU b -> pair_ok H AB a b) ->
  forall t1 t2 rA rB rAB,
  stable c A AB t1 = true -> stable c A AB t2 = true -> stable c B AB t1 = true -> stable c B AB t2 = true ->
  atoms_in KU SU LU t1 -> atoms_in KU SU LU t2 ->
  run_optF udiff ops c A t1 t2 = Ok rA -> run_optF udiff ops c B t1 t2 = Ok rB -> run_optF udiff ops c AB t1 t2 = Ok rAB ->
  covers (fst rA) (fst rAB) /\ covers (fst rB) (fst rAB).
Proof.
  intros HA HB HS HL t1 t2 rA rB rAB SA1 SA2 SB1 SB2 U1 U2 EA EB EAB. split.
  - exact (comp_and_left HA (HS A (or_introl eq_refl)) (HL A (or_introl eq_refl)) t1 t2 rA rAB SA1 SA2 U1 U2 EA EAB).
  - exact (comp_and_right HB (HS B (or_intror eq_refl)) (HL B (or_intror eq_refl)) t1 t2 rB rAB SB1 SB2 U1 U2 EB EAB).
Qed.
End And.

(* ---------------------------------------------------------------------- *)
(* non-vacuity                                                              *)
(* ---------------------------------------------------------------------- *)
From Coq Require Import String.
Local Open Scope string_scope.
Local Open Scope Z_scope.
Definition cs_ud (_ _ : pystr) : pystr := [].
Definition cs_ops (_ : path) (_ _ : list value) : list opcode := [].
Definition cs_zip : cfg := mkCfg true 33 100 true.
Definition cs_S (s : string) : atom := AStr (s2p s).
(* A = ignore_string_case + ignore_nan_inequality; B = ignore_string_case + significant_digits=2; AB = both *)
Definition cs_A := mkOpts true false false None None [] None 0 true false false.
Definition cs_B := mkOpts true false false (Some 2%N) None [] None 0 false false false.
Definition cs_AB := mkOpts true false false (Some 2%N) None [] None 0 true false false.

Lemma cs_ole_A : ole cs_A cs_AB.
Proof. constructor; try (intros; assumption); try discriminate; try (left; reflexivity); try (right; reflexivity); split; reflexivity. Qed.
Lemma cs_ole_B : ole cs_B cs_AB.
Proof. constructor; try (intros; assumption); try discriminate; try (left; reflexivity); try (right; reflexivity); split; reflexivity. Qed.

(* str keys (lower case: key cleaning under ignore_string_case leaves them alone), a private key, lists, a set, nan and
   Decimal leaves *)
Definition cs_t1 : value :=
  VDict [(cs_S "a", VList [VAtom (ANan 1); VAtom (ADec 150 (-2)); VAtom (AFloat 3 1); VAtom (cs_S "Xy")]);
         (cs_S "s", VSet [AInt 1; cs_S "m"]); (cs_S "n", VAtom (ANan 1)); (cs_S "gone", VAtom (AInt 0)); (cs_S "__p", VAtom (AInt 0))].
Definition cs_t2 : value :=
  VDict [(cs_S "a", VList [VAtom (ANan 2); VAtom (ADec 15004 (-4)); VAtom (AFloat 3 2); VAtom (cs_S "xY"); VAtom (AInt 9)]);
         (cs_S "s", VSet [cs_S "M"; AInt 2]); (cs_S "n", VAtom (ANan 3))].
Definition cs_SU (a : atom) : Prop := In a [AInt 1; AInt 2; cs_S "m"; cs_S "M"].

Example cs_stable_A : stable cs_zip cs_A cs_AB cs_t1 = true /\ stable cs_zip cs_A cs_AB cs_t2 = true. Proof. split; reflexivity. Qed.
Example cs_stable_B : stable cs_zip cs_B cs_AB cs_t1 = true /\ stable cs_zip cs_B cs_AB cs_t2 = true. Proof. split; reflexivity. Qed.
(* ... and the guard is not trivially true: an upper-case key is changed by key cleaning *)
Example cs_stable_not : stable cs_zip cs_A cs_AB (VDict [(cs_S "Key", VAtom ANone)]) = false. Proof. reflexivity. Qed.

Lemma cs_sets : forall H, H = cs_A \/ H = cs_B -> forall x y, cs_SU x -> cs_SU y -> hatomF H x = hatomF H y ->
  hatomF cs_AB x = hatomF cs_AB y /\ excl_hash cs_AB x = excl_hash cs_AB y.
Proof.
  intros H HH x y Hx Hy E. unfold cs_SU in *. cbn [In] in Hx, Hy.
  destruct HH; subst H;
    destruct Hx as [Hx|[Hx|[Hx|[Hx|[]]]]], Hy as [Hy|[Hy|[Hy|[Hy|[]]]]]; subst; try (split; reflexivity); vm_compute in E; discriminate.
Qed.
Lemma cs_leaves : forall H, H = cs_A \/ H = cs_B -> forall a b : atom, True -> True -> pair_ok H cs_AB a b.
Proof. intros H [E|E] a b _ _; subst H; split; left; reflexivity. Qed.
Lemma cs_atoms : atoms_in (fun _ => True) cs_SU (fun _ => True) cs_t1 /\ atoms_in (fun _ => True) cs_SU (fun _ => True) cs_t2.
Proof. split; cbn; unfold cs_SU; cbn [In]; repeat split; auto 10; repeat constructor; cbn [In]; auto 10. Qed.

(* the three runs, and the theorem applied to them: the result under A-and-B (5 entries: the removed key, the float pair,
   the added item, the two set members) sits inside the result under A (which adds the Decimal pair) and inside the
   result under B (the same 5 entries: with a precision in force two nans render alike anyway) *)
Example cs_comp_instance :
  exists rA rB rAB,
    run_optF cs_ud cs_ops cs_zip cs_A cs_t1 cs_t2 = Ok rA /\ run_optF cs_ud cs_ops cs_zip cs_B cs_t1 cs_t2 = Ok rB /\
    run_optF cs_ud cs_ops cs_zip cs_AB cs_t1 cs_t2 = Ok rAB /\
    covers (fst rA) (fst rAB) /\ covers (fst rB) (fst rAB) /\
    (List.length (fst rAB) < List.length (fst rA))%nat /\ (List.length (fst rAB) <= List.length (fst rB))%nat /\ fst rAB <> [].
Proof.
  eexists. eexists. eexists.
  split; [vm_compute; reflexivity|]. split; [vm_compute; reflexivity|]. split; [vm_compute; reflexivity|].
  split; [|split; [|split; [cbn; lia|split; [cbn; lia|cbn; discriminate]]]].
  - refine (comp_and_left cs_ud cs_ops cs_zip cs_A cs_AB (fun _ => True) cs_SU (fun _ => True) eq_refl cs_ole_A
              (cs_sets cs_A (or_introl eq_refl)) (cs_leaves cs_A (or_introl eq_refl)) cs_t1 cs_t2 _ _
              (proj1 cs_stable_A) (proj2 cs_stable_A) (proj1 cs_atoms) (proj2 cs_atoms) _ _); vm_compute; reflexivity.
  - refine (comp_and_right cs_ud cs_ops cs_zip cs_B cs_AB (fun _ => True) cs_SU (fun _ => True) eq_refl cs_ole_B
              (cs_sets cs_B (or_intror eq_refl)) (cs_leaves cs_B (or_intror eq_refl)) cs_t1 cs_t2 _ _
              (proj1 cs_stable_B) (proj2 cs_stable_B) (proj1 cs_atoms) (proj2 cs_atoms) _ _); vm_compute; reflexivity.
Qed.

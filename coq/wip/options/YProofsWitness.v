(** (round-3 extended universe) Refuted witnesses for the datetime options at dict keys
    and set members, for truncation before zone conversion and for datetime keys
    under key cleaning with a precision; witnesses that every part of the new guard is needed (the raising corners
    C11-NUMGROUP-DATETIME, C11-SIG-TIMEDELTA-SET, C11-SIG0-NAN); C11-ENUM-NONE and C11-TRUNC-DATE are fixed (positive Examples);
    non-vacuity examples with dyadic floats, datetimes, nan objects, Decimals, dates and Enum members inside
    structures: the relations, the guards and the hypotheses of the theorems are satisfiable together. *)
From Coq Require Import List ZArith NArith Bool Arith String Lia.
Import ListNotations.
From DD Require Import Base.PyStr Options.OptModel Options.OptDtModel Options.YValue Options.YModel
  Options.YProofsBase Options.YProofsAtoms Options.YProofsKeys Options.YProofsLists
  Options.YProofsSafe Options.YProofsAlt Options.YProofsMono Options.YProofsRun.
Local Open Scope string_scope.
Local Open Scope Z_scope.

Definition xud0 (_ _ : pystr) : pystr := [].
Definition xops0 (_ : path) (_ _ : list value) : list opcode := [].
Definition xcdef : cfg := mkCfg false 33 100 true.
Definition xczip : cfg := mkCfg true 33 100 true.
Definition xrun (c : cfg) (F : opts) (a b : value) := run_optF xud0 xops0 c F a b.
Definition xS (s : string) : atom := AStr (s2p s).
Definition xvi (z : Z) : value := VAtom (AInt z).

(* case strty numty sig eps excl trunc tz nan enum note *)
Definition XFtrunc (u : tunit) := mkOpts false false false None None [] (Some u) 0 false false false.
Definition XFtz (m : Z) := mkOpts false false false None None [] None m false false false.
Definition XFsig (d : N) := mkOpts false false false (Some d) None [] None 0 false false false.
Definition XFeps (e : dy) := mkOpts false false false None (Some e) [] None 0 false false false.
Definition XFcase_sig (d : N) := mkOpts true false false (Some d) None [] None 0 false false false.
Definition XFnumty := mkOpts false false true None None [] None 0 false false false.
Definition XFenum := mkOpts false false false None None [] None 0 false true false.
Definition XFcase_enum := mkOpts true false false None None [] None 0 false true false.

(* 2024-06-01T12:40:03 / :09 / :27.25 / :59 as wall-clock microseconds (naive) *)
Definition t_03 : Z := 1717245603000000.
Definition t_09 : Z := 1717245609000000.

(* C11-DATETIME-KEY: helper.numbers contains datetime, key cleaning with a precision calls round(datetime): TypeError *)
Theorem x_datetime_key_raises_refuted :
  exists a, xrun xcdef no_opts a a = Ok ([], []) /\ xrun xcdef (XFcase_sig 2) a a = Err EType.
Proof. exists (VDict [(ADt t_03 None, xvi 1)]). split; reflexivity. Qed.

(* C11-DATETIME-KEY-SET: truncate_datetime reaches neither dict keys nor set members *)
Theorem x_trunc_key_refuted :
  exists a b k k', a = VDict [(k, xvi 1)] /\ b = VDict [(k', xvi 1)] /\ dt_full (XFtrunc UMinute) k k' = true /\
                   exists r, xrun xcdef (XFtrunc UMinute) a b = Ok r /\ fst r <> [].
Proof.
  exists (VDict [(ADt t_03 None, xvi 1)]), (VDict [(ADt t_09 None, xvi 1)]), (ADt t_03 None), (ADt t_09 None).
  repeat split; try reflexivity. eexists. split; [vm_compute; reflexivity|cbn; discriminate].
Qed.
Theorem x_trunc_set_refuted :
  exists k k', dt_full (XFtrunc UMinute) k k' = true /\
               exists r, xrun xcdef (XFtrunc UMinute) (VSet [k]) (VSet [k']) = Ok r /\ fst r <> [].
Proof.
  exists (ADt t_03 None), (ADt t_09 None). split; [reflexivity|].
  eexists. split; [vm_compute; reflexivity|cbn; discriminate].
Qed.
(* ... while the same two datetimes as leaves are equal under the option *)
Example x_trunc_leaf : xrun xcdef (XFtrunc UMinute) (VDict [(xS "k", VAtom (ADt t_03 None))]) (VDict [(xS "k", VAtom (ADt t_09 None))]) = Ok ([], []).
Proof. reflexivity. Qed.

(* a naive datetime key and the same wall clock with default_timezone attached are different keys *)
Theorem x_tz_key_refuted :
  exists k k', dt_full (XFtz 120) k k' = true /\
               exists r, xrun xcdef (XFtz 120) (VDict [(k, xvi 1)]) (VDict [(k', xvi 1)]) = Ok r /\ fst r <> [].
Proof.
  exists (ADt t_03 None), (ADt t_03 (Some 120)). split; [reflexivity|].
  eexists. split; [vm_compute; reflexivity|cbn; discriminate].
Qed.

(* C11-TRUNC-BEFORE-TZ in a structure: one instant in two zones (12:40:27+02:00, 16:25:27+05:45): plain diff empty,
   truncate_datetime='hour' reports a change *)
Theorem x_trunc_before_tz_monotone_refuted :
  exists a b, xrun xcdef no_opts a b = Ok ([], []) /\ exists r, xrun xcdef (XFtrunc UHour) a b = Ok r /\ fst r <> [].
Proof.
  exists (VDict [(xS "k", VAtom (ADt 45627000000 (Some 120)))]), (VDict [(xS "k", VAtom (ADt 59127000000 (Some 345)))]).
  split; [reflexivity|]. eexists. split; [vm_compute; reflexivity|cbn; discriminate].
Qed.
(* default_timezone re-reads naive datetimes: naive 12:40:03 equals 12:40:03+00:00 by default, not under +02:00 *)
Theorem x_default_timezone_monotone_refuted :
  exists a b, xrun xcdef no_opts a b = Ok ([], []) /\ exists r, xrun xcdef (XFtz 120) a b = Ok r /\ fst r <> [].
Proof.
  exists (VDict [(xS "k", VAtom (ADt t_03 None))]), (VDict [(xS "k", VAtom (ADt t_03 (Some 0)))]).
  split; [reflexivity|]. eexists. split; [vm_compute; reflexivity|cbn; discriminate].
Qed.

(* ---- the new guards are needed ---- *)
(* C11-TRUNC-DATE (fixed in 1c8f0f8: datetime_normalize truncates only datetime / time objects): under
   truncate_datetime a date against itself and a timedelta against itself report nothing and raise nothing, and two
   different dates are a values_changed entry with the ORIGINAL dates *)
Example y_trunc_date_fixed :
  xrun xcdef (XFtrunc UMinute) (VAtom (ADate 2024 6 1)) (VAtom (ADate 2024 6 1)) = Ok ([], []) /\
  xrun xcdef (XFtrunc UMinute) (VAtom (ATd 5000000)) (VAtom (ATd 5000000)) = Ok ([], []) /\
  xrun xcdef (XFtrunc UMinute) (VAtom (ADate 2024 6 1)) (VAtom (ADate 2024 6 2)) =
    Ok ([mkEntry KValue [] [] (Some (VAtom (ADate 2024 6 1))) (Some (VAtom (ADate 2024 6 2))) None], []).
Proof. repeat split; reflexivity. Qed.

(* C11-SIG-TIMEDELTA-SET / C11-SIG0-NAN: a timedelta set member when a precision is in force, a nan set member with 0
   digits: [member_ok] *)
Theorem y_set_td_refuted :
  exists a, xrun xcdef no_opts (VSet [a]) (VSet [a]) = Ok ([], []) /\ xrun xcdef (XFsig 2) (VSet [a]) (VSet [a]) = Err EType
            /\ member_ok (XFsig 2) a = false.
Proof. exists (ATd 5000000). repeat split; reflexivity. Qed.
Theorem y_set_nan0_refuted :
  exists a, xrun xcdef no_opts (VSet [a]) (VSet [a]) = Ok ([], []) /\ xrun xcdef (XFsig 0) (VSet [a]) (VSet [a]) = Err EValue
            /\ member_ok (XFsig 0) a = false.
Proof. exists (ANan 1). repeat split; reflexivity. Qed.
(* C11-SIG0-NAN at a dict key: [key_cleanable] *)
Theorem y_key_nan0_refuted :
  exists k, xrun xcdef no_opts (VDict [(k, xvi 1)]) (VDict [(k, xvi 1)]) = Ok ([], []) /\
            xrun xcdef (XFcase_sig 0) (VDict [(k, xvi 1)]) (VDict [(k, xvi 1)]) = Err EValue /\ key_cleanable (XFcase_sig 0) k = false.
Proof. exists (ANan 1). repeat split; reflexivity. Qed.

(* C11-NUMGROUP-DATETIME in the default list mode: the opcodes (a Section variable of the theorems, constrained only to
   tile the two lists) may pair ANY two items; under ignore_numeric_type_changes a number paired with a date raises,
   although the two lists are identical and the plain run reports nothing: [items_ok] (quiet items) *)
Definition yops_shift (_ : path) (_ _ : list value) : list opcode :=
  [mkOp ODelete 0 1 0 0; mkOp OReplace 1 2 0 1; mkOp OInsert 2 2 1 2].
Theorem y_items_guard_refuted :
  exists t, tiles (yops_shift [] [] []) 0 0 2 2 = true /\
            run_optF xud0 yops_shift xcdef no_opts t t = Ok ([], []) /\
            run_optF xud0 yops_shift xcdef XFnumty t t = Err EType /\ guard XFnumty xcdef t = false.
Proof. exists (VList [VAtom (ADate 2024 6 1); xvi 1]). repeat split; reflexivity. Qed.

(* C11-ENUM-NONE (fixed in c9e614d: the None test of _diff reports only when `t1 is not t2`): None against a member
   whose value is None is related by [enum_rel] under use_enum_value, and the run reports nothing *)
Example y_enum_none_fixed :
  let a := AEnum (s2p "Opt") (s2p "NOTHING") 0 ENone in
  enum_rel XFenum a ANone = true /\ altL XFenum a ANone = true /\ altL XFenum ANone a = true /\
  xrun xcdef XFenum (VAtom a) (VAtom ANone) = Ok ([], []) /\ xrun xcdef XFenum (VAtom ANone) (VAtom a) = Ok ([], []).
Proof. repeat split; reflexivity. Qed.
(* two members of ONE class with the same value (aliases do not exist as separate members; here: different names) are
   reported through the .name child: [enum_rel] excludes them *)
Theorem y_enum_same_class_refuted :
  exists a b, atom_eqb (unwrap XFenum a) (unwrap XFenum b) = true /\
              exists r, xrun xcdef XFenum (VAtom a) (VAtom b) = Ok r /\ fst r <> [].
Proof.
  exists (AEnum (s2p "Color") (s2p "RED") 0 (EInt 1)), (AEnum (s2p "Color") (s2p "CRIMSON") 1 (EInt 1)). split; [reflexivity|].
  eexists. split; [vm_compute; reflexivity|cbn; discriminate].
Qed.

(* ---- non-vacuity: dyadic floats and datetimes inside structures ---- *)
(* significant_digits=2 + ignore_string_case + truncate 'minute': 1025/1024 ~ 1027/1024 ("1.00"), keys cleaned, datetimes truncated *)
Definition XFmix := mkOpts true false false (Some 2%N) None [] (Some UMinute) 0 false false false.
Definition xe1 : value :=
  VDict [(xS "A", VList [VAtom (AFloat 1025 10); VAtom (ADt t_03 (Some 120))]);
         (AFloat 1025 10, VSet [AFloat 3 2; xS "M"]); (xS "__p", xvi 0)].
Definition xe2 : value :=
  VDict [(AFloat 1027 10, VSet [xS "m"; AFloat 193 8]);
         (xS "a", VList [VAtom (AFloat 1027 10); VAtom (ADt t_09 (Some 120))])].
Example x_guard_1 : guard XFmix xcdef xe1 = true. Proof. reflexivity. Qed.
Example x_guard_2 : guard XFmix xcdef xe2 = true. Proof. reflexivity. Qed.
Example x_alt : alt XFmix xcdef xe1 xe2.
Proof.
  apply alt_dict.
  - intros k v H. cbn in H. destruct H as [H|[H|H]]; try (inversion H; subst; clear H); try contradiction.
    + exists (xS "a"). eexists. split; [right; left; reflexivity|]. split; [reflexivity|].
      apply alt_list. constructor; [apply alt_atom; reflexivity|]. constructor; [apply alt_atom; reflexivity|constructor].
    + exists (AFloat 1027 10). eexists. split; [left; reflexivity|]. split; [reflexivity|].
      apply alt_set.
      * intros x Hx _ _. cbn in Hx. destruct Hx as [Hx|[Hx|Hx]]; try contradiction; subst.
        -- exists (AFloat 193 8). split; [right; left; reflexivity|]. split; [reflexivity|left; reflexivity].
        -- exists (xS "m"). split; [left; reflexivity|]. split; [reflexivity|left; reflexivity].
      * intros x Hx _ _. cbn in Hx. destruct Hx as [Hx|[Hx|Hx]]; try contradiction; subst.
        -- exists (xS "M"). split; [right; left; reflexivity|]. split; [reflexivity|right; reflexivity].
        -- exists (AFloat 3 2). split; [left; reflexivity|]. split; [reflexivity|right; reflexivity].
  - intros k' H. cbn in H. destruct H as [H|[H|H]]; try contradiction; subst.
    + exists (AFloat 1025 10). split; [right; left; reflexivity|reflexivity].
    + exists (xS "A"). split; [left; reflexivity|reflexivity].
Qed.
Example x_alt_computes : xrun xczip XFmix xe1 xe2 = Ok ([], []).
Proof. reflexivity. Qed.
(* math_epsilon = 0.01 (the double) on dyadic floats: 1025/1024 vs 1029/1024 *)
Example x_eps_leaf : altL (XFeps (5764607523034235, 59%N)) (AFloat 1025 10) (AFloat 1029 10) = true.
Proof. reflexivity. Qed.
Example x_safe : safe XFmix xe2 = true. Proof. reflexivity. Qed.

(* ---- non-vacuity: the new atoms and options ---- *)
(* ignore_nan_inequality + significant_digits=2 + ignore_string_case: two different nan objects, Decimal('1.50') ~
   Decimal('1.5004') and 1.5 ~ 3073/2048 ("1.50"), a date against itself, an Enum member (use_enum_value off) against
   itself, Decimal keys Decimal('2.5') / Decimal('2.504') with one rendering, a nan (the same object) and Decimal set
   members *)
Definition YFnew := mkOpts true false false (Some 2%N) None [] None 0 true false false.
Definition yRed : atom := AEnum (s2p "Color") (s2p "RED") 0 (EInt 1).
Definition ye1 : value :=
  VDict [(xS "N", VAtom (ANan 1));
         (xS "d", VTuple [VAtom (ADec 150 (-2)); VAtom (AFloat 3 1); VAtom (ADate 2024 6 1); VAtom yRed]);
         (ADec 25 (-1), VSet [ANan 7; ADec 150 (-2); ADate 2024 6 1])].
Definition ye2 : value :=
  VDict [(ADec 2504 (-3), VSet [ADate 2024 6 1; ADec 15004 (-4); ANan 7]);
         (xS "n", VAtom (ANan 2));
         (xS "D", VTuple [VAtom (ADec 15004 (-4)); VAtom (AFloat 3073 11); VAtom (ADate 2024 6 1); VAtom yRed])].
Example y_guard_1 : guard YFnew xczip ye1 = true. Proof. reflexivity. Qed.
Example y_guard_2 : guard YFnew xczip ye2 = true. Proof. reflexivity. Qed.
(* the same two values satisfy the guard in the default (difflib) mode as well: every item is quiet *)
Example y_guard_1_default : guard YFnew xcdef ye1 = true. Proof. reflexivity. Qed.
Example y_alt : alt YFnew xczip ye1 ye2.
Proof.
  apply alt_dict.
  - intros k v H. cbn in H. destruct H as [H|[H|[H|H]]]; try (inversion H; subst; clear H); try contradiction.
    + exists (xS "n"). eexists. split; [right; left; reflexivity|]. split; [reflexivity|]. apply alt_atom. reflexivity.
    + exists (xS "D"). eexists. split; [right; right; left; reflexivity|]. split; [reflexivity|].
      apply alt_tuple. repeat (constructor; [apply alt_atom; reflexivity|]). constructor.
    + exists (ADec 2504 (-3)). eexists. split; [left; reflexivity|]. split; [reflexivity|].
      apply alt_set.
      * intros x Hx _ _. cbn in Hx. destruct Hx as [Hx|[Hx|[Hx|Hx]]]; try contradiction; subst.
        -- exists (ANan 7). split; [right; right; left; reflexivity|]. split; [reflexivity|left; reflexivity].
        -- exists (ADec 15004 (-4)). split; [right; left; reflexivity|]. split; [reflexivity|left; reflexivity].
        -- exists (ADate 2024 6 1). split; [left; reflexivity|]. split; [reflexivity|left; reflexivity].
      * intros x Hx _ _. cbn in Hx. destruct Hx as [Hx|[Hx|[Hx|Hx]]]; try contradiction; subst.
        -- exists (ADate 2024 6 1). split; [right; right; left; reflexivity|]. split; [reflexivity|left; reflexivity].
        -- exists (ADec 150 (-2)). split; [right; left; reflexivity|]. split; [reflexivity|right; reflexivity].
        -- exists (ANan 7). split; [left; reflexivity|]. split; [reflexivity|left; reflexivity].
  - intros k' H. cbn in H. destruct H as [H|[H|[H|H]]]; try contradiction; subst.
    + exists (ADec 25 (-1)). split; [right; right; left; reflexivity|reflexivity].
    + exists (xS "N"). split; [left; reflexivity|reflexivity].
    + exists (xS "d"). split; [right; left; reflexivity|reflexivity].
Qed.
Example y_alt_computes : xrun xczip YFnew ye1 ye2 = Ok ([], []).
Proof. reflexivity. Qed.
(* ... and the theorem applies to it (threshold 33/100, positional mode) *)
Example y_alt_by_theorem : xrun xczip YFnew ye1 ye2 = Ok ([], []).
Proof.
  apply (alt_empty_run YFnew xczip xud0 xops0).
  - cbn. lia.
  - left. reflexivity.
  - exact y_alt.
  - exact y_guard_1.
  - exact y_guard_2.
Qed.

(* the default (difflib) mode: opcodes that tile ANY two lists (one block), all-basic lists with a nan, a Decimal, a
   date and a str: the second disjunct of the list-mode hypothesis and the [items_ok] part of the guard are satisfiable *)
Definition yops_all (_ : path) (xs ys : list value) : list opcode :=
  match xs, ys with
  | [], [] => []
  | [], _ => [mkOp OInsert 0 0 0 (List.length ys)]
  | _, [] => [mkOp ODelete 0 (List.length xs) 0 0]
  | _, _ => [mkOp OReplace 0 (List.length xs) 0 (List.length ys)]
  end.
Lemma yops_all_tiles : forall p xs ys, tiles (yops_all p xs ys) 0 0 (List.length xs) (List.length ys) = true.
Proof.
  intros p [|x xs] [|y ys]; cbn [yops_all tiles op_shape otag oi1 oi2 oj1 oj2 List.length Nat.eqb Nat.leb Nat.ltb andb];
    rewrite ?Nat.eqb_refl; reflexivity.
Qed.
Definition yl1 : value := VList [VAtom (ANan 1); VAtom (ADec 150 (-2)); VAtom (ADate 2024 6 1); VAtom (xS "Ab")].
Definition yl2 : value := VList [VAtom (ANan 2); VAtom (ADec 15004 (-4)); VAtom (ADate 2024 6 1); VAtom (xS "aB")].
Example y_default_computes : run_optF xud0 yops_all xcdef YFnew yl1 yl2 = Ok ([], []).
Proof. reflexivity. Qed.
Example y_default_by_theorem : run_optF xud0 yops_all xcdef YFnew yl1 yl2 = Ok ([], []).
Proof.
  apply (alt_empty_run YFnew xcdef xud0 yops_all).
  - cbn. lia.
  - right. split; [reflexivity|exact yops_all_tiles].
  - apply alt_list. repeat (constructor; [apply alt_atom; reflexivity|]). constructor.
  - reflexivity.
  - reflexivity.
Qed.

(* use_enum_value (+ ignore_string_case, so that keys are cleaned): a member against its value at a leaf ([enum_rel]),
   members of two classes with one value, a member with a str value against a str key ([enumk_rel]), a member against
   its value in a set *)
Definition yHi : atom := AEnum (s2p "Greeting") (s2p "HI") 0 (EStr (s2p "Hello")).
Definition yOne : atom := AEnum (s2p "Num") (s2p "ONE") 0 (EInt 1).
Definition yg1 : value :=
  VDict [(yHi, VAtom yRed); (xS "s", VSet [yRed; xS "x"]); (xS "t", VTuple [VAtom yOne; VAtom (AInt 1)])].
Definition yg2 : value :=
  VDict [(xS "hello", VAtom (AInt 1)); (xS "S", VSet [xS "X"; AInt 1]); (xS "T", VTuple [VAtom yRed; VAtom yRed])].
Example y_enum_guard_1 : guard XFcase_enum xczip yg1 = true. Proof. reflexivity. Qed.
Example y_enum_guard_2 : guard XFcase_enum xczip yg2 = true. Proof. reflexivity. Qed.
Example y_enum_alt : alt XFcase_enum xczip yg1 yg2.
Proof.
  apply alt_dict.
  - intros k v H. cbn in H. destruct H as [H|[H|[H|H]]]; try (inversion H; subst; clear H); try contradiction.
    + exists (xS "hello"). eexists. split; [left; reflexivity|]. split; [reflexivity|]. apply alt_atom. reflexivity.
    + exists (xS "S"). eexists. split; [right; left; reflexivity|]. split; [reflexivity|].
      apply alt_set.
      * intros x Hx _ _. cbn in Hx. destruct Hx as [Hx|[Hx|Hx]]; try contradiction; subst.
        -- exists (AInt 1). split; [right; left; reflexivity|]. split; [reflexivity|left; reflexivity].
        -- exists (xS "X"). split; [left; reflexivity|]. split; [reflexivity|left; reflexivity].
      * intros x Hx _ _. cbn in Hx. destruct Hx as [Hx|[Hx|Hx]]; try contradiction; subst.
        -- exists (xS "x"). split; [right; left; reflexivity|]. split; [reflexivity|left; reflexivity].
        -- exists yRed. split; [left; reflexivity|]. split; [reflexivity|left; reflexivity].
    + exists (xS "T"). eexists. split; [right; right; left; reflexivity|]. split; [reflexivity|].
      apply alt_tuple. repeat (constructor; [apply alt_atom; reflexivity|]). constructor.
  - intros k' H. cbn in H. destruct H as [H|[H|[H|H]]]; try contradiction; subst.
    + exists yHi. split; [left; reflexivity|reflexivity].
    + exists (xS "s"). split; [right; left; reflexivity|reflexivity].
    + exists (xS "t"). split; [right; right; left; reflexivity|reflexivity].
Qed.
Example y_enum_alt_computes : xrun xczip XFcase_enum yg1 yg2 = Ok ([], []).
Proof. reflexivity. Qed.
Example y_enum_alt_by_theorem : xrun xczip XFcase_enum yg1 yg2 = Ok ([], []).
Proof.
  apply (alt_empty_run XFcase_enum xczip xud0 xops0); [cbn; lia|left; reflexivity|exact y_enum_alt|exact y_enum_guard_1|exact y_enum_guard_2].
Qed.

(* number_format_notation='e': 1.5 and Decimal('1.5004') at 2 digits are NOT related (the float goes through the nearest
   double, [sig_rel] requires float against float there), two floats / two Decimals are *)
Definition YFnote := mkOpts false false true (Some 2%N) None [] None 0 false false true.
Example y_note_rel : sig_rel YFnote (AFloat 3 1) (AFloat 3073 11) = true /\ sig_rel YFnote (ADec 150 (-2)) (AInt 2) = false
                     /\ sig_rel YFnote (ADec 150 (-2)) (ADec 15004 (-4)) = true /\ sig_rel YFnote (AFloat 3 1) (ADec 150 (-2)) = false.
Proof. repeat split; reflexivity. Qed.
Example y_note_leaf : altL YFnote (ADec 150 (-2)) (ADec 15004 (-4)) = true
                      /\ xrun xcdef YFnote (VAtom (ADec 150 (-2))) (VAtom (ADec 15004 (-4))) = Ok ([], []).
Proof. split; reflexivity. Qed.

(* the guard of the third clause (YProofsSafe) on the new atoms *)
Example y_safe : safe YFnew ye2 = true. Proof. reflexivity. Qed.

(* ---- non-vacuity of the second clause: the universe hypotheses of monotone_run are satisfiable by universes that
   contain a nan, a Decimal, a date and an Enum member ---- *)
Definition yKU (k : atom) : Prop := In k [xS "a"; ADec 25 (-1); yRed].
Definition ySU (k : atom) : Prop := In k [ANan 7; ADec 150 (-2); ADate 2024 6 1].
Definition yLU (k : atom) : Prop := In k [ANan 1; ADec 150 (-2); ADate 2024 6 1; yRed; AFloat 3 1].
Definition ym : value :=
  VDict [(xS "a", VTuple [VAtom (ANan 1); VAtom (ADec 150 (-2)); VAtom (ADate 2024 6 1); VAtom yRed; VAtom (AFloat 3 1)]);
         (ADec 25 (-1), VSet [ANan 7; ADec 150 (-2); ADate 2024 6 1]); (yRed, VAtom (ANan 1))].
Example y_monotone_instance : xrun xczip YFnew ym ym = Ok ([], []).
Proof.
  apply (monotone_run YFnew xczip xud0 xops0) with (KU := yKU) (SU := ySU) (LU := yLU) (r := []).
  - cbn. lia.
  - left. reflexivity.
  - reflexivity.
  - intros _ k k' Hk Hk' H. unfold yKU in *. cbn [In] in Hk, Hk'.
    destruct Hk as [Hk|[Hk|[Hk|[]]]], Hk' as [Hk'|[Hk'|[Hk'|[]]]]; subst; try reflexivity; vm_compute in H; discriminate.
  - intros _ k Hk. unfold yKU in Hk. cbn [In] in Hk. destruct Hk as [Hk|[Hk|[Hk|[]]]]; subst; reflexivity.
  - intros _ k k' Hk Hk' _ Ht _. unfold yKU in *. cbn [In] in Hk, Hk'.
    destruct Hk as [Hk|[Hk|[Hk|[]]]], Hk' as [Hk'|[Hk'|[Hk'|[]]]]; subst; try reflexivity; vm_compute in Ht; discriminate.
  - intros x y Hx Hy H. unfold ySU in *. cbn [In] in Hx, Hy.
    destruct Hx as [Hx|[Hx|[Hx|[]]]], Hy as [Hy|[Hy|[Hy|[]]]]; subst; try reflexivity; vm_compute in H; discriminate.
  - intros u1 o1 u2 o2 H1 _ _. unfold yLU in H1. cbn [In] in H1.
    destruct H1 as [H1|[H1|[H1|[H1|[H1|[]]]]]]; discriminate.
  - intros a Ha. unfold yLU in Ha. cbn [In] in Ha. destruct Ha as [Ha|[Ha|[Ha|[Ha|[Ha|[]]]]]]; subst; reflexivity.
  - intros a b Ha Hb Hm Ht _. unfold yLU in *. cbn [In] in Ha, Hb.
    destruct Ha as [Ha|[Ha|[Ha|[Ha|[Ha|[]]]]]], Hb as [Hb|[Hb|[Hb|[Hb|[Hb|[]]]]]]; subst; try reflexivity;
      try discriminate Hm; vm_compute in Ht; discriminate.
  - reflexivity.
  - reflexivity.
  - reflexivity.
  - cbn. unfold yKU, ySU, yLU. cbn [In]. repeat split; auto 10; repeat constructor; cbn [In]; auto 10.
  - cbn. unfold yKU, ySU, yLU. cbn [In]. repeat split; auto 10; repeat constructor; cbn [In]; auto 10.
Qed.

(* ... and Decimals need no rigidity hypothesis any more: Decimal('1.5') / Decimal('1.50') leaves and
   Decimal('2.5') / Decimal('2.50') keys (two representations of one value on the two sides) - the plain run finds
   nothing, so by the theorem neither does the run under ignore_string_case + significant_digits=2 + nan *)
Definition yd1 : value := VDict [(xS "a", VAtom (ADec 15 (-1))); (ADec 25 (-1), VAtom (AInt 1))].
Definition yd2 : value := VDict [(xS "a", VAtom (ADec 150 (-2))); (ADec 250 (-2), VAtom (AInt 1))].
Definition ydKU (k : atom) : Prop := In k [xS "a"; ADec 25 (-1); ADec 250 (-2)].
Definition ydLU (k : atom) : Prop := In k [ADec 15 (-1); ADec 150 (-2); AInt 1].
Example y_monotone_dec_instance : yd1 <> yd2 /\ xrun xczip YFnew yd1 yd2 = Ok ([], []).
Proof.
  split; [discriminate|].
  apply (monotone_run YFnew xczip xud0 xops0) with (KU := ydKU) (SU := fun _ => False) (LU := ydLU) (r := []).
  - cbn. lia.
  - left. reflexivity.
  - reflexivity.
  - intros _ k k' Hk Hk' H. unfold ydKU in *. cbn [In] in Hk, Hk'.
    destruct Hk as [Hk|[Hk|[Hk|[]]]], Hk' as [Hk'|[Hk'|[Hk'|[]]]]; subst; try reflexivity; vm_compute in H; discriminate.
  - intros _ k Hk. unfold ydKU in Hk. cbn [In] in Hk. destruct Hk as [Hk|[Hk|[Hk|[]]]]; subst; reflexivity.
  - intros _ k k' Hk _ Hm _ _. unfold ydKU in *. cbn [In] in Hk.
    destruct Hk as [Hk|[Hk|[Hk|[]]]]; subst; discriminate Hm.
  - intros x y [].
  - intros u1 o1 u2 o2 H1 _ _. unfold ydLU in H1. cbn [In] in H1. destruct H1 as [H1|[H1|[H1|[]]]]; discriminate.
  - intros a Ha. unfold ydLU in Ha. cbn [In] in Ha. destruct Ha as [Ha|[Ha|[Ha|[]]]]; subst; reflexivity.
  - intros a b Ha _ Hm _ _. unfold ydLU in *. cbn [In] in Ha. destruct Ha as [Ha|[Ha|[Ha|[]]]]; subst; discriminate Hm.
  - reflexivity.
  - reflexivity.
  - reflexivity.
  - cbn. unfold ydKU, ydLU. cbn [In]. repeat split; auto 10.
  - cbn. unfold ydKU, ydLU. cbn [In]. repeat split; auto 10.
Qed.

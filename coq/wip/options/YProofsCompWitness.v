(** (round-3 extended universe) Witnesses for the composition theorem (YProofsComp.v): each side condition of
    [ole] / [pair_ok] is needed - the composition "result(A and B) embeds into result(A)" FAILS in the faithful
    model exactly there - and the order and the side conditions are satisfiable by the pairs of options one
    actually combines (non-vacuity). *)
From Coq Require Import List ZArith NArith Bool Arith String Lia.
Import ListNotations.
From DD Require Import Base.PyStr Options.OptModel Options.OptDtModel Options.YValue Options.YModel
  Options.YProofsBase Options.YProofsSafe Options.YProofsCompNum Options.YProofsComp.
Local Open Scope string_scope.
Local Open Scope Z_scope.

Definition cud0 (_ _ : pystr) : pystr := [].
Definition cops0 (_ : path) (_ _ : list value) : list opcode := [].
Definition cczip : cfg := mkCfg true 33 100 true.
Definition crun (F : opts) (a b : value) := run_optF cud0 cops0 cczip F a b.

(* case strty numty sig eps excl trunc tz nan enum note *)
Definition CFsig (d : N) := mkOpts false false false (Some d) None [] None 0 false false false.
Definition CFsig_eps (d : N) (e : dy) := mkOpts false false false (Some d) (Some e) [] None 0 false false false.
Definition CFnumty := mkOpts false false true None None [] None 0 false false false.
Definition CFnumty_sig (d : N) := mkOpts false false true (Some d) None [] None 0 false false false.
Definition CFnumty_eps (e : dy) := mkOpts false false true None (Some e) [] None 0 false false false.
Definition CFtrunc (u : tunit) := mkOpts false false false None None [] (Some u) 0 false false false.
Definition CFnan := mkOpts false false false None None [] None 0 true false false.
Definition CFnan_eps (e : dy) := mkOpts false false false None (Some e) [] None 0 true false false.
Definition CFnan_sig (d : N) := mkOpts false false false (Some d) None [] None 0 true false false.
Definition CFcase := mkOpts true false false None None [] None 0 false false false.
Definition CFcase_strty := mkOpts true true false None None [] None 0 false false false.
Definition CFcase_enum := mkOpts true false false None None [] None 0 false true false.
Definition CFenum := mkOpts false false false None None [] None 0 false true false.

(* every field of [ole] except the named one *)
Definition ole_but_eps (F G : opts) : Prop :=
  (o_case F = true -> o_case G = true) /\ (o_strty F = true -> o_strty G = true) /\ (o_numty F = true -> o_numty G = true) /\
  (o_nan F = true -> o_nan G = true) /\ (o_enum F = true -> o_enum G = true) /\ (forall t, excluded F t = true -> excluded G t = true) /\
  (eff_sig F = None \/ eff_sig F = eff_sig G) /\ (o_trunc F = o_trunc G \/ o_trunc F = None) /\ o_tz F = o_tz G /\
  (o_note F = false /\ o_note G = false).
Definition ole_but_sig (F G : opts) : Prop :=
  (o_case F = true -> o_case G = true) /\ (o_strty F = true -> o_strty G = true) /\ (o_numty F = true -> o_numty G = true) /\
  (o_nan F = true -> o_nan G = true) /\ (o_enum F = true -> o_enum G = true) /\ (forall t, excluded F t = true -> excluded G t = true) /\
  (o_eps F = o_eps G \/ (o_eps F = None /\ eff_sig F = None)) /\ (o_trunc F = o_trunc G \/ o_trunc F = None) /\ o_tz F = o_tz G /\
  (o_note F = false /\ o_note G = false).

(* C11-EPS-OVER-SIG as a composition failure: significant_digits=0 finds 1.5 and 2.0 equal ('2' = '2', half-even);
   math_epsilon=0.25 ADDED to it takes over and reports the pair *)
Theorem comp_eps_over_sig_refuted :
  exists F G a b r, ole_but_eps F G /\ crun F a b = Ok ([], []) /\ crun G a b = Ok r /\ fst r <> [].
Proof.
  exists (CFsig 0), (CFsig_eps 0 (1, 2%N)), (VList [VAtom (AFloat 3 1)]), (VList [VAtom (AFloat 2 0)]).
  eexists. split; [|split; [vm_compute; reflexivity|split; [vm_compute; reflexivity|cbn; discriminate]]].
  unfold ole_but_eps. cbn. repeat split; auto.
Qed.

(* the 12 digits of ignore_numeric_type_changes replaced by significant_digits=0: rounding is not monotone in the
   number of digits - 0.5 - 2^-42 and 0.5 + 2^-42 agree at 12 digits (0.500000000000) and differ at 0 (0 vs 1) *)
Theorem comp_sig_over_numty_refuted :
  exists F G a b r, ole_but_sig F G /\ crun F a b = Ok ([], []) /\ crun G a b = Ok r /\ fst r <> [].
Proof.
  exists CFnumty, (CFnumty_sig 0), (VAtom (AFloat 2199023255551 42)), (VAtom (AFloat 2199023255553 42)).
  eexists. split; [|split; [vm_compute; reflexivity|split; [vm_compute; reflexivity|cbn; discriminate]]].
  unfold ole_but_sig. cbn. repeat split; auto.
Qed.

(* C11-TRUNC-BEFORE-TZ as a composition failure: one instant in two zones (12:40:27+02:00 = 16:25:27+05:45) is
   equal without options; truncate_datetime='hour' truncates in the own zone first: [ole] holds, [pair_ok] fails *)
Theorem comp_trunc_zone_refuted :
  exists F G a b r, ole F G /\ crun F (VAtom a) (VAtom b) = Ok ([], []) /\ crun G (VAtom a) (VAtom b) = Ok r /\ fst r <> []
                    /\ ~ pair_ok F G a b.
Proof.
  exists no_opts, (CFtrunc UHour), (ADt 1717245627000000 (Some 120)), (ADt 1717259127000000 (Some 345)).
  eexists. split; [|split; [vm_compute; reflexivity|split; [vm_compute; reflexivity|split; [cbn; discriminate|]]]].
  - constructor; cbn; auto; try discriminate.
  - intros [_ [K|K]]; cbn in K; [discriminate|]. inversion K.
Qed.

(* ---- non-vacuity: the order holds for the option pairs one combines, and the leaf theorem applies ---- *)
Example ole_nan_eps : ole CFnan (CFnan_eps (0, 0%N)).
Proof. constructor; cbn; auto. Qed.
Example ole_nan_sig : ole CFnan (CFnan_sig 2).
Proof. constructor; cbn; auto. Qed.
Example ole_eps_nan : ole (mkOpts false false false None (Some (0, 0%N)) [] None 0 false false false) (CFnan_eps (0, 0%N)).
Proof. constructor; cbn; auto; discriminate. Qed.
Example ole_case_strty : ole CFcase CFcase_strty.
Proof. constructor; cbn; auto. Qed.
Example ole_enum_case : ole CFenum CFcase_enum.
Proof. constructor; cbn; auto. Qed.
Example ole_plain_numty : ole no_opts CFnumty.
Proof. constructor; cbn; auto; discriminate. Qed.
Example ole_numty_eps : ole no_opts (CFnumty_eps (1, 1%N)).
Proof. constructor; cbn; auto; discriminate. Qed.

(* two DISTINCT nan objects: reported under math_epsilon alone, not under ignore_nan_inequality alone, and - by the
   theorem - not under both *)
Example nan_eps_instance :
  leafR cud0 CFnan (ANan 1) (ANan 2) [] [] = Ok [] /\
  leafR cud0 (CFnan_eps (0, 0%N)) (ANan 1) (ANan 2) [] [] = Ok [] /\
  (exists e, leafR cud0 (mkOpts false false false None (Some (0, 0%N)) [] None 0 false false false) (ANan 1) (ANan 2) [] [] = Ok [e]).
Proof. split; [reflexivity|split; [reflexivity|eexists; reflexivity]]. Qed.
Example nan_eps_by_theorem : forall eG,
  leafR cud0 (CFnan_eps (0, 0%N)) (ANan 1) (ANan 2) [] [] = Ok eG -> eG = [].
Proof.
  intros eG H. refine (leafR_mono cud0 CFnan (CFnan_eps (0, 0%N)) ole_nan_eps (ANan 1) (ANan 2) [] [] [] [] eG _ eq_refl H).
  split; [right; split; reflexivity|left; reflexivity].
Qed.

(* math_epsilon added, Decimal leaves (allowed since YProofsDec.v): Decimal('1.5') == Decimal('1.50'); no
   difference without math_epsilon, hence - by the theorem - none with it (math.isclose sees float(Decimal)) *)
Example dec_eps_by_theorem : forall eG,
  leafR cud0 (CFnan_eps (0, 0%N)) (ADec 15 (-1)) (ADec 150 (-2)) [] [] = Ok eG -> eG = [].
Proof.
  intros eG H.
  refine (leafR_mono cud0 CFnan (CFnan_eps (0, 0%N)) ole_nan_eps (ADec 15 (-1)) (ADec 150 (-2)) [] [] [] [] eG _ eq_refl H).
  split; [right; split; reflexivity|left; reflexivity].
Qed.
(* ... while an int beyond 53 bits is kept out: float(2^53 + 1) = 2^53 *)
Example big_int_not_double : YProofsDec.is_double (AInt (2 ^ 53 + 1)) = false.
Proof. reflexivity. Qed.

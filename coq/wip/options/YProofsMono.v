(** (round-3 extended universe) C11, second clause: if the plain diff of two values is empty, so is the diff
    under the options - under the guards that the refuted witnesses show to be
    necessary: good kept keys (no clean-key collision), Python-equal
    keys of equal type when key cleaning is active (1 / 1.0 / True / Decimal(1)), set members
    whose plain hash texts do not collide (K1), no raising corner ([guard]).

    New in this universe: Python's == on numbers is by VALUE (py_eq compares exact rationals), so "the plain run found
    the two atoms equal" no longer gives "the two atoms are the same representation" for free:
      floats     are the same when both are in lowest terms ([canon_atom], the representation invariant of real
                 floats: float.as_integer_ratio) - lemma [dy_lowest_uniq];
      Decimals   of one value can differ in the exponent (Decimal('1.5') == Decimal('1.50')): NO hypothesis is needed
                 for them - every option treats two ==-equal Decimals alike (number_to_string rounds the value:
                 YProofsCompNum.krnd_eq; math.isclose sees float(Decimal), which depends on the value only:
                 YProofsDec.dy_of_dec_eq), so they are [altL]-related under every option set ([dec_altL]) and key
                 cleaning gives them one clean key ([ckey_dec_pyeq]);
      Enum       members are compared by class and name only (in a real program these determine ord and value).
    The universes KU / LU therefore carry two more explicit hypotheses each: [*_canon] (floats in lowest terms) and
    [*_rigid] (two ==-equal Enum members of the universe are one representation). *)
From Coq Require Import List ZArith NArith Bool Arith Lia.
Import ListNotations.
From DD Require Import Base.PyStr Options.OptModel Options.OptDtModel Options.YValue Options.YModel
  Options.YProofsBase Options.YProofsAtoms Options.YProofsKeys Options.YProofsLists Options.YProofsSafe Options.YProofsAlt
  Options.YProofsCompNum Options.YProofsDec.

(* the dict keys / set members / leaves of a value all lie in a given universe *)
Fixpoint atoms_in (KU SU LU : atom -> Prop) (v : value) : Prop :=
  match v with
  | VAtom a => LU a
  | VSet xs | VFrozen xs => Forall SU xs
  | VList xs | VTuple xs => (fix go (l : list value) : Prop := match l with [] => True | x :: r => atoms_in KU SU LU x /\ go r end) xs
  | VDict kvs => (fix go (l : list (atom * value)) : Prop :=
                    match l with [] => True | kv :: r => KU (fst kv) /\ atoms_in KU SU LU (snd kv) /\ go r end) kvs
  end.

Lemma atoms_in_dict : forall KU SU LU kvs k v, atoms_in KU SU LU (VDict kvs) -> In (k, v) kvs -> KU k /\ atoms_in KU SU LU v.
Proof.
  intros KU SU LU kvs k v. induction kvs as [|kv r IH]; intros H Hin; [destruct Hin|].
  cbn [atoms_in] in H. destruct H as [H1 [H2 H3]]. destruct Hin as [Hin|Hin].
  - subst. cbn in H1, H2. tauto.
  - apply IH; assumption.
Qed.

Lemma flat_map_nil_inv : forall {A B} (f : A -> list B) l, flat_map f l = [] -> forall x, In x l -> f x = [].
Proof.
  induction l as [|a l IH]; intros H x Hx; [destruct Hx|].
  cbn [flat_map] in H. apply app_eq_nil in H. destruct H as [H1 H2].
  destruct Hx as [Hx|Hx]; [subst; exact H1|apply IH; assumption].
Qed.

(* ---- two dyadic rationals in lowest terms with the same value are the same pair ---- *)
Lemma pow2_shift_even : forall m m' a k : Z, (0 <= a)%Z -> (0 < k)%Z ->
  (m * 2 ^ (a + k) = m' * 2 ^ a)%Z -> Z.odd m' = false.
Proof.
  intros m m' a k Ha Hk H.
  rewrite Z.pow_add_r in H by lia.
  assert (2 ^ a <> 0)%Z as Hnz by (apply Z.pow_nonzero; lia).
  assert (m' = m * 2 ^ k)%Z as E.
  { apply (Z.mul_cancel_r _ _ (2 ^ a)%Z Hnz). rewrite <- H. ring. }
  replace k with (Z.succ (k - 1)) in E by lia. rewrite Z.pow_succ_r in E by lia.
  subst m'. rewrite !Z.odd_mul. cbn [Z.odd]. rewrite andb_false_r. reflexivity.
Qed.

Lemma dy_lowest_uniq : forall m e m' e',
  N.eqb e 0 || Z.odd m = true -> N.eqb e' 0 || Z.odd m' = true ->
  (m * 2 ^ Z.of_N e' = m' * 2 ^ Z.of_N e)%Z -> m = m' /\ e = e'.
Proof.
  intros m e m' e' C C' H.
  destruct (N.lt_trichotomy e e') as [L|[E|G]].
  - exfalso.
    assert (Z.odd m' = false) as K.
    { apply (pow2_shift_even m m' (Z.of_N e) (Z.of_N e' - Z.of_N e)); try lia.
      replace (Z.of_N e + (Z.of_N e' - Z.of_N e))%Z with (Z.of_N e') by lia. exact H. }
    assert (N.eqb e' 0 = false) as K2 by (apply N.eqb_neq; lia).
    rewrite K, K2 in C'. discriminate.
  - subst e'. split; [|reflexivity].
    assert (2 ^ Z.of_N e <> 0)%Z as Hnz by (apply Z.pow_nonzero; lia).
    exact (proj1 (Z.mul_cancel_r _ _ _ Hnz) H).
  - exfalso.
    assert (Z.odd m = false) as K.
    { apply (pow2_shift_even m' m (Z.of_N e') (Z.of_N e - Z.of_N e')); try lia.
      replace (Z.of_N e' + (Z.of_N e - Z.of_N e'))%Z with (Z.of_N e) by lia. symmetry. exact H. }
    assert (N.eqb e 0 = false) as K2 by (apply N.eqb_neq; lia).
    rewrite K, K2 in C. discriminate.
Qed.

(* atoms whose ==-class contains one representation only (floats: in lowest terms).  Not: datetimes (one instant in
   two zones), Decimals (the exponent), Enum members (the abstract type does not tie ord / value to class + name) *)
Definition plain_rep (a : atom) : bool :=
  match a with ADt _ _ | ADec _ _ | AEnum _ _ _ _ => false | _ => true end.
(* ... and the kind for which the universes below must say so (Decimals need nothing: see [dec_altL]) *)
Definition multi_rep (a : atom) : bool :=
  match a with AEnum _ _ _ _ => true | _ => false end.

(* ---- two ==-equal Decimals are alike for every option ---- *)
Lemma dec_rhe_py_eq : forall m e m' e' d, py_eq (ADec m e) (ADec m' e') = true -> dec_rhe m e d = dec_rhe m' e' d.
Proof.
  intros m e m' e' d H. rewrite !dec_rhe_krnd. unfold py_eq in H.
  destruct (qv (ADec m e)) as [x|] eqn:Ex; [|discriminate]. destruct (qv (ADec m' e')) as [y|] eqn:Ey; [|discriminate].
  pose proof (qv_pos _ _ Ex) as Px. pose proof (qv_pos _ _ Ey) as Py.
  unfold qv in Ex, Ey. injection Ex as Ex. injection Ey as Ey. subst x y. apply krnd_eq; assumption.
Qed.

Lemma dec_altL : forall F m e m' e', py_eq (ADec m e) (ADec m' e') = true -> altL F (ADec m e) (ADec m' e') = true.
Proof.
  intros F m e m' e' H. unfold altL.
  assert (num_ty_ok F (ADec m e) (ADec m' e') = true) as K1 by reflexivity.
  assert (match o_eps F with
          | Some _ => eps_rel F (ADec m e) (ADec m' e')
          | None => match eff_sig F with Some _ => sig_rel F (ADec m e) (ADec m' e') | None => py_eq (ADec m e) (ADec m' e') end
          end = true) as K2.
  { destruct (o_eps F) as [eps|] eqn:Ee.
    - unfold eps_rel. rewrite Ee. cbn [fl_of]. rewrite (dy_of_dec_eq _ _ _ _ H). apply is_close_refl.
    - destruct (eff_sig F) as [d|] eqn:Es; [|exact H]. unfold sig_rel. rewrite Es. cbn [sig_key].
      rewrite (dec_rhe_py_eq _ _ _ _ d H), Z.eqb_refl, orb_true_r. reflexivity. }
  rewrite K1, K2. cbn [andb]. rewrite orb_true_r. reflexivity.
Qed.

Lemma ckey_dec_pyeq : forall F m e m' e', py_eq (ADec m e) (ADec m' e') = true ->
  py_eq (ckey F (ADec m e)) (ckey F (ADec m' e')) = true.
Proof.
  intros F m e m' e' H. unfold ckey. destruct (cleaning F); [|exact H].
  cbn [clean_key]. destruct (eff_sig F) as [d|]; [|exact H].
  cbn [nstr]. rewrite (dec_rhe_py_eq _ _ _ _ d H). apply py_eq_refl.
Qed.

Lemma py_eq_same_ty : forall a b, py_eq a b = true -> atom_ty a = atom_ty b ->
  canon_atom a = true -> canon_atom b = true -> plain_rep a = true -> a = b.
Proof.
  intros a b H Ht Ca Cb Hp.
  destruct a; cbn [plain_rep] in Hp; try discriminate; destruct b; cbn [atom_ty] in Ht; try discriminate;
    unfold py_eq in H; cbn [qv num_of] in H; try discriminate.
  - reflexivity.
  - destruct b, b0; try reflexivity; vm_compute in H; discriminate.
  - unfold q_eqb in H. cbn [fst snd] in H. change (2 ^ Z.of_N 0)%Z with 1%Z in H. rewrite !Z.mul_1_r in H.
    apply Z.eqb_eq in H. subst. reflexivity.
  - unfold q_eqb in H. cbn [fst snd] in H. apply Z.eqb_eq in H. cbn [canon_atom] in Ca, Cb.
    destruct (dy_lowest_uniq _ _ _ _ Ca Cb H). subst. reflexivity.
  - apply pystr_eqb_eq in H. subst. reflexivity.
  - apply pystr_eqb_eq in H. subst. reflexivity.
  - apply Nat.eqb_eq in H. subst. reflexivity.
  - apply andb_true_iff in H. destruct H as [H H3]. apply andb_true_iff in H. destruct H as [H1 H2].
    apply Z.eqb_eq in H1, H2, H3. subst. reflexivity.
  - apply Z.eqb_eq in H. subst. reflexivity.
  - apply Z.eqb_eq in H. subst. reflexivity.
Qed.

Lemma atoms_in_list : forall KU SU LU xs,
  (fix go (l : list value) : Prop := match l with [] => True | x :: r => atoms_in KU SU LU x /\ go r end) xs ->
  Forall (atoms_in KU SU LU) xs.
Proof. induction xs as [|x xs IH]; intros H; constructor; [exact (proj1 H)|apply IH; exact (proj2 H)]. Qed.

Lemma Forall_skipn' : forall {A} (P : A -> Prop) n l, Forall P l -> Forall P (skipn n l).
Proof. induction n as [|n IH]; intros l H; [exact H|]. destruct H; cbn [skipn]; [constructor|apply IH; assumption]. Qed.
Lemma Forall_firstn' : forall {A} (P : A -> Prop) n l, Forall P l -> Forall P (firstn n l).
Proof. induction n as [|n IH]; intros l H; [constructor|]. destruct H; cbn [firstn]; [constructor|constructor; [assumption|apply IH; assumption]]. Qed.
Lemma Forall_slice' : forall {A} (P : A -> Prop) a b l, Forall P l -> Forall P (slice l a b).
Proof. intros. unfold slice. apply Forall_firstn', Forall_skipn'. assumption. Qed.

Lemma py_ne_false : forall a b, py_ne a b = false -> py_eq a b = true.
Proof.
  intros a b H. unfold py_ne in H. apply orb_false_iff in H. destruct H as [_ H]. apply negb_false_iff in H. exact H.
Qed.

Section Mono.
Variable F : opts.
Variable c : cfg.
Variable udiff : pystr -> pystr -> pystr.
Variable ops : path -> list value -> list value -> list opcode.
Notation F0 := no_opts.

Hypothesis thr_ok : thr_num c <= thr_den c.
Hypothesis list_mode : zip c = true \/ (o_excl F = [] /\ forall p xs ys, tiles (ops p xs ys) 0 0 (length xs) (length ys) = true).
(* difflib does not see the path (which differs between the two runs when keys are cleaned) *)
Hypothesis ops_path : forall p q xs ys, ops p xs ys = ops q xs ys.

Variable KU SU LU : atom -> Prop.
Hypothesis keys_typed : cleaning F = true -> forall k k', KU k -> KU k' -> py_eq k k' = true -> atom_ty k = atom_ty k'.
(* float keys are in lowest terms (true of every real float) *)
Hypothesis keys_canon : cleaning F = true -> forall k, KU k -> canon_atom k = true.
(* ==-equal Enum keys of the universe are one representation *)
Hypothesis keys_rigid : cleaning F = true -> forall k k', KU k -> KU k' -> multi_rep k = true ->
  atom_ty k = atom_ty k' -> py_eq k k' = true -> k = k'.
Hypothesis sets_inj : forall x y, SU x -> SU y -> hatomF F0 x = hatomF F0 y -> x = y.
(* datetime leaves that the plain run finds equal (same instant, a naive one read as UTC) are the same object
   representation: otherwise truncate_datetime / default_timezone can tell them apart (C11-TRUNC-BEFORE-TZ) *)
Hypothesis leaves_rigid : forall u1 o1 u2 o2, LU (ADt u1 o1) -> LU (ADt u2 o2) ->
  dt_changed None 0 (mkDt u1 o1) (mkDt u2 o2) = false -> ADt u1 o1 = ADt u2 o2.
(* float leaves are in lowest terms (true of every real float) *)
Hypothesis leaves_canon : forall a, LU a -> canon_atom a = true.
(* Enum member leaves of one class and name are one representation: otherwise the two "members" would be different
   objects *)
Hypothesis leaves_rigid2 : forall a b, LU a -> LU b -> multi_rep a = true -> atom_ty a = atom_ty b -> py_eq a b = true -> a = b.
Notation ain := (atoms_in KU SU LU).

(* ---- facts about the plain run ---- *)
Lemma reportF0_cons : forall k p1 p2 a b d, reportF F0 k p1 p2 a b d <> [].
Proof. intros. unfold reportF. destruct a, b; cbn; discriminate. Qed.
Lemma rep_atoms0_cons : forall k p1 p2 a b, rep_atoms F0 k p1 p2 a b <> [].
Proof. intros. unfold rep_atoms. apply reportF0_cons. Qed.

(* the plain comparison of two atoms never raises (YProofsSafe: every atom is quiet when no option is set) *)
Lemma leafR0_ok : forall a b p1 p2, exists es, leafR udiff F0 a b p1 p2 = Ok es.
Proof. intros. apply (leafR_quiet F0 udiff ops); apply quiet_no_opts. Qed.
Lemma leaf_core0_ok : forall a b p1 p2, exists es, leaf_core udiff F0 a b p1 p2 = Ok es.
Proof. intros. apply (leaf_core_quiet F0 udiff ops); apply quiet_no_opts. Qed.

Lemma plain_py_eq : forall a b, LU a -> LU b -> py_eq a b = true -> atom_ty a = atom_ty b ->
  (forall u o, a <> ADt u o) -> (forall m e, a <> ADec m e) -> a = b.
Proof.
  intros a b La Lb H Ht Hd Hnd. destruct (multi_rep a) eqn:Em; [apply leaves_rigid2; assumption|].
  apply py_eq_same_ty; auto.
  destruct a; try reflexivity; try discriminate; exfalso; [eapply Hd|eapply Hnd]; reflexivity.
Qed.

(* the monadic form (a Decimal: see [plain_altL]) *)
Lemma plain_atomR : forall a b p1 p2, LU a -> LU b -> (forall m e, a <> ADec m e) -> leafR udiff F0 a b p1 p2 = Ok [] -> a = b.
Proof.
  intros a b p1 p2 La Lb Hnd E.
  (* two members of one Enum class *)
  destruct (is_enum a && is_enum b && ty_eqb (atom_ty a) (atom_ty b)) eqn:Een.
  { destruct a; try discriminate; destruct b; try discriminate. cbn [is_enum andb atom_ty ty_eqb] in Een.
    cbn [leafR] in E. rewrite Een in E.
    destruct (pystr_eqb name name0) eqn:En.
    - apply leaves_rigid2; auto.
      + cbn [atom_ty]. apply pystr_eqb_eq in Een. subst. reflexivity.
      + unfold py_eq. cbn [qv num_of]. rewrite Een, En. reflexivity.
    - exfalso. cbn [excluded no_opts o_excl existsb] in E.
      assert (exists e es, leaf_core udiff F0 (AStr name) (AStr name0) (snoc p1 (PAttr attr_name)) (snoc p2 (PAttr attr_name)) = Ok (e :: es)) as [e [es K]].
      { unfold leaf_core. cbn [same_obj excluded no_opts o_excl existsb orb atom_ty ty_eqb o_nan andb dispatch].
        unfold strD. cbn [atom_ty str_like]. unfold diff_strF, lowif. cbn [o_case no_opts str_content].
        rewrite En. cbn [andb]. unfold reportF. cbn. eexists. eexists. reflexivity. }
      rewrite K in E. cbn [bind] in E.
      destruct (leaf_core0_ok (atom_of_e v) (atom_of_e v0) (snoc p1 (PAttr attr_value)) (snoc p2 (PAttr attr_value))) as [r2 K2].
      rewrite K2 in E. cbn [bind app] in E. discriminate. }
  assert (leaf_core udiff F0 a b p1 p2 = Ok []) as E'.
  { destruct a; try exact E. destruct b; try exact E. cbn [is_enum andb atom_ty ty_eqb] in Een.
    cbn [leafR] in E. rewrite Een in E. exact E. }
  clear E. unfold leaf_core in E'.
  destruct (same_obj a b) eqn:Es.
  { destruct a; try discriminate; destruct b; try discriminate; cbn [same_obj] in Es.
    - apply Nat.eqb_eq in Es. subst. reflexivity.
    - exfalso. cbn [is_enum andb atom_ty ty_eqb] in Een. rewrite Een in Es. discriminate. }
  cbn [excluded no_opts o_excl existsb orb] in E'.
  destruct (ty_eqb (atom_ty a) (atom_ty b)) eqn:Et.
  2:{ exfalso. cbn [same_group no_opts o_strty o_numty o_enum andb orb negb] in E'.
      injection E' as E'. eapply rep_atoms0_cons; exact E'. }
  cbn [no_opts o_nan andb] in E'. apply ty_eqb_eq in Et.
  assert (forall (T : Type) (x : bool) (r : list entry), Ok (if x then r else []) = Ok (@nil entry) -> r <> [] -> x = false) as Hif.
  { intros T x r K Hr. destruct x; [|reflexivity]. injection K as K. contradiction. }
  destruct a; cbn [dispatch] in E'.
  - destruct b; try discriminate. reflexivity.
  - apply (Hif unit) in E'; [|apply rep_atoms0_cons]. apply py_ne_false in E'. apply plain_py_eq; auto; discriminate.
  - unfold numD in E'. cbn [o_eps no_opts eff_sig o_sig o_numty] in E'.
    apply (Hif unit) in E'; [|apply rep_atoms0_cons]. apply py_ne_false in E'. apply plain_py_eq; auto; discriminate.
  - unfold numD in E'. cbn [o_eps no_opts eff_sig o_sig o_numty] in E'.
    apply (Hif unit) in E'; [|apply rep_atoms0_cons]. apply py_ne_false in E'. apply plain_py_eq; auto; discriminate.
  - destruct b; try discriminate. unfold strD in E'. cbn [atom_ty str_like] in E'.
    unfold diff_strF, lowif in E'. cbn [o_case no_opts str_content] in E'.
    destruct (pystr_eqb s s0) eqn:Ep; [apply pystr_eqb_eq in Ep; subst; reflexivity|].
    cbn [andb] in E'. exfalso. injection E' as E'. eapply reportF0_cons; exact E'.
  - destruct b; try discriminate. unfold strD in E'. cbn [atom_ty str_like] in E'.
    unfold diff_strF, lowif in E'. cbn [o_case no_opts str_content] in E'.
    destruct (pystr_eqb s s0) eqn:Ep; [apply pystr_eqb_eq in Ep; subst; reflexivity|].
    cbn [andb] in E'. exfalso. injection E' as E'. eapply reportF0_cons; exact E'.
  - destruct b; try discriminate. cbn [dtD o_trunc o_tz no_opts] in E'.
    apply (Hif unit) in E'; [|apply rep_atoms0_cons]. apply leaves_rigid; assumption.
  - exfalso. unfold numD in E'. cbn [o_eps no_opts eff_sig o_sig o_numty] in E'.
    apply (Hif unit) in E'; [|apply rep_atoms0_cons]. discriminate.
  - exfalso. eapply Hnd. reflexivity.
  - unfold timeD in E'. cbn [o_trunc no_opts] in E'.
    apply (Hif unit) in E'; [|apply rep_atoms0_cons]. apply py_ne_false in E'. apply plain_py_eq; auto; discriminate.
  - unfold timeD in E'. cbn [o_trunc no_opts] in E'.
    apply (Hif unit) in E'; [|apply rep_atoms0_cons]. apply py_ne_false in E'. apply plain_py_eq; auto; discriminate.
  - unfold timeD in E'. cbn [o_trunc no_opts] in E'.
    apply (Hif unit) in E'; [|apply rep_atoms0_cons]. apply py_ne_false in E'. apply plain_py_eq; auto; discriminate.
  - exfalso. destruct b; discriminate.
Qed.

(* two leaves the plain run finds equal are related under every option set: the same atom, or two ==-equal Decimals *)
Lemma plain_altL : forall a b p1 p2, LU a -> LU b -> leafR udiff F0 a b p1 p2 = Ok [] -> altL F a b = true.
Proof.
  intros a b p1 p2 La Lb E.
  assert ((exists m e, a = ADec m e) \/ (forall m e, a <> ADec m e)) as [[m [e Ea]]|Hnd]
    by (destruct a; try (right; discriminate); left; eauto).
  - subst a. cbn [leafR] in E. unfold leaf_core in E. cbn [same_obj excluded no_opts o_excl existsb orb] in E.
    destruct (ty_eqb (atom_ty (ADec m e)) (atom_ty b)) eqn:Et.
    2:{ exfalso. cbn [same_group no_opts o_strty o_numty o_enum andb orb negb] in E.
        injection E as E. eapply rep_atoms0_cons; exact E. }
    destruct b; try discriminate Et. cbn [no_opts o_nan andb dispatch] in E.
    unfold numD in E. cbn [o_eps no_opts eff_sig o_sig o_numty] in E.
    destruct (py_ne (ADec m e) (ADec m0 e0)) eqn:Ene; [exfalso; injection E as E; eapply rep_atoms0_cons; exact E|].
    apply dec_altL. apply py_ne_false. exact Ene.
  - rewrite (plain_atomR a b p1 p2 La Lb Hnd E). unfold altL. rewrite atom_eqb_refl. reflexivity.
Qed.

(* the projection (what is reported): the plain leaf comparison never raises, so an empty report is an empty result *)
Lemma plain_atom_altL : forall a b p1 p2, LU a -> LU b -> diff_atomF udiff F0 a b p1 p2 = [] -> altL F a b = true.
Proof.
  intros a b p1 p2 La Lb H. unfold diff_atomF in H.
  destruct (leafR0_ok a b p1 p2) as [es E]. rewrite E in H. subst es. eapply plain_altL; eassumption.
Qed.
Lemma plain_atom : forall a b p1 p2, LU a -> LU b -> (forall m e, a <> ADec m e) -> diff_atomF udiff F0 a b p1 p2 = [] -> a = b.
Proof.
  intros a b p1 p2 La Lb Hnd H. unfold diff_atomF in H.
  destruct (leafR0_ok a b p1 p2) as [es E]. rewrite E in H. subst es. eapply plain_atomR; eassumption.
Qed.

Lemma diffF_atom_refl : forall a q1 q2, diffF udiff ops c F (VAtom a) (VAtom a) q1 q2 = Ok ([], []).
Proof. intros a q1 q2. cbn [diffF]. rewrite leafR_refl. reflexivity. Qed.

Lemma leaf_mono : forall x y p1 p2, ain x -> ain y -> diff_leafF udiff F0 x y p1 p2 = [] -> leaf_eq udiff F x y.
Proof.
  intros x y p1 p2 Ax Ay H q1 q2. destruct x as [a| | | | |], y as [b| | | | |]; try reflexivity.
  cbn [diff_leafF atoms_in] in *. apply plain_atom_altL in H; auto. apply diff_atomF_altL. exact H.
Qed.

Lemma removed0_nil : forall xs i p1 p2, removed_fromF F0 xs i p1 p2 = [] -> xs = [].
Proof.
  intros [|x xs] i p1 p2 H; [reflexivity|]. cbn [removed_fromF] in H. apply app_eq_nil in H. destruct H as [H _].
  exfalso; eapply reportF0_cons; exact H.
Qed.
Lemma added0_nil : forall ys j p1 p2, added_fromF F0 ys j p1 p2 = [] -> ys = [].
Proof.
  intros [|y ys] j p1 p2 H; [reflexivity|]. cbn [added_fromF] in H. apply app_eq_nil in H. destruct H as [H _].
  exfalso; eapply reportF0_cons; exact H.
Qed.

Lemma pairs_mono : forall xs ys i j p1 p2 q1 q2,
  Forall ain xs -> Forall ain ys ->
  pairs_leafF udiff F0 xs ys i j p1 p2 = [] ->
  pairs_leafF udiff F xs ys i j q1 q2 = [] /\ (i = j -> Forall2 (leaf_eq udiff F) xs ys).
Proof.
  induction xs as [|x xs IH]; intros ys i j p1 p2 q1 q2 Ax Ay H; cbn [pairs_leafF] in *.
  - apply added0_nil in H. subst. split; [reflexivity|constructor].
  - destruct ys as [|y ys].
    + apply (removed0_nil (x :: xs)) in H. discriminate.
    + apply app_eq_nil in H. destruct H as [H1 H2].
      inversion Ax as [|? ? Ax1 Ax2]; inversion Ay as [|? ? Ay1 Ay2]; subst.
      destruct (IH ys (S i) (S j) p1 p2 q1 q2 Ax2 Ay2 H2) as [E HF].
      destruct (negb (Nat.eqb i j) && py_eq_leaf x y) eqn:Em.
      * exfalso; eapply reportF0_cons; exact H1.
      * pose proof (leaf_mono x y _ _ Ax1 Ay1 H1) as Hl. rewrite Hl, E. split; [reflexivity|].
        intros Hij. constructor; [exact Hl|apply HF; lia].
Qed.

Lemma by_opcodes_mono : forall os xs ys p1 p2 q1 q2,
  Forall ain xs -> Forall ain ys ->
  by_opcodesF udiff F0 os xs ys p1 p2 = [] -> by_opcodesF udiff F os xs ys q1 q2 = [].
Proof.
  intros os xs ys p1 p2 q1 q2 Ax Ay H. unfold by_opcodesF in *. apply flat_map_nil. intros o Ho.
  pose proof (flat_map_nil_inv _ _ H o Ho) as Hb. cbn beta in Hb.
  destruct (otag o).
  - reflexivity.
  - exact (proj1 (pairs_mono _ _ _ _ p1 p2 q1 q2 (Forall_slice' _ _ _ _ Ax) (Forall_slice' _ _ _ _ Ay) Hb)).
  - apply removed0_nil in Hb. rewrite Hb. reflexivity.
  - apply added0_nil in Hb. rewrite Hb. reflexivity.
Qed.

Lemma default_mono : forall xs ys p1 p2 q1 q2 rec,
  Forall ain xs -> Forall ain ys ->
  negb (zip c) = true ->
  default_leaf_listF udiff ops F0 xs ys p1 p2 = ([], rec) ->
  default_leaf_listF udiff ops F xs ys q1 q2 = ([], false).
Proof.
  intros xs ys p1 p2 q1 q2 rec Ax Ay Hz H. unfold default_leaf_listF in *.
  rewrite (ops_path q1 p1 xs ys).
  set (E0 := by_opcodesF udiff F0 (ops p1 xs ys) xs ys p1 p2) in *.
  destruct (Nat.ltb 1 (length E0)) eqn:El.
  - destruct (Nat.leb (length (pairs_leafF udiff F0 xs ys 0 0 p1 p2)) (length E0)) eqn:Ep.
    + injection H as Hp Hr.
      destruct (pairs_mono xs ys 0 0 p1 p2 q1 q2 Ax Ay Hp) as [_ HF]. specialize (HF eq_refl).
      destruct list_mode as [Hzip|[Hne Htile]]; [rewrite Hzip in Hz; discriminate|].
      pose proof (default_leaf_listF_nil udiff ops F Hne Htile xs ys q1 q2 HF) as K.
      unfold default_leaf_listF in K. rewrite (ops_path q1 p1 xs ys) in K. exact K.
    + injection H as He Hr. rewrite He in El. cbn in El. discriminate.
  - injection H as He Hr. subst E0.
    rewrite (by_opcodes_mono _ _ _ p1 p2 q1 q2 Ax Ay He). reflexivity.
Qed.

(* sets *)
Lemma fph_cover : forall (h : atom -> pystr) l seen x, In x l ->
  existsb (pystr_eqb (h x)) seen = true \/ exists x0, In x0 (first_per_hash h l seen) /\ h x0 = h x.
Proof.
  induction l as [|a l IH]; intros seen x Hx; [destruct Hx|].
  cbn [first_per_hash]. destruct Hx as [Hx|Hx].
  - subst. destruct (existsb (pystr_eqb (h x)) seen) eqn:E; [left; reflexivity|].
    right. exists x. split; [left; reflexivity|reflexivity].
  - destruct (existsb (pystr_eqb (h a)) seen) eqn:E.
    + apply IH; exact Hx.
    + destruct (IH (h a :: seen) x Hx) as [K|[x0 [K1 K2]]].
      * cbn [existsb] in K. apply orb_true_iff in K. destruct K as [K|K]; [|left; exact K].
        apply pystr_eqb_eq in K. right. exists a. split; [left; reflexivity|symmetry; exact K].
      * right. exists x0. split; [right; exact K1|exact K2].
Qed.

Lemma set_plain_side : forall (k : rkind) xs ys p1 p2,
  flat_map (fun y => if existsb (pystr_eqb (hatomF F0 y)) (map (hatomF F0) xs) then [] else report_setF F0 k y p1 p2)
           (first_per_hash (hatomF F0) ys []) = [] ->
  forall y, In y ys -> exists x, In x xs /\ hatomF F0 x = hatomF F0 y.
Proof.
  intros k xs ys p1 p2 H y Hy.
  destruct (fph_cover (hatomF F0) ys [] y Hy) as [K|[y0 [K1 K2]]]; [cbn in K; discriminate|].
  pose proof (flat_map_nil_inv _ _ H y0 K1) as Hb. cbn beta in Hb.
  destruct (existsb (pystr_eqb (hatomF F0 y0)) (map (hatomF F0) xs)) eqn:E.
  - apply existsb_exists in E. destruct E as [hx [Hin He]]. apply in_map_iff in Hin. destruct Hin as [x [Ex Hx]].
    subst hx. apply pystr_eqb_eq in He. exists x. split; [exact Hx|]. rewrite <- K2. symmetry. exact He.
  - unfold report_setF in Hb. cbn [excluded no_opts o_excl existsb] in Hb. discriminate.
Qed.

Lemma filter_excl0 : forall l : list atom, filter (fun a => negb (excl_hash F0 a)) l = l.
Proof. intros l. apply filter_all. intros x _. destruct x; reflexivity. Qed.

Lemma altS_refl : forall a, altS F a a = true.
Proof. intros a. unfold altS, altS0. rewrite atom_eqb_refl. reflexivity. Qed.

Lemma set_mono : forall xs ys p1 p2 q1 q2, Forall SU xs -> Forall SU ys ->
  diff_setF F0 xs ys p1 p2 = [] -> diff_setF F xs ys q1 q2 = [].
Proof.
  intros xs ys p1 p2 q1 q2 Hx Hy H. unfold diff_setF in H. rewrite !filter_excl0 in H.
  apply app_eq_nil in H. destruct H as [H1 H2].
  rewrite Forall_forall in Hx, Hy.
  apply diff_setF_cover.
  - intros x Hin Hh Hex. destruct (set_plain_side KSetRem ys xs p1 p2 H2 x Hin) as [y [Hyin Heq]].
    assert (y = x) as E by (apply sets_inj; auto). subst y.
    exists x. split; [exact Hyin|]. split; [exact Hh|]. left. apply altS_refl.
  - intros y Hin Hh Hex. destruct (set_plain_side KSetAdd xs ys p1 p2 H1 y Hin) as [x [Hxin Heq]].
    assert (x = y) as E by (apply sets_inj; auto). subst x.
    exists y. split; [exact Hxin|]. split; [exact Hh|]. left. apply altS_refl.
Qed.

Lemma set_err0 : forall xs ys, set_err F0 xs ys = None.
Proof.
  intros xs ys. unfold set_err. induction (xs ++ ys)%list as [|a l IH]; [reflexivity|].
  cbn [fold_right]. rewrite IH. destruct (excl_hash F0 a); reflexivity.
Qed.

(* dicts: the plain reports of added / removed keys *)
Lemma key_reports0_nil : forall kind cks other kvs p1 p2,
  key_reports F0 kind cks other [] kvs p1 p2 = [] -> forall ck, In ck cks -> mem_atom ck other = true.
Proof.
  induction cks as [|k r IH]; intros other kvs p1 p2 H ck Hck; [destruct Hck|].
  cbn [key_reports] in H. destruct (mem_atom k other) eqn:E.
  - destruct Hck as [Hck|Hck]; [subst; exact E|]. eapply IH; eassumption.
  - exfalso. apply app_eq_nil in H. destruct H as [H0 _].
    destruct kind; eapply reportF0_cons; exact H0.
Qed.

Lemma ckey_dt : forall u o, ckey F (ADt u o) = ADt u o.
Proof.
  clear keys_typed keys_canon keys_rigid. intros. unfold ckey. destruct (cleaning F); [|reflexivity].
  cbn [clean_key]. destruct (eff_sig F); reflexivity.
Qed.

Lemma ckey_pyeq : forall k k', KU k -> KU k' -> py_eq k k' = true -> py_eq (ckey F k) (ckey F k') = true.
Proof.
  intros k k' Hk Hk' H. destruct (cleaning F) eqn:Hc.
  - pose proof (keys_typed eq_refl k k' Hk Hk' H) as Ht.
    assert ((exists m e, k = ADec m e) \/ (forall m e, k <> ADec m e)) as [[m [e Ek]]|Hnd]
      by (destruct k; try (right; discriminate); left; eauto).
    { subst k. destruct k'; cbn in Ht; try discriminate. apply ckey_dec_pyeq. exact H. }
    assert ((exists u o, k = ADt u o) \/ k = k') as [[u [o E]]|E].
    { destruct (multi_rep k) eqn:Em; [right; apply keys_rigid; auto|].
      destruct (plain_rep k) eqn:Ep; [right; apply py_eq_same_ty; auto|].
      left. destruct k; try discriminate; [eauto|exfalso; eapply Hnd; reflexivity]. }
    + subst k. destruct k'; cbn in Ht; try discriminate. rewrite !ckey_dt. exact H.
    + subst k'. apply py_eq_refl.
  - rewrite !ckey_noclean by exact Hc. exact H.
Qed.

Lemma bind_nil : forall (x rest : res (list entry * list path)) r,
  bind x (fun a => bind rest (fun b => Ok (app2 a b))) = Ok ([], r) ->
  exists r1 r2, x = Ok ([], r1) /\ rest = Ok ([], r2).
Proof.
  intros [[e1 r1]|e] [[e2 r2]|e'] r H; cbn in H; try discriminate.
  injection H as H1 H2. apply app_eq_nil in H1. destruct H1; subst. eauto.
Qed.

Lemma atom_ty_not_container : forall a t, match t with TList | TTuple | TDict | TSet | TFrozen => True | _ => False end ->
  ty_eqb (atom_ty a) t = false /\ ty_eqb t (atom_ty a) = false.
Proof. intros a t H. destruct t; try contradiction; destruct a; split; reflexivity. Qed.

Theorem monotone_diff : forall t1 t2 p1 p2 q1 q2 r,
  diffF udiff ops c F0 t1 t2 p1 p2 = Ok ([], r) ->
  guard F c t1 = true -> guard F c t2 = true ->
  atoms_in KU SU LU t1 -> atoms_in KU SU LU t2 ->
  diffF udiff ops c F t1 t2 q1 q2 = Ok ([], []).
Proof.
  induction t1 as [a|xs IH|xs IH|kvs IH|xs|xs] using value_ind'; intros t2 p1 p2 q1 q2 r H Hg1 Hg2 Hu1 Hu2.
  { (* atom *)
    destruct t2 as [b|ys|ys|kvs2|ys|ys].
    - cbn [diffF] in H. destruct (leafR udiff F0 a b p1 p2) as [es|e] eqn:E; cbn [bind] in H; [|discriminate].
      injection H as H0 H1. subst es. cbn [atoms_in] in Hu1, Hu2. apply plain_altL in E; auto.
      cbn [diffF]. rewrite (leafR_altL udiff F a b q1 q2 E). reflexivity.
    - exfalso. cbn [diffF] in H. cbn [excluded no_opts o_excl existsb orb o_enum andb negb type_of] in H.
      rewrite (proj1 (atom_ty_not_container a TList I)) in H. cbn [negb andb] in H. injection H as H0 H1. eapply reportF0_cons; exact H0.
    - exfalso. cbn [diffF] in H. cbn [excluded no_opts o_excl existsb orb o_enum andb negb type_of] in H.
      rewrite (proj1 (atom_ty_not_container a TTuple I)) in H. cbn [negb andb] in H. injection H as H0 H1. eapply reportF0_cons; exact H0.
    - exfalso. cbn [diffF] in H. cbn [excluded no_opts o_excl existsb orb o_enum andb negb type_of] in H.
      rewrite (proj1 (atom_ty_not_container a TDict I)) in H. cbn [negb andb] in H. injection H as H0 H1. eapply reportF0_cons; exact H0.
    - exfalso. cbn [diffF] in H. cbn [excluded no_opts o_excl existsb orb o_enum andb negb type_of] in H.
      rewrite (proj1 (atom_ty_not_container a TSet I)) in H. cbn [negb andb] in H. injection H as H0 H1. eapply reportF0_cons; exact H0.
    - exfalso. cbn [diffF] in H. cbn [excluded no_opts o_excl existsb orb o_enum andb negb type_of] in H.
      rewrite (proj1 (atom_ty_not_container a TFrozen I)) in H. cbn [negb andb] in H. injection H as H0 H1. eapply reportF0_cons; exact H0. }
  all: cbn [diffF] in H; cbn [excluded no_opts o_excl existsb orb] in H; cbn [o_enum no_opts andb negb] in H;
    rewrite andb_true_r in H;
    (destruct (ty_eqb (type_of _) (type_of t2)) eqn:Et; cbn [negb] in H;
      [|exfalso; injection H as H0 H1; eapply reportF0_cons; exact H0]).
  - (* list *)
    destruct t2 as [b|ys|ys|kvs2|ys|ys]; cbn in Et; try discriminate; try (destruct b; discriminate).
    cbn [diffF]. destruct (excluded F (type_of (VList xs)) || excluded F (type_of (VList ys))); [reflexivity|].
    cbn [type_of ty_eqb negb andb].
    cbn [guard] in Hg1, Hg2. apply andb_true_iff in Hg1. destruct Hg1 as [Hg1 Hi1].
    apply andb_true_iff in Hg2. destruct Hg2 as [Hg2 Hi2].
    destruct (negb (zip c) && forallb is_basic xs && forallb is_basic ys) eqn:Ed.
    + destruct (default_leaf_err udiff ops F0 xs ys p1 p2); [discriminate|].
      destruct (default_leaf_listF udiff ops F0 xs ys p1 p2) as [es rec] eqn:E0. inversion H; subst.
      apply andb_true_iff in Ed. destruct Ed as [Ed Hy]. apply andb_true_iff in Ed. destruct Ed as [Hz Hx].
      cbn [atoms_in] in Hu1, Hu2.
      pose proof Hz as Hz'. apply negb_true_iff in Hz'.
      rewrite (default_leaf_err_quiet F udiff ops xs ys q1 q2 (items_ok_quiet F c xs Hi1 Hz' Hx) (items_ok_quiet F c ys Hi2 Hz' Hy)).
      rewrite (default_mono xs ys p1 p2 q1 q2 rec (atoms_in_list _ _ _ _ Hu1) (atoms_in_list _ _ _ _ Hu2) Hz E0). reflexivity.
    + clear Ed Et Hi1 Hi2. cbn [atoms_in] in Hu1, Hu2. revert H. generalize 0 as i. revert r ys Hg2 Hu2.
      induction xs as [|x xs IHxs]; intros r ys Hg2 Hu2 i H.
      * injection H as H0 H1. apply added0_nil in H0. subst. reflexivity.
      * destruct ys as [|y ys]; [injection H as H0 H1; apply (removed0_nil (x :: xs)) in H0; discriminate|].
        apply bind_nil in H. destruct H as [r1 [r2 [Hx Hr]]].
        inversion IH as [|? ? IHx IHr]; subst.
        cbn [forallb] in Hg1, Hg2. apply andb_true_iff in Hg1. destruct Hg1 as [Hg1a Hg1b].
        apply andb_true_iff in Hg2. destruct Hg2 as [Hg2a Hg2b].
        destruct Hu1 as [Hu1a Hu1b]. destruct Hu2 as [Hu2a Hu2b].
        rewrite (IHx y _ _ (snoc q1 (PIdx i)) (snoc q2 (PIdx i)) r1 Hx Hg1a Hg2a Hu1a Hu2a). cbn [bind].
        rewrite (IHxs IHr Hg1b Hu1b r2 ys Hg2b Hu2b (S i) Hr). reflexivity.
  - (* tuple *)
    destruct t2 as [b|ys|ys|kvs2|ys|ys]; cbn in Et; try discriminate; try (destruct b; discriminate).
    cbn [diffF]. destruct (excluded F (type_of (VTuple xs)) || excluded F (type_of (VTuple ys))); [reflexivity|].
    cbn [type_of ty_eqb negb andb].
    cbn [guard] in Hg1, Hg2. apply andb_true_iff in Hg1. destruct Hg1 as [Hg1 Hi1].
    apply andb_true_iff in Hg2. destruct Hg2 as [Hg2 Hi2].
    destruct (negb (zip c) && forallb is_basic xs && forallb is_basic ys) eqn:Ed.
    + destruct (default_leaf_err udiff ops F0 xs ys p1 p2); [discriminate|].
      destruct (default_leaf_listF udiff ops F0 xs ys p1 p2) as [es rec] eqn:E0. inversion H; subst.
      apply andb_true_iff in Ed. destruct Ed as [Ed Hy]. apply andb_true_iff in Ed. destruct Ed as [Hz Hx].
      cbn [atoms_in] in Hu1, Hu2.
      pose proof Hz as Hz'. apply negb_true_iff in Hz'.
      rewrite (default_leaf_err_quiet F udiff ops xs ys q1 q2 (items_ok_quiet F c xs Hi1 Hz' Hx) (items_ok_quiet F c ys Hi2 Hz' Hy)).
      rewrite (default_mono xs ys p1 p2 q1 q2 rec (atoms_in_list _ _ _ _ Hu1) (atoms_in_list _ _ _ _ Hu2) Hz E0). reflexivity.
    + clear Ed Et Hi1 Hi2. cbn [atoms_in] in Hu1, Hu2. revert H. generalize 0 as i. revert r ys Hg2 Hu2.
      induction xs as [|x xs IHxs]; intros r ys Hg2 Hu2 i H.
      * injection H as H0 H1. apply added0_nil in H0. subst. reflexivity.
      * destruct ys as [|y ys]; [injection H as H0 H1; apply (removed0_nil (x :: xs)) in H0; discriminate|].
        apply bind_nil in H. destruct H as [r1 [r2 [Hx Hr]]].
        inversion IH as [|? ? IHx IHr]; subst.
        cbn [forallb] in Hg1, Hg2. apply andb_true_iff in Hg1. destruct Hg1 as [Hg1a Hg1b].
        apply andb_true_iff in Hg2. destruct Hg2 as [Hg2a Hg2b].
        destruct Hu1 as [Hu1a Hu1b]. destruct Hu2 as [Hu2a Hu2b].
        rewrite (IHx y _ _ (snoc q1 (PIdx i)) (snoc q2 (PIdx i)) r1 Hx Hg1a Hg2a Hu1a Hu2a). cbn [bind].
        rewrite (IHxs IHr Hg1b Hu1b r2 ys Hg2b Hu2b (S i) Hr). reflexivity.
  - (* dict *)
    destruct t2 as [b|ys|ys|kvs2|ys|ys]; cbn in Et; try discriminate; try (destruct b; discriminate).
    unfold kmap, ckeys in H. cbn [cleaning no_opts o_strty o_numty o_case orb bind] in H.
    set (ks1 := keys_of c kvs) in *. set (ks2 := keys_of c kvs2) in *.
    destruct (shortcutF c ks1 ks2); [exfalso; injection H as H0 H1; eapply reportF0_cons; exact H0|].
    match type of H with bind ?G _ = _ => destruct G as [[ce cr]|e] eqn:Ecom end; cbn [bind fst snd] in H; [|discriminate].
    injection H as H0 H1. apply app_eq_nil in H0. destruct H0 as [Eadd H0]. apply app_eq_nil in H0. destruct H0 as [Erem Hc]. subst.
    pose proof (key_reports0_nil _ _ _ _ _ _ Eadd) as P2. pose proof (key_reports0_nil _ _ _ _ _ _ Erem) as P1.
    (* now the run under F *)
    subst ks1 ks2. cbn [diffF]. destruct (excluded F (type_of (VDict kvs)) || excluded F (type_of (VDict kvs2))); [reflexivity|].
    cbn [type_of ty_eqb negb andb].
    pose proof Hg1 as Hg1'. pose proof Hg2 as Hg2'.
    cbn [guard] in Hg1', Hg2'. apply andb_true_iff in Hg1'. destruct Hg1' as [Hk1 _].
    apply andb_true_iff in Hg2'. destruct Hg2' as [Hk2 _].
    destruct (kmap_spec F _ Hk1) as [km1 [E1 [Ec1 [Eo1 Er1]]]].
    destruct (kmap_spec F _ Hk2) as [km2 [E2 [Ec2 [Eo2 Er2]]]].
    destruct (keys_good_parts F _ Hk1) as [Hn1 [Hok1 Hnc1]].
    destruct (keys_good_parts F _ Hk2) as [Hn2 [Hok2 Hnc2]].
    rewrite E1, E2. cbn [bind]. rewrite Ec1, Ec2.
    set (ks1 := keys_of c kvs) in *. set (ks2 := keys_of c kvs2) in *.
    assert (forall k, In k ks1 -> KU k) as KU1.
    { intros k Hk. apply keys_of_In in Hk. destruct Hk as [Hk _]. apply in_map_iff in Hk. destruct Hk as [[k0 v0] [E Hin]].
      cbn in E. subst. exact (proj1 (atoms_in_dict KU SU LU kvs k v0 Hu1 Hin)). }
    assert (forall k, In k ks2 -> KU k) as KU2.
    { intros k Hk. apply keys_of_In in Hk. destruct Hk as [Hk _]. apply in_map_iff in Hk. destruct Hk as [[k0 v0] [E Hin]].
      cbn in E. subst. exact (proj1 (atoms_in_dict KU SU LU kvs2 k v0 Hu2 Hin)). }
    assert (forall ck, In ck (map (ckey F) ks2) -> mem_atom ck (map (ckey F) ks1) = true) as M2.
    { intros ck Hck. apply in_map_iff in Hck. destruct Hck as [k' [E Hk']]. subst ck.
      pose proof (P2 k' Hk') as Hm. apply mem_atom_In in Hm. destruct Hm as [k [Hk Hpe]].
      apply mem_atom_In. exists (ckey F k). split; [apply in_map; exact Hk|]. apply ckey_pyeq; auto. }
    assert (forall ck, In ck (map (ckey F) ks1) -> mem_atom ck (map (ckey F) ks2) = true) as M1.
    { intros ck Hck. apply in_map_iff in Hck. destruct Hck as [k [E Hk]]. subst ck.
      pose proof (P1 k Hk) as Hm. apply mem_atom_In in Hm. destruct Hm as [k' [Hk' Hpe]].
      apply mem_atom_In. exists (ckey F k'). split; [apply in_map; exact Hk'|]. apply ckey_pyeq; auto. }
    rewrite (shortcutF_cover c _ _ thr_ok M2 M1).
    rewrite (key_reports_all_mem F KDictAdd _ _ km2 kvs2 q1 q2 M2).
    rewrite (key_reports_all_mem F KDictRem _ _ km1 kvs q1 q2 M1).
    match goal with |- bind ?G _ = _ => assert (G = Ok ([], [])) as Hgo end.
    { assert (forall k v, In (k, v) kvs -> keep_key c k = true -> In (k, v) (kept c kvs)) as Hsub
        by (intros k v K1 K2; apply kept_In; split; assumption).
      assert (forall k v, In (k, v) kvs -> atoms_in KU SU LU v) as Hsu
        by (intros k v K1; exact (proj2 (atoms_in_dict KU SU LU kvs k v Hu1 K1))).
      clear E1 Hk1 Et Eadd Erem P2 Hu1. revert r Ecom Hsub Hsu IH. generalize kvs at 1 2 4 5 6 as l.
      induction l as [|[k v1] rl IHr]; intros r Ecom Hsub Hsu IH; [reflexivity|].
      inversion IH as [|? ? Hx Hxs]; subst. cbn [snd] in Hx.
      apply bind_nil in Ecom. destruct Ecom as [r1 [r2 [Ehere Erest]]].
      rewrite (IHr r2 Erest (fun k' v' K => Hsub k' v' (or_intror K)) (fun k' v' K => Hsu k' v' (or_intror K)) Hxs).
      destruct (keep_key c k) eqn:Hkeep; [|reflexivity].
      pose proof (Hsub k v1 (or_introl eq_refl) Hkeep) as Hkv.
      pose proof (kept_key_In c kvs k v1 Hkv) as Hk. fold ks1 in Hk.
      rewrite (Er1 k Hk).
      unfold repr_ckey, orig_key in Ehere. cbn [cleaning no_opts o_strty o_numty o_case orb] in Ehere.
      destruct (find (py_eq k) ks2) as [k'|] eqn:Ef0.
      2:{ exfalso. pose proof (P1 k Hk) as Hm. apply find_mem in Hm. destruct Hm as [k0 Hm]. congruence. }
      apply find_some in Ef0. destruct Ef0 as [Hk' Hpe0].
      assert (py_eq (ckey F k) (ckey F k') = true) as Hpe by (apply ckey_pyeq; auto).
      destruct (find (py_eq (ckey F k)) (map (ckey F) ks2)) as [ck'|] eqn:Ef.
      2:{ exfalso. eapply find_none in Ef; [|apply in_map; exact Hk']. congruence. }
      apply find_some in Ef. destruct Ef as [Hin Hpe2].
      assert (ck' = ckey F k') as Eck.
      { apply (nodup_atoms_uniq _ _ _ Hnc2 Hin (in_map _ _ _ Hk')).
        rewrite py_eq_sym in Hpe2. eapply py_eq_trans; eassumption. }
      subst ck'.
      rewrite (Eo2 k' Hk').
      destruct (assoc k' kvs2) as [v2|] eqn:Ea; [|reflexivity].
      pose proof Ea as Ea'. apply assoc_In in Ea'. destruct Ea' as [k2 [Hin2 Hpe3]].
      assert (In (k2, v2) (kept c kvs2)) as Hkv2.
      { apply kept_In. split; [exact Hin2|]. rewrite (keep_key_eqv c k2 k' Hpe3).
        apply keys_of_In in Hk'. tauto. }
      rewrite (Hx v2 _ _ _ _ r1 Ehere (guard_dict_val F c _ _ _ Hg1 Hkv) (guard_dict_val F c _ _ _ Hg2 Hkv2)
                 (Hsu k v1 (or_introl eq_refl)) (proj2 (atoms_in_dict KU SU LU kvs2 k2 v2 Hu2 Hin2))). reflexivity. }
    rewrite Hgo. reflexivity.
  - (* set *)
    destruct t2 as [b|ys|ys|kvs2|ys|ys]; cbn in Et; try discriminate; try (destruct b; discriminate).
    rewrite set_err0 in H. injection H as H0 H1.
    cbn [diffF]. destruct (excluded F (type_of (VSet xs)) || excluded F (type_of (VSet ys))); [reflexivity|].
    cbn [type_of ty_eqb negb andb]. cbn [atoms_in] in Hu1, Hu2. cbn [guard] in Hg1, Hg2.
    rewrite (set_err_ok F xs ys Hg1 Hg2).
    rewrite (set_mono xs ys p1 p2 q1 q2 Hu1 Hu2 H0). reflexivity.
  - (* frozenset *)
    destruct t2 as [b|ys|ys|kvs2|ys|ys]; cbn in Et; try discriminate; try (destruct b; discriminate).
    rewrite set_err0 in H. injection H as H0 H1.
    cbn [diffF]. destruct (excluded F (type_of (VFrozen xs)) || excluded F (type_of (VFrozen ys))); [reflexivity|].
    cbn [type_of ty_eqb negb andb]. cbn [atoms_in] in Hu1, Hu2. cbn [guard] in Hg1, Hg2.
    rewrite (set_err_ok F xs ys Hg1 Hg2).
    rewrite (set_mono xs ys p1 p2 q1 q2 Hu1 Hu2 H0). reflexivity.
Qed.

End Mono.

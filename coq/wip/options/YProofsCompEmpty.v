(** (round-3 extended universe) C11: the WEAK form of option composition, which survives in BOTH list modes (the
    entry-wise embedding of YProofsCompStruct.v fails in the default mode: YProofsCompDefault.v): if the option set G
    has every option of F ([ole F G]) and the diff under F is EMPTY then so is the diff under G - for ALL values.

    Guards: those of [comp_diff] ([pair_ok] on leaves, the set-member hypothesis, [stable] on dicts), no threshold
    hypothesis, and in the default (difflib) mode exclude_types empty under both option sets and opcodes that tile
    the two lists (as for the first clause).
    What the difflib / pairwise passes REPORT is the projection of the monadic leaf function (an Err projects to []);
    "the F run is Ok" says that the pairs it compared did not raise, each at the empty path ([atom_err]); whether a
    leaf comparison raises does not depend on the paths ([leafR_err_path]), so an empty F report of a compared pair is
    a genuine [leafR = Ok []] and [leafR_mono] applies. *)
From Coq Require Import List ZArith NArith Bool Arith Lia.
Import ListNotations.
From DD Require Import Base.PyStr Options.OptModel Options.OptDtModel Options.YValue Options.YModel
  Options.YProofsBase Options.YProofsAtoms Options.YProofsKeys Options.YProofsLists Options.YProofsSafe Options.YProofsAlt
  Options.YProofsMono Options.YProofsRun Options.YProofsCompNum Options.YProofsComp Options.YProofsCompStruct.

Lemma covers_nil_inv : forall es, covers [] es -> es = [].
Proof. intros [|e es] H; [reflexivity|]. destruct (H e (or_introl eq_refl)) as [e' [[] _]]. Qed.

(* ---- reports under an option set without exclude_types are never empty ---- *)
Section NoExcl.
Variable H : opts.
Hypothesis no_excl : o_excl H = [].
Lemma reportH_cons : forall k p1 p2 a b d, reportF H k p1 p2 a b d <> [].
Proof. intros. unfold reportF, excl_opt, excluded. rewrite no_excl. destruct a, b; cbn; discriminate. Qed.
Lemma removedH_nil : forall xs i p1 p2, removed_fromF H xs i p1 p2 = [] -> xs = [].
Proof.
  intros [|x xs] i p1 p2 E; [reflexivity|]. cbn [removed_fromF] in E. apply app_eq_nil in E. destruct E as [E _].
  exfalso; eapply reportH_cons; exact E.
Qed.
Lemma addedH_nil : forall ys j p1 p2, added_fromF H ys j p1 p2 = [] -> ys = [].
Proof.
  intros [|y ys] j p1 p2 E; [reflexivity|]. cbn [added_fromF] in E. apply app_eq_nil in E. destruct E as [E _].
  exfalso; eapply reportH_cons; exact E.
Qed.
End NoExcl.

(* ---- whether a leaf comparison raises does not depend on the paths ---- *)
Section ErrPath.
Variable udiff : pystr -> pystr -> pystr.
Variable H : opts.

Lemma numD_err_path : forall rtc a b p1 p2 q1 q2, err_of (numD H rtc a b p1 p2) = err_of (numD H rtc a b q1 q2).
Proof.
  intros. unfold numD. destruct (o_eps H).
  - destruct (fl_of a) as [[x|]|]; destruct (fl_of b) as [[y|]|]; reflexivity.
  - destruct (eff_sig H) as [d|]; [|reflexivity].
    destruct (ntxt H d a) as [ta|]; [|reflexivity]. destruct (ntxt H d b) as [tb|]; [|reflexivity].
    cbn [bind]. destruct ta, tb; reflexivity.
Qed.
Lemma strD_err_path : forall a b p1 p2 q1 q2, err_of (strD udiff H a b p1 p2) = err_of (strD udiff H a b q1 q2).
Proof.
  intros. unfold strD. destruct (str_like (atom_ty b)); [reflexivity|]. destruct (o_case H); [reflexivity|].
  destruct (_ && _); reflexivity.
Qed.
Lemma timeD_err_path : forall a b p1 p2 q1 q2, err_of (timeD H a b p1 p2) = err_of (timeD H a b q1 q2).
Proof.
  intros. unfold timeD. destruct (o_trunc H); [|reflexivity].
  destruct (norm_any H a); [|reflexivity]. cbn [bind]. destruct (norm_any H b); reflexivity.
Qed.
Lemma dtD_err_path : forall a b p1 p2 q1 q2, err_of (dtD H a b p1 p2) = err_of (dtD H a b q1 q2).
Proof.
  intros.
  assert (err_of (bind (norm_any H a) (fun a' => bind (norm_any H b) (fun b' => Ok (rep_atoms H KValue p1 p2 a' b')))) =
          err_of (bind (norm_any H a) (fun a' => bind (norm_any H b) (fun b' => Ok (rep_atoms H KValue q1 q2 a' b'))))) as K.
  { destruct (norm_any H a); [|reflexivity]. cbn [bind]. destruct (norm_any H b); reflexivity. }
  destruct a; try exact K. destruct b; exact K.
Qed.
Lemma dispatch_err_path : forall rtc a b p1 p2 q1 q2,
  err_of (dispatch udiff H rtc a b p1 p2) = err_of (dispatch udiff H rtc a b q1 q2).
Proof.
  intros. destruct a; cbn [dispatch]; try reflexivity;
    first [apply numD_err_path|apply strD_err_path|apply timeD_err_path|apply dtD_err_path].
Qed.
Lemma leaf_core_err_path : forall a b p1 p2 q1 q2,
  err_of (leaf_core udiff H a b p1 p2) = err_of (leaf_core udiff H a b q1 q2).
Proof.
  intros. unfold leaf_core. destruct (same_obj a b); [reflexivity|].
  destruct (excluded H _ || excluded H _); [reflexivity|].
  destruct (ty_eqb _ _).
  - destruct (o_nan H && _ && _); [reflexivity|]. apply dispatch_err_path.
  - destruct (negb _ && negb _); [reflexivity|]. destruct (is_none _ || is_none _); [reflexivity|].
    destruct (o_nan H && _ && _); [reflexivity|]. apply dispatch_err_path.
Qed.
Theorem leafR_err_path : forall a b p1 p2 q1 q2,
  err_of (leafR udiff H a b p1 p2) = err_of (leafR udiff H a b q1 q2).
Proof.
  intros. unfold leafR.
  destruct a; try apply leaf_core_err_path. destruct b; try apply leaf_core_err_path.
  destruct (pystr_eqb cls cls0); [|apply leaf_core_err_path].
  destruct (pystr_eqb name name0); [reflexivity|]. destruct (excluded H _); [reflexivity|].
  pose proof (leaf_core_err_path (AStr name) (AStr name0) (snoc p1 (PAttr attr_name)) (snoc p2 (PAttr attr_name))
                (snoc q1 (PAttr attr_name)) (snoc q2 (PAttr attr_name))) as K1.
  pose proof (leaf_core_err_path (atom_of_e v) (atom_of_e v0) (snoc p1 (PAttr attr_value)) (snoc p2 (PAttr attr_value))
                (snoc q1 (PAttr attr_value)) (snoc q2 (PAttr attr_value))) as K2.
  destruct (leaf_core udiff H (AStr name) (AStr name0) (snoc p1 _) _), (leaf_core udiff H (AStr name) (AStr name0) (snoc q1 _) _);
    cbn [err_of bind] in *; try discriminate; try exact K1.
  destruct (leaf_core udiff H (atom_of_e v) (atom_of_e v0) (snoc p1 _) _), (leaf_core udiff H (atom_of_e v) (atom_of_e v0) (snoc q1 _) _);
    cbn [err_of bind] in *; try discriminate; try exact K2; reflexivity.
Qed.

(* a pair that does not raise and reports nothing is a genuine empty comparison, at any path *)
Corollary leafR_ok_nil : forall a b p1 p2, atom_err udiff H a b = None -> diff_atomF udiff H a b p1 p2 = [] ->
  leafR udiff H a b p1 p2 = Ok [].
Proof.
  intros a b p1 p2 He Hd. unfold atom_err in He. rewrite (leafR_err_path a b [] [] p1 p2) in He.
  unfold diff_atomF in Hd. destruct (leafR udiff H a b p1 p2); [subst; reflexivity|discriminate].
Qed.
End ErrPath.

Section Empty.
Variable udiff : pystr -> pystr -> pystr.
Variable ops : path -> list value -> list value -> list opcode.
Variable c : cfg.
Variable F G : opts.
Hypothesis HFG : ole F G.
Variable KU SU LU : atom -> Prop.
Hypothesis sets_stable : forall x y, SU x -> SU y -> hatomF F x = hatomF F y ->
  hatomF G x = hatomF G y /\ excl_hash G x = excl_hash G y.
Hypothesis leaves_ok : forall a b, LU a -> LU b -> pair_ok F G a b.
(* positional mode, or (default mode) no exclude_types and valid difflib opcodes *)
Hypothesis list_mode : zip c = true \/
  (o_excl F = [] /\ o_excl G = [] /\ forall p xs ys, tiles (ops p xs ys) 0 0 (length xs) (length ys) = true).
Notation ain := (atoms_in KU SU LU).

(* ---- leaves ---- *)
Lemma leafR_empty : forall a b p1 p2 q1 q2, LU a -> LU b ->
  leafR udiff F a b p1 p2 = Ok [] -> diff_atomF udiff G a b q1 q2 = [].
Proof.
  intros a b p1 p2 q1 q2 La Lb E. unfold diff_atomF.
  destruct (leafR udiff G a b q1 q2) as [eG|e] eqn:EG; [|reflexivity].
  exact (leafR_mono udiff F G HFG a b p1 p2 q1 q2 eG (leaves_ok a b La Lb) E EG).
Qed.

Lemma leaf_FG : forall x y p1 p2, ain x -> ain y -> leaf_err udiff F x y = None ->
  diff_leafF udiff F x y p1 p2 = [] -> leaf_eq udiff G x y.
Proof.
  intros x y p1 p2 Ax Ay He E q1 q2. destruct x as [a| | | | |], y as [b| | | | |]; try reflexivity.
  cbn [diff_leafF atoms_in leaf_err] in *.
  eapply leafR_empty; try eassumption. apply leafR_ok_nil; eassumption.
Qed.

Lemma first_err_none : forall a b, first_err a b = None -> a = None /\ b = None.
Proof. intros [e|] b H; cbn in H; [discriminate|]. split; [reflexivity|exact H]. Qed.

Lemma pairs_FG : forall xs ys i j p1 p2 q1 q2, o_excl F = [] ->
  Forall ain xs -> Forall ain ys -> pairs_err udiff F xs ys i j = None ->
  pairs_leafF udiff F xs ys i j p1 p2 = [] ->
  pairs_leafF udiff G xs ys i j q1 q2 = [] /\ (i = j -> Forall2 (leaf_eq udiff G) xs ys).
Proof.
  induction xs as [|x xs IH]; intros ys i j p1 p2 q1 q2 Hne Ax Ay He E; cbn [pairs_leafF] in *.
  - apply (addedH_nil F Hne) in E. subst. split; [reflexivity|constructor].
  - destruct ys as [|y ys].
    + apply (removedH_nil F Hne (x :: xs)) in E. discriminate.
    + apply app_eq_nil in E. destruct E as [E1 E2].
      inversion Ax as [|? ? Ax1 Ax2]; inversion Ay as [|? ? Ay1 Ay2]; subst.
      cbn [pairs_err] in He. apply first_err_none in He. destruct He as [He1 He2].
      destruct (IH ys (S i) (S j) p1 p2 q1 q2 Hne Ax2 Ay2 He2 E2) as [K HF'].
      destruct (negb (Nat.eqb i j) && py_eq_leaf x y) eqn:Em.
      * exfalso; eapply (reportH_cons F Hne); exact E1.
      * pose proof (leaf_FG x y _ _ Ax1 Ay1 He1 E1) as Hl. rewrite Hl, K. split; [reflexivity|].
        intros Hij. constructor; [exact Hl|apply HF'; lia].
Qed.

Lemma by_opcodes_FG : forall os xs ys p1 p2 q1 q2, o_excl F = [] ->
  Forall ain xs -> Forall ain ys -> by_opcodes_err udiff F os xs ys = None ->
  by_opcodesF udiff F os xs ys p1 p2 = [] -> by_opcodesF udiff G os xs ys q1 q2 = [].
Proof.
  induction os as [|o os IH]; intros xs ys p1 p2 q1 q2 Hne Ax Ay He E; [reflexivity|].
  unfold by_opcodesF, by_opcodes_err in *. cbn [flat_map fold_right] in *.
  apply app_eq_nil in E. destruct E as [Hb E2]. apply first_err_none in He. destruct He as [He1 He2].
  rewrite (IH xs ys p1 p2 q1 q2 Hne Ax Ay He2 E2), app_nil_r.
  destruct (otag o).
  - reflexivity.
  - exact (proj1 (pairs_FG _ _ _ _ p1 p2 q1 q2 Hne (Forall_slice' _ _ _ _ Ax) (Forall_slice' _ _ _ _ Ay) He1 Hb)).
  - apply (removedH_nil F Hne) in Hb. rewrite Hb. reflexivity.
  - apply (addedH_nil F Hne) in Hb. rewrite Hb. reflexivity.
Qed.

Lemma default_FG : forall xs ys p1 p2 q2 rec,
  o_excl F = [] -> o_excl G = [] -> (forall p xs ys, tiles (ops p xs ys) 0 0 (length xs) (length ys) = true) ->
  Forall ain xs -> Forall ain ys -> default_leaf_err udiff ops F xs ys p1 p2 = None ->
  default_leaf_listF udiff ops F xs ys p1 p2 = ([], rec) ->
  default_leaf_listF udiff ops G xs ys p1 q2 = ([], false).
Proof.
  intros xs ys p1 p2 q2 rec HnF HnG Htile Ax Ay He E. unfold default_leaf_listF in E. unfold default_leaf_err in He.
  apply first_err_none in He. destruct He as [He1 He2].
  set (E0 := by_opcodesF udiff F (ops p1 xs ys) xs ys p1 p2) in *.
  destruct (Nat.ltb 1 (length E0)) eqn:El.
  - destruct (Nat.leb (length (pairs_leafF udiff F xs ys 0 0 p1 p2)) (length E0)) eqn:Ep.
    + injection E as Hp Hr.
      destruct (pairs_FG xs ys 0 0 p1 p2 p1 q2 HnF Ax Ay He2 Hp) as [_ HF']. specialize (HF' eq_refl).
      exact (default_leaf_listF_nil udiff ops G HnG Htile xs ys p1 q2 HF').
    + injection E as He Hr. rewrite He in El. cbn in El. discriminate.
  - injection E as He Hr. subst E0. unfold default_leaf_listF.
    rewrite (by_opcodes_FG _ _ _ p1 p2 p1 q2 HnF Ax Ay He1 He). reflexivity.
Qed.

(* ---- the theorem ---- *)
Theorem comp_empty_diff : forall t1 t2 p1 p2 q2 r rG,
  stable c F G t1 = true -> stable c F G t2 = true -> ain t1 -> ain t2 ->
  diffF udiff ops c F t1 t2 p1 p2 = Ok ([], r) -> diffF udiff ops c G t1 t2 p1 q2 = Ok rG -> fst rG = [].
Proof.
  assert (forall t1 t2 p1 p2 q2 r rG, is_atom t1 && is_atom t2 = false -> ty_eqb (type_of t1) (type_of t2) = false ->
          diffF udiff ops c F t1 t2 p1 p2 = Ok ([], r) -> diffF udiff ops c G t1 t2 p1 q2 = Ok rG -> fst rG = []) as Mis.
  { intros t1 t2 p1 p2 q2 r rG Hna Hty EF EG. apply covers_nil_inv.
    exact (mismatch_covers udiff ops c F G HFG t1 t2 p1 p2 q2 _ rG Hna Hty EF EG). }
  induction t1 as [a|xs IH|xs IH|kvs IH|xs|xs] using value_ind'; intros t2 p1 p2 q2 r rG S1 S2 U1 U2 EF EG.
  - (* atom *)
    destruct t2 as [b|ys|ys|kvs2|ys|ys];
      try (eapply Mis; [| |exact EF|exact EG]; [reflexivity|destruct a; reflexivity]).
    cbn [diffF] in EF, EG. cbn [atoms_in] in U1, U2.
    destruct (bind_ok _ _ _ EF) as [eF [LF KF]]. destruct (bind_ok _ _ _ EG) as [eG [LG KG]].
    injection KF as KF1 KF2. injection KG as KG. subst eF rG. cbn [fst].
    exact (leafR_mono udiff F G HFG a b p1 p2 p1 q2 eG (leaves_ok a b U1 U2) LF LG).
  - (* list *)
    destruct (ty_eqb (type_of (VList xs)) (type_of t2)) eqn:Ety; [|eapply Mis; [| |exact EF|exact EG]; [reflexivity|exact Ety]].
    destruct t2 as [b|ys|ys|kvs2|ys|ys]; try discriminate Ety; [destruct b; discriminate Ety|].
    cbn [diffF] in EF, EG. cbn [type_of ty_eqb negb andb] in EF, EG.
    destruct (excluded F TList || excluded F TList) eqn:ExF.
    { rewrite (excl_le2 F G HFG _ _ ExF) in EG. injection EG as EG. subst rG. reflexivity. }
    destruct (excluded G TList || excluded G TList); [injection EG as EG; subst rG; reflexivity|].
    cbn [stable] in S1, S2.
    cbn [atoms_in] in U1, U2. apply atoms_in_list in U1. apply atoms_in_list in U2.
    destruct (negb (zip c) && forallb is_basic xs && forallb is_basic ys) eqn:Ed.
    + (* the default mode *)
      apply andb_true_iff in Ed. destruct Ed as [Ed Hy]. apply andb_true_iff in Ed. destruct Ed as [Hz Hx].
      apply negb_true_iff in Hz.
      destruct list_mode as [Hzip|[HnF [HnG Htile]]]; [congruence|].
      destruct (default_leaf_err udiff ops F xs ys p1 p2) eqn:ErF; [discriminate|].
      destruct (default_leaf_err udiff ops G xs ys p1 q2); [discriminate|].
      destruct (default_leaf_listF udiff ops F xs ys p1 p2) as [esF recF] eqn:DF. injection EF as EF1 EF2. subst esF.
      rewrite (default_FG xs ys p1 p2 q2 recF HnF HnG Htile U1 U2 ErF DF) in EG.
      injection EG as EG. subst rG. reflexivity.
    + (* item by item *)
      clear ExF Ety Ed. revert EF EG. generalize 0 as i. revert ys S2 U2 r rG.
      induction xs as [|x xs IHxs]; intros ys S2 U2 r rG i EF EG.
      * injection EF as EF1 EF2. injection EG as EG. subst rG. cbn [fst]. apply covers_nil_inv. rewrite <- EF1. apply (added_covers F G HFG).
      * destruct ys as [|y ys].
        { injection EF as EF1 EF2. injection EG as EG. subst rG. cbn [fst]. apply covers_nil_inv. rewrite <- EF1. apply (removed_covers F G HFG (x :: xs)). }
        apply bind_nil in EF. destruct EF as [r1 [r2 [E1F E2F]]].
        destruct (bind_ok _ _ _ EG) as [r1G [E1G KG]]. destruct (bind_ok _ _ _ KG) as [r2G [E2G KG']]. injection KG' as KG'. subst rG.
        inversion IH as [|? ? IHx IHr]; subst.
        cbn [forallb] in S1, S2. apply andb_true_iff in S1. destruct S1 as [S1a S1b]. apply andb_true_iff in S2. destruct S2 as [S2a S2b].
        inversion U1 as [|? ? U1a U1b]; inversion U2 as [|? ? U2a U2b]; subst.
        unfold app2. cbn [fst].
        rewrite (IHx y _ _ _ _ _ S1a S2a U1a U2a E1F E1G).
        rewrite (IHxs IHr S1b U1b ys S2b U2b _ _ (S i) E2F E2G). reflexivity.
  - (* tuple *)
    destruct (ty_eqb (type_of (VTuple xs)) (type_of t2)) eqn:Ety; [|eapply Mis; [| |exact EF|exact EG]; [reflexivity|exact Ety]].
    destruct t2 as [b|ys|ys|kvs2|ys|ys]; try discriminate Ety; [destruct b; discriminate Ety|].
    cbn [diffF] in EF, EG. cbn [type_of ty_eqb negb andb] in EF, EG.
    destruct (excluded F TTuple || excluded F TTuple) eqn:ExF.
    { rewrite (excl_le2 F G HFG _ _ ExF) in EG. injection EG as EG. subst rG. reflexivity. }
    destruct (excluded G TTuple || excluded G TTuple); [injection EG as EG; subst rG; reflexivity|].
    cbn [stable] in S1, S2.
    cbn [atoms_in] in U1, U2. apply atoms_in_list in U1. apply atoms_in_list in U2.
    destruct (negb (zip c) && forallb is_basic xs && forallb is_basic ys) eqn:Ed.
    + apply andb_true_iff in Ed. destruct Ed as [Ed Hy]. apply andb_true_iff in Ed. destruct Ed as [Hz Hx].
      apply negb_true_iff in Hz.
      destruct list_mode as [Hzip|[HnF [HnG Htile]]]; [congruence|].
      destruct (default_leaf_err udiff ops F xs ys p1 p2) eqn:ErF; [discriminate|].
      destruct (default_leaf_err udiff ops G xs ys p1 q2); [discriminate|].
      destruct (default_leaf_listF udiff ops F xs ys p1 p2) as [esF recF] eqn:DF. injection EF as EF1 EF2. subst esF.
      rewrite (default_FG xs ys p1 p2 q2 recF HnF HnG Htile U1 U2 ErF DF) in EG.
      injection EG as EG. subst rG. reflexivity.
    + clear ExF Ety Ed. revert EF EG. generalize 0 as i. revert ys S2 U2 r rG.
      induction xs as [|x xs IHxs]; intros ys S2 U2 r rG i EF EG.
      * injection EF as EF1 EF2. injection EG as EG. subst rG. cbn [fst]. apply covers_nil_inv. rewrite <- EF1. apply (added_covers F G HFG).
      * destruct ys as [|y ys].
        { injection EF as EF1 EF2. injection EG as EG. subst rG. cbn [fst]. apply covers_nil_inv. rewrite <- EF1. apply (removed_covers F G HFG (x :: xs)). }
        apply bind_nil in EF. destruct EF as [r1 [r2 [E1F E2F]]].
        destruct (bind_ok _ _ _ EG) as [r1G [E1G KG]]. destruct (bind_ok _ _ _ KG) as [r2G [E2G KG']]. injection KG' as KG'. subst rG.
        inversion IH as [|? ? IHx IHr]; subst.
        cbn [forallb] in S1, S2. apply andb_true_iff in S1. destruct S1 as [S1a S1b]. apply andb_true_iff in S2. destruct S2 as [S2a S2b].
        inversion U1 as [|? ? U1a U1b]; inversion U2 as [|? ? U2a U2b]; subst.
        unfold app2. cbn [fst].
        rewrite (IHx y _ _ _ _ _ S1a S2a U1a U2a E1F E1G).
        rewrite (IHxs IHr S1b U1b ys S2b U2b _ _ (S i) E2F E2G). reflexivity.
  - (* dict *)
    destruct (ty_eqb (type_of (VDict kvs)) (type_of t2)) eqn:Ety; [|eapply Mis; [| |exact EF|exact EG]; [reflexivity|exact Ety]].
    destruct t2 as [b|ys|ys|kvs2|ys|ys]; try discriminate Ety; [destruct b; discriminate Ety|].
    cbn [diffF] in EF, EG. cbn [type_of ty_eqb negb andb] in EF, EG.
    destruct (excluded F TDict || excluded F TDict) eqn:ExF.
    { rewrite (excl_le2 F G HFG _ _ ExF) in EG. injection EG as EG. subst rG. reflexivity. }
    destruct (excluded G TDict || excluded G TDict); [injection EG as EG; subst rG; reflexivity|].
    destruct (stable_dict c F G kvs S1) as [N1 [A1F [A1G V1]]]. destruct (stable_dict c F G kvs2 S2) as [N2 [A2F [A2G V2]]].
    set (ks1 := keys_of c kvs) in *. set (ks2 := keys_of c kvs2) in *.
    destruct (kmap_alone F ks1 N1 A1F) as [km1F [M1F [C1F [O1F R1F]]]]. destruct (kmap_alone F ks2 N2 A2F) as [km2F [M2F [C2F [O2F R2F]]]].
    destruct (kmap_alone G ks1 N1 A1G) as [km1G [M1G [C1G [O1G R1G]]]]. destruct (kmap_alone G ks2 N2 A2G) as [km2G [M2G [C2G [O2G R2G]]]].
    rewrite M1F, M2F in EF. rewrite M1G, M2G in EG. cbn [bind] in EF, EG. rewrite C1F, C2F in EF. rewrite C1G, C2G in EG.
    destruct (shortcutF c ks1 ks2).
    { injection EF as EF1 EF2. injection EG as EG. subst rG. cbn [fst]. eapply (reportF_mono F G HFG); exact EF1. }
    destruct (bind_ok _ _ _ EF) as [cF [GF KF]]. injection KF as KF1 KF2.
    destruct (bind_ok _ _ _ EG) as [cG [GG KG]]. injection KG as KG. subst rG. cbn [fst].
    apply app_eq_nil in KF1. destruct KF1 as [Ad KF1]. apply app_eq_nil in KF1. destruct KF1 as [Re Co].
    assert (key_reports G KDictAdd ks2 ks1 km2G kvs2 p1 q2 = []) as AdG
      by (apply covers_nil_inv; rewrite <- Ad; apply (key_reports_covers F G HFG); assumption).
    assert (key_reports G KDictRem ks1 ks2 km1G kvs p1 q2 = []) as ReG
      by (apply covers_nil_inv; rewrite <- Re; apply (key_reports_covers F G HFG); assumption).
    rewrite AdG, ReG. cbn [app].
    (* the common keys *)
    destruct cF as [ceF crF]. cbn [fst snd] in Co. subst ceF.
    clear EF EG ExF Ety S1 Ad Re AdG ReG KF2. revert crF cG GF GG.
    match type of IH with Forall ?P _ =>
    match goal with |- forall crF cG, ?gF kvs = Ok ([], crF) -> ?gG kvs = Ok cG -> _ =>
      assert (forall l, (forall k v, In (k, v) l -> In (k, v) kvs) -> Forall P l ->
              forall crF cG, gF l = Ok ([], crF) -> gG l = Ok cG -> fst cG = []) as Hgo end end.
    { clear IH. induction l as [|[k v1] rl IHr]; intros Hsub IH crF cG GF GG.
      + injection GG as GG. subst cG. reflexivity.
      + apply bind_nil in GF. destruct GF as [r1 [r2 [HF' RF]]].
        destruct (bind_ok _ _ _ GG) as [xG [HG' KG]]. destruct (bind_ok _ _ _ KG) as [restG [RG KG']]. injection KG' as KG'. subst cG.
        inversion IH as [|? ? Hx Hxs]; subst. cbn [snd] in Hx.
        unfold app2. cbn [fst]. rewrite (IHr (fun k' v' K => Hsub k' v' (or_intror K)) Hxs r2 restG RF RG), app_nil_r.
        destruct (keep_key c k) eqn:Hkeep; [|injection HG' as HG'; subst xG; reflexivity].
        pose proof (Hsub k v1 (or_introl eq_refl)) as Hin.
        assert (In k ks1) as Hk by (apply keys_of_In_intro; [change k with (fst (k, v1)); apply in_map; exact Hin|exact Hkeep]).
        rewrite (R1F k Hk) in HF'. rewrite (R1G k Hk) in HG'.
        destruct (find (py_eq k) ks2) as [ck'|] eqn:Ef; [|injection HG' as HG'; subst xG; reflexivity].
        apply find_some in Ef. destruct Ef as [Hk' _].
        rewrite (O2F ck' Hk') in HF'. rewrite (O2G ck' Hk') in HG'.
        destruct (assoc ck' kvs2) as [v2|] eqn:Ea; [|injection HG' as HG'; subst xG; reflexivity].
        apply assoc_In in Ea. destruct Ea as [k2 [Hin2 Hpe]].
        assert (keep_key c k2 = true) as Hkeep2.
        { rewrite (keep_key_eqv c k2 ck' Hpe). apply keys_of_In in Hk'. tauto. }
        exact (Hx v2 _ _ _ _ _ (V1 k v1 Hin Hkeep) (V2 k2 v2 Hin2 Hkeep2)
                 (proj2 (atoms_in_dict KU SU LU kvs k v1 U1 Hin)) (proj2 (atoms_in_dict KU SU LU kvs2 k2 v2 U2 Hin2)) HF' HG'). }
    intros crF cG GF GG. exact (Hgo kvs (fun _ _ K => K) IH crF cG GF GG).
  - (* set *)
    destruct (ty_eqb (type_of (VSet xs)) (type_of t2)) eqn:Ety; [|eapply Mis; [| |exact EF|exact EG]; [reflexivity|exact Ety]].
    destruct t2 as [b|ys|ys|kvs2|ys|ys]; try discriminate Ety; [destruct b; discriminate Ety|].
    cbn [diffF] in EF, EG. cbn [type_of ty_eqb negb andb] in EF, EG.
    destruct (excluded F TSet || excluded F TSet) eqn:ExF.
    { rewrite (excl_le2 F G HFG _ _ ExF) in EG. injection EG as EG. subst rG. reflexivity. }
    destruct (excluded G TSet || excluded G TSet); [injection EG as EG; subst rG; reflexivity|].
    destruct (set_err F xs ys); [discriminate|]. destruct (set_err G xs ys); [discriminate|].
    injection EF as EF1 EF2. injection EG as EG. subst rG. cbn [fst]. cbn [atoms_in] in U1, U2.
    exact (diff_setF_mono F G HFG SU sets_stable xs ys p1 p2 p1 q2 U1 U2 EF1).
  - (* frozenset *)
    destruct (ty_eqb (type_of (VFrozen xs)) (type_of t2)) eqn:Ety; [|eapply Mis; [| |exact EF|exact EG]; [reflexivity|exact Ety]].
    destruct t2 as [b|ys|ys|kvs2|ys|ys]; try discriminate Ety; [destruct b; discriminate Ety|].
    cbn [diffF] in EF, EG. cbn [type_of ty_eqb negb andb] in EF, EG.
    destruct (excluded F TFrozen || excluded F TFrozen) eqn:ExF.
    { rewrite (excl_le2 F G HFG _ _ ExF) in EG. injection EG as EG. subst rG. reflexivity. }
    destruct (excluded G TFrozen || excluded G TFrozen); [injection EG as EG; subst rG; reflexivity|].
    destruct (set_err F xs ys); [discriminate|]. destruct (set_err G xs ys); [discriminate|].
    injection EF as EF1 EF2. injection EG as EG. subst rG. cbn [fst]. cbn [atoms_in] in U1, U2.
    exact (diff_setF_mono F G HFG SU sets_stable xs ys p1 p2 p1 q2 U1 U2 EF1).
Qed.

(* the whole run *)
Theorem comp_empty_run : forall t1 t2 r rG,
  stable c F G t1 = true -> stable c F G t2 = true -> ain t1 -> ain t2 ->
  run_optF udiff ops c F t1 t2 = Ok ([], r) -> run_optF udiff ops c G t1 t2 = Ok rG -> fst rG = [].
Proof.
  intros t1 t2 r rG S1 S2 U1 U2 EF EG. unfold run_optF in *.
  destruct (bind_ok _ _ _ EF) as [dF [DF KF]]. injection KF as KF1 KF2. apply mutual_nil in KF1.
  destruct (bind_ok _ _ _ EG) as [dG [DG KG]]. injection KG as KG. subst rG. cbn [fst].
  destruct dF as [eF pF]. cbn [fst] in KF1. subst eF.
  rewrite (comp_empty_diff t1 t2 [] [] [] pF dG S1 S2 U1 U2 DF DG). reflexivity.
Qed.

End Empty.

(* ---------------------------------------------------------------------- *)
(* non-vacuity, in the DEFAULT list mode                                    *)
(* ---------------------------------------------------------------------- *)
From Coq Require Import String.
Local Open Scope string_scope.
Local Open Scope Z_scope.
Definition ce_ud (_ _ : pystr) : pystr := [].
(* opcodes that tile any two lists (one block) *)
Definition ce_ops (_ : path) (xs ys : list value) : list opcode :=
  match xs, ys with
  | [], [] => []
  | [], _ => [mkOp OInsert 0 0 0 (List.length ys)]
  | _, [] => [mkOp ODelete 0 (List.length xs) 0 0]
  | _, _ => [mkOp OReplace 0 (List.length xs) 0 (List.length ys)]
  end.
Lemma ce_ops_tiles : forall p xs ys, tiles (ce_ops p xs ys) 0 0 (List.length xs) (List.length ys) = true.
Proof.
  intros p [|x xs] [|y ys]; cbn [ce_ops tiles op_shape otag oi1 oi2 oj1 oj2 List.length Nat.eqb Nat.leb Nat.ltb andb];
    rewrite ?Nat.eqb_refl; reflexivity.
Qed.
Definition ce_def : cfg := mkCfg false 33 100 true.
Definition ce_S (s : string) : atom := AStr (s2p s).
(* F = ignore_nan_inequality, G = F + math_epsilon = 0.5 *)
Definition ce_F := mkOpts false false false None None [] None 0 true false false.
Definition ce_G := mkOpts false false false None (Some (1, 1%N)) [] None 0 true false false.
Lemma ce_ole : ole ce_F ce_G.
Proof. constructor; try (intros; assumption); try discriminate; try (left; reflexivity); try (right; split; reflexivity); split; reflexivity. Qed.

(* all-basic lists (handed to difflib) with two different nan objects, a float, two representations of one Decimal;
   a tuple with a nested list (compared item by item); a set *)
Definition ce_t1 : value :=
  VDict [(ce_S "l", VList [VAtom (ANan 1); VAtom (AFloat 3 1); VAtom (ADec 15 (-1))]);
         (ce_S "t", VTuple [VAtom (ANan 1); VList [VAtom (ADec 15 (-1))]]); (ce_S "s", VSet [AInt 1])].
Definition ce_t2 : value :=
  VDict [(ce_S "l", VList [VAtom (ANan 2); VAtom (AFloat 3 1); VAtom (ADec 150 (-2))]);
         (ce_S "t", VTuple [VAtom (ANan 3); VList [VAtom (ADec 150 (-2))]]); (ce_S "s", VSet [AInt 1])].
Definition ce_LU (a : atom) : Prop := YProofsDec.is_double a = true.
Definition ce_SU (a : atom) : Prop := a = AInt 1.

Example ce_comp_empty_instance :
  ce_t1 <> ce_t2 /\
  run_optF ce_ud ce_ops ce_def ce_F ce_t1 ce_t2 = Ok ([], []) /\
  forall rG, run_optF ce_ud ce_ops ce_def ce_G ce_t1 ce_t2 = Ok rG -> fst rG = [].
Proof.
  split; [discriminate|]. split; [vm_compute; reflexivity|]. intros rG EG.
  refine (comp_empty_run ce_ud ce_ops ce_def ce_F ce_G ce_ole (fun _ => True) ce_SU ce_LU _ _ _ ce_t1 ce_t2 [] rG _ _ _ _ _ EG).
  - intros x y Hx Hy _. unfold ce_SU in *. subst. split; reflexivity.
  - intros a b Ha Hb. unfold ce_LU in *. split; [right; split; assumption|left; reflexivity].
  - right. split; [reflexivity|]. split; [reflexivity|exact ce_ops_tiles].
  - reflexivity.
  - reflexivity.
  - cbn. unfold ce_SU, ce_LU. repeat split; auto; repeat constructor.
  - cbn. unfold ce_SU, ce_LU. repeat split; auto; repeat constructor.
  - vm_compute. reflexivity.
Qed.
(* ... and G's run is indeed Ok (so the conclusion is not vacuous) *)
Example ce_comp_empty_computes : run_optF ce_ud ce_ops ce_def ce_G ce_t1 ce_t2 = Ok ([], []).
Proof. vm_compute. reflexivity. Qed.

(** (round-3 extended universe) Run-level statements (after mutual_add_removes_to_become_value_changes) and
    the positional "copy" relation. *)
From Coq Require Import List ZArith NArith Bool Arith Lia.
Import ListNotations.
From DD Require Import Base.PyStr Options.OptModel Options.OptDtModel Options.YValue Options.YModel
  Options.YProofsBase Options.YProofsAtoms Options.YProofsKeys Options.YProofsLists
  Options.YProofsSafe Options.YProofsAlt Options.YProofsMono.

(* mutual_add_removes never empties a non-empty tree *)
Lemma last_with_path_nil : forall p, last_with_path p [] = None.
Proof. reflexivity. Qed.

Lemma mutual_nil : forall es, mutual es = [] -> es = [].
Proof.
  intros es H. destruct es as [|e es]; [reflexivity|]. exfalso.
  unfold mutual in H.
  set (added := filter (is_kind KIterAdd) (e :: es)) in *.
  set (removed := filter (is_kind KIterRem) (e :: es)) in *.
  pose proof (flat_map_nil_inv _ _ H) as Hall. cbn beta in Hall.
  (* every entry maps to []: so it is an iterable_item_added with a removed entry at its path *)
  assert (removed <> []) as Hne.
  { specialize (Hall e (or_introl eq_refl)).
    destruct (ekind e) eqn:Ek; try discriminate.
    - destruct (last_with_path (ep1 e) removed) eqn:El; [|discriminate].
      intros Hr. rewrite Hr in El. cbn in El. discriminate.
    - destruct (last_with_path (ep1 e) added); [destruct (last_with_path (ep1 e) removed)|]; discriminate. }
  destruct removed as [|r0 rs] eqn:Er; [contradiction|].
  assert (In r0 (filter (is_kind KIterRem) (e :: es))) as Hin by (fold removed; rewrite Er; left; reflexivity).
  apply filter_In in Hin. destruct Hin as [Hin Hk].
  specialize (Hall r0 Hin). unfold is_kind in Hk.
  destruct (ekind r0); cbn in Hk; try discriminate.
  destruct (last_with_path (ep1 r0) added); [destruct (last_with_path (ep1 r0) (r0 :: rs))|]; discriminate.
Qed.

Section Run.
Variable F : opts.
Variable c : cfg.
Variable udiff : pystr -> pystr -> pystr.
Variable ops : path -> list value -> list value -> list opcode.

Lemma run_plain_nil : forall t1 t2 r, run_optF udiff ops c no_opts t1 t2 = Ok ([], r) ->
  diffF udiff ops c no_opts t1 t2 [] [] = Ok ([], r).
Proof.
  intros t1 t2 r H. unfold run_optF in H.
  destruct (diffF udiff ops c no_opts t1 t2 [] []) as [[es rr]|e]; cbn in H; [|discriminate].
  injection H as H1 H2. apply mutual_nil in H1. subst. reflexivity.
Qed.

(* second clause, whole run.  The hypotheses on the universes KU / SU / LU of dict keys / set members / leaves:
   as before (keys of one ==-class have one type when keys are cleaned; plain hash texts of set members do not collide;
   equal datetime leaves are one representation), and - since == on numbers is now by value - floats are in lowest
   terms and ==-equal Enum members of a universe are one representation (YProofsMono; Decimals need nothing). *)
Theorem monotone_run :
  thr_num c <= thr_den c ->
  (zip c = true \/ (o_excl F = [] /\ forall p xs ys, tiles (ops p xs ys) 0 0 (length xs) (length ys) = true)) ->
  (forall p q xs ys, ops p xs ys = ops q xs ys) ->
  forall KU SU LU : atom -> Prop,
  (cleaning F = true -> forall k k', KU k -> KU k' -> py_eq k k' = true -> atom_ty k = atom_ty k') ->
  (cleaning F = true -> forall k, KU k -> canon_atom k = true) ->
  (cleaning F = true -> forall k k', KU k -> KU k' -> multi_rep k = true -> atom_ty k = atom_ty k' -> py_eq k k' = true -> k = k') ->
  (forall x y, SU x -> SU y -> hatomF no_opts x = hatomF no_opts y -> x = y) ->
  (forall u1 o1 u2 o2, LU (ADt u1 o1) -> LU (ADt u2 o2) ->
     dt_changed None 0 (mkDt u1 o1) (mkDt u2 o2) = false -> ADt u1 o1 = ADt u2 o2) ->
  (forall a, LU a -> canon_atom a = true) ->
  (forall a b, LU a -> LU b -> multi_rep a = true -> atom_ty a = atom_ty b -> py_eq a b = true -> a = b) ->
  forall t1 t2 r,
  run_optF udiff ops c no_opts t1 t2 = Ok ([], r) ->
  guard F c t1 = true -> guard F c t2 = true -> atoms_in KU SU LU t1 -> atoms_in KU SU LU t2 ->
  run_optF udiff ops c F t1 t2 = Ok ([], []).
Proof.
  intros Hthr Hmode Hpath KU SU LU Hkt Hkc Hkr Hsi Hlr Hlc Hlr2 t1 t2 r H G1 G2 U1 U2.
  apply run_plain_nil in H. unfold run_optF.
  rewrite (monotone_diff F c udiff ops Hthr Hmode Hpath KU SU LU Hkt Hkc Hkr Hsi Hlr Hlc Hlr2 t1 t2 [] [] [] [] r H G1 G2 U1 U2). reflexivity.
Qed.

(* third clause at run level: under the guard [safe] of YProofsSafe (every atom quiet, keys / set members key_quiet /
   member_quiet) the run under the options does not raise - whatever the plain run did *)
Theorem no_new_raise_run : forall t1 t2 r,
  run_optF udiff ops c no_opts t1 t2 = Ok r ->
  safe F t1 = true -> safe F t2 = true -> exists r', run_optF udiff ops c F t1 t2 = Ok r'.
Proof. intros t1 t2 r _ S1 S2. apply never_raises_run; assumption. Qed.

(* ---- a positional copy altered by the code-following atom relations is [alt] ---- *)
Definition altKx (a b : atom) : bool := altK F a b.
(* a set member that plays no role: DeepHash skips it, or exclude_types hides it from the report *)
Definition hidden (a : atom) : bool := excl_hash F a || excluded F (atom_ty a).
(* two related members that are both hashed, or two members that are both hidden *)
Definition altSx (a b : atom) : bool :=
  (altS F a b && negb (excl_hash F a) && negb (excl_hash F b))
  || (hidden a && hidden b).
Inductive copy : value -> value -> Prop :=
| cp_atom : forall a b, altL F a b = true -> copy (VAtom a) (VAtom b)
| cp_excl : forall v w, excluded F (type_of v) = true -> excluded F (type_of w) = true -> copy v w
| cp_list : forall xs ys, Forall2 copy xs ys -> copy (VList xs) (VList ys)
| cp_tuple : forall xs ys, Forall2 copy xs ys -> copy (VTuple xs) (VTuple ys)
| cp_dict : forall kvs1 kvs2,
    Forall2 (fun e1 e2 => altK F (fst e1) (fst e2) = true /\ copy (snd e1) (snd e2)) (kept c kvs1) (kept c kvs2) ->
    copy (VDict kvs1) (VDict kvs2)
| cp_set : forall xs ys, Forall2 (fun a b => altSx a b = true) xs ys -> copy (VSet xs) (VSet ys)
| cp_frozen : forall xs ys, Forall2 (fun a b => altSx a b = true) xs ys -> copy (VFrozen xs) (VFrozen ys).

Lemma Forall2_In_l : forall {A B} (R : A -> B -> Prop) l1 l2 x, Forall2 R l1 l2 -> In x l1 -> exists y, In y l2 /\ R x y.
Proof.
  induction 1; intros Hin; [destruct Hin|]. destruct Hin as [Hin|Hin].
  - subst. eexists. split; [left; reflexivity|assumption].
  - destruct (IHForall2 Hin) as [y' [H1 H2]]. exists y'. split; [right; exact H1|exact H2].
Qed.
Lemma Forall2_In_r : forall {A B} (R : A -> B -> Prop) l1 l2 y, Forall2 R l1 l2 -> In y l2 -> exists x, In x l1 /\ R x y.
Proof.
  induction 1; intros Hin; [destruct Hin|]. destruct Hin as [Hin|Hin].
  - subst. eexists. split; [left; reflexivity|assumption].
  - destruct (IHForall2 Hin) as [x' [H1 H2]]. exists x'. split; [right; exact H1|exact H2].
Qed.

Lemma scover_l : forall xs ys, Forall2 (fun a b => altSx a b = true) xs ys -> scover F xs ys.
Proof.
  intros xs ys H x Hx Hh Hex. destruct (Forall2_In_l _ _ _ x H Hx) as [y [Hy R]].
  unfold altSx in R. apply orb_true_iff in R. destruct R as [R|R].
  - apply andb_true_iff in R. destruct R as [R Ry]. apply andb_true_iff in R. destruct R as [R _].
    apply negb_true_iff in Ry. exists y. split; [exact Hy|]. split; [exact Ry|left; exact R].
  - apply andb_true_iff in R. destruct R as [R _]. unfold hidden in R. rewrite Hh, Hex in R. discriminate.
Qed.
Lemma scover_r : forall xs ys, Forall2 (fun a b => altSx a b = true) xs ys -> scover F ys xs.
Proof.
  intros xs ys H y Hy Hh Hex. destruct (Forall2_In_r _ _ _ y H Hy) as [x [Hx R]].
  unfold altSx in R. apply orb_true_iff in R. destruct R as [R|R].
  - apply andb_true_iff in R. destruct R as [R _]. apply andb_true_iff in R. destruct R as [R Rx].
    apply negb_true_iff in Rx. exists x. split; [exact Hx|]. split; [exact Rx|right; exact R].
  - apply andb_true_iff in R. destruct R as [_ R]. unfold hidden in R. rewrite Hh, Hex in R. discriminate.
Qed.

Theorem copy_alt : forall t1 t2, copy t1 t2 -> alt F c t1 t2.
Proof.
  induction t1 as [a|xs IH|xs IH|kvs IH|xs|xs] using value_ind'; intros t2 H; inversion H; subst;
    try (apply alt_excl; match goal with K : excluded F _ = true |- _ => rewrite K, ?orb_true_r; reflexivity end).
  - apply alt_atom. assumption.
  - apply alt_list. match goal with K : Forall2 copy _ _ |- _ => revert K end. generalize ys.
    clear H. induction IH as [|x xs Hx Hxs IHxs]; intros ys0 K; inversion K; subst; constructor; [apply Hx; assumption|apply IHxs; assumption].
  - apply alt_tuple. match goal with K : Forall2 copy _ _ |- _ => revert K end. generalize ys.
    clear H. induction IH as [|x xs Hx Hxs IHxs]; intros ys0 K; inversion K; subst; constructor; [apply Hx; assumption|apply IHxs; assumption].
  - apply alt_dict.
    + intros k v Hin.
      match goal with K : Forall2 _ (kept c kvs) _ |- _ => destruct (Forall2_In_l _ _ _ (k, v) K Hin) as [[k' v'] [Hin' [R1 R2]]] end.
      cbn [fst snd] in R1, R2. exists k', v'. split; [exact Hin'|]. split; [exact R1|].
      rewrite Forall_forall in IH. apply kept_In in Hin. destruct Hin as [Hin _].
      exact (IH (k, v) Hin v' R2).
    + intros k' Hk'. destruct (keys_of_kept_ex c kvs2 k' Hk') as [v' Hin'].
      match goal with K : Forall2 _ (kept c kvs) _ |- _ => destruct (Forall2_In_r _ _ _ (k', v') K Hin') as [[k v] [Hin [R1 _]]] end.
      cbn [fst] in R1. exists k. split; [exact (kept_key_In c kvs k v Hin)|exact R1].
  - apply alt_set; [apply scover_l|apply scover_r]; assumption.
  - apply alt_frozen; [apply scover_l|apply scover_r]; assumption.
Qed.

(* first clause, for copies *)
Theorem copy_empty_run :
  thr_num c <= thr_den c ->
  (zip c = true \/ (o_excl F = [] /\ forall p xs ys, tiles (ops p xs ys) 0 0 (length xs) (length ys) = true)) ->
  forall t1 t2, copy t1 t2 -> guard F c t1 = true -> guard F c t2 = true ->
  run_optF udiff ops c F t1 t2 = Ok ([], []).
Proof.
  intros Hthr Hmode t1 t2 H G1 G2. apply alt_empty_run; auto. apply copy_alt. exact H.
Qed.

End Run.
